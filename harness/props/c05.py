"""C05 — LAN datagrams are well-formed and authenticated over exactly what they carry."""
import hashlib
import socket

from ..lib import lean
from ..lib.rng import boundary_int
from ..sim.fakesock import FakeSock
from ..translate import rmcp as T

ID = 'C05'
TARGETS = ['PyIpmi.Props.C05', 'drv_c05']
LEVEL = 'proof'
RULE = ('sent: Rmcp._send_ipmi_msg through a fake socket for every payload length 0..255 x {none, password, MD5} '
        '(+ no session object, activated / not activated), boundary-biased 32-bit session ids and sequence numbers '
        '(0, 1, 0x7fffffff, 0x80000000, 0xfffffffe, 0xffffffff, ...), passwords of 0..16 bytes as bytes and as str '
        '(incl. non-ASCII), plus out-of-domain inputs (payload > 255, ids >= 2^32, password > 16 bytes, '
        'unsupported authentication types) for the model tie only; each datagram is compared byte for byte with '
        'the Lean model and judged by Spec.Lan.sentOk and an independent hashlib pre-image.  received: valid '
        'datagrams built from the IPMI v1.5 packet figure (all auth-type bytes, payload lengths 0..255 sampled), '
        'every truncation, 1..3-byte extensions and 5 alterations of every header byte, both settings of '
        'rmcp_ignore_sdu_length, through Rmcp._receive_ipmi_msg; compared with the model and judged by '
        'Spec.Lan.receive.  ASF: Rmcp.ping() datagram against the ASF figure; presence pongs built from the figure of '
        'ASF 2.0 3.2.4.3 / IPMI v2.0 table 13-6 (never with AsfPong.pack) through _receive_asf_msg(AsfPong) AND through '
        'Rmcp.ping() (the pong echoes the tag of the ping that was really sent): every Supported Interactions byte '
        '0..255, every Supported Entities byte 0..255 (with interactions 00h and 80h), the defined bits combined '
        '(80h, 20h, A0h) x entities {81h, 01h, 80h, 00h} x OEM numbers {4542/0, other/any}, every tag, random '
        'combinations (thorough: all 65 536 entity x interaction pairs); each must be accepted and the AsfPong '
        'object must hold exactly the fields Spec.Lan.parsePong reads; truncations / extensions / byte alterations, '
        'a ping in place of the pong, foreign enterprise numbers.  The pong the library BUILDS: AsfPong().pack() of a '
        'fresh object, with each of tag / OEM number / OEM-defined / entities / interactions at its boundary values, all '
        'of them set, and of an AsfPong that unpacked a figure-built pong first - behind the RMCP header 06 00 FF 06 it '
        'must be parsed by Spec.Lan.parsePong as the presence pong with exactly those fields, be accepted by the '
        'library\'s own AsfPong().unpack with those fields, and a second pack() must repeat it; the answer of '
        'pyipmi.emulation.handle_rmcp_asf_msg to figure-built pings with tags 00h..FEh must be a well-formed pong '
        'carrying the ping\'s tag.  MD5: the Lean RFC 1321 '
        'implementation against hashlib on the RFC test suite and every length 0..130.  Histories: sequences of '
        'sends through ONE Rmcp and ONE Session object with password (set_auth_type_user and direct attribute), '
        'authentication type, session id, sequence number, activated flag and the session object itself (none / '
        'same / new) changed between sends; every datagram is compared with the model and judged by '
        'Spec.Lan.sentOk over the values configured AT THAT MOMENT (directed: password changed to a different / '
        'shorter / longer / prefix password under password and MD5 authentication).  Every received-datagram case '
        'also goes through a long-lived Rmcp object (renewed every 8 datagrams) and a long-lived IpmiMsg, each '
        'datagram judged on its own by Spec.Lan.receive and compared with a fresh IpmiMsg; directed sequences of '
        'valid datagrams with shrinking payloads / alternating authentication types.  Distinct by input; '
        'non-trivial = payload or mutation present.')
ASSUMPTIONS = [
    'model of RmcpMsg/IpmiMsg/AsfMsg (lean/PyIpmi/Model/RmcpWire.lean) is hand-written and tied by this correspondence run; '
    'struct formats, constants, argument orders and the auth-code dispatch are regenerated from the source (Gen/RmcpFormats.lean)',
    'the theorems take the digest function as a parameter; hashlib.md5 is trusted and cross-checked against the Lean RFC 1321 implementation',
    'CPython semantics of struct / array / bytes.ljust / slicing are modelled, not verified',
    '"rejected" means any exception (short datagrams raise struct.error / IndexError rather than DecodingError)',
    'a well-formed presence pong (Spec.Lan.Pong.WellFormed, from ASF 2.0 3.2.4.3 / IPMI v2.0 table 13-6) has ASF '
    'enterprise number 4542 in the ASF header, type 40h, data length 10h, RMCP sequence FFh, reserved bytes 00h, and an '
    'all-zero OEM-defined field when the data block names enterprise 4542; BOTH capability bytes are free (reserved bits '
    'are ignored on receipt: ASF 2.0 assigned bit 7 of Supported Interactions, DASH bit 5): every such pong must be '
    'accepted; which variant of AsfPong.check_data the tree has (as shipped: interactions byte must be 0) is probed '
    'with the witness of pong_interactions_asShipped_counterexample',
    'the receiver may be MORE lenient than the format without breaking the property: the library accepts a type-40h '
    'message with a foreign enterprise number in the ASF header, non-zero reserved bytes, and does not compare the '
    'message tag of the pong with the ping it sent (every ping has tag 0, the result of ping() is only "somebody '
    'answered"); these are compared with the model only.  A pong that names enterprise 4542 with a non-zero '
    'OEM-defined field is not well-formed, its rejection is not judged',
    'which variant of AsfPong.pack the tree has (as shipped: the 16 data bytes without the 8-byte ASF header) is probed with '
    'the witness of pong_pack_asShipped_counterexample (a fresh AsfPong().pack()); the RMCP header in front of the packed '
    'pong is supplied from the figure (AsfPong does not write it); pyipmi/emulation.py is not modelled in Lean: its answer '
    'to a ping is judged by the Spec parser only, PyYAML (used by its main() only) is replaced by an empty module when it '
    'is not installed, and while the tree has the as-shipped pack the emulator\'s header-less pong is counted as the same '
    'defect (C05:pong-pack:not-asf), not reported a second time',
    'the send model is a function of the session configuration at the moment of sending (Sess: auth type, session id, '
    'sequence number, activated, password); histories on one real Session / Rmcp object are compared send by send '
    'with the model applied to the configuration the caller put last',
]
TRUSTED = ['harness/translate/rmcp.py', 'harness/sim/fakesock.py', 'harness/props/c05.py']

_facts = None

BOUNDARY32 = [0, 1, 2, 0xff, 0x100, 0x7fffffff, 0x80000000, 0x01020304, 0xfffffffe, 0xffffffff]


def translate(ctx):
    global _facts
    _facts = T.generate()


# ----------------------------------------------------------------- real-code plumbing
def _tag(e):
    n = type(e).__name__
    if n in ('DecodingError', 'EncodingError', 'NotSupportedError', 'RetryError'):
        return n
    return 'py:' + n


def _rmcp(ignore=False):
    from pyipmi.interfaces import rmcp
    r = rmcp.Rmcp(keep_alive_interval=0, quirks_cfg={'rmcp_ignore_sdu_length': bool(ignore)})
    r._sock = FakeSock()
    r.host, r.port = '192.0.2.1', 623
    return r


def _session(auth, sid, seq, activated, pw):
    from pyipmi.session import Session
    s = Session()
    s.set_auth_type_user('user', pw)
    s.auth_type = auth
    s.sid = sid
    s.sequence_number = seq
    s.activated = bool(activated)
    return s


def _pw_bytes(pw):
    return pw.encode() if isinstance(pw, str) else bytes(pw)


def real_send(case):
    """Run Rmcp._send_ipmi_msg; returns (tag-or-'ok', datagram-or-None, sequence number afterwards)."""
    r = _rmcp()
    pw = case['pw']
    pw = bytes.fromhex(pw['hex']) if pw['kind'] == 'bytes' else pw['text']
    sess = None
    if case['sess']:
        sess = _session(case['auth'], case['sid'], case['seq'], case['act'], pw)
    r._session = sess
    rs = r.seq_number
    try:
        r._send_ipmi_msg(bytes.fromhex(case['sdu']))
        out = 'ok'
    except Exception as e:  # noqa
        out = _tag(e)
    after = sess.sequence_number if sess is not None else 0
    dg = r._sock.sent[-1] if (out == 'ok' and r._sock.sent) else None
    return out, dg, after, rs


def real_recv(ignore, dgram):
    r = _rmcp(ignore)
    r._sock.push(dgram)
    try:
        d = r._receive_ipmi_msg(r.ignore_sdu_length)
    except Exception as e:  # noqa
        return _tag(e), None
    if d is None:
        return 'ok', None
    return 'ok', bytes(bytearray(d))


def _pong_attrs(msg):
    return 'ok %d %d %d %d %d %d %d' % (msg.iana_enterprise_number, msg.asf_type, msg.tag, msg.oem_iana_enterprise_number,
                                         msg.oem_defined, msg.supported_entities, msg.supported_interactions)


def real_pong(dgram):
    """Rmcp._receive_asf_msg(AsfPong) on the datagram: 'ok <attributes of the AsfPong object>' or the exception"""
    from pyipmi.interfaces import rmcp
    r = _rmcp()
    r._sock.push(dgram)
    try:
        msg = r._receive_asf_msg(rmcp.AsfPong)
    except Exception as e:  # noqa
        return _tag(e)
    return _pong_attrs(msg)


def real_ping(pong):
    """Rmcp.ping(); `pong`: the datagram that answers, or a function of the ping that was sent (a responder that
    echoes its message tag, as a managed device does)."""
    r = _rmcp()
    rs = r.seq_number
    if callable(pong):
        r._sock.responder = lambda dg: [pong(dg)]
    else:
        r._sock.push(pong)
    try:
        r.ping()
        out = 'ok'
    except Exception as e:  # noqa
        out = _tag(e)
    return out, (r._sock.sent[0] if r._sock.sent else None), rs


# ----------------------------------------------------------------- the packet figure, in Python
def le32(v):
    return bytes([(v >> (8 * i)) & 0xff for i in range(4)])


def pad16(pw):
    return pw + b'\x00' * (16 - len(pw))


def next_seq(s):
    return 1 if s == 0xffffffff else s + 1


def lan_datagram(auth, seq, sid, code, payload, length=None, ver=6, rsvd=0, rseq=0xff, cls=7):
    """IPMI v1.5 LAN packet from the specification's figure (never the library's helpers)."""
    d = bytes([ver, rsvd, rseq, cls, auth]) + le32(seq) + le32(sid)
    if auth != 0:
        d += bytes(code)
    d += bytes([len(payload) if length is None else length]) + bytes(payload)
    return d


def expected_code(auth, pw, sid, seq, payload):
    if auth == 0:
        return None
    if auth == 4:
        return pad16(pw)
    if auth == 2:
        return hashlib.md5(pad16(pw) + le32(sid) + payload + le32(seq) + pad16(pw)).digest()
    raise ValueError(auth)


def pong_datagram(tag, oem_iana, oem_defined, entities, interactions, iana=4542, typ=0x40, dlen=16,
                  ver=6, cls=6):
    return bytes([ver, 0, 0xff, cls]) + iana.to_bytes(4, 'big') + bytes([typ, tag, 0, dlen]) + \
        oem_iana.to_bytes(4, 'big') + oem_defined.to_bytes(4, 'big') + bytes([entities, interactions]) + bytes(6)


# ----------------------------------------------------------------- judgements
def _probe_empty_variant():
    """Which model variant of `_receive_ipmi_msg` the tree has: 's' as shipped (a datagram
    without payload raises TypeError in the debug line) or 'i' intended."""
    out, d = real_recv(False, lan_datagram(0, 0, 0, None, b''))
    return 's' if out == 'py:TypeError' else 'i'


def judge_send(ctx, drv, case, model=None, verbose=False, obs=None, report=None):
    """`obs`: (outcome, datagram, sequence number afterwards, rmcp seq) observed on a long-lived object for the
    configuration `case` (None: run it on fresh objects); `report`: the case to report (the history)"""
    out, dg, after, rs = obs if obs is not None else real_send(case)
    single, case = case, (report if report is not None else case)
    # a violation that fresh objects with the same configuration do not show is a different defect
    def used():
        return ':on-used-session' if obs is not None and real_send(single)[:3] != (out, dg, after) else ''
    pwb = _pw_bytes(bytes.fromhex(single['pw']['hex']) if single['pw']['kind'] == 'bytes' else single['pw']['text'])
    sdu = bytes.fromhex(single['sdu'])
    auth, sid, seq = (single['auth'], single['sid'], single['seq']) if single['sess'] else (0, 0, 0)
    if not single['sess']:
        pwb = b''
    code_s = ('ok %s %d' % (lean.hexs(dg), after)) if out == 'ok' else '%s %d' % (out, after)
    if verbose:
        print('  real: %s' % code_s)
    if model is not None and model != code_s:
        ctx.disagree('send', case, model, code_s)
    in_domain = len(sdu) <= 255 and sid < 2 ** 32 and seq < 2 ** 32 and len(pwb) <= 16 and auth in (0, 2, 4)
    ctx.count('send:' + ('in-domain' if in_domain else 'out-of-domain'))
    ctx.count('send:outcome:' + out)
    if not in_domain:
        return
    seq_exp = next_seq(seq) if (single['sess'] and single['act']) else seq
    if out != 'ok':
        ctx.violate('C05:sent:raises:%s%s' % (out, used()), 'sending a %d-byte payload with authentication type %d raises %s'
                    % (len(sdu), auth, out), case, expected='a datagram', observed=out)
        return
    exp = lan_datagram(auth, seq_exp, sid, expected_code(auth, pwb, sid, seq_exp, sdu), sdu, rseq=dg[2] if len(dg) > 2 else 0xff)
    lean_ok = drv.ask('judge %d %d %d %s %s %s' % (auth, sid, seq_exp, lean.hexs(pwb), lean.hexs(sdu), lean.hexs(dg)))
    py_ok = (dg == exp)
    if verbose:
        print('  spec: %s' % lean.hexs(exp))
        print('  Spec.Lan.sentOk: %s' % lean_ok)
    if (lean_ok == '1') != py_ok:
        ctx.disagree('oracle-send', case, 'Spec.Lan.sentOk=%s' % lean_ok, 'python figure says %s' % py_ok)
    if lean_ok == '1' and py_ok:
        if after != seq_exp:
            ctx.violate('C05:sent:sequence-state' + used(), 'session sequence number after sending is %d, datagram carries %d'
                        % (after, seq_exp), case, expected=seq_exp, observed=after)
        return
    # which clause
    p = drv.ask('parse ' + lean.hexs(dg)).split()
    what, sig = 'datagram differs from the IPMI v1.5 packet figure', 'layout'
    if p == ['none']:
        what, sig = 'datagram too short for RMCP + session header', 'short'
    else:
        ver, rsvd, rseq, cls, a, sq, si, code, ln, payload = p
        if int(ver) != 6 or int(cls) != 7:
            what, sig = 'RMCP header is not version 6 / class IPMI', 'rmcp-header'
        elif int(a) != auth:
            what, sig = 'authentication type byte %s, session uses %d' % (a, auth), 'auth-type'
        elif int(si) != sid:
            what, sig = 'session id in the header reads %s little-endian, session id is %d' % (si, sid), 'session-id'
        elif int(sq) != seq_exp:
            what, sig = ('sequence number in the header reads %s little-endian, expected %d (after the increment)'
                         % (sq, seq_exp)), 'sequence-number'
        elif (code == 'none') != (auth == 0):
            what, sig = 'authentication code presence does not match the authentication type', 'auth-code-presence'
        elif auth != 0 and lean.unhex(code) != expected_code(auth, pwb, sid, seq_exp, sdu):
            if auth == 2:
                what = ('MD5 code is not MD5(password, session id, payload, sequence number, password) over the '
                        'values present in the same datagram')
                sig = 'auth-code-md5'
            else:
                what, sig = 'password code is not the zero-padded password', 'auth-code-password'
        elif int(ln) != len(sdu):
            what, sig = 'length byte %s, payload has %d bytes' % (ln, len(sdu)), 'length-byte'
        elif lean.unhex(payload) != sdu:
            what, sig = 'payload changed', 'payload'
    u = used()
    ctx.violate('C05:sent:' + sig + u, what + (' (on a session object that sent other datagrams before)' if u else ''), case,
                expected=lean.hexs(exp), observed=lean.hexs(dg))


def judge_recv(ctx, drv, case, variant, model=None, verbose=False, obs=None, report=None):
    dgram = bytes.fromhex(case['dgram']) if case['dgram'] != '-' else b''
    ignore = bool(case['ignore'])
    out, data = obs if obs is not None else real_recv(ignore, dgram)
    if report is not None:
        case = report

    def used():
        return ':on-used-interface' if report is not None and real_recv(ignore, dgram) != (out, data) else ''
    code_s = out if out != 'ok' else 'ok ' + ('none' if data is None else lean.hexs(data))
    if verbose:
        print('  real: %s' % code_s)
    if model is not None and model != code_s:
        ctx.disagree('recv', case, model, code_s)
    spec = drv.ask('specrecv %d %s' % (1 if ignore else 0, lean.hexs(dgram)))
    if verbose:
        print('  Spec.Lan.receive: %s' % spec)
    ctx.count('recv:outcome:' + out)
    ctx.count('recv:spec:' + spec.split()[0])
    if spec.startswith('some'):
        want = lean.unhex(spec.split()[1])
        if out != 'ok':
            if len(want) == 0:
                ctx.violate('C05:receive:empty-payload' + used(), 'a valid datagram whose payload is empty is not unwrapped: '
                            '_receive_ipmi_msg raises %s' % (out[3:] if out.startswith('py:') else out), case,
                            expected='payload of 0 bytes', observed=out)
            else:
                ctx.violate('C05:receive:rejects-valid:%s%s' % (out, used()), 'a valid datagram is rejected with %s' % out, case,
                            expected=lean.hexs(want), observed=out)
        elif (data or b'') != want:
            ctx.violate('C05:receive:payload' + used(), 'the unwrapped payload differs from the datagram\'s payload', case,
                        expected=lean.hexs(want), observed=lean.hexs(data or b''))
    else:
        if out == 'ok':
            p = drv.ask('parse ' + lean.hexs(dgram)).split()
            why = 'short'
            if p != ['none']:
                why = 'version' if int(p[0]) != 6 else 'class' if int(p[3]) != 7 else 'length'
            ctx.violate('C05:receive:accepts-bad-%s%s' % (why, used()), 'a datagram with a wrong %s is accepted' % why, case,
                        expected='rejected', observed=code_s)


PLAIN_PONG = (0, 4542, 0, 0x81, 0)
# the witness of Props.C05.pong_interactions_asShipped_counterexample: IPMI, ASF 1.0, RMCP security extensions
SECEXT_PONG = (0, 4542, 0, 0x81, 0x80)


def _probe_pong_variant():
    """Which variant of `AsfPong.check_data` the tree has: 's' as shipped (a pong whose Supported Interactions
    byte is not 0 is refused) or 'i' intended."""
    return 's' if real_pong(pong_datagram(*SECEXT_PONG)) == 'DecodingError' else 'i'


def _why_rejected(p):
    """a specific signature suffix: the field whose value makes the tree refuse the well-formed pong `p`"""
    tag, oi, od, en, ia = p
    def ok(q):
        return real_pong(pong_datagram(*q)).startswith('ok')
    if ia != 0 and ok((tag, oi, od, en, 0)):
        return ':supported-interactions', 'Supported Interactions byte %02xh' % ia
    if en != 0x81 and ok((tag, oi, od, 0x81, ia)):
        return ':supported-entities', 'Supported Entities byte %02xh' % en
    if tag != 0 and ok((0, oi, od, en, ia)):
        return ':message-tag', 'message tag %02xh' % tag
    if (oi, od) != (4542, 0) and ok((tag, 4542, 0, en, ia)):
        return ':oem-fields', 'OEM enterprise number %d / OEM-defined %08xh' % (oi, od)
    return '', None


def _spec_pong(ctx, drv, dgram, case):
    """Spec.Lan.parsePong: the fields of the well-formed pong `dgram` is, or None; cross-checked with the figure in
    Python"""
    sp = drv.ask('specpong ' + lean.hexs(dgram)).split()
    p = tuple(int(x) for x in sp[1:]) if sp[0] == 'some' else None
    py = None
    if len(dgram) == 28:
        q = (dgram[9], int.from_bytes(dgram[12:16], 'big'), int.from_bytes(dgram[16:20], 'big'), dgram[20], dgram[21])
        if dgram == pong_datagram(*q) and not (q[1] == 4542 and q[2] != 0):
            py = q
    if p != py:
        ctx.disagree('oracle-pong', case, 'Spec.Lan.parsePong=%s' % (p,), 'python figure says %s' % (py,))
        return None
    return p


def judge_pong(ctx, drv, case, variant, model=None, verbose=False):
    dgram = bytes.fromhex(case['dgram']) if case['dgram'] != '-' else b''
    out = real_pong(dgram)
    if verbose:
        print('  real: %s' % out)
    if model is not None and model != out:
        ctx.disagree('pong', case, model, out)
    fmt = drv.ask('ispong ' + lean.hexs(dgram))
    ctx.count('pong:outcome:' + out.split()[0])
    if fmt != '1':
        if out.startswith('ok'):
            ctx.violate('C05:asf:accepts-non-pong', 'a datagram that is not a presence pong is accepted as one', case,
                        expected='rejected', observed='accepted')
        return
    p = _spec_pong(ctx, drv, dgram, case)
    if verbose:
        print('  Spec.Lan.parsePong: %s' % (p,))
    if p is None:
        # has the outline of a pong but not every field as the format prescribes (foreign enterprise number in the
        # ASF header, reserved bytes, RMCP sequence byte, 4542 with an OEM-defined value): not judged
        ctx.count('pong:format-only')
        return
    ctx.count('pong:wellformed')
    ctx.count('pong:wellformed:interactions:' + ('00' if p[4] == 0 else 'defined-bits' if p[4] in (0x80, 0x20, 0xa0) else 'other'))
    ctx.count('pong:wellformed:entities:' + ('81' if p[3] == 0x81 else 'other'))
    want = 'ok 4542 64 %d %d %d %d %d' % p
    if not out.startswith('ok'):
        suffix, which = _why_rejected(p)
        ctx.violate('C05:asf:rejects-pong' + suffix, 'a well-formed presence pong is rejected with %s%s'
                    % (out, ' because of its %s' % which if which else ''), case,
                    expected='accepted: ' + want[3:], observed=out)
    elif out != want:
        ctx.violate('C05:asf:pong-fields', 'the AsfPong object does not hold the fields of the pong it unpacked '
                    '(enterprise number, type, tag, OEM number, OEM-defined, entities, interactions)', case,
                    expected=want[3:], observed=out[3:])


def judge_ping(ctx, drv, case, variant, model=None, verbose=False):
    """Rmcp.ping() answered by a well-formed pong that echoes the tag of the ping really sent"""
    p = tuple(case.get('pong', PLAIN_PONG)[1:])

    def answer(dg):
        return pong_datagram(dg[9] if len(dg) > 9 else 0, *p)
    out, sent, rs = real_ping(answer)
    code_s = out if sent is None else 'ok ' + lean.hexs(sent)
    if verbose:
        print('  real: sent %s, ping() -> %s' % (code_s, out))
    if model is not None and model != code_s:
        ctx.disagree('ping', case, model, code_s)
    tag = sent[9] if (sent is not None and len(sent) > 9 and sent[9] != 0xff) else 0
    want = lean.unhex(drv.ask('specping %d %d' % (rs, tag)))
    py = bytes([6, 0, rs, 6, 0, 0, 0x11, 0xbe, 0x80, tag, 0, 0])
    if want != py:
        ctx.disagree('oracle-ping', case, lean.hexs(want), lean.hexs(py))
    if sent != want:
        ctx.violate('C05:asf:ping-format', 'the presence ping does not follow the ASF format',
                    case, expected=lean.hexs(want), observed=code_s)
        return
    pong = answer(sent)
    m = drv.ask('pong %s %s' % (variant, lean.hexs(pong))).split()[0]
    if m != out:
        ctx.disagree('ping-pong', case, m, out)
    q = _spec_pong(ctx, drv, pong, case)
    if verbose:
        print('  pong: %s' % lean.hexs(pong))
        print('  Spec.Lan.parsePong: %s' % (q,))
    ctx.count('ping:outcome:' + out)
    if q is not None and out != 'ok':
        suffix, which = _why_rejected(q)
        ctx.violate('C05:asf:rejects-pong' + suffix, 'Rmcp.ping() - the first step of establish_session - fails with %s on a '
                    'well-formed presence pong%s' % (out, ' because of its %s' % which if which else ''), case,
                    expected='ping() returns', observed=out)


# ----------------------------------------------------------------- the pong the library BUILDS
PONG_ATTRS = ('tag', 'oem_iana_enterprise_number', 'oem_defined', 'supported_entities', 'supported_interactions')
PONG_DEFAULTS = (0, 4542, 0, 0, 0)


def real_pong_pack(case):
    """AsfPong().pack() - a fresh object, the attributes named in case['set'] assigned first; or (case['unpack'])
    an AsfPong that unpacked the figure-built pong first.  -> ('ok', bytes, outcome of the library's own
    AsfPong().unpack on them, second pack() of the same object) or (exception, None, None, None)"""
    from pyipmi.interfaces import rmcp
    msg = rmcp.AsfPong()
    try:
        if case.get('unpack'):
            msg.unpack(bytes.fromhex(case['unpack']))
        for k, v in case.get('set', {}).items():
            setattr(msg, k, v)
        out = msg.pack()
        again = msg.pack()
    except Exception as e:  # noqa
        return _tag(e), None, None, None
    out = bytes(bytearray(out))
    m2 = rmcp.AsfPong()
    try:
        m2.unpack(out)
        own = _pong_attrs(m2)
    except Exception as e:  # noqa
        own = _tag(e)
    return 'ok', out, own, bytes(bytearray(again))


def _probe_pong_pack_variant():
    """Which variant of `AsfPong.pack` the tree has: 's' as shipped (the 16 data bytes without the ASF header) or
    'i' intended (ASF header + data); the witness of Props.C05.pong_pack_asShipped_counterexample"""
    o, b, _, _ = real_pong_pack({'op': 'pong-pack', 'set': {}})
    return 's' if (o == 'ok' and len(b) == 16) else 'i'


def _pong_pack_fields(case):
    f = list(PONG_DEFAULTS)
    if case.get('unpack'):
        d = bytes.fromhex(case['unpack'])
        f = [d[5], int.from_bytes(d[8:12], 'big'), int.from_bytes(d[12:16], 'big'), d[16], d[17]]
    for i, k in enumerate(PONG_ATTRS):
        if k in case.get('set', {}):
            f[i] = case['set'][k]
    return tuple(f)


def judge_pong_pack(ctx, drv, case, variant, model=None, verbose=False):
    """The presence pong the library builds (what pyipmi/emulation.py puts behind an RMCP header of class ASF):
    judged by the ASF parser of the specification and by the library's own unpack"""
    o, sdu, own, again = real_pong_pack(case)
    f = _pong_pack_fields(case)
    code_s = o if o != 'ok' else 'ok ' + lean.hexs(sdu)
    if verbose:
        print('  real: AsfPong.pack() -> %s' % code_s)
        print('  AsfPong().unpack(of that) -> %s' % own)
    if model is not None and model != code_s:
        ctx.disagree('pong-pack', case, model, code_s)
    wf = f[0] < 256 and f[1] < 2 ** 32 and f[2] < 2 ** 32 and f[3] < 256 and f[4] < 256 and not (f[1] == 4542 and f[2] != 0) \
        and min(f) >= 0
    ctx.count('pong-pack:' + ('wellformed' if wf else 'out-of-domain'))
    ctx.count('pong-pack:outcome:' + o)
    if not wf:
        return                                              # model tie only
    want = pong_datagram(*f)
    lw = lean.unhex(drv.ask('mkpong %d %d %d %d %d' % f))
    if lw != want:
        ctx.disagree('oracle-pong-datagram', case, lean.hexs(lw), lean.hexs(want))
    if verbose:
        print('  Spec.Lan.pongDatagram (after the RMCP header 06 00 ff 06): %s' % lean.hexs(want[4:]))
    if o != 'ok':
        ctx.violate('C05:pong-pack:raises:' + o, 'AsfPong.pack() raises %s for a pong whose fields all fit' % o, case,
                    expected=lean.hexs(want[4:]), observed=o)
        return
    dgram = want[:4] + sdu                                  # the RMCP header is not AsfPong's business
    p = _spec_pong(ctx, drv, dgram, case) if drv.ask('ispong ' + lean.hexs(dgram)) == '1' else None
    if verbose:
        print('  Spec.Lan.parsePong: %s' % (p,))
    if p is None:
        ctx.violate('C05:pong-pack:not-asf', 'the message AsfPong.pack() builds is not an ASF presence pong: %d bytes, '
                    'the format has 8 header bytes (enterprise number 4542, type 40h, tag, reserved, length 10h) and 16 data '
                    'bytes; the library\'s own AsfPong().unpack() of it: %s' % (len(sdu), own.split()[0]), case,
                    expected=lean.hexs(want[4:]), observed=lean.hexs(sdu))
        return
    if p != f:
        ctx.violate('C05:pong-pack:fields', 'the pong AsfPong.pack() builds does not carry the fields of the object '
                    '(tag, OEM number, OEM-defined, entities, interactions)', case, expected=str(f), observed=str(p))
        return
    if own != 'ok 4542 64 %d %d %d %d %d' % f:
        ctx.violate('C05:pong-pack:own-unpack', 'AsfPong().unpack() does not return the fields of the pong AsfPong.pack() built',
                    case, expected='4542 64 %d %d %d %d %d' % f, observed=own)
    elif again != sdu:
        ctx.violate('C05:pong-pack:second-pack', 'a second pack() of the same AsfPong object gives other bytes', case,
                    expected=lean.hexs(sdu), observed=lean.hexs(again))


def _pong_pack_cases(rng, tier):
    out = [{'op': 'pong-pack', 'kind': 'fresh', 'set': {}}]
    B8 = (0, 1, 0x7f, 0x80, 0x81, 0xfe, 0xff)
    B32 = (0, 1, 343, 4542, 0x7fffffff, 0x80000000, 0xffffffff)
    for i, k in enumerate(PONG_ATTRS):                      # one attribute at its boundary values
        for v in (B32 if i in (1, 2) else B8):
            out.append({'op': 'pong-pack', 'kind': 'one-attribute', 'set': {k: v}})
    for v in B32:                                           # OEM-defined capabilities of an OEM
        out.append({'op': 'pong-pack', 'kind': 'oem', 'set': {PONG_ATTRS[1]: 343, PONG_ATTRS[2]: v}})
    for _ in range(60 if tier == 'quick' else 1500):        # all attributes
        oi = rng.choice((4542, 343, 0, 0xffffffff, rng.randrange(2 ** 32)))
        od = 0 if oi == 4542 else rng.choice((0, 1, 0xffffffff, rng.randrange(2 ** 32)))
        f = (rng.choice(B8 + (rng.randrange(256),)), oi, od, rng.choice(B8 + (rng.randrange(256),)),
             rng.choice(B8 + (0x20, 0xa0, rng.randrange(256))))
        out.append({'op': 'pong-pack', 'kind': 'all-attributes', 'set': dict(zip(PONG_ATTRS, f))})
    for _ in range(30 if tier == 'quick' else 600):         # re-encoding a pong that was unpacked
        oi = rng.choice((4542, 343, rng.randrange(2 ** 32)))
        od = 0 if oi == 4542 else rng.choice((0, rng.randrange(2 ** 32)))
        # the interactions byte stays 0: which other values unpack() takes is the other variant flag
        d = pong_datagram(rng.choice(B8), oi, od, rng.choice(B8 + (rng.randrange(256),)), 0)
        c = {'op': 'pong-pack', 'kind': 'after-unpack', 'unpack': lean.hexs(d[4:]), 'set': {}}
        if rng.random() < 0.5:
            c['set'] = {PONG_ATTRS[0]: rng.choice(B8), PONG_ATTRS[3]: rng.choice(B8)}
        out.append(c)
    # out of domain (model tie only): a field that does not fit, enterprise 4542 with OEM-defined capabilities
    for k, v in ((PONG_ATTRS[0], 256), (PONG_ATTRS[1], 2 ** 32), (PONG_ATTRS[2], 2 ** 32), (PONG_ATTRS[3], 256),
                 (PONG_ATTRS[4], 256), (PONG_ATTRS[2], 5)):
        out.append({'op': 'pong-pack', 'kind': 'out-of-domain', 'set': {k: v}})
    return out


def _pong_pack_line(case, variant):
    return 'pongpack %s %d %d %d %d %d' % ((variant,) + _pong_pack_fields(case))


def real_emulator_pong(tag):
    """pyipmi.emulation.handle_rmcp_asf_msg on the figure's presence ping with message tag `tag`: what the BMC
    emulator shipped with the library hands to sendto behind the RMCP header.  ('unavailable', reason) when the module
    cannot be imported (PyYAML, which only its main() uses, is replaced by an empty module when it is not installed)."""
    import sys
    import types
    try:
        if 'yaml' not in sys.modules:
            try:
                import yaml  # noqa
            except ImportError:
                sys.modules['yaml'] = types.ModuleType('yaml')
        from pyipmi import emulation
        fn = emulation.handle_rmcp_asf_msg
    except Exception as e:  # noqa
        return 'unavailable', _tag(e)
    try:
        out = fn(None, bytes([0, 0, 0x11, 0xbe, 0x80, tag, 0, 0]))
    except Exception as e:  # noqa
        return _tag(e), None
    return 'ok', bytes(bytearray(out))


def judge_emulator_pong(ctx, drv, case, variant, verbose=False):
    """the answer of the library's own BMC emulator to a presence ping: a well-formed pong carrying the ping's tag"""
    tag = case['tag']
    o, sdu = real_emulator_pong(tag)
    if verbose:
        print('  real: handle_rmcp_asf_msg(ping with tag %02xh) -> %s %s' % (tag, o, lean.hexs(sdu) if isinstance(sdu, bytes) else sdu))
    ctx.count('emulator-pong:outcome:' + o)
    if o == 'unavailable':
        return
    if o != 'ok':
        ctx.violate('C05:emulation:pong:raises:' + o, 'the BMC emulator answers a presence ping with %s' % o, case,
                    expected='a presence pong', observed=o)
        return
    dgram = bytes([6, 0, 0xff, 6]) + sdu
    p = _spec_pong(ctx, drv, dgram, case) if drv.ask('ispong ' + lean.hexs(dgram)) == '1' else None
    if verbose:
        print('  Spec.Lan.parsePong: %s' % (p,))
    if p is None:
        if variant == 's' and real_pong_pack({'set': {}})[1] == sdu:
            ctx.count('emulator-pong:same-defect-as-pong-pack')     # reported as C05:pong-pack:not-asf
            if verbose:
                print('  (the emulator sends AsfPong().pack() as it is: C05:pong-pack:not-asf)')
            return
        ctx.violate('C05:emulation:pong:not-asf', 'what the BMC emulator answers to a presence ping is not an ASF presence '
                    'pong', case, expected=lean.hexs(pong_datagram(tag, 4542, 0, 0, 0)[4:]) + ' (capability bytes free)',
                    observed=lean.hexs(sdu))
    elif p[0] != tag:
        ctx.violate('C05:emulation:pong:tag', 'the pong of the BMC emulator carries message tag %02xh, the ping it answers '
                    'has %02xh (ASF 2.0 3.2.4.3: the tag is copied from the ping)' % (p[0], tag), case,
                    expected='tag %d' % tag, observed='tag %d' % p[0])


# ----------------------------------------------------------------- generators
def _pw(rng, n=None, kind=None):
    n = rng.randrange(17) if n is None else n
    kind = kind or rng.choice(['bytes', 'bytes', 'ascii', 'utf8'])
    if kind == 'bytes':
        return {'kind': 'bytes', 'hex': bytes(rng.randrange(256) for _ in range(n)).hex()}
    if kind == 'ascii':
        return {'kind': 'str', 'text': ''.join(chr(rng.randrange(0x20, 0x7f)) for _ in range(n))}
    s = ''
    while True:
        c = rng.choice(['é', 'ß', 'ж', '€', 'a', 'Z', '0', '\x00', '漢'])
        if len((s + c).encode()) > n:
            break
        s += c
    return {'kind': 'str', 'text': s}


def _b32(rng):
    return rng.choice(BOUNDARY32) if rng.random() < 0.5 else boundary_int(rng, 32)


def _send_cases(rng, tier):
    out = []
    reps = 1 if tier == 'quick' else 6
    for _ in range(reps):
        for n in range(256):
            for auth in (0, 4, 2):
                sdu = bytes(rng.randrange(256) for _ in range(n))
                out.append({'op': 'send', 'sess': 1, 'auth': auth, 'sid': _b32(rng), 'seq': _b32(rng),
                            'act': 1 if rng.random() < 0.75 else 0, 'pw': _pw(rng), 'sdu': sdu.hex()})
    # every boundary sid x seq under MD5, activated (the pre-image clause)
    for sid in BOUNDARY32:
        for seq in BOUNDARY32:
            sdu = bytes(rng.randrange(256) for _ in range(rng.randrange(1, 40)))
            out.append({'op': 'send', 'sess': 1, 'auth': 2, 'sid': sid, 'seq': seq, 'act': 1,
                        'pw': _pw(rng), 'sdu': sdu.hex()})
    # every password length, each kind
    for n in range(17):
        for kind in ('bytes', 'ascii', 'utf8'):
            for auth in (4, 2):
                sdu = bytes(rng.randrange(256) for _ in range(rng.randrange(0, 24)))
                out.append({'op': 'send', 'sess': 1, 'auth': auth, 'sid': _b32(rng), 'seq': _b32(rng), 'act': 1,
                            'pw': _pw(rng, n, kind), 'sdu': sdu.hex()})
    # no session object
    for n in (0, 1, 7, 8, 127, 128, 255):
        out.append({'op': 'send', 'sess': 0, 'auth': 0, 'sid': 0, 'seq': 0, 'act': 0,
                    'pw': {'kind': 'bytes', 'hex': ''}, 'sdu': bytes(rng.randrange(256) for _ in range(n)).hex()})
    # out of domain (model tie only)
    for n in (256, 257, 300):
        for auth in (0, 2, 4, 1):
            out.append({'op': 'send', 'sess': 1, 'auth': auth, 'sid': 1, 'seq': 1, 'act': 1, 'pw': _pw(rng),
                        'sdu': bytes(rng.randrange(256) for _ in range(n)).hex()})
    for auth in (1, 3, 5, 6, 255, 256):
        out.append({'op': 'send', 'sess': 1, 'auth': auth, 'sid': _b32(rng), 'seq': _b32(rng), 'act': 1,
                    'pw': _pw(rng), 'sdu': '2018c8810c3a'})
    for sid, seq in ((2 ** 32, 1), (1, 2 ** 32), (2 ** 40 + 5, 2 ** 33)):
        for auth in (0, 2, 4):
            out.append({'op': 'send', 'sess': 1, 'auth': auth, 'sid': sid, 'seq': seq, 'act': 0, 'pw': _pw(rng),
                        'sdu': '0102'})
    for n in (17, 18, 20, 33):
        for auth in (4, 2):
            out.append({'op': 'send', 'sess': 1, 'auth': auth, 'sid': 5, 'seq': 6, 'act': 1,
                        'pw': _pw(rng, n, 'bytes'), 'sdu': '0102'})
    return out


def _valid_rx(rng, tier):
    lens = [0, 1, 2, 7, 8, 22, 127, 128, 254, 255]
    lens += [rng.randrange(256) for _ in range(6 if tier == 'quick' else 60)]
    out = []
    for i, n in enumerate(lens):
        auth = [0, 4, 2, 0, 1, 5, 0, 2, 0x84, 3][i % 10]
        payload = bytes(rng.randrange(256) for _ in range(n))
        code = bytes(rng.randrange(256) for _ in range(16))
        out.append((auth, lan_datagram(auth, _b32(rng), _b32(rng), code, payload, rseq=rng.choice([0xff, 0, 7]))))
    return out


def _mutations(rng, auth, d, tier):
    hl = 4 + (10 if auth == 0 else 26)
    out = [('valid', d)]
    trunc = range(len(d)) if (tier == 'thorough' or len(d) <= 80) else \
        list(range(hl + 2)) + sorted(rng.sample(range(hl + 2, len(d)), 12)) + [len(d) - 1]
    for k in trunc:
        out.append(('truncation', d[:k]))
    for ext in (1, 2, 3):
        out.append(('extension', d + bytes(rng.randrange(256) for _ in range(ext))))
    for pos in range(min(hl, len(d))):
        for v in set([(d[pos] + 1) & 0xff, d[pos] ^ 0x80, 0, 0xff, rng.randrange(256)]):
            if v != d[pos]:
                out.append(('alter@%d' % pos, d[:pos] + bytes([v]) + d[pos + 1:]))
    return out


def _wellformed_pongs(rng, tier):
    """(tag, OEM enterprise number, OEM-defined, supported entities, supported interactions) of well-formed pongs"""
    out = []
    for ia in range(256):                                   # every Supported Interactions byte
        out.append((0, 4542, 0, 0x81, ia))
    for en in range(256):                                   # every Supported Entities byte
        out.append((0, 4542, 0, en, 0))
        out.append((0, 4542, 0, en, 0x80))
    for ia in (0x80, 0x20, 0xa0, 0x00):                     # the bits ASF 2.0 / DASH define, combined
        for en in (0x81, 0x01, 0x80, 0x00):
            for oi, od in ((4542, 0), (343, 0), (343, 0xdeadbeef), (0, 0), (0xffffffff, 0xffffffff),
                           (rng.randrange(2 ** 32), rng.randrange(2 ** 32))):
                if oi != 4542 or od == 0:
                    out.append((rng.choice((0, 0, 1, 0xfe, 0xff, rng.randrange(256))), oi, od, en, ia))
    for tag in range(256):                                  # every message tag
        out.append((tag, 4542, 0, 0x81, rng.choice((0, 0x80))))
    if tier == 'thorough':
        for en in range(256):
            for ia in range(256):
                out.append((0, 4542, 0, en, ia))
    for _ in range(300 if tier == 'quick' else 5000):
        oi = rng.choice((4542, 343, rng.randrange(2 ** 32)))
        od = 0 if oi == 4542 else rng.choice((0, 1, rng.randrange(2 ** 32)))
        out.append((rng.randrange(256), oi, od, rng.randrange(256), rng.randrange(256)))
    seen, uniq = set(), []
    for p in out:
        if p not in seen:
            seen.add(p)
            uniq.append(p)
    return uniq


def _ping_cases(rng, tier):
    out = [PLAIN_PONG, SECEXT_PONG]
    for ia in range(256):
        out.append((0, 4542, 0, 0x81, ia))
    for en in range(0, 256, 1 if tier == 'thorough' else 5):
        out.append((0, 4542, 0, en, rng.choice((0, 0x80, 0x20, 0xa0))))
    for _ in range(20 if tier == 'quick' else 400):
        out.append((0, rng.choice((343, rng.randrange(2 ** 32))), rng.randrange(2 ** 32), rng.randrange(256), rng.randrange(256)))
    seen, uniq = set(), []
    for p in out:
        if p not in seen:
            seen.add(p)
            uniq.append(p)
    return uniq


def _pong_cases(rng, tier):
    out = [('wellformed', pong_datagram(*p)) for p in _wellformed_pongs(rng, tier)]
    for i in range(12 if tier == 'quick' else 120):
        oem_iana = rng.choice([4542, 0, 343, rng.randrange(2 ** 32)])
        oem_def = rng.choice([0, 0, 1, rng.randrange(2 ** 32)])
        inter = rng.choice([0, 0, 0, 0x80, 1, rng.randrange(256)])
        d = pong_datagram(rng.randrange(256), oem_iana, oem_def, rng.choice([0x81, 0x01, 0, rng.randrange(256)]), inter,
                          iana=4542 if i % 5 else rng.randrange(2 ** 32))
        out.append(('valid', d))
        if i < (4 if tier == 'quick' else 20):
            for k in range(len(d)):
                out.append(('truncation', d[:k]))
            for ext in (1, 2, 3):
                out.append(('extension', d + bytes(rng.randrange(256) for _ in range(ext))))
            for pos in range(len(d)):
                for v in set([(d[pos] + 1) & 0xff, d[pos] ^ 0x80, 0, 0xff]):
                    if v != d[pos]:
                        out.append(('alter@%d' % pos, d[:pos] + bytes([v]) + d[pos + 1:]))
    # the same alterations of a pong that advertises the security extensions
    d = pong_datagram(*SECEXT_PONG)
    for k in range(len(d)):
        out.append(('truncation', d[:k]))
    for pos in range(len(d)):
        for v in set([(d[pos] + 1) & 0xff, d[pos] ^ 0x80, 0, 0xff]):
            if v != d[pos]:
                out.append(('alter@%d' % pos, d[:pos] + bytes([v]) + d[pos + 1:]))
    # not well-formed: enterprise 4542 with an OEM-defined value; foreign enterprise number in the ASF header
    out.append(('oem-4542-defined', pong_datagram(0, 4542, 5, 0x81, 0)))
    out.append(('oem-4542-defined', pong_datagram(0, 4542, 5, 0x81, 0x80)))
    out.append(('foreign-iana', pong_datagram(0, 4542, 0, 0x81, 0, iana=1234)))
    out.append(('foreign-iana', pong_datagram(0, 4542, 0, 0x81, 0x80, iana=1234)))
    # data length byte 0 (pong without data) and an ASF ping in place of the pong
    out.append(('no-data', bytes([6, 0, 0xff, 6, 0, 0, 0x11, 0xbe, 0x40, 0, 0, 0])))
    out.append(('ping', bytes([6, 0, 0xff, 6, 0, 0, 0x11, 0xbe, 0x80, 0, 0, 0])))
    return out


# ----------------------------------------------------------------- histories on long-lived objects
def _pw_py(pw):
    return bytes.fromhex(pw['hex']) if pw['kind'] == 'bytes' else pw['text']


def run_send_history(steps):
    """Execute a history on ONE Rmcp and ONE Session object.  Steps (JSON lists):
      ['creds', user, pw]  session.set_auth_type_user(user, password)   (also selects password authentication)
      ['pw', pw]           session._auth_password = password            (direct attribute change)
      ['auth', a] ['sid', v] ['seq', v] ['act', 0|1]                    direct attribute changes
      ['session', 'none'|'same'|'new']   rmcp._session = None / the session / a new Session configured alike
      ['send', hex]        rmcp._send_ipmi_msg(payload)
    Returns [(configuration at that moment as a single-send case, observation)] per send."""
    from pyipmi.session import Session
    r = _rmcp()
    s = Session()
    r._session = s
    st = {'sess': 1, 'auth': 0, 'sid': 0, 'seq': 0, 'act': 0, 'pw': {'kind': 'bytes', 'hex': ''}}
    out = []
    for op in steps:
        k = op[0]
        if k == 'creds':
            s.set_auth_type_user(op[1], _pw_py(op[2]))
            st['pw'], st['auth'] = op[2], 4
        elif k == 'pw':
            s._auth_password = _pw_py(op[1])
            st['pw'] = op[1]
        elif k == 'auth':
            s.auth_type = op[1]
            st['auth'] = op[1]
        elif k == 'sid':
            s.sid = op[1]
            st['sid'] = op[1]
        elif k == 'seq':
            s.sequence_number = op[1]
            st['seq'] = op[1]
        elif k == 'act':
            s.activated = bool(op[1])
            st['act'] = op[1]
        elif k == 'session':
            if op[1] == 'none':
                r._session, st['sess'] = None, 0
            else:
                if op[1] == 'new':
                    s = _session(st['auth'], st['sid'], st['seq'], st['act'], _pw_py(st['pw']))
                r._session, st['sess'] = s, 1
        elif k == 'send':
            c1 = dict(st, op='send', sdu=op[1])
            rs, n0 = r.seq_number, len(r._sock.sent)
            try:
                r._send_ipmi_msg(bytes.fromhex(op[1]))
                o = 'ok'
            except Exception as e:  # noqa
                o = _tag(e)
            after = s.sequence_number if st['sess'] else 0
            dg = r._sock.sent[-1] if (o == 'ok' and len(r._sock.sent) > n0) else None
            out.append((c1, (o, dg, after, rs)))
            if st['sess'] and st['act']:
                st['seq'] = next_seq(st['seq'])       # what the specification says the next datagram carries
        else:
            raise ValueError(op)
    return out


def _sdu(rng, n=None):
    n = rng.choice((0, 1, 7, 8, 22, rng.randrange(0, 64))) if n is None else n
    return bytes(rng.randrange(256) for _ in range(n)).hex()


def _other_pw(rng, pw):
    """a password related to `pw`: different same length / shorter prefix / longer extension / other kind"""
    b = _pw_bytes(_pw_py(pw))
    r = rng.random()
    if r < 0.25 and b:
        nb = bytes((x + rng.randrange(1, 256)) % 256 for x in b)
    elif r < 0.45 and len(b) > 1:
        nb = b[:rng.randrange(0, len(b))]
    elif r < 0.65 and len(b) < 16:
        nb = b + bytes(rng.randrange(1, 256) for _ in range(rng.randrange(1, 17 - len(b))))
    else:
        return _pw(rng)
    return {'kind': 'bytes', 'hex': nb.hex()}


def _gen_send_history(rng, n_sends, directed=None):
    if directed is not None:
        auth, how, act = directed
        pw1 = _pw(rng, rng.randrange(1, 17))
        steps = [['creds', 'admin', pw1], ['auth', auth], ['sid', _b32(rng)], ['seq', _b32(rng)], ['act', act],
                 ['send', _sdu(rng)]]
        for _ in range(n_sends - 1):
            pw2 = _other_pw(rng, pw1)
            steps += [['creds', 'admin', pw2], ['auth', auth]] if how == 'creds' else [['pw', pw2]]
            steps.append(['send', _sdu(rng)])
            pw1 = pw2
        return steps
    pw = _pw(rng)
    steps = [['creds', rng.choice(('admin', 'user', '')), pw]]
    auth = rng.choice((0, 2, 4))
    steps += [['auth', auth], ['sid', _b32(rng)], ['seq', _b32(rng)], ['act', rng.choice((0, 1, 1))]]
    act = steps[-1][1]
    for _ in range(n_sends):
        for what in rng.sample(('creds', 'pw', 'auth', 'sid', 'seq', 'act', 'session', 'nothing', 'nothing'),
                               rng.randrange(0, 4)):
            if what == 'creds':
                pw = _other_pw(rng, pw)
                steps.append(['creds', 'admin', pw])
                if rng.random() < 0.7:
                    steps.append(['auth', auth])
                else:
                    auth = 4
            elif what == 'pw':
                pw = _other_pw(rng, pw)
                steps.append(['pw', pw])
            elif what == 'auth':
                auth = rng.choice((0, 2, 4))
                steps.append(['auth', auth])
            elif what == 'sid':
                steps.append(['sid', _b32(rng)])
            elif what == 'seq':
                steps.append(['seq', rng.choice((0xffffffff, 0xfffffffe, 0, _b32(rng)))])
            elif what == 'act':
                act = 1 - act
                steps.append(['act', act])
            elif what == 'session':
                steps.append(['session', rng.choice(('none', 'same', 'new'))])
        steps.append(['send', _sdu(rng)])
        if steps[-2][0] == 'session' and steps[-2][1] == 'none' and rng.random() < 0.8:
            steps.append(['session', 'same'])
    return steps


def _run_send_histories(ctx, drv, rng):
    quick = ctx.tier == 'quick'
    hists = []
    for auth in (4, 2):
        for how in ('creds', 'pw'):
            for act in (1, 0):
                for _ in range(4 if quick else 40):
                    hists.append(_gen_send_history(rng, rng.choice((2, 3, 4)), directed=(auth, how, act)))
    for _ in range(120 if quick else 2000):
        hists.append(_gen_send_history(rng, rng.randrange(2, 7)))
    recs = []
    for steps in hists:
        sends = run_send_history(steps)
        idx = [i for i, op in enumerate(steps) if op[0] == 'send']
        for (c1, obs), i in zip(sends, idx):
            recs.append((c1, obs, {'op': 'send-history', 'steps': steps[:i + 1]}))
        ctx.count('send-history:histories')
    models = drv.ask_many([_send_line(c1, obs[3]) for c1, obs, _ in recs])
    for (c1, obs, rep), m in zip(recs, models):
        ctx.case(('send-history', repr(rep['steps'])))
        ctx.count('send-history:auth:%s' % (c1['auth'] if c1['sess'] else 'no-session'))
        prev = [op[0] for op in rep['steps'][:-1]]
        last_send = max([i for i, k in enumerate(prev) if k == 'send'] or [-1])
        for k in set(prev[last_send + 1:]) if last_send >= 0 else ['first-send']:
            ctx.count('send-history:changed-before-send:' + k)
        judge_send(ctx, drv, c1, m, obs=obs, report=rep)
    ctx.sample({'send-history': hists[0]})


def _unpack_outcome(msg, pdu):
    try:
        d = msg.unpack(pdu)
    except Exception as e:  # noqa
        return _tag(e)
    return 'ok ' + ('none' if d is None else lean.hexs(bytes(bytearray(d))))


def run_recv_history(seq):
    """[(ignore, datagram)] through ONE Rmcp object (and one IpmiMsg per ignore setting); per datagram:
    (observation of Rmcp._receive_ipmi_msg, long-lived IpmiMsg.unpack outcome, fresh IpmiMsg.unpack outcome)"""
    from pyipmi.interfaces.rmcp import IpmiMsg
    r = _rmcp()
    longm = {0: IpmiMsg(ignore_sdu_length=False), 1: IpmiMsg(ignore_sdu_length=True)}
    out = []
    for ig, d in seq:
        r._sock.queue.clear()
        r._sock.push(d)
        try:
            x = r._receive_ipmi_msg(bool(ig))
            o = ('ok', None if x is None else bytes(bytearray(x)))
        except Exception as e:  # noqa
            o = (_tag(e), None)
        lm = fm = None
        if len(d) > 4:
            lm = _unpack_outcome(longm[ig], d[4:])
            fm = _unpack_outcome(IpmiMsg(ignore_sdu_length=bool(ig)), d[4:])
        out.append((o, lm, fm))
    return out


def judge_recv_history(ctx, drv, seq, variant, models=None, verbose=False, only_last=False):
    """seq: [(ignore, datagram, kind)]; every datagram is judged on its own"""
    obs = run_recv_history([(ig, d) for ig, d, _ in seq])
    for k, ((ig, d, kind), (o, lm, fm)) in enumerate(zip(seq, obs)):
        if only_last and k != len(seq) - 1:
            continue
        rep = {'op': 'recv-history', 'dgrams': [[a, lean.hexs(b), c] for a, b, c in seq[:k + 1]]}
        c1 = {'op': 'recv', 'kind': kind, 'ignore': ig, 'dgram': lean.hexs(d)}
        if verbose:
            print(' datagram %d (ignore_sdu_length=%d): %s' % (k + 1, ig, lean.hexs(d)))
        judge_recv(ctx, drv, c1, variant, models[k] if models else None, verbose, obs=o, report=rep)
        if lm != fm:
            ctx.violate('C05:receive:reused-IpmiMsg',
                        'an IpmiMsg object that unpacked other datagrams before does not unpack like a fresh one',
                        rep, expected=fm, observed=lm)


def _run_recv_histories(ctx, drv, rng, rx, rx_models, variant):
    CH = 8
    for k in range(0, len(rx), CH):
        chunk = rx[k:k + CH]
        seq = [(c['ignore'], bytes.fromhex(c['dgram']) if c['dgram'] != '-' else b'', c['kind']) for c in chunk]
        for c in chunk:
            ctx.case(('recv-history', k, c['ignore'], c['dgram']), nontrivial=True)
            ctx.count('recv-history:long-lived-rmcp')
        judge_recv_history(ctx, drv, seq, variant, rx_models[k:k + CH])
    # directed: valid datagrams with shrinking / growing payloads, alternating authentication types and settings
    seqs = []
    for _ in range(40 if ctx.tier == 'quick' else 600):
        lens = sorted((rng.choice((0, 1, 2, 8, 40, 255, rng.randrange(256))) for _ in range(rng.randrange(2, 6))),
                      reverse=rng.random() < 0.7)
        seq = []
        for n in lens:
            auth = rng.choice((0, 0, 2, 4, 1))
            d = lan_datagram(auth, _b32(rng), _b32(rng), bytes(rng.randrange(256) for _ in range(16)),
                             bytes(rng.randrange(256) for _ in range(n)))
            r = rng.random()
            kind = 'seq:valid'
            if r < 0.15 and len(d) > 5:
                d, kind = d[:rng.randrange(4, len(d))], 'seq:truncation'
            elif r < 0.25:
                d, kind = d + b'\x00', 'seq:extension'
            seq.append((rng.choice((0, 0, 1)), d, kind))
        seqs.append(seq)
    lines = ['recv %s %d %s' % (variant, ig, lean.hexs(d)) for seq in seqs for ig, d, _ in seq]
    ms = iter(drv.ask_many(lines))
    for seq in seqs:
        for ig, d, kind in seq:
            ctx.case(('recv-seq', tuple((a, b) for a, b, _ in seq), d))
            ctx.count('recv-history:' + kind)
        judge_recv_history(ctx, drv, seq, variant, [next(ms) for _ in seq])


RFC1321 = [b'', b'a', b'abc', b'message digest', b'abcdefghijklmnopqrstuvwxyz',
           b'ABCDEFGHIJKLMNOPQRSTUVWXYZabcdefghijklmnopqrstuvwxyz0123456789',
           b'1234567890' * 8]


def _send_line(case, rs=255):
    pw = case['pw']
    pwb = bytes.fromhex(pw['hex']) if pw['kind'] == 'bytes' else pw['text'].encode()
    return 'send %d %d %d %d %d %s %s %d' % (case['sess'], case['auth'], case['sid'], case['seq'], case['act'],
                                             lean.hexs(pwb), lean.hexs(bytes.fromhex(case['sdu'])), rs)


def run(ctx):
    drv = ctx.driver('drv_c05')
    rng = ctx.rng('c05')
    # ---- MD5 implementation of the driver against hashlib
    msgs = list(RFC1321) + [bytes(rng.randrange(256) for _ in range(n)) for n in range(131)]
    msgs += [bytes(rng.randrange(256) for _ in range(rng.randrange(131, 600))) for _ in range(8)]
    res = drv.ask_many(['md5 ' + lean.hexs(m) for m in msgs])
    for m, r in zip(msgs, res):
        ctx.case(('md5', m))
        ctx.count('md5:vectors')
        if lean.unhex(r) != hashlib.md5(m).digest():
            ctx.disagree('md5', {'op': 'md5', 'msg': lean.hexs(m)}, r, hashlib.md5(m).hexdigest())
    # ---- sent datagrams
    cases = _send_cases(rng, ctx.tier)
    models = drv.ask_many([_send_line(c) for c in cases])
    for c, m in zip(cases, models):
        ctx.case(('send', repr(sorted(c.items()))), nontrivial=len(c['sdu']) > 0)
        ctx.count('send:auth:%s' % (c['auth'] if c['sess'] else 'no-session'))
        n = len(c['sdu']) // 2
        ctx.count('send:len:%s' % ('0' if n == 0 else '1-127' if n <= 127 else '128-255' if n <= 255 else '>255'))
        if c['seq'] in (0xffffffff, 0xfffffffe) and c['act']:
            ctx.count('send:seq-wrap-boundary')
        judge_send(ctx, drv, c, m)
    ctx.sample({'send': cases[300], 'model': models[300][:80]})
    _run_send_histories(ctx, drv, ctx.rng('c05-send-history'))
    # ---- received datagrams
    variant = _probe_empty_variant()
    ctx.extra['receive_empty_payload_variant'] = 'asShipped' if variant == 's' else 'intended'
    rx = []
    for auth, d in _valid_rx(rng, ctx.tier):
        for kind, m in _mutations(rng, auth, d, ctx.tier):
            for ignore in (0, 1):
                rx.append({'op': 'recv', 'kind': kind, 'ignore': ignore, 'dgram': lean.hexs(m)})
    # every payload length 0..255, without and with an authentication code: the datagram itself, one byte more
    # (00h and FFh: a pad byte is not part of the format the property describes) and one byte less
    for n in range(256):
        for auth in (0, 2 if n % 2 else 1):
            payload = bytes((n * 5 + 3 * k + 1) % 256 for k in range(n))
            d = lan_datagram(auth, _b32(rng), _b32(rng), None if auth == 0 else bytes(16), payload)
            for kind, m in (('len-sweep:valid', d), ('len-sweep:+00', d + b'\x00'), ('len-sweep:+ff', d + b'\xff'),
                            ('len-sweep:-1', d[:-1])):
                for ignore in (0, 1):
                    rx.append({'op': 'recv', 'kind': kind, 'ignore': ignore, 'dgram': lean.hexs(m)})
    # directed: length byte off by one in both directions, wrong version / class, valid without payload
    base = lan_datagram(0, 5, 6, None, b'\x20\x1c\xc4\x81\x04\x38\x43')
    for kind, m in (('len+1', lan_datagram(0, 5, 6, None, b'\x01\x02\x03', length=4)),
                    ('len-1', lan_datagram(4, 5, 6, bytes(16), b'\x01\x02\x03', length=2)),
                    ('version', b'\x05' + base[1:]), ('version', b'\x07' + base[1:]),
                    ('class-asf', base[:3] + b'\x06' + base[4:]), ('class-ack', base[:3] + b'\x87' + base[4:]),
                    ('class-oem', base[:3] + b'\x08' + base[4:]),
                    ('empty-payload', lan_datagram(0, 0, 0, None, b'')),
                    ('empty-payload', lan_datagram(2, 9, 8, bytes(16), b'')),
                    ('empty-datagram', b'')):
        for ignore in (0, 1):
            rx.append({'op': 'recv', 'kind': kind, 'ignore': ignore, 'dgram': lean.hexs(m)})
    models = drv.ask_many(['recv %s %d %s' % (variant, c['ignore'], c['dgram']) for c in rx])
    for c, m in zip(rx, models):
        ctx.case(('recv', c['ignore'], c['dgram']), nontrivial=c['kind'] != 'valid')
        ctx.count('recv:kind:' + c['kind'].split('@')[0])
        judge_recv(ctx, drv, c, variant, m)
    ctx.sample({'recv': rx[5], 'model': models[5]})
    _run_recv_histories(ctx, drv, ctx.rng('c05-recv-history'), rx, models, variant)
    # ---- ASF
    pv = _probe_pong_variant()
    ctx.extra['pong_check_data_variant'] = 'asShipped' if pv == 's' else 'intended'
    m = drv.ask('ping 255')
    for p in _ping_cases(rng, ctx.tier):
        c = {'op': 'ping', 'pong': ['echo-tag'] + list(p[1:])}
        ctx.case(('ping', p), nontrivial=p != PLAIN_PONG)
        ctx.count('ping:pong:' + ('plain' if p == PLAIN_PONG else 'interactions-00' if p[4] == 0 else 'interactions-set'))
        judge_ping(ctx, drv, c, pv, m)
    pc = [{'op': 'pong', 'kind': k, 'dgram': lean.hexs(d)} for k, d in _pong_cases(rng, ctx.tier)]
    models = drv.ask_many(['pong %s %s' % (pv, c['dgram']) for c in pc])
    for c, m in zip(pc, models):
        ctx.case(('pong', c['dgram']), nontrivial=c['kind'] != 'valid')
        ctx.count('pong:kind:' + c['kind'].split('@')[0])
        judge_pong(ctx, drv, c, pv, m)
    ctx.sample({'pong': pc[0], 'model': models[0]})
    # ---- the pong the library builds
    kv = _probe_pong_pack_variant()
    ctx.extra['pong_pack_variant'] = 'asShipped' if kv == 's' else 'intended'
    kc = _pong_pack_cases(ctx.rng('c05-pong-pack'), ctx.tier)
    models = drv.ask_many([_pong_pack_line(c, kv) for c in kc])
    for c, m in zip(kc, models):
        ctx.case(('pong-pack', repr(sorted(c['set'].items())), c.get('unpack')), nontrivial=c['kind'] != 'fresh')
        ctx.count('pong-pack:kind:' + c['kind'])
        judge_pong_pack(ctx, drv, c, kv, m)
    ctx.sample({'pong-pack': kc[1], 'model': models[1]})
    for tag in [0, 1, 0x7f, 0x80, 0xfe] + [ctx.rng('c05-emulator').randrange(1, 255) for _ in range(3)]:
        ctx.case(('emulator-pong', tag), nontrivial=tag != 0)
        judge_emulator_pong(ctx, drv, {'op': 'emulator-pong', 'tag': tag}, kv)
    if _facts is not None:
        ctx.extra['generated'] = {'packHeaderArgs': _facts['packHeaderArgs'], 'md5Args': _facts['md5Args'],
                                  'packAuth': _facts['packAuth'], 'sidFormats': [str(_facts['sidPack']), str(_facts['sidUnpack'])]}


def search(ctx):
    """Every clause of the property is judged on the real code for every generated input in
    `run`; a broken theorem / translator / correspondence that broke no clause there has no
    failing input."""
    return


def replay(ctx, v):
    case = v['case']
    drv = ctx.driver('drv_c05')
    c2 = ctx.__class__('C05', 'quick', 0)
    print('case: %s' % {k: (x if len(str(x)) < 100 else str(x)[:100] + '…') for k, x in case.items()})
    if case['op'] == 'send-history':
        print('one Rmcp and one Session object:')
        sends = run_send_history(case['steps'])
        it = iter(sends)
        for op in case['steps']:
            print('  %s' % (op,))
            if op[0] == 'send':
                c1, obs = next(it)
                print('  configured at this moment: %s' % {k: c1[k] for k in ('sess', 'auth', 'sid', 'seq', 'act', 'pw')})
                judge_send(c2, drv, c1, None, verbose=True, obs=obs, report=case)
    elif case['op'] == 'recv-history':
        print('one Rmcp object (and one IpmiMsg object), datagrams in this order:')
        seq = [(ig, lean.unhex(hx), kind) for ig, hx, kind in case['dgrams']]
        judge_recv_history(c2, drv, seq, _probe_empty_variant(), None, verbose=True, only_last=True)
    elif case['op'] == 'send':
        judge_send(c2, drv, case, None, verbose=True)
    elif case['op'] == 'recv':
        judge_recv(c2, drv, case, _probe_empty_variant(), None, verbose=True)
    elif case['op'] == 'pong':
        judge_pong(c2, drv, case, _probe_pong_variant(), None, verbose=True)
    elif case['op'] == 'ping':
        judge_ping(c2, drv, case, _probe_pong_variant(), None, verbose=True)
    elif case['op'] == 'emulator-pong':
        judge_emulator_pong(c2, drv, case, _probe_pong_pack_variant(), verbose=True)
    elif case['op'] == 'pong-pack':
        judge_pong_pack(c2, drv, case, _probe_pong_pack_variant(), None, verbose=True)
    for x in c2.violations:
        print('  %s: %s' % (x['signature'], x['what']))
        print('    expected %s' % (x['expected'],))
        print('    observed %s' % (x['observed'],))
    return bool(c2.violations)
