"""C09 — Bridged requests traverse every hop; replies unwrap to the target's reply."""
import collections
import socket

from ..lib import lean, rng as rnglib
from ..sim import transport04 as T
from ..translate import ipmb as tr

ID = 'C09'
TARGETS = ['PyIpmi.Props.C09', 'drv_c09']
LEVEL = 'proof'
RULE = ('request side: routing depths 1..4 (thorough 1..8) built through Target.set_routing (list and string form), '
        'boundary + seeded addresses, channels 0..15, inner headers in range, payloads 0..40, seq 0..63; the bytes of '
        'the real encode_bridged_message are compared with the Lean model and peeled by the Lean chain of '
        'specification bridges (Spec.Bridges.peelN: both checksums, netFn App, cmd Send Message, channel/tracking per '
        'hop) down to the inner request (Spec.Wire.parseReq).  Reply side: replies of the specification figure to '
        'every inner command but Send Message itself (App/34h) - command 34h in the other network functions '
        'included, directed: HPM.1 Get Upgrade Status 2Ch/34h at every depth - wrapped in 0..depth Send Message '
        'responses; every non-zero completion code at every layer (all 255 codes are spread over the layers and '
        'cases); bare acknowledgements at every depth; short / truncated frames; single corrupted wrapper bytes (tie); '
        'real decode_bridged_message (without and, where the tree has it, with verify=True) vs model vs what was '
        'wrapped.  Transport: real Rmcp.send_and_receive_raw with a routed, single-hop or un-routed Target over a '
        'fake UDP socket; the transmitted nest is peeled by the specification bridges, the simulated target answers '
        'the inner request it received (inner commands incl. 34h outside netFn App, and the request 2Ch/34h NOT '
        'bridged), the answer travels back after 0..3 bare acknowledgements as wrapped / plain / failing Send Message '
        'responses; a wrapped reply with ONE corrupted byte of each wrapper field (address, netFn, both checksums, '
        'sequence, command, completion code) at every depth must be dropped (no data, no completion code raised) and '
        'the intact copy behind it returned; the error acknowledgement of an EARLIER transaction (other sequence '
        'number) in front of the reply must not be raised for the request in hand, bridged or not.  '
        'Retransmissions: Rmcp(max_retries = faults + 0..2) against a RESPONDING fake socket - the chain of specification '
        'bridges and the target answer the datagram each attempt actually carried (every layer echoes the sequence number '
        'it RECEIVED); 1..3 leading attempts end in a read time-out (datagram lost / answer lost / answer late, in front of '
        'the next answer / acknowledged but the forwarded reply lost), crossed with routing depth 0..4 (thorough ..8), '
        '0..2 bare acknowledgements, wrapped / plain / failing answer, first sequence numbers 0, 63, 1 and seeded: every '
        'transmitted datagram must be the nest for the routing, the call must return exactly the target\'s reply (or the '
        'failing layer\'s completion code); real code vs the Lean model of both loops (Bridge.retryBridged).  '
        'Histories: ONE Target object re-routed 2..5 times (Target(routing=...) / set_routing / '
        'set_routing_information, list and string form; longer, equal and SHORTER paths, sharing the leading hops of '
        'the previous path or not; a request through the object between the re-routings): after every re-routing '
        'encode_bridged_message(target.routing, ...) is compared with the Lean model of the set_routing history '
        '(Target.reroute) and peeled against the path configured LAST, and the real Rmcp transport is run with that '
        'Target; two Target objects re-routed in interleaved order, each judged against its own last path.  '
        'The other native transports: the real IpmbDev.send_and_receive_raw / Aardvark.send_and_receive_raw and both '
        'is_ipmc_accessible (fake /dev/ipmb fd / fake pyaardvark adapter, virtual clock) with Targets of routing depth '
        '0 (none), 1 (the hop names the interface and the target) and 2..4 (thorough ..8), built through '
        'Target(routing=...) / set_routing in list and string form, also re-routed on ONE Target object (judged by the '
        'path configured last); the matching reply of whoever owns the target\'s address on the LOCAL bus is ready to be '
        'read.  Whatever the transport writes is peeled by the chain of specification bridges: it must be the nest for '
        'the routing - or nothing at all may be written (an exception raised before the first write); a one-hop '
        'routing must send the plain request and return the target\'s reply.  Real code vs the Lean step model '
        '(Loops.i2cRequest / i2cProbe, refusal variant probed per transport).  '
        'Distinct by (op, routing, header, bytes / script); non-trivial = depth >= 2 or at least one wrapping layer.')
ASSUMPTIONS = [
    'encode_send_message / encode_bridged_message / decode_bridged_message and the bridging branch of '
    'Rmcp._send_and_receive are modelled by hand (Model/Bridge.lean) on top of the generated C03 framing model; tied '
    'by this correspondence run.  Send Message netfn/cmd and the channel-byte bit positions are regenerated from the '
    'live SendMessageReq class every run',
    'the transport model covers acknowledgement skipping, unwrapping, filtering and the returned bytes; what happens '
    'to a frame that does not match (re-queue, retry accounting) is property C04 and is neither modelled nor generated here',
    'retransmissions (Model/Bridge.lean: retryBridged; theorems retransmission_reply_returned / _error_reported / '
    '_budget): the model sends the SAME datagram again and compares every attempt\'s frames with the SAME header and '
    'bridge header; tied by the retransmission stream (every transmitted datagram and the outcome).  Whether a '
    'retransmission MUST be byte-identical is not judged - only that it is the nest for the routing and that the answer '
    'built from it is returned',
    'RMCP / session-header packing of the fake datagrams is not under test here (C05): auth type none, fixed layout',
    'the inner command is not Send Message itself, i.e. not (netFn App, command 34h) - as the property says; command '
    '34h in every OTHER network function is generated; header fields and addresses are naturals in range',
    'which of the two recognition variants of Model/Bridge.lean (as shipped: command byte only, everywhere / repaired: '
    'netFn and command, verified, only for the outstanding Send Message) the correspondence compares with is decided by '
    'probing the real code with the witness of the counter-example theorems (HPM.1 Get Upgrade Status reply, wrapped and '
    'un-bridged); the PROPERTY is judged on the real code in either case',
    'Target.set_routing is modelled as REPLACING the stored path (Model/Bridge.lean: Target.setRouting / reroute / '
    'request; theorems reroute_last, reroute_peel_all); tied by the re-routing histories on one real Target object',
]
ASSUMPTIONS += [
    '"for any routing path ... the transmitted request is a nest of Send Message commands" names no transport: it is judged on '
    'all three native transports that consume Target.routing.  ipmb-dev and Aardvark do not implement bridging; what the '
    'property demands of them is that no routed request is transmitted as anything BUT the nest - refusing the target '
    '(NotSupportedError before the first write: nothing is transmitted) satisfies it, transmitting the un-bridged request to the '
    'local bus does not.  Their step models are C04\'s (Model/IpmbDevLoop.lean, tied statement by statement by '
    'Props.C04.source_shape_ipmbdev / _aardvark); which state of the guard (I2cCfg.refuseRouted) a transport has is probed '
    'with the witness of i2c_routing_ignored_asShipped_counterexample',
    'on ipmb-dev / Aardvark a one-hop routing is generated consistent with the interface (hop = (slave address, '
    'target.ipmb_address)): these transports address the request from slave_address to target.ipmb_address and a '
    'description that contradicts itself is not judged; slave and target addresses are even (an I2C address has 7 bits)',
]
TRUSTED = ['harness/translate/ipmb.py', 'harness/props/c09.py', 'harness/sim/transport04.py (fake fd / adapter / clock)']

FIELDS = ('rs_sa', 'rs_lun', 'netfn', 'rq_sa', 'rq_lun', 'rq_seq', 'cmdid')
BITS = (8, 2, 6, 8, 2, 6, 8)
SEND_MESSAGE = 0x34


def translate(ctx):
    tr.generate()


def hs(vals):
    return ' '.join(str(v) for v in vals)


def rt(routing):
    return ','.join('%d:%d:%d' % (a, b, c or 0) for a, b, c in routing) if routing else '-'


def _tag(e):
    n = type(e).__name__
    if n == 'CompletionCodeError':
        return 'CompletionCodeError:%d' % e.cc
    return {'DecodingError': 'DecodingError', 'EncodingError': 'EncodingError', 'RetryError': 'RetryError',
            'IpmiTimeoutError': 'IpmiTimeoutError'}.get(n, 'py:' + n)


def _mk_header(vals):
    from pyipmi.interfaces.ipmb import IpmbHeaderReq
    h = IpmbHeaderReq()
    for k, v in zip(FIELDS, vals):
        setattr(h, k, v)
    return h


def _tuples(routing):
    return [(a, b, c) for a, b, c in routing[:-1]] + [(routing[-1][0], routing[-1][1], None)]


FORMS = ('list', 'string', 'info', 'ctor-list', 'ctor-string')


# the paths configured on ANY Target in this process so far (most recent last): a reported case carries them
# and the replay configures them on throw-away Targets first (the property gives set_routing no memory)
PROCESS_HISTORY = 12
_all_paths = []


def _process_before(n, routing=()):
    """of the first n paths configured in this process: the last PROCESS_HISTORY ones and (first and last 20 of)
    the earlier ones that share a hop's address pair with `routing`"""
    keys = set((r[0], r[1]) for r in routing)
    old = _all_paths[:max(0, n - PROCESS_HISTORY)]
    rel = [x for x in old if any((r[0], r[1]) in keys for r in x[0])]
    if len(rel) > 40:
        rel = rel[:20] + rel[-20:]
    return [[[list(r) for r in path], form] for path, form in rel + _all_paths[max(0, n - PROCESS_HISTORY):n]]


def replay_process_before(case, verbose=True):
    for path, form in case.get('process_before') or []:
        if verbose:
            print('  configured on another Target before (%s): %s' % (form, [tuple(r) for r in path]))
        try:
            _apply_path(None, [tuple(r) for r in path], form)
        except Exception:  # noqa
            pass


def _apply_path(t, routing, form):
    """one re-routing of Target `t` (None: create it) through the public API"""
    from pyipmi import Target
    tuples = _tuples(routing)
    _all_paths.append((tuple(routing), form))
    if t is None and form.startswith('ctor'):
        return Target(routing[-1][1], routing=repr(tuples) if form == 'ctor-string' else tuples)
    if t is None:
        t = Target(routing[-1][1])
    if form in ('string', 'ctor-string'):
        t.set_routing(repr(tuples))
    elif form == 'info':
        t.set_routing_information(tuples)
    else:
        t.set_routing(tuples)
    return t


def _routing_objs(routing, as_string=False, history=None):
    """through the public API: Target.set_routing builds the Routing objects.  `history`: [[path, form], ...]
    configured on the SAME Target object before (a request goes through it after each of them)"""
    from pyipmi.interfaces.ipmb import encode_bridged_message
    t = None
    for path, form in history or []:
        t = _apply_path(t, [tuple(r) for r in path], form)
        try:
            encode_bridged_message(t.routing, _mk_header((0, 0, 6, 0, 0, 1, 1)), b'', 1)
        except Exception:  # noqa
            pass
    return _apply_path(t, routing, 'string' if as_string else 'list')


# ---------------------------------------------------------------------------------------
# real code
# ---------------------------------------------------------------------------------------

def real_bridge(routing, hdr, seq, payload, as_string=False, nth=0, history=None, target=None):
    """encode through one Target object; `nth` earlier requests went through the same object before
    (a Target is set up once and used for every request of a connection)"""
    from pyipmi.interfaces.ipmb import encode_bridged_message
    try:
        t = target if target is not None else _routing_objs(routing, as_string, history)
        for k in range(nth):
            encode_bridged_message(t.routing, _mk_header(hdr), b'\x00' * (k % 3), (seq + 64 - nth + k) % 64)
        h = _mk_header(hdr)
        out = bytes(bytearray(encode_bridged_message(t.routing, h, payload, seq)))
        return 'ok ' + lean.hexs(out)
    except Exception as e:  # noqa
        return _tag(e)


def real_send(rq, rs, ch, seq, tracking, payload):
    from pyipmi.interfaces.ipmb import encode_send_message
    try:
        return 'ok ' + lean.hexs(bytes(bytearray(encode_send_message(payload, rq, rs, ch, seq, tracking))))
    except Exception as e:  # noqa
        return _tag(e)


def has_verify():
    import inspect
    from pyipmi.interfaces.ipmb import decode_bridged_message
    try:
        return 'verify' in inspect.signature(decode_bridged_message).parameters
    except (TypeError, ValueError):
        return False


def real_unwrap(frame, verify=False):
    from pyipmi.interfaces.ipmb import decode_bridged_message
    try:
        if verify:
            return 'ok ' + lean.hexs(bytes(bytearray(decode_bridged_message(frame, verify=True))))
        return 'ok ' + lean.hexs(bytes(bytearray(decode_bridged_message(frame))))
    except Exception as e:  # noqa
        return _tag(e)


# ---- which variant of Model/Bridge.lean does the tree implement?  (witnesses of Props.C09.*_asShipped_counterexample)
HPM_REPLY = bytes.fromhex('20b42c7214340000330013')            # 2Ch/34h reply: cc 00, data 00 33 00
HPM_WRAPPED = bytes.fromhex('811c632014340020b42c721434000033001398')
_variant = {}


def variants():
    """{'dec': 'a'|'r', 'rcv': 'a'|'r'}: decode_bridged_message / the transport, probed once per run"""
    if not _variant:
        _variant['dec'] = 'r' if real_unwrap(HPM_WRAPPED) == 'ok ' + lean.hexs(HPM_REPLY) else 'a'
        sc = {'routing': [], 'slave': 0x20, 'target': 0x72, 'lun': 0, 'netfn': 0x2c, 'cmd': 0x34, 'data': '00',
              'seq0': 4, 'max_retries': 0}
        _, out, _ = real_transport(sc, [HPM_REPLY])
        _variant['rcv'] = 'r' if out == 'ok 00003300' else 'a'
    return _variant


class FakeSock(object):
    """UDP socket of Rmcp: records datagrams, plays a script of received ones."""

    def __init__(self, script):
        self.sent = []
        self.script = list(script)
        self.timeout = 2.0

    def sendto(self, pdu, addr):
        self.sent.append(bytes(pdu))

    def recvfrom(self, n):
        if self.timeout == 0:
            # non-blocking read (the repaired transport discards stale datagrams before it sends): the script is
            # what arrives AFTER the request, nothing is waiting in the socket of a fresh interface
            raise BlockingIOError(11, 'Resource temporarily unavailable')
        if not self.script:
            raise socket.timeout()
        return (self.script.pop(0), ('bmc', 623))

    def settimeout(self, t):
        self.timeout = t

    def gettimeout(self):
        return self.timeout


def lan_datagram(frame):
    """RMCP v1.0 header (06 00 ff 07) + IPMI v1.5 session header, auth type none, + IPMB frame"""
    return bytes([0x06, 0x00, 0xff, 0x07, 0x00, 0, 0, 0, 0, 0, 0, 0, 0, len(frame)]) + bytes(frame)


def lan_payload(pdu):
    if len(pdu) < 14 or pdu[0:4] != bytes([0x06, 0x00, 0xff, 0x07]) or pdu[4] != 0 or pdu[13] != len(pdu) - 14:
        return None
    return pdu[14:]


class ResponderSock(FakeSock):
    """UDP socket with the chain of bridges and the target behind it: `respond(k, frame)` is called with every
    transmitted datagram (k = 0 for the first attempt) and returns the frames that arrive after it; when nothing
    (more) arrives the read times out."""

    def __init__(self, respond):
        FakeSock.__init__(self, [])
        self.respond = respond

    def sendto(self, pdu, addr):
        k = len(self.sent)
        self.sent.append(bytes(pdu))
        self.script.extend(lan_datagram(f) for f in self.respond(k, lan_payload(bytes(pdu))))


def real_transport(sc, frames, sock=None):
    """Run one routed request through the real Rmcp with the fake socket; returns
    (transmitted IPMB frames, outcome tag)."""
    from pyipmi.interfaces.rmcp import Rmcp
    intf = Rmcp(slave_address=sc['slave'], host_target_address=0x20, keep_alive_interval=0,
                max_retries=sc.get('max_retries', 0))
    intf._session = None
    intf.host, intf.port = 'bmc', 623
    sock = sock if sock is not None else FakeSock([lan_datagram(f) for f in frames])
    intf._sock = sock
    intf.next_sequence_number = sc['seq0']
    if sc['routing']:
        t = _routing_objs(sc['routing'], sc.get('as_string', False), sc.get('history'))
        t.ipmb_address = sc['target']
    else:
        from pyipmi import Target
        t = Target(sc['target'])             # no routing at all: the request is not bridged
    try:
        r = intf.send_and_receive_raw(t, sc['lun'], sc['netfn'], bytes([sc['cmd']]) + lean.unhex(sc['data']))
        out = 'ok ' + lean.hexs(bytes(bytearray(r)))
    except Exception as e:  # noqa
        out = _tag(e)
    return [lan_payload(p) for p in sock.sent], out, len(sock.script)


# ---------------------------------------------------------------------------------------
# generators
# ---------------------------------------------------------------------------------------

NETFN_APP = 6
HPM_UPGRADE_STATUS = (0x2c, 0x34)       # PICMG HPM.1 Get Upgrade Status: command id 34h in another netFn


def gen_hdr(rng, request=True, not_send_message=True):
    h = [rnglib.boundary_int(rng, b) for b in BITS]
    if request:
        h[2] &= 0x3e
    if not_send_message and rng.random() < 0.15:
        # command id 34h in a network function other than App: NOT Send Message
        h[6] = SEND_MESSAGE
        if (h[2] & 0x3e) == NETFN_APP:
            h[2] = (HPM_UPGRADE_STATUS[0] | (h[2] & 1)) if rng.random() < 0.5 else ((h[2] + 2) % 64)
    if not_send_message and h[6] == SEND_MESSAGE and (h[2] & 0x3e) == NETFN_APP:
        h[6] = 0x35
    return tuple(h)


def gen_routing(rng, depth):
    r = []
    for i in range(depth):
        ch = rng.randrange(16) if rng.random() < 0.7 else rng.choice((0, 7, 15))
        r.append((rnglib.boundary_int(rng, 8), rnglib.boundary_int(rng, 8), ch))
    return r


def gen_bytes(rng, n):
    if rng.random() < 0.1:
        return bytes([rng.choice((0, 0xff, SEND_MESSAGE))]) * n
    return bytes(rng.randrange(256) for _ in range(n))


def layer_of(hop):
    """header of the Send Message request a bridge executed = what its response answers"""
    bridge, src, _ch, _tr, seq = hop
    return (bridge, 0, 6, src, 0, seq, SEND_MESSAGE)


def wrap_line(innermost, layers):
    """layers: [(hdr7, cc)], outermost first"""
    return 'wrap %s %s' % (lean.hexs(innermost), ' '.join(','.join(str(x) for x in h + (cc,)) for h, cc in layers))


# ---------------------------------------------------------------------------------------
# judging
# ---------------------------------------------------------------------------------------

HOP_FIELDS = ('bridge', 'source', 'channel', 'tracking', 'seq')


def judge_bridge(ctx, drv, routing, hdr, seq, payload, model=None, as_string=False, nth=0, history=None):
    case = {'op': 'bridge', 'routing': [list(r) for r in routing], 'hdr': list(hdr), 'seq': seq,
            'data': lean.hexs(payload), 'as_string': as_string, 'nth': nth}
    if history:
        case['history'] = history
    before = len(_all_paths)
    real = real_bridge(routing, hdr, seq, payload, as_string, nth, history)
    if model is not None and model != real:
        ctx.disagree('encode_bridged_message', case, model, real)
    stale = ''
    if history and real != real_bridge(routing, hdr, seq, payload, as_string, nth):
        stale = ':after-rerouting'       # a fresh Target with the same path behaves differently
    return judge_bridge_frame(ctx, drv, case, real, routing, hdr, seq, payload, stale, before)


def judge_bridge_frame(ctx, drv, case, real, routing, hdr, seq, payload, stale='', before=0):
    """the bytes `real` of encode_bridged_message against the chain of specification bridges for `routing`"""
    _violate = ctx.violate

    class _C(object):      # signatures of history-only violations are distinct
        def violate(self, sig, what, case, expected=None, observed=None):
            if before and 'process_before' not in case:
                case = dict(case, process_before=_process_before(before, routing))
            _violate(sig + stale, what + (' (Target re-routed before)' if stale else ''), case, expected, observed)
    ctx = _C()
    if not real.startswith('ok '):
        ctx.violate('C09:bridge:raises', 'encode_bridged_message raises on an in-range routing', case,
                    expected='a frame', observed=real)
        return None
    frame = real[3:]
    n = len(routing) - 1
    peeled = drv.ask('peel %d %s' % (n, frame))
    if peeled == 'none':
        # find the first layer a bridge refuses
        k = 0
        while k < n and drv.ask('peel %d %s' % (k + 1, frame)) != 'none':
            k += 1
        ctx.violate('C09:bridge:layer-rejected',
                    'bridge %d of %d refuses its layer (checksum, netFn App, Send Message or reserved bits wrong)' % (k + 1, n),
                    case, expected='every layer is a valid Send Message request', observed=frame)
        return None
    _, hops_s, inner = peeled.split()
    hops = [] if hops_s == '-' else [tuple(int(x) for x in h.split(':')) for h in hops_s.split(';')]
    want = [(r[1], r[0], r[2], 1, seq) for r in routing[:-1]]
    for i, (got, exp) in enumerate(zip(hops, want)):
        for name, g, e in zip(HOP_FIELDS, got, exp):
            if g != e:
                ctx.violate('C09:bridge:hop-%s' % name,
                            'bridge %d sees %s %d, routing entry %d says %d' % (i + 1, name, g, i, e), case,
                            expected=[list(x) for x in want], observed=[list(x) for x in hops])
                return None
    last = routing[-1]
    want_inner = 'some %s %s' % (hs((last[1], hdr[1], hdr[2], last[0], hdr[4], hdr[5], hdr[6])), lean.hexs(payload))
    got_inner = drv.ask('parse ' + inner)
    if got_inner != want_inner:
        ctx.violate('C09:bridge:inner-request',
                    'what reaches the target is not the original request from the last hop\'s source to its responder',
                    case, expected=want_inner, observed=got_inner + ' <- ' + inner)
        return None
    return hops, inner


def judge_unwrap(ctx, drv, frame, expect, kind, model=None, verify=False, cmd34=False):
    case = {'op': 'unwrap', 'frame': lean.hexs(frame), 'expect': expect, 'kind': kind, 'verify': verify}
    real = real_unwrap(frame, verify)
    if model is not None and model != real:
        if not (model.startswith('py:') and real.startswith('py:')):
            ctx.disagree('decode_bridged_message', case, model, real)
    if expect is not None and real != expect:
        sig = {'reply': 'C09:unwrap:reply', 'error': 'C09:unwrap:error-code', 'ack': 'C09:unwrap:bare-ack'}[kind]
        what = {'reply': 'a reply wrapped in Send Message responses does not unwrap to exactly that reply',
                'error': 'a failing Send Message layer is not reported as CompletionCodeError with its code',
                'ack': 'a bare Send Message acknowledgement does not unwrap to the empty string'}[kind]
        if cmd34:
            sig += ':inner-cmd-34h'
            what += ' (inner command id 34h in a network function other than App)'
        ctx.violate(sig, what, case, expected=expect, observed=real)
        return False
    return True


WRAPPER_FIELDS = ('rqSA', 'netFn/rqLUN', 'header checksum', 'rsSA', 'rqSeq/rsLUN', 'command', 'completion code')


def transport_frames(drv, sc, inner_req, hops):
    """What comes back over the LAN for scenario `sc`: built by the specification (mkreply / wrap)
    from what the bridges and the target actually received."""
    h = inner_req
    reply = lean.unhex(drv.ask('mkreply %s %s' % (hs(h), sc['body'])))
    layers = [(layer_of(hop), 0) for hop in hops]
    frames = []
    for k in range(sc.get('acks', 0)):
        # acknowledgement of the outermost k+1 .. layers: the first `depth` bridges answer at once
        d = 1 + (k % max(1, len(layers)))
        frames.append(lean.unhex(drv.ask(wrap_line(b'', layers[:d]))))
    late = sc.get('late_ack')
    if late:
        # the (failing) acknowledgement of an EARLIER transaction of this interface: same bridge, the sequence
        # number of that transaction, arrives only now
        seq = h[5]
        old = ((0x20, 0, 6, sc['slave'], 0, (seq - late['age']) % 64, SEND_MESSAGE), late['cc'])
        frames.append(lean.unhex(drv.ask(wrap_line(b'', [old]))))
    final = sc['final']
    if final in ('wrapped', 'corrupt-wrapper'):
        good = lean.unhex(drv.ask(wrap_line(reply, layers)))
        if final == 'corrupt-wrapper':
            # one byte of wrapper number `layer` (0 = outermost): a header/completion-code byte or its checksum
            j, pos = sc['corrupt']['layer'], sc['corrupt']['pos']
            off = 7 * j + pos if pos >= 0 else len(good) - 1 - j
            bad = bytearray(good)
            bad[off] = (bad[off] + sc['corrupt']['delta']) % 256
            frames.append(bytes(bad))
        frames.append(good)
    elif final == 'plain':
        frames.append(reply)
    elif final == 'error':
        j = sc['fail_layer']
        ls = [(l, 0) for l, _ in layers[:j]] + [(layers[j][0], sc['cc'])]
        frames.append(lean.unhex(drv.ask(wrap_line(b'', ls))))
    return frames, reply


def model_rx(drv, bridge, inner_req, frames, max_retries):
    """The Lean model of the loop body (`cls`: one received frame -> ack | hit | noise | err) under the retry
    accounting of the loop (C04's subject, the few lines needed here): an acknowledgement is free, a frame the
    filter rejects costs one unit of a budget of max_retries + 1, silence after the last frame ends in RetryError."""
    noise = 0
    for f in frames:
        c = drv.ask('cls %s %s %s 00011 %s' % (variants()['rcv'], bridge, hs(inner_req), lean.hexs(f)))
        if c == 'ack':
            continue
        if c.startswith('hit'):
            return 'ok ' + (c.split()[1] if len(c.split()) > 1 else '-')
        if c.startswith('err '):
            return c[4:]
        noise += 1
        if noise > max_retries:
            return 'RetryError'
    return 'RetryError'


def judge_transport(ctx, drv, sc, check_model=True):
    case = dict(sc)
    case['op'] = 'transport'
    case['routing'] = [list(r) for r in sc['routing']]
    routing = sc['routing']
    bridged = len(routing) > 1
    seq = (sc['seq0'] + 1) % 64
    hdr = (sc['target'], sc['lun'], sc['netfn'], sc['slave'], 0, seq, sc['cmd'])
    payload = lean.unhex(sc['data'])
    cmd34 = sc['cmd'] == SEND_MESSAGE
    # 1st pass without any reply: what does the code transmit?
    before = len(_all_paths) if 'process_before' not in sc else 0
    sent, _, _ = real_transport(sc, [])
    stale = ''
    if sc.get('history'):
        fresh = dict(sc)
        fresh.pop('history')
        if real_transport(fresh, [])[0] != sent:
            stale = ':after-rerouting'
    _violate = ctx.violate

    class _C(object):      # signatures of history-only violations are distinct; the case carries the process history
        disagree = ctx.disagree

        def violate(self, sig, what, case, expected=None, observed=None):
            if before:
                case = dict(case, process_before=_process_before(before, sc['routing']))
            _violate(sig + stale, what + (' (Target re-routed before)' if stale else ''), case, expected, observed)
    ctx = _C()
    if not sent or sent[0] is None:
        ctx.violate('C09:transport:no-frame', 'nothing (or no IPMI-over-LAN datagram) was transmitted', case,
                    expected='one datagram', observed=repr(sent)[:200])
        return False
    tx = sent[0]
    # the last hop: a routed target takes both addresses from it; an un-routed one is addressed directly
    last = routing[-1] if routing else (sc['slave'], sc['target'], 0)
    if check_model:
        m = drv.ask('brg %s %s %d %s' % (rt(routing or [last]), hs(hdr), seq, lean.hexs(payload)))
        if m != 'ok ' + lean.hexs(tx):
            ctx.disagree('Rmcp tx', case, m, 'ok ' + lean.hexs(tx))
    n = max(0, len(routing) - 1)
    peeled = drv.ask('peel %d %s' % (n, lean.hexs(tx)))
    if peeled == 'none':
        ctx.violate('C09:transport:layer-rejected', 'a bridge refuses the request transmitted by Rmcp', case,
                    expected='valid Send Message nest', observed=lean.hexs(tx))
        return False
    _, hops_s, inner = peeled.split()
    hops = [] if hops_s == '-' else [tuple(int(x) for x in h.split(':')) for h in hops_s.split(';')]
    want = [(r[1], r[0], r[2], 1, seq) for r in routing[:-1]]
    if hops != want:
        ctx.violate('C09:transport:hops', 'the bridges do not see the configured hops', case,
                    expected=[list(x) for x in want], observed=[list(x) for x in hops])
        return False
    parsed = drv.ask('parse ' + inner)
    want_inner = 'some %s %s' % (hs((last[1], hdr[1], hdr[2], last[0], 0, seq, hdr[6])), lean.hexs(payload))
    if parsed != want_inner:
        ctx.violate('C09:transport:inner-request', 'the target does not receive the original request', case,
                    expected=want_inner, observed=parsed)
        return False
    inner_req = tuple(int(x) for x in parsed.split()[1:8])
    frames, reply = transport_frames(drv, sc, inner_req, hops)
    sent2, out, unread = real_transport(sc, frames)
    if sc['final'] == 'error':
        expect = 'CompletionCodeError:%d' % sc['cc']
    else:
        expect = 'ok ' + sc['body']
    if check_model:
        m = model_rx(drv, seq if bridged else '-', inner_req, frames, sc['max_retries'])
        if m != out:
            ctx.disagree('Rmcp rx', case, m, out)
    if out != expect:
        suffix = (':cmd-34h' if cmd34 else '') + ('' if bridged else ':unbridged')
        if sc['final'] == 'error':
            sig, what = 'C09:transport:error-code', 'a failing intermediate Send Message is not reported with its completion code'
        elif sc['final'] == 'corrupt-wrapper':
            fld = WRAPPER_FIELDS[sc['corrupt']['pos']] if sc['corrupt']['pos'] >= 0 else 'payload checksum'
            if out.startswith('CompletionCodeError') or out.startswith('py:'):
                sig = 'C09:transport:corrupted-wrapper-raises'
                what = ('a Send Message response with one corrupted byte (%s of wrapper %d) is not dropped: %s is raised '
                        'from it' % (fld, sc['corrupt']['layer'], out))
            else:
                sig = 'C09:transport:corrupted-wrapper'
                what = ('after a Send Message response with one corrupted byte (%s of wrapper %d) the intact copy is '
                        'not returned' % (fld, sc['corrupt']['layer']))
        elif sc.get('late_ack'):
            sig = 'C09:transport:foreign-ack-raised' if out.startswith('CompletionCodeError') else 'C09:transport:foreign-ack'
            what = ('the acknowledgement of an EARLIER transaction (sequence number %d, completion code %02xh) in front '
                    'of the reply: %s instead of the reply' % ((seq - sc['late_ack']['age']) % 64, sc['late_ack']['cc'], out))
        elif sc.get('acks'):
            sig, what = 'C09:transport:ack-not-awaited', ('after a bare Send Message acknowledgement the transport does not '
                                                          'wait for (and return) the forwarded reply')
        else:
            sig, what = 'C09:transport:reply', 'the %s request does not return the target\'s reply' % (
                'routed' if bridged else 'un-bridged')
        if cmd34 and sc['final'] != 'error':
            what += ' (command id 34h, network function %02xh: not Send Message)' % sc['netfn']
        ctx.violate(sig + suffix, what, case, expected=expect, observed=out)
        return False
    if sc['final'] == 'corrupt-wrapper' and unread:
        fld = WRAPPER_FIELDS[sc['corrupt']['pos']] if sc['corrupt']['pos'] >= 0 else 'payload checksum'
        ctx.violate('C09:transport:corrupted-wrapper-accepted',
                    'the data was taken from a Send Message response with one corrupted byte (%s of wrapper %d): the '
                    'intact copy behind it was never read' % (fld, sc['corrupt']['layer']), case,
                    expected='damaged frame dropped, intact copy read', observed='%d datagram(s) left unread' % unread)
        return False
    if len(sent2) != 1 or sent2[0] != tx:
        ctx.violate('C09:transport:resend', 'the request was not transmitted exactly once although every datagram arrived',
                    case, expected='1 datagram', observed='%d datagrams' % len(sent2))
        return False
    return True


# ---------------------------------------------------------------------------------------
# retransmissions: an attempt is lost, the chain of bridges answers the datagram it RECEIVED
# ---------------------------------------------------------------------------------------

FATES = ('lost', 'reply-lost', 'late', 'ack-only')
FATE_TEXT = {'lost': 'the datagram is lost on its way to the first bridge', 'reply-lost': 'the answer is lost',
             'late': 'the answer arrives only after the transport has given up waiting (in front of the answer to the '
                     'next attempt)', 'ack-only': 'the acknowledgement(s) arrive, the forwarded reply is lost',
             'answer': 'answered'}


def run_transport_retry(drv, sc):
    """the real Rmcp with max_retries >= 1 against the specification's chain of bridges: attempt k meets fate
    sc['fates'][k] (every one of them ends in a read time-out), the attempt after them is answered.  Whatever is
    answered is built by the specification side from the datagram that attempt actually carried: every bridge and
    the target echo the sequence number of the request they RECEIVED.  -> (log per attempt, outcome tag)"""
    routing = sc['routing']
    n = max(0, len(routing) - 1)
    last = routing[-1] if routing else (sc['slave'], sc['target'], 0)
    payload = lean.unhex(sc['data'])
    want_hops = [(r[1], r[0], r[2], 1) for r in routing[:-1]]
    fates = list(sc['fates'])
    log, held = [], []

    def respond(k, tx):
        fate = fates[k] if k < len(fates) else 'answer'
        rec = {'tx': tx, 'fate': fate, 'problem': None, 'delivered': []}
        log.append(rec)
        out = list(held)
        del held[:]
        rec['delivered'] = out
        # what is on the wire must be the nest for the routing whether or not it arrives
        peeled = drv.ask('peel %d %s' % (n, lean.hexs(tx))) if tx is not None else 'none'
        if peeled == 'none':
            rec['problem'] = ('layer-rejected', 'a bridge refuses the datagram (no valid Send Message nest of depth %d)' % n,
                              'valid Send Message nest', lean.hexs(tx) if tx is not None else 'no IPMI-over-LAN datagram')
            return out
        _, hops_s, inner = peeled.split()
        hops = [] if hops_s == '-' else [tuple(int(x) for x in h.split(':')) for h in hops_s.split(';')]
        if [h[:4] for h in hops] != want_hops:
            rec['problem'] = ('hops', 'the bridges do not see the configured hops', [list(x) for x in want_hops],
                              [list(x) for x in hops])
            return out
        p = drv.ask('parse ' + inner).split()
        want = [last[1], sc['lun'], sc['netfn'], last[0], 0, None, sc['cmd']]
        got = [int(x) for x in p[1:8]] if p and p[0] == 'some' and len(p) == 9 else None
        if got is None or any(w is not None and w != g for w, g in zip(want, got)) or lean.unhex(p[8]) != payload:
            rec['problem'] = ('inner-request', 'the target does not receive the original request',
                              'some %s %s' % (' '.join('<seq>' if w is None else str(w) for w in want), lean.hexs(payload)),
                              ' '.join(p))
            return out
        rec['seq'] = [h[4] for h in hops] + [got[5]]
        if fate in ('lost', 'reply-lost'):
            return out
        frames, _ = transport_frames(drv, sc, tuple(got), hops)
        if fate == 'ack-only':
            frames = frames[:sc['acks']]
        if fate == 'late':
            held.extend(frames)
            return out
        out.extend(frames)
        return out

    sock = ResponderSock(respond)
    _, out, unread = real_transport(sc, [], sock)
    return log, out


def model_retry(drv, bridge, inner_req, log, max_retries):
    """the Lean model of both loops (Model/Bridge.lean: retryBridged): silence ends an attempt, the retransmission
    is the SAME datagram compared with the SAME headers, max_retries + 1 transmissions"""
    atts = '|'.join(';'.join(lean.hexs(f) for f in rec['delivered']) or '-' for rec in log)
    return drv.ask('rtx %s %s %s 00011 %d %s' % (variants()['rcv'], bridge, hs(inner_req), max_retries + 1, atts))


def judge_transport_retry(ctx, drv, sc, check_model=True, verbose=False):
    case = dict(sc)
    case['op'] = 'transport-retry'
    case['routing'] = [list(r) for r in sc['routing']]
    routing = sc['routing']
    bridged = len(routing) > 1
    seq = (sc['seq0'] + 1) % 64
    last = routing[-1] if routing else (sc['slave'], sc['target'], 0)
    hdr = (sc['target'], sc['lun'], sc['netfn'], sc['slave'], 0, seq, sc['cmd'])
    payload = lean.unhex(sc['data'])
    cmd34 = sc['cmd'] == SEND_MESSAGE
    suffix = (':cmd-34h' if cmd34 else '') + ('' if bridged else ':unbridged')
    log, out = run_transport_retry(drv, sc)
    if verbose:
        for k, rec in enumerate(log):
            print('  attempt %d: %s  sequence numbers (layers.., request) %s - %s; arrives after it: %s' % (
                k + 1, lean.hexs(rec['tx']) if rec['tx'] is not None else '?', rec.get('seq', '?'), FATE_TEXT[rec['fate']],
                [lean.hexs(f) for f in rec['delivered']] or 'nothing'))
        print('  result  : %s' % out)
    if check_model:
        m_tx = drv.ask('brg %s %s %d %s' % (rt(routing or [last]), hs(hdr), seq, lean.hexs(payload)))
        for k, rec in enumerate(log):
            real_tx = 'ok ' + (lean.hexs(rec['tx']) if rec['tx'] is not None else '?')
            if m_tx != real_tx:
                ctx.disagree('Rmcp tx, attempt %d' % (k + 1), case, m_tx, real_tx)
                break
        inner_req = (last[1], hdr[1], hdr[2], last[0], 0, seq, hdr[6])
        m = model_retry(drv, seq if bridged else '-', inner_req, log, sc['max_retries'])
        if m != 'sends=%d %s' % (len(log), out):
            ctx.disagree('Rmcp retry', case, m, 'sends=%d %s' % (len(log), out))
    for k, rec in enumerate(log):
        if rec['problem']:
            name, what, expected, observed = rec['problem']
            ctx.violate('C09:transport:%s%s' % ('retransmission:' if k else '', name) + suffix,
                        'attempt %d of a request (%s): %s' % (
                            k + 1, 'first transmission' if not k else 'retransmission after a read time-out', what),
                        case, expected=expected, observed=observed)
            return False
    if sc['final'] == 'error':
        expect = 'CompletionCodeError:%d' % sc['cc']
    else:
        expect = 'ok ' + sc['body']
    if out != expect:
        story = ', '.join('attempt %d: %s' % (k + 1, FATE_TEXT[f]) for k, f in enumerate(sc['fates']))
        tail = ('; attempt %d is answered by the chain of bridges with the sequence numbers it carried; max_retries %d: %s'
                % (len(sc['fates']) + 1, sc['max_retries'], out))
        if sc['final'] == 'error':
            sig = 'C09:transport:retransmission:error-code'
            what = 'the failing Send Message of a RETRANSMITTED request is not reported with its completion code'
        elif sc.get('acks') or 'ack-only' in sc['fates']:
            sig = 'C09:transport:retransmission:ack-not-awaited'
            what = ('after the bare Send Message acknowledgement of a RETRANSMITTED request the transport does not wait '
                    'for (and return) the forwarded reply')
        else:
            sig = 'C09:transport:retransmission:reply'
            what = 'the %s request does not return the target\'s reply when it had to be RETRANSMITTED' % (
                'routed' if bridged else 'un-bridged')
        ctx.violate(sig + suffix, what + ' (' + story + tail + ')', case, expected=expect, observed=out)
        return False
    return True


def _run_transport_retry(ctx, drv, rng, depths, rounds):
    """fault sequences (1..3 attempts that end in a read time-out: datagram lost / answer lost / answer late /
    acknowledged but the forwarded reply lost) x routing depth 0..max x 0..2 bare acknowledgements x wrapped /
    plain / failing answer x starting sequence numbers (wrap-around included) x max_retries = faults + 0..2"""
    seq0s = (0, 62, 63, None)
    i = 0
    for rnd in range(rounds):
        for d in [0] + list(depths):
            finals = ['wrapped', 'plain'] + (['error'] if d >= 2 else [])
            for final in finals:
                if d < 2 and final == 'plain':
                    continue
                for acks in ((0, 1, 2) if d >= 2 else (0,)):
                    seqs = [[f] for f in FATES] + [[rng.choice(FATES) for _ in range(k)] for k in (2, 2, 3)]
                    for fates in seqs:
                        if ctx.time_left() < 20:
                            ctx.notes.append('retransmission run stopped early (time budget)')
                            return
                        if not acks:
                            fates = [f if f != 'ack-only' else rng.choice(FATES[:3]) for f in fates]
                        i += 1
                        s0 = seq0s[i % 4]
                        sc = _scenario(rng, gen_routing(rng, d), final=final, acks=acks, fates=fates,
                                       max_retries=len(fates) + rng.choice((0, 0, 1, 2)),
                                       seq0=rng.randrange(64) if s0 is None else s0)
                        if final == 'error':
                            sc['fail_layer'] = rng.randrange(d - 1)
                            sc['cc'] = rng.randrange(1, 256)
                        if i % 3 == 0:
                            sc['as_string'] = True
                        ctx.case(('transport-retry', repr(sorted(sc.items()))), nontrivial=d >= 2)
                        ctx.count('retransmission:depth-%d' % d)
                        ctx.count('retransmission:faults-%d' % len(fates))
                        for f in set(fates):
                            ctx.count('retransmission:fate-%s' % f)
                        ctx.count('retransmission:final-%s' % final)
                        ctx.count('retransmission:acks-%d' % acks)
                        ctx.count('retransmission:first-seq-%s' % ('0' if seq_of(sc) == 0 else '63' if seq_of(sc) == 63 else 'other'))
                        judge_transport_retry(ctx, drv, sc)
                        if i == 40:
                            ctx.sample({'op': 'transport-retry', 'scenario': sc})


def seq_of(sc):
    return (sc['seq0'] + 1) % 64


# ---------------------------------------------------------------------------------------
# the ipmb-dev and Aardvark transports: the nest, or nothing at all
# ---------------------------------------------------------------------------------------

I2C_TRANSPORTS = ('ipmbdev', 'aardvark')
_i2c_variant = {}


def _i2c_req(sc):
    """(header of the request as these transports put it on the local bus, payload)"""
    seq = (sc['seq0'] + 1) % 64
    if sc.get('probe'):
        return (sc['target'], 0, 6, sc['slave'], 0, seq, 1), b''
    return (sc['target'], sc['lun'], sc['netfn'], sc['slave'], 0, seq, sc['cmd']), lean.unhex(sc['data'])


def real_i2c(sc, events):
    """one request (or is_ipmc_accessible) on a fresh ipmb-dev / Aardvark interface object"""
    rig = T.IpmbDevRig() if sc['transport'] == 'ipmbdev' else T.AardvarkRig()
    try:
        rig.iface.slave_address = sc['slave']
        rig.iface.next_sequence_number = sc['seq0']
        if sc['routing']:
            t = _routing_objs(sc['routing'], sc.get('as_string', False), sc.get('history'))
            t.ipmb_address = sc['target']
        else:
            from pyipmi import Target
            t = Target(sc['target'])
        if sc.get('probe'):
            r = T.run_i2c_probe(rig, sc['target'], events, target=t)
        else:
            req = {'rs_sa': sc['target'], 'netfn': sc['netfn'], 'lun': sc['lun'], 'cmd': sc['cmd'], 'payload': sc['data'].replace('-', '')}
            r = T.run_i2c(rig, req, events, target=t)
    finally:
        rig.close()
    out = r['out']
    return {'out': ('ok ' + lean.hexs(out[1])) if out[0] == 'ok' else out[0], 'tx': r['tx'], 'seq': r['seq']}


def i2c_witness(tr_name):
    """Props.C09.i2c_routing_ignored_asShipped_counterexample: Get Device ID for the MMC 72h behind the carrier IPMC 82h"""
    return {'transport': tr_name, 'probe': False, 'routing': [(0x20, 0x82, 7), (0x20, 0x72, 0)], 'slave': 0x20,
            'target': 0x72, 'lun': 0, 'netfn': 6, 'cmd': 1, 'data': '-', 'seq0': 0, 'body': '0051'}


def i2c_variants():
    """{transport: 1 (a target behind a bridge is refused before anything is written) | 0 (routing ignored)}"""
    if not _i2c_variant:
        for t in I2C_TRANSPORTS:
            r = real_i2c(i2c_witness(t), [['F', 2, '201cc4720401005138']])
            _i2c_variant[t] = 1 if (r['out'] == 'NotSupportedError' and not r['tx']) else 0
    return _i2c_variant


def judge_i2c(ctx, drv, sc, check_model=True):
    case = dict(sc)
    case['op'] = 'i2c'
    case['routing'] = [list(r) for r in sc['routing']]
    tname, routing, probe = sc['transport'], sc['routing'], bool(sc.get('probe'))
    hdr, payload = _i2c_req(sc)
    seq = hdr[5]
    reply = drv.ask('mkreply %s %s' % (hs(hdr), sc['body']))
    events = [['F', 2, reply]]
    before = len(_all_paths)
    r = real_i2c(sc, events)
    tx = r['tx']
    tx0 = tx[0] if tx and tx[0] is not None else None
    if check_model:
        line = '%s %s %d %d %d %s %d' % ('i2cprobe' if probe else 'i2c', 'd' if tname == 'ipmbdev' else 'a', i2c_variants()[tname],
                                       sc['slave'], sc['seq0'], rt(routing), sc['target'])
        if not probe:
            line += ' %d %d %d %s' % (sc['netfn'], sc['lun'], sc['cmd'], lean.hexs(payload))
        m = drv.ask(line + ' F2:' + reply)
        code = '%s seq=%d sends=%d tx=%s' % (r['out'], r['seq'], len(tx), lean.hexs(tx0) if tx0 is not None else '?')
        if probe and code.startswith('ok -'):
            pass
        if m != code:
            ctx.disagree('%s %s' % (tname, 'is_ipmc_accessible' if probe else 'tx'), case, m, code)
    suffix = ':is_ipmc_accessible' if probe else ''
    what_fn = '%s.%s' % ('IpmbDev' if tname == 'ipmbdev' else 'Aardvark', 'is_ipmc_accessible' if probe else 'send_and_receive_raw')

    def violate(sig, what, expected, observed):
        c = dict(case, process_before=_process_before(before, routing)) if before else case
        ctx.violate(sig, what, c, expected, observed)

    n = max(0, len(routing) - 1)
    if not tx:
        if r['out'].startswith('ok'):
            violate('C09:%s:no-frame%s' % (tname, suffix), '%s returns a result although nothing was written' % what_fn,
                    'a request on the wire, or an error', r['out'])
            return False
        if n == 0:
            violate('C09:%s:unrouted-refused%s' % (tname, suffix),
                    '%s refuses a target that sits on the local bus (%s)' % (what_fn, 'one-hop routing' if routing else 'no routing'),
                    'the plain request', r['out'])
            return False
        return True                 # refused before anything was written: no routed request left the transport
    # something was written: it must be the nest for the routing (depth 0: the plain request)
    want_inner = 'some %s %s' % (hs(hdr), lean.hexs(payload))
    peeled = drv.ask('peel %d %s' % (n, lean.hexs(tx0))) if tx0 is not None else 'none'
    ok = peeled != 'none'
    if ok:
        _, hops_s, inner = peeled.split()
        hops = [] if hops_s == '-' else [tuple(int(x) for x in h.split(':')) for h in hops_s.split(';')]
        ok = hops == [(x[1], x[0], x[2], 1, seq) for x in routing[:-1]] and drv.ask('parse ' + inner) == want_inner
    if not ok:
        if n >= 1:
            plain = tx0 is not None and drv.ask('parse ' + lean.hexs(tx0)) == want_inner
            violate('C09:%s:routing-ignored%s' % (tname, suffix),
                    '%s ignores Target.routing: the request for a target behind %d bridge(s) is written %s (I2C address %02xh) '
                    'instead of the Send Message nest, and %s' % (
                        what_fn, n, 'UN-BRIDGED to the local bus' if plain else 'to the local bus in a form no bridge accepts',
                        (tx0[0] >> 1) if tx0 else 0,
                        'the answer of whoever owns that address there is returned as the routed target\'s'
                        if r['out'].startswith('ok') else 'the call ends with %s' % r['out']),
                    'a nest of %d Send Message request(s) (first layer addressed to bridge %02xh, channel %d) or an error before '
                    'anything is written' % (n, routing[0][1], routing[0][2] or 0),
                    '%s on the wire; result %s' % (lean.hexs(tx0) if tx0 is not None else repr(tx[0]), r['out']))
        else:
            violate('C09:%s:plain-request%s' % (tname, suffix), '%s does not write the request for a target on the local bus' % what_fn,
                    want_inner, '%s <- %s' % (peeled, lean.hexs(tx0) if tx0 is not None else repr(tx[0])))
        return False
    if n == 0:
        want = 'ok -' if probe else 'ok ' + sc['body']
        if r['out'] != want:
            violate('C09:%s:plain-reply%s' % (tname, suffix), '%s does not return the reply of a target on the local bus' % what_fn,
                    want, r['out'])
            return False
    return True


def _run_i2c(ctx, drv, rng, depths, per_depth):
    ctx.extra['i2c_routing_variant'] = dict((t, 'refused' if v else 'ignored') for t, v in i2c_variants().items())
    for tname in I2C_TRANSPORTS:
        for d in [0] + list(depths):
            for i in range(per_depth):
                if ctx.time_left() < 20:
                    ctx.notes.append('ipmb-dev / Aardvark run stopped early (time budget)')
                    return
                slave = rng.choice((0x20, 0x20, 0x82, rnglib.boundary_int(rng, 8))) & 0xfe     # I2C addresses have 7 bits
                target = rnglib.boundary_int(rng, 8) & 0xfe or 0x72
                routing = gen_routing(rng, d)
                if d:
                    routing[-1] = (slave if d == 1 else routing[-1][0], target, routing[-1][2])
                if d == 1:
                    routing = [(slave, target, 0)]
                sc = {'transport': tname, 'probe': i % 3 == 2, 'routing': routing, 'slave': slave, 'target': target,
                      'lun': rng.randrange(4), **_netfn_cmd(rng), 'data': lean.hexs(gen_bytes(rng, rng.choice((0, 1, 5, rng.randrange(0, 41))))),
                      'seq0': rng.choice((0, 62, 63, rng.randrange(64))),
                      'body': lean.hexs(bytes([rng.choice((0, 0, 0xc1))]) + gen_bytes(rng, rng.randrange(0, 12))),
                      'as_string': i % 4 == 1}
                if i == 0 and d == 2:
                    sc.update(i2c_witness(tname))
                if d and i % 5 == 4:
                    # the same Target object was routed differently before (longer / shorter paths)
                    sc['history'] = [[[list(x) for x in gen_routing(rng, rng.randrange(1, 5))], rng.choice(FORMS)]
                                     for _ in range(rng.randrange(1, 3))]
                ctx.case(('i2c', repr(sorted((k, repr(v)) for k, v in sc.items()))), nontrivial=d >= 2)
                ctx.count('i2c:%s:depth-%d' % (tname, d))
                ctx.count('i2c:%s' % ('is_ipmc_accessible' if sc['probe'] else 'request'))
                judge_i2c(ctx, drv, sc)
    ctx.sample({'op': 'i2c', 'scenario': i2c_witness('ipmbdev')})


# ---------------------------------------------------------------------------------------
# run
# ---------------------------------------------------------------------------------------

def _run_encode(ctx, drv, rng, depths, per_depth):
    cases = []
    for d in depths:
        for i in range(per_depth):
            routing = gen_routing(rng, d)
            if i == 0:
                routing = [(0x81, 0x20, 0), (0x20, 0x82, 7), (0x20, 0x72, 0), (0x10, 0x30, 15)][:d] + \
                    gen_routing(rng, max(0, d - 4))
            hdr = gen_hdr(rng, request=rng.random() < 0.8)
            n = rng.choice((0, 1, 2, 40, rng.randrange(0, 41)))
            cases.append((routing, hdr, rng.randrange(64), gen_bytes(rng, n), i % 7 == 3))
    models = drv.ask_many(['brg %s %s %d %s' % (rt(r), hs(h), s, lean.hexs(p)) for r, h, s, p, _ in cases])
    for (routing, hdr, seq, payload, as_string), m in zip(cases, models):
        ctx.case(('brg', tuple(routing), hdr, seq, payload), nontrivial=len(routing) >= 2)
        ctx.count('encode:depth-%d' % len(routing))
        ctx.count('encode:routing-%s' % ('string' if as_string else 'list'))
        for _, _, ch in routing[:-1]:
            ctx.count('encode:channel-%s' % ('0' if ch == 0 else '15' if ch == 15 else '1-14'))
        judge_bridge(ctx, drv, routing, hdr, seq, payload, m, as_string)
        if len(routing) >= 2 and (len(cases) < 40 or hash((seq, len(payload))) % 3 == 0):
            # the same request as the 2nd / 3rd one through the same Target object: same bytes demanded
            for nth in (1, 2):
                ctx.case(('brg-nth', nth, tuple(routing), hdr, seq, payload))
                ctx.count('encode:request-%d-through-same-target' % (nth + 1))
                judge_bridge(ctx, drv, routing, hdr, seq, payload, m, as_string, nth)
    ctx.sample({'op': 'bridge', 'routing': cases[2][0], 'hdr': list(cases[2][1]), 'seq': cases[2][2],
                'data': lean.hexs(cases[2][3]), 'model': models[2]})
    # encode_send_message on its own: tracking values and channel masking (tie only beyond the property's range)
    snd = []
    for ch in list(range(16)) + [16, 31, 255, 256]:
        for trk in (0, 1, 2, 3, 4):
            snd.append((rnglib.boundary_int(rng, 8), rnglib.boundary_int(rng, 8), ch, rng.randrange(64), trk,
                        gen_bytes(rng, rng.randrange(0, 6))))
    ms = drv.ask_many(['snd %d %d %d %d %d %s' % (a, b, c, s, t, lean.hexs(p)) for a, b, c, s, t, p in snd])
    for (a, b, c, s, t, p), m in zip(snd, ms):
        ctx.case(('snd', a, b, c, s, t, p), nontrivial=False)
        ctx.count('send_message:%s' % ('in-range' if c < 16 and t < 4 else 'masked'))
        real = real_send(a, b, c, s, t, p)
        if real != m:
            ctx.disagree('encode_send_message', {'op': 'send', 'args': [a, b, c, s, t], 'data': lean.hexs(p)}, m, real)
        if c < 16 and t == 1 and real.startswith('ok '):
            pl = drv.ask('peel 1 ' + real[3:])
            want = 'some %d:%d:%d:1:%d %s' % (b, a, c, s, lean.hexs(p))
            if pl != want:
                ctx.violate('C09:send_message:layer', 'one Send Message layer is not what a bridge must see',
                            {'op': 'send', 'args': [a, b, c, s, t], 'data': lean.hexs(p)}, expected=want, observed=pl)


def _run_unwrap(ctx, drv, rng, max_layers, per_layer, codes):
    build, meta = [], []
    code_iter = iter(codes)
    for k in range(0, max_layers + 1):
        for i in range(per_layer):
            req = gen_hdr(rng)
            if i < 3:
                # directed: command id 34h outside netFn App (HPM.1 Get Upgrade Status 2Ch/34h, OEM 30h/34h, 0Ah/34h)
                req = req[:2] + ((0x2c, 0x30, 0x0a)[i],) + req[3:6] + (SEND_MESSAGE,)
            body = bytes([rng.choice((0, 0, 0xc0, 0x80, rng.randrange(256)))]) + gen_bytes(rng, rng.choice((0, 1, 3, 5, 40, rng.randrange(0, 41))))
            layers = [(gen_hdr(rng, request=True, not_send_message=False), 0) for _ in range(k)]
            meta.append(('reply', k, req, body, layers))
    for k in range(1, max_layers + 1):
        for i in range(max(2, per_layer // 3)):
            meta.append(('ack', k, None, b'', [(gen_hdr(rng, not_send_message=False), 0) for _ in range(k)]))
    for c in code_iter:
        k = rng.randrange(1, max_layers + 1)          # number of layers, the last one fails
        tail = b'' if rng.random() < 0.5 else gen_bytes(rng, rng.randrange(1, 12))
        layers = [(gen_hdr(rng, not_send_message=False), 0) for _ in range(k - 1)] + [(gen_hdr(rng, not_send_message=False), c)]
        meta.append(('error', k, c, tail, layers))
    # innermost replies come from the specification figure
    replies = iter(drv.ask_many(['mkreply %s %s' % (hs(m[2]), lean.hexs(m[3])) for m in meta if m[0] == 'reply']))
    lines = []
    for m in meta:
        inner = lean.unhex(next(replies)) if m[0] == 'reply' else m[3]
        lines.append((m, inner))
    frames = drv.ask_many([wrap_line(inner, m[4]) for m, inner in lines])
    stim = []       # (frame, expect, kind, layers, inner command is 34h)
    for (m, inner), fx in zip(lines, frames):
        frame = lean.unhex(fx)
        if m[0] == 'reply':
            c34 = m[2][6] == SEND_MESSAGE
            stim.append((frame, 'ok ' + lean.hexs(inner), 'reply', m[1], c34))
            if m[1] >= 1 and len(stim) % 5 == 0:
                # truncated / short frames: tie only
                stim.append((frame[:rng.randrange(0, 8)], None, 'short', m[1], c34))
                stim.append((frame[:6], None, 'short', m[1], c34))
            if m[1] >= 1 and len(stim) % 3 == 0:
                # one corrupted byte of a wrapper: tie only here (what must happen to it is judged through the transport)
                j = rng.randrange(m[1])
                off = rng.choice([7 * j + q for q in range(7)] + [len(frame) - 1 - j])
                bad = bytearray(frame)
                bad[off] = (bad[off] + rng.randrange(1, 256)) % 256
                stim.append((bytes(bad), None, 'corrupt', m[1], c34))
        elif m[0] == 'ack':
            stim.append((frame, 'ok -', 'ack', m[1], False))
        else:
            stim.append((frame, 'CompletionCodeError:%d' % m[2], 'error', m[1], False))
    v = variants()['dec']
    modes = (False, True) if has_verify() else (False,)
    for verify in modes:
        models = drv.ask_many(['dec %s %d %s' % (v, int(verify), lean.hexs(f)) for f, _, _, _, _ in stim])
        for (frame, expect, kind, k, c34), mo in zip(stim, models):
            ctx.case(('dec', verify, frame), nontrivial=k >= 1)
            ctx.count('unwrap:%s' % kind)
            ctx.count('unwrap:layers-%d' % k)
            ctx.count('unwrap:verify-%s' % ('on' if verify else 'off'))
            if c34:
                ctx.count('unwrap:inner-cmd-34h-other-netfn')
            ctx.count('unwrap-outcome:' + (mo.split(':')[0] if not mo.startswith('ok') else ('ok-empty' if mo == 'ok -' else 'ok')))
            judge_unwrap(ctx, drv, frame, expect, kind, mo, verify, c34)
    ctx.sample({'op': 'unwrap', 'frame': lean.hexs(stim[-1][0]), 'expect': stim[-1][1], 'model': models[-1]})


def _netfn_cmd(rng):
    """a request's network function and command: anything but Send Message itself (App/34h); command id 34h in the
    other network functions is in"""
    netfn, cmd = rng.randrange(32) * 2, gen_hdr(rng)[6]
    if cmd == SEND_MESSAGE and netfn == NETFN_APP:
        netfn = HPM_UPGRADE_STATUS[0]
    return {'netfn': netfn, 'cmd': cmd}


def _scenario(rng, routing, **kw):
    sc = {'routing': routing, 'slave': rnglib.boundary_int(rng, 8), 'target': rnglib.boundary_int(rng, 8),
          'lun': rng.randrange(4), **_netfn_cmd(rng),
          'data': lean.hexs(gen_bytes(rng, rng.choice((0, 1, 40, rng.randrange(0, 41))))),
          'seq0': rng.choice((0, 62, 63, rng.randrange(64))), 'acks': 0, 'final': 'wrapped', 'max_retries': 0,
          'body': lean.hexs(bytes([rng.choice((0, 0, 0xc1))]) + gen_bytes(rng, rng.randrange(0, 41)))}
    if sc['cmd'] == SEND_MESSAGE and sc['netfn'] == NETFN_APP:
        sc['netfn'] = HPM_UPGRADE_STATUS[0]
    sc.update(kw)
    if not sc['routing'] and not sc['target']:
        sc['target'] = 0x20          # Target(0) without routing has no address at all (`if ipmb_address:`)
    return sc


def _run_transport_cmd34(ctx, drv, rng, depths):
    """command id 34h in network functions other than App through the real transport: not bridged at all
    (no routing / single hop: `Hpm.get_upgrade_status()` over RMCP) and as the inner command at every depth"""
    for d in [0] + list(depths):
        for netfn, body in ((0x2c, '0000330' + '0'), (0x30, '00aabb'), (0x2c, '80'), (0x0a, '00'), (0x3e, '00' + 'ff' * 9)):
            for acks, final in ((0, 'wrapped'), (0, 'plain'), (1, 'wrapped')):
                if d <= 1 and (acks or final == 'plain'):
                    continue
                if ctx.time_left() < 20:
                    return
                sc = _scenario(rng, gen_routing(rng, d), netfn=netfn, cmd=SEND_MESSAGE, body=body, acks=acks, final=final)
                ctx.case(('transport-cmd34', repr(sorted(sc.items()))))
                ctx.count('transport:cmd-34h-netfn-%02xh:%s' % (netfn, 'un-routed' if d == 0 else 'single-hop' if d == 1 else 'bridged'))
                judge_transport(ctx, drv, sc)


def _run_transport_faults(ctx, drv, rng, depths):
    """one corrupted byte of every wrapper field at every depth (the damaged frame must be dropped and the intact
    copy behind it returned); the failing acknowledgement of an earlier transaction in front of the reply"""
    for d in depths:
        if d < 2:
            continue
        for layer in range(d - 1):
            for pos in (0, 1, 2, 3, 4, 5, 6, -1):
                if ctx.time_left() < 20:
                    return
                delta = rng.choice((1, 0x80, 0xff, rng.randrange(1, 256)))
                if pos == 6:
                    delta = rng.choice((0x83, 0xc0, 0xc3, 0xff, rng.randrange(1, 256)))   # cc 00h -> an error code
                sc = _scenario(rng, gen_routing(rng, d), final='corrupt-wrapper', max_retries=rng.choice((1, 2)),
                               corrupt={'layer': layer, 'pos': pos, 'delta': delta})
                if sc['cmd'] == SEND_MESSAGE:
                    sc['cmd'] = 0x35         # command id 34h has its own stream; here the wrapper is the subject
                ctx.case(('transport-corrupt', repr(sorted(sc.items()))))
                ctx.count('transport:corrupted-wrapper:%s' % (WRAPPER_FIELDS[pos] if pos >= 0 else 'payload checksum'))
                ctx.count('transport:corrupted-wrapper:depth-%d' % d)
                judge_transport(ctx, drv, sc)
    for d in [0, 1] + [x for x in depths if x >= 2]:
        for cc in (0x83, 0xc3, 0xff, rng.randrange(1, 256)):
            for age in (1, 2, rng.randrange(1, 64)):
                if ctx.time_left() < 20:
                    return
                sc = _scenario(rng, gen_routing(rng, d), final='wrapped' if d >= 2 else 'plain',
                               max_retries=rng.choice((1, 3)), late_ack={'cc': cc, 'age': age})
                if sc['cmd'] == SEND_MESSAGE:
                    sc['cmd'] = 0x35
                ctx.case(('transport-late-ack', repr(sorted(sc.items()))))
                ctx.count('transport:late-ack:%s' % ('bridged' if d >= 2 else 'not-bridged'))
                judge_transport(ctx, drv, sc)


def _run_transport(ctx, drv, rng, depths, rounds):
    n = 0
    for rnd in range(rounds):
        for d in depths:
            finals = ['wrapped', 'plain'] + (['error'] if d >= 2 else [])
            for final in finals:
                for acks in ((0, 1, 2, 3) if d >= 2 else (0,)):
                    if ctx.time_left() < 20:
                        ctx.notes.append('transport run stopped early (time budget)')
                        return
                    routing = gen_routing(rng, d)
                    sc = {'routing': routing, 'slave': rnglib.boundary_int(rng, 8), 'target': rnglib.boundary_int(rng, 8),
                          'lun': rng.randrange(4), **_netfn_cmd(rng),
                          'data': lean.hexs(gen_bytes(rng, rng.choice((0, 1, 40, rng.randrange(0, 41))))),
                          'seq0': rng.choice((0, 62, 63, rng.randrange(64))), 'acks': acks,
                          'final': final, 'max_retries': 0,
                          'body': lean.hexs(bytes([rng.choice((0, 0, 0xc1))]) + gen_bytes(rng, rng.randrange(0, 41)))}
                    if final == 'error':
                        sc['fail_layer'] = rng.randrange(d - 1)
                        sc['cc'] = rng.randrange(1, 256)
                    ctx.case(('transport', repr(sorted(sc.items()))), nontrivial=d >= 2)
                    ctx.count('transport:depth-%d' % d)
                    ctx.count('transport:final-%s' % final)
                    ctx.count('transport:acks-%d' % acks)
                    judge_transport(ctx, drv, sc)
                    n += 1
                    if n == 3:
                        ctx.sample({'op': 'transport', 'scenario': sc})


# ---------------------------------------------------------------------------------------
# histories: one Target object re-routed several times
# ---------------------------------------------------------------------------------------

DIRECTED_DEPTHS = [(3, 2), (4, 2, 3), (4, 3, 2, 1), (2, 4, 1), (2, 2), (3, 3), (1, 2, 3, 4), (3, 1), (4, 1, 4)]


def gen_path_history(rng, depths):
    """paths for one Target; with probability 1/2 a path keeps the leading hops of the previous one (then a
    stale tail is the only thing that could differ), otherwise it shares nothing"""
    paths = []
    for d in depths:
        p = gen_routing(rng, d)
        if paths and rng.random() < 0.5:
            k = min(len(paths[-1]), d) - (1 if rng.random() < 0.5 else 0)
            p = list(paths[-1][:max(0, k)]) + p[max(0, k):]
        paths.append(p)
    return paths


def _run_reroute(ctx, drv, rng, n_random, max_depth):
    hists = []
    for i, depths in enumerate(DIRECTED_DEPTHS):
        for forms in ('list', 'string', 'mixed'):
            hists.append((gen_path_history(rng, depths), forms, True))
    for _ in range(n_random):
        depths = [rng.randrange(1, max_depth + 1) for _ in range(rng.randrange(2, 6))]
        hists.append((gen_path_history(rng, depths), 'mixed', rng.random() < 0.5))
    recs = []
    for paths, forms, with_transport in hists:
        fs = []
        for k in range(len(paths)):
            f = forms if forms != 'mixed' else rng.choice(FORMS if k == 0 else FORMS[:3])
            fs.append(f)
        for k in range(len(paths)):
            history = [[[list(r) for r in paths[j]], fs[j]] for j in range(k)]
            hdr = gen_hdr(rng, request=True)
            recs.append((paths[k], fs[k] in ('string', 'ctor-string'), history, hdr, rng.randrange(64),
                         gen_bytes(rng, rng.choice((0, 1, 5, rng.randrange(0, 20)))), with_transport, paths[:k + 1]))
    models = drv.ask_many(['hist %s %s %d %s' % ('|'.join(rt(p) for p in ps), hs(h), sq, lean.hexs(pl))
                           for _, _, _, h, sq, pl, _, ps in recs])
    for (routing, as_string, history, hdr, seq, payload, with_transport, ps), m in zip(recs, models):
        ctx.case(('reroute', tuple(tuple(p) for p in ps), hdr, seq, payload), nontrivial=len(ps) > 1)
        if history:
            prev = len(history[-1][0])
            ctx.count('reroute:%s' % ('shorter' if len(routing) < prev else 'longer' if len(routing) > prev else 'equal-length'))
            ctx.count('reroute:form-%s' % ('string' if as_string else 'list'))
        else:
            ctx.count('reroute:first-path')
        judge_bridge(ctx, drv, routing, hdr, seq, payload, m, as_string, 0, history)
        if with_transport and history and ctx.time_left() > 20:
            sc = {'routing': routing, 'history': history, 'as_string': as_string, 'slave': rnglib.boundary_int(rng, 8),
                  'target': rnglib.boundary_int(rng, 8), 'lun': rng.randrange(4), **_netfn_cmd(rng),
                  'data': lean.hexs(gen_bytes(rng, rng.randrange(0, 8))),
                  'seq0': rng.randrange(64), 'acks': rng.choice((0, 0, 1)) if len(routing) >= 2 else 0,
                  'final': rng.choice(('wrapped', 'plain')), 'max_retries': 0,
                  'body': lean.hexs(bytes([0]) + gen_bytes(rng, rng.randrange(0, 8)))}
            ctx.case(('reroute-transport', repr(sorted(sc.items()))))
            ctx.count('reroute:transport')
            judge_transport(ctx, drv, sc)
    ctx.sample({'op': 'reroute', 'paths': [[list(r) for r in p] for p in hists[0][0]]})


def run_two_targets(ops, hdr, seq, payload):
    """ops: [[name, path, form], ...] on Target objects 'A' and 'B'; returns the frame each of them gives afterwards"""
    ts, last = {}, {}
    for name, path, form in ops:
        path = [tuple(r) for r in path]
        ts[name] = _apply_path(ts.get(name), path, form)
        last[name] = path
    return dict((n, (real_bridge(last[n], hdr, seq, payload, target=ts[n]), last[n])) for n in sorted(ts))


def judge_two_targets(ctx, drv, ops, hdr, seq, payload):
    case = {'op': 'two-targets', 'ops': ops, 'hdr': list(hdr), 'seq': seq, 'data': lean.hexs(payload)}
    before = len(_all_paths)
    for name, (real, routing) in run_two_targets(ops, hdr, seq, payload).items():
        fresh = real_bridge(routing, hdr, seq, payload)
        judge_bridge_frame(ctx, drv, dict(case, judged=name), real, routing, hdr, seq, payload,
                           ':other-target' if real != fresh else '', before)


def _run_two_targets(ctx, drv, rng, n, max_depth):
    for i in range(n):
        ops = []
        for _ in range(rng.randrange(2, 6)):
            ops.append([rng.choice('AB'), [list(r) for r in gen_routing(rng, rng.randrange(1, max_depth + 1))],
                        rng.choice(FORMS[:3])])
        if len(set(o[0] for o in ops)) < 2:
            ops.append(['B' if ops[0][0] == 'A' else 'A', [list(r) for r in gen_routing(rng, rng.randrange(1, max_depth + 1))], 'list'])
        hdr = gen_hdr(rng, request=True)
        seq, payload = rng.randrange(64), gen_bytes(rng, rng.randrange(0, 6))
        ctx.case(('two-targets', repr(ops), hdr, seq, payload))
        ctx.count('reroute:two-targets')
        judge_two_targets(ctx, drv, ops, hdr, seq, payload)


def _run_transport_codes(ctx, drv, rng):
    """every non-zero completion code on a failing Send Message layer THROUGH THE TRANSPORT (depth 2: the only
    layer; depth 3: alternating layers), without and with a retry budget: the caller must get that code"""
    for cc in range(1, 256):
        for d, mr in ((2, 0), (3, 2)) if cc % 2 else ((3, 0), (2, 2)):
            if ctx.time_left() < 20:
                ctx.notes.append('transport code sweep stopped early (time budget)')
                return
            sc = {'routing': gen_routing(rng, d), 'slave': 0x81, 'target': rnglib.boundary_int(rng, 8),
                  'lun': rng.randrange(4), **_netfn_cmd(rng),
                  'data': lean.hexs(gen_bytes(rng, rng.randrange(0, 5))), 'seq0': rng.randrange(64), 'acks': 0,
                  'final': 'error', 'max_retries': mr, 'body': '00', 'fail_layer': (cc // 2) % (d - 1), 'cc': cc}
            ctx.case(('transport-cc', d, mr, cc, sc['fail_layer']))
            ctx.count('transport:error-code-sweep')
            judge_transport(ctx, drv, sc)


def run(ctx):
    drv = ctx.driver('drv_c09')
    if drv.ask('ping') != 'pong':
        raise lean.LeanError('drv_c09 does not answer')
    rng = ctx.rng('c09')
    quick = ctx.tier == 'quick'
    depths = [1, 2, 3, 4] if quick else [1, 2, 3, 4, 5, 6, 7, 8]
    codes = list(range(1, 256)) * (1 if quick else 8)
    rng.shuffle(codes)
    _run_encode(ctx, drv, rng, depths, 250 if quick else 1500)
    _run_unwrap(ctx, drv, rng, depths[-1], 100 if quick else 400, codes)
    _run_reroute(ctx, drv, ctx.rng('c09-reroute'), 60 if quick else 1500, depths[-1])
    _run_two_targets(ctx, drv, ctx.rng('c09-two-targets'), 40 if quick else 600, depths[-1])
    _run_i2c(ctx, drv, ctx.rng('c09-i2c'), depths, 12 if quick else 120)
    _run_transport_cmd34(ctx, drv, ctx.rng('c09-cmd34'), depths)
    _run_transport_faults(ctx, drv, ctx.rng('c09-faults'), depths)
    _run_transport(ctx, drv, rng, depths, 12 if quick else 60)
    _run_transport_codes(ctx, drv, rng)
    _run_transport_retry(ctx, drv, ctx.rng('c09-retry'), depths, 4 if quick else 30)


def search(ctx):
    try:
        drv = ctx.driver('drv_c09')
    except lean.LeanError as e:
        ctx.notes.append('search: no driver (%s)' % e.what)
        return
    rng = ctx.rng('c09-search')
    codes = list(range(1, 256)) * 2
    _run_encode(ctx, drv, rng, [1, 2, 3, 4, 5, 6], 150)
    if not ctx.violations:
        _run_unwrap(ctx, drv, rng, 6, 60, codes)
    if not ctx.violations:
        _run_reroute(ctx, drv, rng, 200, 6)
    if not ctx.violations:
        _run_i2c(ctx, drv, rng, [1, 2, 3, 4, 5], 40)
    if not ctx.violations:
        _run_transport_cmd34(ctx, drv, rng, [1, 2, 3, 4, 5])
    if not ctx.violations:
        _run_transport_faults(ctx, drv, rng, [2, 3, 4, 5])
    if not ctx.violations:
        _run_transport(ctx, drv, rng, [1, 2, 3, 4, 5], 6)
    if not ctx.violations:
        _run_transport_retry(ctx, drv, rng, [1, 2, 3, 4, 5], 1)


def replay(ctx, v):
    case = v['case']
    drv = ctx.driver('drv_c09')
    c2 = ctx.__class__('C09', 'quick', 0)
    op = case['op']
    replay_process_before(case)
    if op == 'bridge':
        routing = [tuple(r) for r in case['routing']]
        hdr, seq, payload = tuple(case['hdr']), case['seq'], lean.unhex(case['data'])
        print('encode_bridged_message(routing=%s, header=%s, seq=%d, payload=%s)' % (
            routing, dict(zip(FIELDS, hdr)), seq, case['data']))
        nth = case.get('nth', 0)
        if nth:
            print('  as request number %d through the same Target object' % (nth + 1))
        history = case.get('history')
        for path, form in history or []:
            print('  the same Target object was routed before (%s): %s' % (form, [tuple(r) for r in path]))
        real = real_bridge(routing, hdr, seq, payload, case.get('as_string', False), nth, history)
        print('  code : %s' % real)
        if real.startswith('ok '):
            print('  chain of %d specification bridges: %s' % (len(routing) - 1, drv.ask('peel %d %s' % (len(routing) - 1, real[3:]))))
        judge_bridge(c2, drv, routing, hdr, seq, payload, None, case.get('as_string', False), nth, history)
    elif op == 'two-targets':
        hdr, seq, payload = tuple(case['hdr']), case['seq'], lean.unhex(case['data'])
        for name, path, form in case['ops']:
            print('  Target %s: set_routing (%s) %s' % (name, form, [tuple(r) for r in path]))
        for name, (real, routing) in run_two_targets(case['ops'], hdr, seq, payload).items():
            print('  request through %s: %s' % (name, real))
        judge_two_targets(c2, drv, case['ops'], hdr, seq, payload)
    elif op == 'send':
        a, b, c, s, t = case['args']
        p = lean.unhex(case['data'])
        real = real_send(a, b, c, s, t, p)
        want = 'some %d:%d:%d:1:%d %s' % (b, a, c, s, lean.hexs(p))
        got = drv.ask('peel 1 ' + real[3:]) if real.startswith('ok ') else real
        print('encode_send_message%s -> %s ; a bridge sees %s, must see %s' % ((p, a, b, c, s, t), real, got, want))
        return got != want
    elif op == 'unwrap':
        frame = lean.unhex(case['frame'])
        verify = bool(case.get('verify')) and has_verify()
        print('decode_bridged_message(%s%s)' % (case['frame'], ', verify=True' if verify else ''))
        print('  code     : %s' % real_unwrap(frame, verify))
        print('  expected : %s' % case['expect'])
        judge_unwrap(c2, drv, frame, case['expect'], case['kind'], None, verify)
    elif op == 'i2c':
        sc = dict(case)
        sc['routing'] = [tuple(r) for r in case['routing']]
        hdr, payload = _i2c_req(sc)
        print('%s.%s, slave address %02xh, target.ipmb_address %02xh, target.routing %s' % (
            'IpmbDev' if sc['transport'] == 'ipmbdev' else 'Aardvark',
            'is_ipmc_accessible' if sc.get('probe') else 'send_and_receive_raw netFn %02xh cmd %02xh' % (sc['netfn'], sc['cmd']),
            sc['slave'], sc['target'], sc['routing'] or 'none'))
        for path, form in sc.get('history') or []:
            print('  the same Target object was routed before (%s): %s' % (form, [tuple(r) for r in path]))
        reply = drv.ask('mkreply %s %s' % (hs(hdr), sc['body']))
        r = real_i2c(sc, [['F', 2, reply]])
        print('  ready to be read on the local bus: %s (reply of whoever owns %02xh there)' % (reply, sc['target']))
        print('  written : %s' % ([lean.hexs(f) if f is not None else '?' for f in r['tx']] or 'nothing'))
        print('  result  : %s' % r['out'])
        judge_i2c(c2, drv, sc, check_model=False)
        for x in c2.violations:
            print('  expected %s' % x['expected'])
    elif op == 'transport':
        sc = dict(case)
        sc['routing'] = [tuple(r) for r in case['routing']]
        print('Rmcp.send_and_receive_raw netFn %02xh cmd %02xh, routing %s, %d bare acks%s then %s reply, max_retries %d' % (
            sc['netfn'], sc['cmd'], sc['routing'] or 'none (not bridged)', sc.get('acks', 0),
            (', late acknowledgement %s' % sc['late_ack']) if sc.get('late_ack') else '', sc['final'], sc['max_retries']))
        for path, form in sc.get('history') or []:
            print('  the same Target object was routed before (%s): %s' % (form, [tuple(r) for r in path]))
        judge_transport(c2, drv, sc, check_model=False)
        for x in c2.violations:
            print('  expected %s, observed %s' % (x['expected'], x['observed']))
    elif op == 'transport-retry':
        sc = dict(case)
        sc['routing'] = [tuple(r) for r in case['routing']]
        print('Rmcp(max_retries=%d).send_and_receive_raw netFn %02xh cmd %02xh, routing %s; %s; then answered: %d bare acks, %s reply' % (
            sc['max_retries'], sc['netfn'], sc['cmd'], sc['routing'] or 'none (not bridged)',
            ', '.join('attempt %d: %s' % (k + 1, FATE_TEXT[f]) for k, f in enumerate(sc['fates'])), sc.get('acks', 0), sc['final']))
        judge_transport_retry(c2, drv, sc, check_model=False, verbose=True)
        for x in c2.violations:
            print('  expected %s, observed %s' % (x['expected'], x['observed']))
    for x in c2.violations:
        print('  ' + x['what'])
    return bool(c2.violations)
