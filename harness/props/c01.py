"""C01 — Message codec is lossless for every defined IPMI message."""
from array import array

from .. import codec_common as cc
from ..lib import lean
from ..translate import registry, registry_lookup

ID = 'C01'
TARGETS = ['PyIpmi.Props.C01', 'drv_codec']
LEVEL = 'proof'
RULE = ('for every class of the live registry: Fits assignments (all-zero, all-max, per-field top bit, '
        'alternating maxima of adjacent bit-field members / fields, every prefix-closed optional pattern, '
        'boundary and seeded random values, variable lengths from the length field; and every field in turn at the '
        'boundary patterns of its width - 00.., FF.., 80 00.., 00..80, 7F FF.., FF..7F, 01 00.., 00..01, FE FF.., FF..FE - '
        'with every optional tail present, the other fields all-zero / all-ones) are set on the real object '
        'and sent to the Lean model; compared: encoded bytes, decoded values, re-encoded bytes; the real bytes are also '
        'judged against an encoder written from the layout alone (codec_common.encode_layout).  A case is '
        'distinct by (class, assignment) and non-trivial when the class has at least one field.  Histories on ONE '
        'message object: every generated assignment is also put on a long-lived instance of its class (re-assigned '
        'field by field, encoded, the bytes decoded back into that same instance; instance renewed every 6 cases); '
        'and for every class with a bit-field or an array-valued field, seeded histories of encode -> change -> '
        'encode where the change is made in every way a caller can: bit members through the BitWrapper, array '
        'fields in place (item / slice assignment, append, extend, pop, insert), plain attribute assignment, '
        'decode_message into the used object.  After every step the bytes of encode_message / pack_message on the '
        'used object must equal those of a FRESH instance carrying the same values (and the Lean model\'s), and '
        'decode back to them.  Completion codes 1..255 (outside Fits, Props/C01.nonok_cc_encoded_and_stops): for every '
        'response class with fields the real encode_message / pack_message are called with boundary codes '
        '(01h 7Fh 80h C0h C1h C9h CBh D5h FFh + seeded random) and, for a seeded sample of 8 classes (all of them in '
        'the thorough tier), with ALL 255 codes, the other fields carrying an in-range assignment; judged: first byte '
        '= the code, remaining bytes = those of the same assignment under code 0, decoding the bytes into a fresh '
        'object yields the code and the creation defaults of every later field; compared with the model.  Lookup '
        'side of the registry: for EVERY registered class registry[name], registry[(netfn, cmd, group)], '
        'create_message, create_request_by_name / create_response_by_name on its name stem (FooReq <-> FooRsp), '
        'create_response_message for requests, and the key set of the dict are observed and judged '
        '(Props/C01.registry_lookup over the regenerated Gen/RegistryLookup.lean).  INSTANCES ARE INDEPENDENT (real code '
        'only): for every class with fields three instances are constructed and ONE of them (the first / the last '
        'created; in the thorough tier also the middle one) is changed in 12 recorded stages - every array-valued field '
        'in place (item assignment at every position, extend, reverse), every member of every BitWrapper, plain '
        'assignment of a whole random / max / boundary assignment, decode_message into it, and the in-place stages '
        'again after the assignment and after the decode; after every stage the two untouched instances must read '
        '(field by field, by value) and encode (encode_message, pack_message) exactly as before the first stage, an '
        'instance constructed NOW exactly like one constructed before it, and no mutable attribute value of the '
        'changed instance may be the very same object as an attribute value of another instance or a member of a '
        'class-level field descriptor (identity, also on the fresh instances before any change).  Distinct by (class, '
        'editor, recorded stages).')
ASSUMPTIONS = [
    'model of msgs/message.py + utils.ByteBuffer is hand-written (lean/PyIpmi/Model/Codec.lean) and tied by this correspondence run',
    'layouts are regenerated from the live registry each run (Gen/Registry.lean); field classes whose encode/decode/create differ from the known base classes abort generation',
    'when generation aborts, the layouts are read structurally (base class + declared length, '
    'codec_common.structural_snapshot) and the real codec is still judged on all generated assignments against the '
    'round-trip law and the layout-derived wire format; only the model comparison is dropped',
    'round-trip theorem requires completion_code = 0 (a non-OK code stops decoding by design, see C02.cc_stops); for '
    'codes 1..255 the weaker nonok_cc_encoded_and_stops is proved and run (code encoded first, decoding stops at it)',
    'the model is a function of the field values only (a message object has no other state): histories on one real '
    'object are compared step by step with the model applied to the values the caller put last; a conditional field '
    'that is not on the wire has no value to compare after decode_message into a used object',
    'the Lean codec model is value-based: a message is the list of its field values and there is no aliasing between '
    'two messages or between a message and its class in it, so "the field values of one instance are its own" holds '
    'in the model by construction and is not a theorem; whether two real objects share a mutable value (array, '
    'BitWrapper) with each other or with the class-level __fields__ descriptors is judged on the real code only, by '
    'the instances stream (identity of attribute values + observation of the untouched instances after in-place edits)',
]
TRUSTED = ['harness/translate/registry.py', 'harness/translate/registry_lookup.py', 'harness/codec_common.py']

_snap = None
_structural = False     # the translator failed closed: layouts read structurally, real code judged without the model


def _structural_snapshot(ctx):
    global _snap, _structural
    _snap, why = cc.structural_snapshot()
    _structural = True
    ctx.notes.append('translator failed closed (%s): the real codec is judged on assignments of the declared '
                     'layouts against the round-trip law and the layout-derived wire format, without model '
                     'comparison' % '; '.join(why[:3]))


def translate(ctx):
    global _snap
    try:
        _snap = registry.generate()
    except lean.TieBroken:
        _structural_snapshot(ctx)
        raise
    registry_lookup.generate(_snap)


def _cases(fields, rng, tier):
    n_opt = sum(1 for f in fields if f.wrap == 'optional')
    out = []
    for mode in ('zero', 'max', 'alt0', 'alt1', 'top'):
        for k in sorted(set([0, n_opt])):
            out.append((mode, cc.assignment(fields, rng, mode, k)))
    for k in range(n_opt + 1):
        out.append(('opt%d' % k, cc.assignment(fields, rng, 'boundary', k)))
    n_rand = 24 if tier == 'quick' else 400
    for i in range(n_rand):
        out.append(('random' if i % 3 else 'boundary', cc.assignment(fields, rng, 'random' if i % 3 else 'boundary')))
    # every field in turn at the boundary patterns of its width (00.., FF.., 80 00.., 7F FF.., 01 .. in both byte
    # orders), all optional tails present, the other fields all-zero / all-ones
    for label, vals, _data in cc.boundary_encodings(fields, rng):
        out.append(('layout-boundary', vals))
    return out


def _layout(fields):
    """fingerprint of a class layout: a recorded assignment is an assignment of THIS layout only"""
    return ['%s:%s:%s%s' % (f.name, f.wrap, ','.join(str(x) for x in f.prim[:2] if not isinstance(x, list)),
                            '/' + '.'.join(str(w) for w in f.prim[2]) if f.prim[0] == 'bits' else '')
            for f in fields]


def _judge(ctx, idx, cls, info, mode, vals, model_enc, model_dec_of):
    """Compare real code with model (tie) and with the round-trip law (property)."""
    fields = info['fields']
    name = info['name']
    case = {'class': name, 'mode': mode, 'values': [cc.show(v) for v in vals], 'layout': _layout(fields)}
    real = cc.encode_real(cls, fields, vals)
    # --- tie: encoded bytes
    m = model_enc
    if real[0] == 'ok':
        code_s = 'ok ' + lean.hexs(real[1])
    else:
        code_s = cc.model_tag(real[0])
    if m is None or (m.startswith('py:') and code_s.startswith('py:')):
        pass
    elif m != code_s:
        ctx.disagree('encode', case, m, code_s)
    # --- property, wire-format clause, judged against the encoder written from the layout alone (declared
    # order, little-endian, LSB-first bit members): independent of the model, so it also works without it
    if real[0] == 'ok':
        want = cc.encode_layout(fields, vals)
        if real[1] != want:
            ctx.violate('C01:wire-format:%s' % name,
                        'encoded bytes of %s differ from the declared-order / little-endian / LSB-first wire format'
                        % name, case, expected='ok ' + lean.hexs(want), observed=code_s)
    if real[0] != 'ok':
        ctx.violate('C01:encode-raises:%s' % name,
                    'encoding %s with in-range values raises %s' % (name, real[0]), case,
                    expected='bytes', observed=real[0])
        return
    data = real[1]
    # --- the second public encoder (pack_message -> array) must produce the same bytes
    try:
        from pyipmi.msgs.message import pack_message
        obj = cls()
        cc.set_values(obj, fields, vals)
        packed = bytes(bytearray(pack_message(obj)))
    except Exception as e:  # noqa
        packed = type(e).__name__
    if packed != data:
        ctx.violate('C01:pack-vs-encode:%s' % name,
                    'pack_message and encode_message disagree for %s' % name, case,
                    expected=lean.hexs(data), observed=packed if isinstance(packed, str) else lean.hexs(packed))
    # --- property: decode(encode(x)) = x and re-encode = bytes, on the real code
    dec = cc.decode_real(cls, fields, data)
    if dec[0] != 'ok':
        ctx.violate('C01:roundtrip-decode-raises:%s' % name,
                    'decoding the encoding of %s raises %s' % (name, dec[0]), case,
                    expected='decoded values', observed=dec[0])
        return
    if dec[1] != vals:
        bad = [fields[i].name for i in range(len(vals)) if dec[1][i] != vals[i]]
        ctx.violate('C01:roundtrip-values:%s' % name,
                    'decode(encode(x)) differs from x in fields %s of %s' % (bad, name), case,
                    expected=[cc.show(v) for v in vals], observed=[cc.show(v) for v in dec[1]])
        return
    from pyipmi.msgs.message import encode_message
    try:
        again = bytes(bytearray(encode_message(dec[2])))
    except Exception as e:  # noqa
        again = type(e).__name__
    if again != data:
        ctx.violate('C01:reencode:%s' % name, 're-encoding the decoded %s gives different bytes' % name, case,
                    expected=lean.hexs(data), observed=again if isinstance(again, str) else lean.hexs(again))
    # --- tie: decoded values (model decodes the model's bytes; same bytes if the tie held)
    md = model_dec_of
    if md is not None:
        want = 'ok 0 ' + ' '.join(cc.show(v) for v in dec[1])
        if md.strip() != want.strip():
            ctx.disagree('decode', case, md, want)


# ---------------------------------------------------------------------------------------
# histories on ONE message object (encode -> change -> encode ...)
#
# An op is a JSON list; the same op is applied to the real object (_h_real) and to the
# canonical values (_h_canon), so a replay needs nothing but the ops:
#   ['set', i, tok]            setattr(obj, field_i, value)            (None / int / bytes / array('B'))
#   ['bit', i, k, v]           setattr(obj.field_i, member_k, v)       (through the per-instance BitWrapper)
#   ['item', i, pos, v]        obj.field_i[pos] = v                    (in place)
#   ['slice', i, a, b, hex]    obj.field_i[a:b] = array('B', bytes)    (in place; also deletes)
#   ['append', i, v] ['extend', i, hex] ['pop', i] ['insert', i, pos, v]
#   ['decode', [toks]]         decode_message(obj, encode_message(fresh object carrying toks))
#                              (the bytes are produced when the op is executed, by the tree under test:
#                               decode(encode(x)) into a USED object must leave it with x)
# ---------------------------------------------------------------------------------------
ARR = ('bytes', 'varBytes', 'remaining')
RENEW = 6          # the long-lived instance of the assignment stream is renewed every RENEW cases


class _Abort(Exception):
    """the fresh encoder fails on the values of a decode step: nothing to decode (the assignment stream reports it)"""


def _h_real(obj, fields, op):
    from pyipmi.msgs.message import decode_message
    k = op[0]
    if k == 'decode':
        real = cc.encode_real(type(obj), fields, [cc.parse(t) for t in op[1]])
        if real[0] != 'ok':
            raise _Abort()
        decode_message(obj, real[1])
        return
    f = fields[op[1]]
    if k == 'set':
        v = cc.parse(op[2])
        if v[0] == 'none':
            setattr(obj, f.name, None)
        elif v[0] == 'int':
            setattr(obj, f.name, v[1])
        elif f.prim[0] == 'str':
            setattr(obj, f.name, bytes(v[1]))
        else:
            setattr(obj, f.name, array('B', v[1]))
        return
    if k == 'bit':
        setattr(getattr(obj, f.name), f.prim[3][op[2]], op[3])
        return
    a = getattr(obj, f.name)
    if k == 'item':
        a[op[2]] = op[3]
    elif k == 'slice':
        a[op[2]:op[3]] = array('B', lean.unhex(op[4]))
    elif k == 'append':
        a.append(op[2])
    elif k == 'extend':
        a.extend(array('B', lean.unhex(op[2])))
    elif k == 'pop':
        a.pop()
    elif k == 'insert':
        a.insert(op[2], op[3])
    elif k == 'reverse':
        a.reverse()
    else:
        raise ValueError(op)


def _h_canon(vals, fields, op):
    k = op[0]
    if k == 'decode':
        return [cc.parse(t) for t in op[1]]
    vals = list(vals)
    i = op[1]
    if k == 'set':
        vals[i] = cc.parse(op[2])
        return vals
    if k == 'bit':
        b = list(vals[i][1])
        b[op[2]] = op[3]
        vals[i] = ('bits', b)
        return vals
    a = bytearray(vals[i][1])
    if k == 'item':
        a[op[2]] = op[3]
    elif k == 'slice':
        a[op[2]:op[3]] = lean.unhex(op[4])
    elif k == 'append':
        a.append(op[2])
    elif k == 'extend':
        a.extend(lean.unhex(op[2]))
    elif k == 'pop':
        a.pop()
    elif k == 'insert':
        a.insert(op[2], op[3])
    elif k == 'reverse':
        a.reverse()
    else:
        raise ValueError(op)
    vals[i] = ('arr', bytes(a))
    return vals


def _cond_atoms(c):
    if c is None:
        return []
    if c[0] in ('bitEq', 'intEq'):
        return [c]
    return _cond_atoms(c[1]) + _cond_atoms(c[2])


def _arr_inplace_ops(rng, i, a, b):
    """ops that turn the array object holding `a` into one holding `b` without re-binding the attribute"""
    ops = []
    if len(b) < len(a):
        if len(a) - len(b) <= 2 and rng.random() < 0.5:
            ops += [['pop', i] for _ in range(len(a) - len(b))]
        else:
            ops.append(['slice', i, len(b), len(a), '-'])
    n = min(len(a), len(b))
    diff = [p for p in range(n) if a[p] != b[p]]
    if len(diff) > 3 and rng.random() < 0.5:
        ops.append(['slice', i, 0, n, lean.hexs(b[:n])])
    else:
        ops += [['item', i, p, b[p]] for p in diff]
    if len(b) > len(a):
        tail = b[len(a):]
        r = rng.random()
        if len(tail) <= 2 and r < 0.4:
            ops += [['append', i, x] for x in tail]
        elif len(tail) == 1 and r < 0.6:
            ops.append(['insert', i, len(a), tail[0]])
        else:
            ops.append(['extend', i, lean.hexs(tail)])
    return ops


def _inplace_candidates(obj, fields, vals):
    cond_bits = set((c[1], c[2]) for f in fields for c in _cond_atoms(f.cond) if c[0] == 'bitEq')
    cands = []
    for i, f in enumerate(fields):
        if vals[i][0] == 'none':
            continue
        x = getattr(obj, f.name, None)
        if f.prim[0] == 'bits':
            ks = [k for k, w in enumerate(f.prim[2]) if w > 0 and (i, k) not in cond_bits]
            if ks and x is not None:
                cands.append((i, ks))
        elif f.prim[0] in ARR and isinstance(x, array) and (f.prim[0] == 'remaining' or len(x) > 0):
            cands.append((i, None))
    return cands


def _inplace_step(rng, obj, fields, vals):
    """changes that assign NO attribute of the message: only members of field objects change"""
    cands = _inplace_candidates(obj, fields, vals)
    if not cands:
        return None
    ops = []
    for i, ks in rng.sample(cands, rng.randrange(1, min(3, len(cands)) + 1)):
        f = fields[i]
        if ks is not None:
            for k in rng.sample(ks, rng.randrange(1, len(ks) + 1)):
                top = (1 << f.prim[2][k]) - 1
                cur = vals[i][1][k]
                v = rng.choice([x for x in set([0, 1, top, top - 1, cur ^ 1, rng.randrange(top + 1)])
                                if 0 <= x <= top and x != cur])
                ops.append(['bit', i, k, v])
            continue
        a = bytes(vals[i][1])
        if f.prim[0] == 'remaining':
            r = rng.random()
            if r < 0.3 and a:
                new = bytearray(a)
                for p in rng.sample(range(len(a)), rng.randrange(1, min(4, len(a)) + 1)):
                    new[p] = (new[p] + rng.randrange(1, 256)) % 256
                new = bytes(new)
            elif r < 0.6:
                new = a + bytes(rng.randrange(256) for _ in range(rng.choice((1, 1, 2, 5))))
            elif r < 0.8 and len(a) > 1:
                new = a[:rng.randrange(1 if f.wrap == 'optional' else 0, len(a))]
            else:
                new = bytes(rng.randrange(256) for _ in range(rng.randrange(1, 12)))
            if new == a:
                new = a + b'\xaa'
        else:
            new = bytearray(a)
            for p in rng.sample(range(len(a)), rng.randrange(1, min(4, len(a)) + 1)):
                new[p] = (new[p] + rng.randrange(1, 256)) % 256
            new = bytes(new)
        ops += _arr_inplace_ops(rng, i, a, new)
    return ops


def _assign_step(rng, obj, fields, vals, new, p_inplace):
    """move the object from `vals` to the complete assignment `new`: attributes are assigned, bit
    members go through the wrapper, arrays are (with probability p_inplace) changed in place"""
    ops = []
    for i, f in enumerate(fields):
        cur, nv = vals[i], new[i]
        x = getattr(obj, f.name, None)
        if nv[0] == 'none':
            if cur[0] != 'none' or x is not None:
                ops.append(['set', i, 'n'])
        elif f.prim[0] == 'bits':
            ops += [['bit', i, k, v] for k, v in enumerate(nv[1]) if cur[0] != 'bits' or cur[1][k] != v]
        elif nv[0] == 'arr' and f.prim[0] in ARR and cur[0] == 'arr' and isinstance(x, array) \
                and bytes(bytearray(x)) == bytes(cur[1]) and rng.random() < p_inplace:
            ops += _arr_inplace_ops(rng, i, bytes(cur[1]), bytes(nv[1]))
        elif cur != nv or rng.random() < 0.3 or p_inplace == 0 or f.wrap == 'cond':
            ops.append(['set', i, cc.show(nv)])
    return ops


def _h_observe(obj, fields, after_decode):
    """what the two public encoders say about the used object (+ the values it holds after a decode)"""
    from pyipmi.msgs.message import encode_message, pack_message
    try:
        enc = ('ok', bytes(bytearray(encode_message(obj))))
    except Exception as e:  # noqa
        enc = (type(e).__name__,)
    try:
        pk = ('ok', bytes(bytearray(pack_message(obj))))
    except Exception as e:  # noqa
        pk = (type(e).__name__,)
    held = None
    if after_decode:
        try:
            held = cc.get_values(obj, fields)
        except Exception as e:  # noqa
            held = type(e).__name__
    return enc, pk, held


def _h_run(cls, fields, init, steps):
    """execute a history on one real object; returns [(kind, vals, enc, pk, held, op_error)] per step
    (step 0 = the initial assignment)"""
    obj = cls()
    vals = None
    out = []
    if init is None:
        vals = cc.get_values(obj, fields)
    else:
        vals = [cc.parse(t) for t in init]
        cc.set_values(obj, fields, vals)
    enc, pk, held = _h_observe(obj, fields, False)
    out.append(('init', vals, enc, pk, held, None))
    for st in steps:
        err = None
        for op in st['ops']:
            try:
                vals = _h_canon(vals, fields, op)
            except (IndexError, KeyError, TypeError):
                # the recorded ops do not fit the values any more: the process state the history was generated in is
                # not the one it runs in (a tree on which instances share state; the instances stream reports that)
                return out, obj
            if err is None:
                try:
                    _h_real(obj, fields, op)
                except _Abort:
                    return out, obj
                except Exception as e:  # noqa
                    err = '%s in %s' % (type(e).__name__, op[0])
        enc, pk, held = _h_observe(obj, fields, st['kind'] == 'decode')
        out.append((st['kind'], vals, enc, pk, held, err))
    return out, obj


def _show_out(o):
    return lean.hexs(o[1]) if o[0] == 'ok' else o[0]


def _judge_history_step(ctx, cls, info, case, rec, model=None, verbose=False):
    """one step of a history: the used object against a fresh one carrying the same values"""
    kind, vals, enc, pk, held, err = rec
    fields, name = info['fields'], info['name']
    fresh = cc.encode_real(cls, fields, vals)
    if verbose:
        print('  step %-8s values %s' % (kind, ' '.join(cc.show(v) for v in vals)))
        print('      used object : %s%s' % (_show_out(enc), '  (%s)' % err if err else ''))
        print('      fresh object: %s' % _show_out(fresh))
    if fresh[0] != 'ok':
        ctx.count('history:fresh-encode-raises')      # reported by the assignment stream on fresh objects
        return True
    if model is not None and model != 'ok ' + lean.hexs(fresh[1]):
        if not model.startswith('py:'):
            ctx.disagree('history-encode', case, model, 'ok ' + lean.hexs(fresh[1]))
    ok = True
    if err is not None:
        ctx.violate('C01:history:change-raises:%s' % name,
                    'changing a field of a used %s object raises %s' % (name, err), case,
                    expected='the change is applied', observed=err)
        return False
    if enc != fresh:
        ctx.violate('C01:history:encode-after-%s:%s' % (kind, name),
                    'encode_message on a used %s object (after %s) differs from the encoding of a fresh object '
                    'carrying the same field values' % (name, kind), case,
                    expected=lean.hexs(fresh[1]), observed=_show_out(enc))
        ok = False
    if pk != fresh:
        ctx.violate('C01:history:pack-after-%s:%s' % (kind, name),
                    'pack_message on a used %s object (after %s) differs from the encoding of a fresh object '
                    'carrying the same field values' % (name, kind), case,
                    expected=lean.hexs(fresh[1]), observed=_show_out(pk))
        ok = False
    if held is not None and not isinstance(held, str):
        # a conditional field that is not on the wire has no value to compare (decode leaves the attribute alone)
        held = [v if (f.wrap == 'cond' and not cc.eval_cond(f.cond, vals)) else h
                for f, v, h in zip(fields, vals, held)]
    if held is not None and held != vals:
        ctx.violate('C01:history:decode-into-used-object:%s' % name,
                    'decode_message into a used %s object does not leave it with the decoded values' % name, case,
                    expected=[cc.show(v) for v in vals],
                    observed=held if isinstance(held, str) else [cc.show(v) for v in held])
        ok = False
    if ok:
        dec = cc.decode_real(cls, fields, enc[1])
        if dec[0] != 'ok' or dec[1] != vals:
            ctx.violate('C01:history:roundtrip-after-%s:%s' % (kind, name),
                        'the bytes encoded from a used %s object do not decode back to its field values' % name, case,
                        expected=[cc.show(v) for v in vals],
                        observed=dec[0] if dec[0] != 'ok' else [cc.show(v) for v in dec[1]])
            ok = False
    return ok


def _gen_history(rng, cls, fields, init_vals, kinds, fresh_start=False):
    """generate (while executing, to see which attribute objects exist) one history; returns
    (init tokens or None, steps)"""
    obj = cls()
    if fresh_start:
        vals = cc.get_values(obj, fields)
        init = None
    else:
        vals = list(init_vals)
        cc.set_values(obj, fields, vals)
        init = [cc.show(v) for v in vals]
    steps = []
    from pyipmi.msgs.message import encode_message
    for kind in kinds:
        try:
            encode_message(obj)           # the encode BEFORE the change is what fills a cache, if there is one
        except Exception:  # noqa
            pass
        ops = None
        if kind == 'inplace':
            ops = _inplace_step(rng, obj, fields, vals)
            if ops is None:
                kind = 'mixed'
        if kind in ('mixed', 'assign'):
            new = cc.assignment(fields, rng, rng.choice(('boundary', 'random', 'max', 'zero')))
            ops = _assign_step(rng, obj, fields, vals, new, 0.7 if kind == 'mixed' else 0)
        if kind == 'decode':
            new = cc.assignment(fields, rng, rng.choice(('boundary', 'random')))
            if cc.encode_real(cls, fields, new)[0] != 'ok':
                continue
            ops = [['decode', [cc.show(v) for v in new]]]
        if not ops:
            continue
        for op in ops:
            vals = _h_canon(vals, fields, op)
            try:
                _h_real(obj, fields, op)
            except Exception:  # noqa  (judged when the history is run)
                pass
        steps.append({'kind': kind, 'ops': ops})
    return init, steps


def _run_histories(ctx, drv, rng, idx, cls, info, cases):
    fields, name = info['fields'], info['name']
    hists = []          # (tag, init, steps)
    # (a) every generated assignment on a long-lived instance: re-assign, encode, decode the bytes back into it
    for k in range(0, len(cases), RENEW):
        chunk = cases[k:k + RENEW]
        obj = cls()
        vals = list(chunk[0][1])
        cc.set_values(obj, fields, vals)
        steps = []
        for j, (_, new) in enumerate(chunk[1:]):
            ops = _assign_step(rng, obj, fields, vals, new, 0)
            for op in ops:
                vals = _h_canon(vals, fields, op)
                try:
                    _h_real(obj, fields, op)
                except Exception:  # noqa
                    pass
            steps.append({'kind': 'assign', 'ops': ops})
            if j % 2 == 0:
                if cc.encode_real(cls, fields, new)[0] == 'ok':
                    op = ['decode', [cc.show(v) for v in new]]
                    try:
                        _h_real(obj, fields, op)
                    except Exception:  # noqa
                        pass
                    steps.append({'kind': 'decode', 'ops': [op]})
        hists.append(('long-lived', [cc.show(v) for v in chunk[0][1]], steps))
    # (b) encode -> change -> encode histories for classes whose fields can change without an assignment
    if any(f.prim[0] == 'bits' or f.prim[0] in ARR for f in fields):
        n_h, n_s = (5, 6) if ctx.tier == 'quick' else (60, 8)
        for h in range(n_h):
            if h == 0:
                kinds = ['inplace', 'inplace', 'decode', 'inplace', 'mixed', 'inplace']
            else:
                kinds = [rng.choice(('inplace', 'inplace', 'mixed', 'decode', 'assign')) for _ in range(n_s)]
            start = cc.assignment(fields, rng, ('zero', 'max', 'boundary', 'random')[h % 4])
            init, steps = _gen_history(rng, cls, fields, start, kinds, fresh_start=(h == 1))
            hists.append(('change', init, steps))
    # execute, ask the model for every step, judge
    recs = []
    for tag, init, steps in hists:
        out, _ = _h_run(cls, fields, init, steps)
        for k, rec in enumerate(out):
            if tag == 'long-lived' and k == 0:
                continue
            if init is None and k == 0:
                # the defaults of a fresh object need not be an in-range assignment (e.g. '' for a 16-byte string)
                d = cc.decode_real(cls, fields, rec[2][1]) if rec[2][0] == 'ok' else ('x',)
                if d[0] != 'ok' or d[1] != rec[1]:
                    break
            recs.append((tag, {'class': name, 'op': 'history', 'init': init, 'steps': steps[:k], 'judged': k,
                               'layout': _layout(fields)}, rec))
    if drv is not None:
        models = drv.ask_many(['enc %d %s' % (idx, ' '.join(cc.show(v) for v in rec[1])) for _, _, rec in recs])
    else:
        models = [None] * len(recs)
    for (tag, case, rec), m in zip(recs, models):
        ctx.case((name, 'history', tag, repr(case['init']), repr(case['steps'])))
        ctx.count('history:%s:%s' % (tag, rec[0]))
        for st in case['steps'][-1:]:
            for op in st['ops']:
                ctx.count('history-op:' + op[0])
        _judge_history_step(ctx, cls, info, case, rec, m)


# ---------------------------------------------------------------------------------------
# instances are independent: the field values of one message object are its own
#
# Three instances of a class are created; ONE of them (the editor: the first / the last created, in the thorough
# tier also the middle one) is changed stage by stage in every way a caller can change a field value without
# touching another object - array fields IN PLACE (item assignment, extend, reverse), BitWrapper members, plain
# attribute assignment, decode_message into it - and after every stage
#   * the other two instances must read and encode exactly as before the first stage,
#   * an instance constructed NOW must read and encode exactly as one constructed before the first stage,
#   * no mutable attribute value of the editor may be the very same object as an attribute value of another
#     instance or as a member of a class-level field descriptor (__fields__ is shared by all instances).
# A stage is a JSON list of the ops of the history streams (+ ['reverse', i]), generated while executing (the ops
# depend on what the editor holds) and recorded, so that a replay needs nothing but the case.
# The Lean codec model is a function of field VALUES; aliasing between Python objects has no counterpart there:
# this stream is judged on the real code only.
# ---------------------------------------------------------------------------------------
I_PLAN = ('item', 'extend', 'reverse', 'bits', 'assign', 'item', 'reverse', 'bits', 'decode', 'item', 'extend', 'bits')
I_GROUP = {'item': 'inplace-edit', 'extend': 'inplace-edit', 'reverse': 'inplace-edit', 'bits': 'inplace-edit',
           'assign': 'assignment', 'decode': 'decode'}
_IMMUTABLE = (int, float, complex, str, bytes, bool, type(None), frozenset, type)


def _immutable(x):
    return isinstance(x, _IMMUTABLE) or (isinstance(x, tuple) and all(_immutable(y) for y in x))


def _i_tok(x, f):
    if x is None:
        return 'n'
    if f.prim[0] == 'bits' and hasattr(x, '_bits'):
        return 'b' + ','.join(str(getattr(x, bn, '?')) for bn in f.prim[3])
    if isinstance(x, int):
        return 'i%d' % x
    if isinstance(x, array):
        return 'a' + lean.hexs(bytes(bytearray(x)))
    if isinstance(x, str):
        return 's' + repr(x)
    if isinstance(x, (bytes, bytearray)):
        return 'y' + lean.hexs(bytes(x))
    return '%s:%s' % (type(x).__name__, repr(x)[:40])


def _i_observe(obj, fields):
    """what an instance reads and encodes like, by VALUE"""
    enc, pk, _ = _h_observe(obj, fields, False)
    return {'values': [_i_tok(getattr(obj, f.name, 'missing'), f) for f in fields],
            'encode': _show_out(enc), 'pack': _show_out(pk)}


def _descriptors(cls):
    out = []
    for d in getattr(cls, '__fields__', ()) or ():
        seen = 0
        while d is not None and seen < 4:
            out.append(d)
            d = vars(d).get('_field') if hasattr(d, '__dict__') else None
            seen += 1
    return out


def _i_shared(objs, r, cls):
    """mutable attribute values of objs[r] that are the same OBJECT as an attribute value of another instance or
    as a member of a class-level field descriptor -> ['key is the object instance 1 holds as key', ...]"""
    out = []
    mine = dict((k, v) for k, v in vars(objs[r]).items() if not _immutable(v))
    for k, v in sorted(mine.items()):
        for j, o in enumerate(objs):
            if j != r:
                for k2, v2 in vars(o).items():
                    if v2 is v:
                        out.append('%s is the very object instance %d holds as %s (%s)' % (k, j, k2, type(v).__name__))
        for d in _descriptors(cls):
            for k2, v2 in (vars(d).items() if hasattr(d, '__dict__') else ()):
                if v2 is v:
                    out.append('%s is the very object the class-level descriptor %s(%r) holds as %s (%s)' % (
                        k, type(d).__name__, getattr(d, 'name', '?'), k2, type(v).__name__))
    return out


def _i_gen_stage(rng, kind, cls, obj, fields):
    ops = []
    if kind == 'assign':
        new = cc.assignment(fields, rng, rng.choice(('random', 'max', 'boundary')))
        for i, f in enumerate(fields):
            if new[i][0] == 'bits':
                if getattr(obj, f.name, None) is not None:
                    ops += [['bit', i, k, v] for k, v in enumerate(new[i][1]) if f.prim[2][k] > 0]
            elif f.prim[0] != 'cc':
                ops.append(['set', i, cc.show(new[i])])
        return ops
    if kind == 'decode':
        new = cc.assignment(fields, rng, rng.choice(('boundary', 'random', 'max')))
        if cc.encode_real(cls, fields, new)[0] == 'ok':
            ops.append(['decode', [cc.show(v) for v in new]])
        return ops
    for i, f in enumerate(fields):
        x = getattr(obj, f.name, None)
        if kind == 'bits':
            if f.prim[0] == 'bits' and x is not None and hasattr(x, '_bits'):
                for k, w in enumerate(f.prim[2]):
                    if w > 0:
                        cur = getattr(x, f.prim[3][k], 0)
                        top = (1 << w) - 1
                        ops.append(['bit', i, k, top - ((cur if isinstance(cur, int) else 0) & top)])
            continue
        if not (isinstance(x, array) and x.typecode == 'B'):
            continue
        if kind == 'item':
            pos = list(range(len(x))) if len(x) <= 8 else sorted(set([0, len(x) - 1] + rng.sample(range(len(x)), 6)))
            for p in pos:
                ops.append(['item', i, p, x[p] ^ (0xff if p == 0 else rng.randrange(1, 256))])
        elif kind == 'extend':
            ops.append(['extend', i, lean.hexs(bytes(rng.randrange(256) for _ in range(rng.choice((1, 2, 3)))))])
        elif kind == 'reverse' and len(x) >= 2:
            if list(x) == list(reversed(x)):
                ops.append(['item', i, 0, x[0] ^ 0x5a])
            ops.append(['reverse', i])
    return ops


def _i_exec(cls, fields, role, stages=None, rng=None):
    """run (and, when `stages` is None, generate) the scenario.  -> dict(stages, fresh, before, steps) where
    steps[k] = {'kind', 'ops', 'errors', 'others': [observation of every non-editor], 'later': observation of an
    instance constructed after stage k, 'shared': [...]}; index 0 of `steps` is the state before any edit."""
    objs = [cls(), cls(), cls()]
    fresh = [_i_observe(o, fields) for o in objs]
    others = [j for j in range(3) if j != role]
    steps = [{'kind': 'fresh', 'ops': [], 'errors': [], 'others': [fresh[j] for j in others], 'later': fresh[role],
              'shared': _i_shared(objs, role, cls)}]
    out_stages = []
    plan = [st['kind'] for st in stages] if stages is not None else list(I_PLAN)
    from pyipmi.msgs.message import encode_message
    for n, kind in enumerate(plan):
        try:
            encode_message(objs[role])      # the encode BEFORE the change is what fills a cache, if there is one
        except Exception:  # noqa
            pass
        ops = stages[n]['ops'] if stages is not None else _i_gen_stage(rng, kind, cls, objs[role], fields)
        if not ops:
            continue
        errors = []
        for op in ops:
            try:
                _h_real(objs[role], fields, op)
            except _Abort:
                errors.append('fresh encoder fails on the values of the decode step')
            except Exception as e:  # noqa  (the editor itself is judged by the history streams)
                errors.append('%s in %s' % (type(e).__name__, op[0]))
        later = cls()
        out_stages.append({'kind': kind, 'ops': ops})
        steps.append({'kind': kind, 'ops': ops, 'errors': errors, 'others': [_i_observe(objs[j], fields) for j in others],
                      'later': _i_observe(later, fields), 'shared': _i_shared(objs + [later], role, cls)})
    return {'stages': out_stages, 'fresh': fresh, 'others': others, 'steps': steps}


def _obs_diff(a, b, fields):
    for k in ('values', 'encode', 'pack'):
        if a[k] != b[k]:
            if k == 'values':
                bad = [i for i in range(len(fields)) if a[k][i] != b[k][i]]
                return ('field values %s' % [fields[i].name for i in bad], [a[k][i] for i in bad], [b[k][i] for i in bad])
            return ('%s_message' % k, a[k], b[k])
    return None


def _i_judge(ctx, cls, info, role, res, verbose=False):
    """first finding of the scenario (later stages only repeat it)"""
    fields, name = info['fields'], info['name']
    base = {'class': name, 'op': 'instances', 'role': role, 'layout': _layout(fields)}
    fresh = res['fresh']
    shared_reported = False
    if verbose:
        print('  three instances; instance %d is the one that is changed' % role)
        print('  fresh instance : values %s -> %s' % (' '.join(fresh[0]['values']), fresh[0]['encode']))
    for j in (1, 2):
        d = _obs_diff(fresh[0], fresh[j], fields)
        if d is not None:
            ctx.violate('C01:instances:fresh-instances-differ:%s' % name,
                        'two instances of %s constructed one after the other differ in %s' % (name, d[0]),
                        dict(base, stages=[]), expected=d[1], observed=d[2])
            return False
    for k, st in enumerate(res['steps']):
        case = dict(base, stages=res['stages'][:k])
        if verbose and k:
            print('  stage %d %-8s %s%s' % (k, st['kind'], ' ; '.join(
                ' '.join(' '.join(x) if isinstance(x, list) else str(x) for x in op) for op in st['ops'])[:200],
                '  (%s)' % ', '.join(st['errors']) if st['errors'] else ''))
            for j, o in zip(res['others'], st['others']):
                print('      instance %d (untouched)     : values %s -> %s' % (j, ' '.join(o['values']), o['encode']))
            print('      instance constructed now   : values %s -> %s' % (' '.join(st['later']['values']), st['later']['encode']))
        if verbose:
            for x in st['shared']:
                print('      SHARED: ' + x)
        if st['shared'] and k == 0:
            shared_reported = True
            ctx.violate('C01:instances:shared-object:%s' % name,
                        'a fresh instance of %s: %s - a change made to it in place is a change of both' % (name, st['shared'][0]),
                        case, expected='every instance holds field value objects of its own', observed=st['shared'][:4])
            continue            # go on: the stages show what the shared object does to the other instances
        for j, o in zip(res['others'], st['others']):
            d = _obs_diff(fresh[j], o, fields)
            if d is not None:
                ctx.violate('C01:instances:%s-leaks:%s' % (I_GROUP.get(st['kind'], st['kind']), name),
                            'changing instance %d of %s (%s) changes %s of instance %d, which was constructed %s and never '
                            'touched' % (role, name, st['kind'], d[0], j, 'before it' if j < role else 'after it'),
                            case, expected=d[1], observed=d[2])
                return False
        d = _obs_diff(fresh[0], st['later'], fields)
        if d is not None:
            ctx.violate('C01:instances:%s-leaks:%s' % (I_GROUP.get(st['kind'], st['kind']), name),
                        'after changing one instance of %s (%s) a newly constructed instance differs in %s from one '
                        'constructed before the change' % (name, st['kind'], d[0]),
                        case, expected=d[1], observed=d[2])
            return False
        if st['shared'] and not shared_reported:
            ctx.violate('C01:instances:shared-object:%s' % name,
                        'after %s on one instance of %s: %s - a change made to it in place is a change of both' % (
                            st['kind'], name, st['shared'][0]),
                        case, expected='every instance holds field value objects of its own', observed=st['shared'][:4])
            return False
    return not shared_reported


def _run_instances(ctx, rng, cls, info):
    fields, name = info['fields'], info['name']
    for role in ((0, 2) if ctx.tier == 'quick' else (0, 1, 2)):
        res = _i_exec(cls, fields, role, None, rng)
        ctx.case((name, 'instances', role, repr(res['stages'])))
        ctx.count('instances:editor=%s' % ('first-created', 'middle', 'last-created')[role])
        for st in res['stages']:
            ctx.count('instances:stage:' + st['kind'])
            for op in st['ops']:
                ctx.count('instances-op:' + op[0])
        ctx.count('instances:observations', 3 * len(res['steps']))
        if not _i_judge(ctx, cls, info, role, res):
            break       # class-level state may be changed for the rest of this process: one replay is enough


def _registry_facts(ctx, snap):
    """Python-side oracle for the construction and pairing clauses (used for replays)."""
    by_id = {}
    for cls, info in snap:
        by_id.setdefault((info['netfn'], info['cmd'], info['group']), []).append(info['name'])
        if info['malformed']:
            ctx.violate('C01:construct:%s' % info['name'],
                        'message class %s cannot be constructed (%s)' % (info['name'], info['malformed']),
                        {'class': info['name'], 'op': 'construct'},
                        expected='cls() succeeds', observed=info['malformed'])
    for cls, info in snap:
        nf = info['netfn']
        other = (nf + 1, info['cmd'], info['group']) if nf % 2 == 0 else (nf - 1, info['cmd'], info['group'])
        if len(by_id.get(other, [])) != 1:
            ctx.violate('C01:pairing:%s' % info['name'],
                        '%s has %d counterparts registered under netfn %d cmd %d group %s' % (
                            info['name'], len(by_id.get(other, [])), other[0], other[1], other[2]),
                        {'class': info['name'], 'op': 'pairing'},
                        expected='exactly one counterpart', observed=by_id.get(other, []))
        ctx.case(('pair', info['name']), nontrivial=False)


# ---------------------------------------------------------------------------------------
# completion codes 1..255 (Props/C01.nonok_cc_encoded_and_stops)
# ---------------------------------------------------------------------------------------
CC_BOUNDARY = (0x01, 0x7f, 0x80, 0xc0, 0xc1, 0xc9, 0xcb, 0xd5, 0xff)
CC_FULL_CLASSES = 8        # quick tier: classes that get all 255 codes (seeded sample)


def _refs_field0(fields):
    """does a length function / predicate read field 0?  (then an assignment made under code 0 is not
    an assignment under code c; no class of the registry does this)"""
    for f in fields[1:]:
        if f.prim[0] == 'varBytes' and f.prim[1] == 0:
            return True
        if any(c[1] == 0 for c in _cond_atoms(f.cond)):
            return True
    return False


def _is_response_layout(info):
    fs = info['fields']
    return bool(fs) and fs[0].prim[0] == 'cc' and fs[0].wrap == 'plain'


def _judge_cc(ctx, cls, info, mode, vals, model_enc=None, model_dec=None, verbose=False):
    """vals[0] = ('int', c), c != 0: the code is encoded first, the rest as under code 0, decoding stops at it"""
    fields, name = info['fields'], info['name']
    c = vals[0][1]
    case = {'class': name, 'op': 'nonok-cc', 'mode': mode, 'values': [cc.show(v) for v in vals],
            'layout': _layout(fields)}
    real = cc.encode_real(cls, fields, vals)
    base = cc.encode_real(cls, fields, [('int', 0)] + list(vals[1:]))
    code_s = 'ok ' + lean.hexs(real[1]) if real[0] == 'ok' else cc.model_tag(real[0])
    if verbose:
        print('class %s values %s' % (name, ' '.join(case['values'])))
        print('  encode_message            : %s' % code_s)
        print('  same assignment, code 00h : %s' % (_show_out(base)))
    if model_enc is not None and model_enc != code_s and not (model_enc.startswith('py:') and code_s.startswith('py:')):
        ctx.disagree('encode-nonok-cc', case, model_enc, code_s)
    if base[0] != 'ok':
        ctx.count('nonok-cc:base-encode-raises')          # reported by the assignment stream
        return
    if real[0] != 'ok':
        ctx.violate('C01:nonok-cc:encode-raises',
                    'encoding %s with completion code %02Xh raises %s (with code 00h it encodes)' % (name, c, real[0]),
                    case, expected='%02x %s' % (c, lean.hexs(base[1][1:])), observed=real[0])
        return
    data = real[1]
    want = bytes([c]) + base[1][1:]
    if data != want:
        ctx.violate('C01:nonok-cc:not-encoded' if data[:1] != want[:1] else 'C01:nonok-cc:disturbs-other-fields',
                    'completion code %02Xh of %s is not encoded as the first byte followed by the other fields'
                    % (c, name), case, expected=lean.hexs(want), observed=lean.hexs(data))
        return
    try:
        from pyipmi.msgs.message import pack_message
        obj = cls()
        cc.set_values(obj, fields, vals)
        packed = bytes(bytearray(pack_message(obj)))
    except Exception as e:  # noqa
        packed = type(e).__name__
    if packed != data:
        ctx.violate('C01:nonok-cc:pack-vs-encode',
                    'pack_message and encode_message disagree for %s with completion code %02Xh' % (name, c), case,
                    expected=lean.hexs(data), observed=packed if isinstance(packed, str) else lean.hexs(packed))
    dec = cc.decode_real(cls, fields, data)
    stop = [('int', c)] + [cc.canon_dflt(f.dflt) for f in fields[1:]]
    if verbose:
        print('  decode_message of them    : %s' % (dec[0] if dec[0] != 'ok' else ' '.join(cc.show(v) for v in dec[1])))
        print('  code + creation defaults  : %s' % ' '.join(cc.show(v) for v in stop))
    if dec[0] != 'ok' or dec[1] != stop:
        ctx.violate('C01:nonok-cc:decode-does-not-stop',
                    'decoding the encoding of %s with completion code %02Xh does not yield the code and the '
                    'creation defaults of the later fields' % (name, c), case,
                    expected=[cc.show(v) for v in stop],
                    observed=dec[0] if dec[0] != 'ok' else [cc.show(v) for v in dec[1]])
        return
    if model_dec is not None:
        want_m = 'ok 1 ' + ' '.join(cc.show(v) for v in dec[1])
        if model_dec.strip() != want_m.strip():
            ctx.disagree('decode-nonok-cc', case, model_dec, want_m)


def _run_cc(ctx, drv, rng, idx, cls, info, full):
    fields = info['fields']
    if _refs_field0(fields):
        ctx.count('nonok-cc:class-reads-field-0')
        return
    codes = list(range(1, 256)) if full else sorted(set(CC_BOUNDARY) | set(rng.randrange(1, 256) for _ in range(3)))
    modes = ('zero', 'max', 'boundary', 'random', 'alt0', 'alt1', 'top')
    cases = []
    for k, c in enumerate(codes):
        mode = modes[k % len(modes)]
        vals = cc.assignment(fields, rng, mode)
        vals[0] = ('int', c)
        cases.append((mode, vals))
    if drv is not None:
        encs = drv.ask_many(['enc %d %s' % (idx, ' '.join(cc.show(v) for v in vals)) for _, vals in cases])
        decs = iter(drv.ask_many(['dec %d %s' % (idx, e[3:]) for e in encs if e.startswith('ok ')]))
    else:
        encs, decs = [None] * len(cases), iter(())
    for (mode, vals), me in zip(cases, encs):
        md = next(decs) if me is not None and me.startswith('ok ') else None
        ctx.case((info['name'], 'nonok-cc', tuple(cc.show(v) for v in vals)))
        ctx.count('nonok-cc:' + ('all-255-codes' if full else 'boundary-codes'))
        ctx.count('nonok-cc:code:%s' % ('01-7F' if vals[0][1] < 0x80 else '80-BF' if vals[0][1] < 0xc0 else 'C0-FF'))
        _judge_cc(ctx, cls, info, mode, vals, me, md)


# ---------------------------------------------------------------------------------------
# the lookup side of the registry (Props/C01.registry_lookup)
# ---------------------------------------------------------------------------------------
LOOKUPS = (
    ('byName', 'registry[%(name)r]', 'self'),
    ('byId', 'registry[(%(netfn)d, %(cmd)d, %(group)s)]', 'self'),
    ('created', 'create_message(%(netfn)d, %(cmd)d, %(group)s)', 'self'),
    ('requestOf', 'create_request_by_name(%(stem)r)', 'req'),
    ('responseOf', 'create_response_by_name(%(stem)r)', 'rsp'),
    ('responseTo', 'create_response_message(%(name)s())', 'rsp-of-req'),
)


def _lookup_facts(ctx, snap, verbose_for=None):
    """Python-side oracle for the lookup clauses: the class a lookup returns is judged by its NAME and its
    id attributes (not by its position in the listing)."""
    lk = registry_lookup.lookups(snap)
    names = [info['name'] for _, info in snap]
    for i, (cls, info) in enumerate(snap):
        name = info['name']
        stem = name[:-3]
        d = {'name': name, 'stem': stem, 'netfn': info['netfn'], 'cmd': info['cmd'], 'group': info['group']}
        for key, fmt, role in LOOKUPS:
            if role == 'rsp-of-req' and not name.endswith('Req'):
                continue
            want = {'self': name, 'req': stem + 'Req', 'rsp': stem + 'Rsp', 'rsp-of-req': stem + 'Rsp'}[role]
            j = lk[key][i]
            got = names[j] if j < len(names) else None
            ok = got == want
            if ok and role != 'self':
                # the class found by NAME must also be the id counterpart (same command / group, netfn +-1)
                o = snap[j][1]
                nf = info['netfn'] - info['netfn'] % 2 + (0 if role == 'req' else 1)
                ok = (o['netfn'], o['cmd'], o['group']) == (nf, info['cmd'], info['group'])
                if not ok:
                    got = '%s registered under netfn %d cmd %d group %s' % (got, o['netfn'], o['cmd'], o['group'])
            if verbose_for == (name, key):
                print('  %s -> %s   (expected %s)' % (fmt % d, got, want))
            ctx.case(('lookup', key, name), nontrivial=False)
            ctx.count('lookup:' + key)
            if not ok:
                ctx.violate('C01:lookup:%s:%s' % (key, name),
                            '%s returns %s, not %s' % (fmt % d, got or 'no registered class (or raises)', want),
                            {'class': name, 'op': 'lookup', 'lookup': key},
                            expected=want, observed=got)
    # the key set: one name key and one id key per class, every id key = the ids of the class stored there
    seen = {}
    for nf, cmd, grp, j in lk['idKeys']:
        o = snap[j][1] if j < len(snap) else None
        if o is None or (o['netfn'], o['cmd'], o['group']) != (nf, cmd, grp):
            who = o['name'] if o else 'an unlisted class'
            ctx.violate('C01:lookup:stale-id-key:%s' % who,
                        'the registry maps (%s, %s, %s) to %s, whose ids are different' % (nf, cmd, grp, who),
                        {'class': who, 'op': 'lookup', 'lookup': 'idKeys'},
                        expected='keys = ids of the stored class', observed=[nf, cmd, grp])
        seen[j] = seen.get(j, 0) + 1
    for j, (cls, info) in enumerate(snap):
        if seen.get(j, 0) != 1:
            ctx.violate('C01:lookup:id-keys:%s' % info['name'],
                        '%s is stored under %d id keys' % (info['name'], seen.get(j, 0)),
                        {'class': info['name'], 'op': 'lookup', 'lookup': 'idKeys'},
                        expected=1, observed=seen.get(j, 0))
    ctx.extra['registry_keys'] = {'names': lk['nameKeys'], 'ids': len(lk['idKeys'])}


def run(ctx):
    if _snap is None:
        try:
            snap = registry.snapshot()
        except lean.TieBroken as e:
            ctx.broken.append(('translator', str(e)))
            _structural_snapshot(ctx)
            snap = _snap
    else:
        snap = _snap
    _registry_facts(ctx, snap)
    _lookup_facts(ctx, snap)
    drv = None
    if not _structural:
        drv = ctx.driver('drv_codec')
        if int(drv.ask('count')) != len(snap):
            ctx.disagree('registry-size', {}, drv.ask('count'), str(len(snap)))
            return
    rng = ctx.rng('c01')
    rsp = [i for i, (_, info) in enumerate(snap) if not info['malformed'] and _is_response_layout(info)]
    cc_full = set(rsp) if ctx.tier != 'quick' else set(ctx.rng('c01-cc-classes').sample(rsp, min(CC_FULL_CLASSES, len(rsp))))
    for idx, (cls, info) in enumerate(snap):
        if info['malformed'] or not info['fields']:
            continue
        _run_instances(ctx, ctx.rng('c01-instances/%s' % info['name']), cls, info)
        if idx in rsp:
            _run_cc(ctx, drv, ctx.rng('c01-cc/%s' % info['name']), idx, cls, info, idx in cc_full)
        fields = info['fields']
        cases = _cases(fields, rng, ctx.tier)
        if drv is not None:
            enc_lines = ['enc %d %s' % (idx, ' '.join(cc.show(v) for v in vals)) for _, vals in cases]
            encs = drv.ask_many(enc_lines)
            dec_lines = ['dec %d %s' % (idx, e[3:]) for e in encs if e.startswith('ok ')]
            decs = iter(drv.ask_many(dec_lines))
        else:
            encs, decs = [None] * len(cases), iter(())
        for (mode, vals), me in zip(cases, encs):
            md = next(decs) if me is not None and me.startswith('ok ') else None
            ctx.case((info['name'], tuple(cc.show(v) for v in vals)))
            ctx.count('mode:' + mode.rstrip('0123456789'))
            for f, v in zip(fields, vals):
                if f.wrap == 'optional':
                    ctx.count('optional:' + ('absent' if v[0] == 'none' else 'present'))
                if f.wrap == 'cond':
                    ctx.count('conditional:' + ('taken' if cc.eval_cond(f.cond, vals) else 'skipped'))
            _judge(ctx, idx, cls, info, mode, vals, me, md)
        _run_histories(ctx, drv, ctx.rng('c01-history/%s' % info['name']), idx, cls, info, cases)
        if idx % 40 == 0:
            ctx.sample({'class': info['name'], 'values': [cc.show(v) for v in cases[-1][1]], 'model_bytes': encs[-1]})
        ctx.count('classes_with_fields')
    ctx.extra['classes'] = len(snap)


def search(ctx):
    """Broken tie: turn code/model disagreements into property violations where the property
    (wire format clauses) says which side is right.  The Lean model is proved equal to the
    independent wire specification (Props/C01: encode_wire_spec); so, while those theorems
    still check, a Fits assignment on which the real encoder's bytes differ from the model's
    is a concrete violation of the declared-order / little-endian / LSB-first clause."""
    if not ctx.lean_ok:
        ctx.notes.append('Lean obligations are broken; disagreements are not promoted to wire-format violations')
        return
    for d in ctx.disagreements:
        if d['what'] == 'encode' and d['code'].startswith('ok ') and d['model'].startswith('ok '):
            ctx.violate('C01:wire-format:%s' % d['case'].get('class'),
                        'encoded bytes of %s differ from the proved wire format' % d['case'].get('class'),
                        d['case'], expected=d['model'], observed=d['code'])
            d['explained_by'] = 'wire-format'


def replay(ctx, v):
    try:
        snap = registry.snapshot()
    except lean.TieBroken as e:
        print('translator fails closed on this tree (%s): layouts read structurally' % e)
        snap, _ = cc.structural_snapshot()
    case = v['case']
    by_name = dict((info['name'], (i, cls, info)) for i, (cls, info) in enumerate(snap))
    if case.get('class') not in by_name:
        print('class %s no longer registered' % case.get('class'))
        return True
    idx, cls, info = by_name[case['class']]
    if case.get('op') == 'construct':
        print('construct %s: %s' % (info['name'], info['malformed'] or 'ok'))
        return bool(info['malformed'])
    if case.get('op') == 'lookup':
        c2 = ctx.__class__('C01', 'quick', 0)
        print('lookup %s for %s:' % (case.get('lookup'), info['name']))
        _lookup_facts(c2, snap, verbose_for=(info['name'], case.get('lookup')))
        hit = [x for x in c2.violations if x['signature'] == v['signature']]
        for x in hit:
            print('  ' + x['what'])
        return bool(hit)
    if case.get('op') == 'pairing':
        c2 = ctx.__class__('C01', 'quick', 0)
        _registry_facts(c2, snap)
        hit = [x for x in c2.violations if x['signature'] == v['signature']]
        print('pairing %s: %s' % (info['name'], hit[0]['what'] if hit else 'ok'))
        return bool(hit)
    if case.get('layout') is not None and case['layout'] != _layout(info['fields']):
        print('class %s is laid out differently on this tree: the recorded values are not an assignment of its fields' % info['name'])
        print('  recorded: %s' % ' '.join(case['layout']))
        print('  here    : %s' % ' '.join(_layout(info['fields'])))
        return False
    if case.get('op') == 'instances':
        c2 = ctx.__class__('C01', 'quick', 0)
        print('class %s: instances are independent (%d recorded stage(s))' % (info['name'], len(case['stages'])))
        res = _i_exec(cls, info['fields'], case['role'], case['stages'])
        _i_judge(c2, cls, info, case['role'], res, verbose=True)
        for x in c2.violations:
            print('  %s: %s' % (x['signature'], x['what']))
            print('      expected %s, observed %s' % (str(x['expected'])[:200], str(x['observed'])[:300]))
        return any(x['signature'] == v['signature'] for x in c2.violations)
    if case.get('op') == 'history':
        c2 = ctx.__class__('C01', 'quick', 0)
        print('class %s, one object: %s, then %d step(s)' % (
            info['name'], 'fresh instance' if case['init'] is None else 'values ' + ' '.join(case['init']),
            len(case['steps'])))
        for st in case['steps']:
            print('  %-8s %s' % (st['kind'], ' ; '.join(
                ' '.join(' '.join(x) if isinstance(x, list) else str(x) for x in op) for op in st['ops'])))
        out, _ = _h_run(cls, info['fields'], case['init'], case['steps'])
        for k, rec in enumerate(out):
            if k >= 1 or case['init'] is not None:
                _judge_history_step(c2, cls, info, case, rec, None, verbose=True)
        for x in c2.violations:
            print('  ' + x['what'])
        return bool(c2.violations)
    vals = [cc.parse(t) for t in case['values']]
    c2 = ctx.__class__('C01', 'quick', 0)
    if case.get('op') == 'nonok-cc':
        _judge_cc(c2, cls, info, case.get('mode', ''), vals, verbose=True)
        for x in c2.violations:
            print('  ' + x['what'])
        return bool(c2.violations)
    me = v.get('expected') if v['signature'].startswith('C01:wire-format') else None
    real = cc.encode_real(cls, info['fields'], vals)
    print('class %s values %s' % (info['name'], case['values']))
    print('  real encoder: %s' % (lean.hexs(real[1]) if real[0] == 'ok' else real[0]))
    if me:
        print('  proved wire format: %s' % me)
        return not (real[0] == 'ok' and 'ok ' + lean.hexs(real[1]) == me)
    _judge(c2, idx, cls, info, case.get('mode', ''), vals, None, None)
    for x in c2.violations:
        print('  ' + x['what'])
    return bool(c2.violations)
