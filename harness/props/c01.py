"""C01 — Message codec is lossless for every defined IPMI message."""
from .. import codec_common as cc
from ..lib import lean
from ..translate import registry

ID = 'C01'
TARGETS = ['PyIpmi.Props.C01', 'drv_codec']
LEVEL = 'proof'
RULE = ('for every class of the live registry: Fits assignments (all-zero, all-max, per-field top bit, '
        'alternating maxima of adjacent bit-field members / fields, every prefix-closed optional pattern, '
        'boundary and seeded random values, variable lengths from the length field) are set on the real object '
        'and sent to the Lean model; compared: encoded bytes, decoded values, re-encoded bytes.  A case is '
        'distinct by (class, assignment) and non-trivial when the class has at least one field.')
ASSUMPTIONS = [
    'model of msgs/message.py + utils.ByteBuffer is hand-written (lean/PyIpmi/Model/Codec.lean) and tied by this correspondence run',
    'layouts are regenerated from the live registry each run (Gen/Registry.lean); field classes whose encode/decode/create differ from the known base classes abort generation',
    'round-trip theorem requires completion_code = 0 (a non-OK code stops decoding by design, see C02.cc_stops)',
]
TRUSTED = ['harness/translate/registry.py', 'harness/codec_common.py']

_snap = None


def translate(ctx):
    global _snap
    _snap = registry.generate()


def _cases(fields, rng, tier):
    n_opt = sum(1 for f in fields if f.wrap == 'optional')
    out = []
    for mode in ('zero', 'max', 'alt0', 'alt1', 'top'):
        for k in sorted(set([0, n_opt])):
            out.append((mode, cc.assignment(fields, rng, mode, k)))
    for k in range(n_opt + 1):
        out.append(('opt%d' % k, cc.assignment(fields, rng, 'boundary', k)))
    n_rand = 24 if tier == 'quick' else 400
    for i in range(n_rand):
        out.append(('random' if i % 3 else 'boundary', cc.assignment(fields, rng, 'random' if i % 3 else 'boundary')))
    return out


def _judge(ctx, idx, cls, info, mode, vals, model_enc, model_dec_of):
    """Compare real code with model (tie) and with the round-trip law (property)."""
    fields = info['fields']
    name = info['name']
    case = {'class': name, 'mode': mode, 'values': [cc.show(v) for v in vals]}
    real = cc.encode_real(cls, fields, vals)
    # --- tie: encoded bytes
    m = model_enc
    if real[0] == 'ok':
        code_s = 'ok ' + lean.hexs(real[1])
    else:
        code_s = cc.model_tag(real[0])
    if (m.startswith('py:') and code_s.startswith('py:')):
        pass
    elif m != code_s:
        ctx.disagree('encode', case, m, code_s)
    if real[0] != 'ok':
        ctx.violate('C01:encode-raises:%s' % name,
                    'encoding %s with in-range values raises %s' % (name, real[0]), case,
                    expected='bytes', observed=real[0])
        return
    data = real[1]
    # --- the second public encoder (pack_message -> array) must produce the same bytes
    try:
        from pyipmi.msgs.message import pack_message
        obj = cls()
        cc.set_values(obj, fields, vals)
        packed = bytes(bytearray(pack_message(obj)))
    except Exception as e:  # noqa
        packed = type(e).__name__
    if packed != data:
        ctx.violate('C01:pack-vs-encode:%s' % name,
                    'pack_message and encode_message disagree for %s' % name, case,
                    expected=lean.hexs(data), observed=packed if isinstance(packed, str) else lean.hexs(packed))
    # --- property: decode(encode(x)) = x and re-encode = bytes, on the real code
    dec = cc.decode_real(cls, fields, data)
    if dec[0] != 'ok':
        ctx.violate('C01:roundtrip-decode-raises:%s' % name,
                    'decoding the encoding of %s raises %s' % (name, dec[0]), case,
                    expected='decoded values', observed=dec[0])
        return
    if dec[1] != vals:
        bad = [fields[i].name for i in range(len(vals)) if dec[1][i] != vals[i]]
        ctx.violate('C01:roundtrip-values:%s' % name,
                    'decode(encode(x)) differs from x in fields %s of %s' % (bad, name), case,
                    expected=[cc.show(v) for v in vals], observed=[cc.show(v) for v in dec[1]])
        return
    from pyipmi.msgs.message import encode_message
    try:
        again = bytes(bytearray(encode_message(dec[2])))
    except Exception as e:  # noqa
        again = type(e).__name__
    if again != data:
        ctx.violate('C01:reencode:%s' % name, 're-encoding the decoded %s gives different bytes' % name, case,
                    expected=lean.hexs(data), observed=again if isinstance(again, str) else lean.hexs(again))
    # --- tie: decoded values (model decodes the model's bytes; same bytes if the tie held)
    md = model_dec_of
    if md is not None:
        want = 'ok 0 ' + ' '.join(cc.show(v) for v in dec[1])
        if md.strip() != want.strip():
            ctx.disagree('decode', case, md, want)


def _registry_facts(ctx, snap):
    """Python-side oracle for the construction and pairing clauses (used for replays)."""
    by_id = {}
    for cls, info in snap:
        by_id.setdefault((info['netfn'], info['cmd'], info['group']), []).append(info['name'])
        if info['malformed']:
            ctx.violate('C01:construct:%s' % info['name'],
                        'message class %s cannot be constructed (%s)' % (info['name'], info['malformed']),
                        {'class': info['name'], 'op': 'construct'},
                        expected='cls() succeeds', observed=info['malformed'])
    for cls, info in snap:
        nf = info['netfn']
        other = (nf + 1, info['cmd'], info['group']) if nf % 2 == 0 else (nf - 1, info['cmd'], info['group'])
        if len(by_id.get(other, [])) != 1:
            ctx.violate('C01:pairing:%s' % info['name'],
                        '%s has %d counterparts registered under netfn %d cmd %d group %s' % (
                            info['name'], len(by_id.get(other, [])), other[0], other[1], other[2]),
                        {'class': info['name'], 'op': 'pairing'},
                        expected='exactly one counterpart', observed=by_id.get(other, []))
        ctx.case(('pair', info['name']), nontrivial=False)


def run(ctx):
    snap = _snap if _snap is not None else registry.snapshot()
    _registry_facts(ctx, snap)
    drv = ctx.driver('drv_codec')
    if int(drv.ask('count')) != len(snap):
        ctx.disagree('registry-size', {}, drv.ask('count'), str(len(snap)))
        return
    rng = ctx.rng('c01')
    for idx, (cls, info) in enumerate(snap):
        if info['malformed'] or not info['fields']:
            continue
        fields = info['fields']
        cases = _cases(fields, rng, ctx.tier)
        enc_lines = ['enc %d %s' % (idx, ' '.join(cc.show(v) for v in vals)) for _, vals in cases]
        encs = drv.ask_many(enc_lines)
        dec_lines = ['dec %d %s' % (idx, e[3:]) for e in encs if e.startswith('ok ')]
        decs = iter(drv.ask_many(dec_lines))
        for (mode, vals), me in zip(cases, encs):
            md = next(decs) if me.startswith('ok ') else None
            ctx.case((info['name'], tuple(cc.show(v) for v in vals)))
            ctx.count('mode:' + mode.rstrip('0123456789'))
            for f, v in zip(fields, vals):
                if f.wrap == 'optional':
                    ctx.count('optional:' + ('absent' if v[0] == 'none' else 'present'))
                if f.wrap == 'cond':
                    ctx.count('conditional:' + ('taken' if cc.eval_cond(f.cond, vals) else 'skipped'))
            _judge(ctx, idx, cls, info, mode, vals, me, md)
        if idx % 40 == 0:
            ctx.sample({'class': info['name'], 'values': [cc.show(v) for v in cases[-1][1]], 'model_bytes': encs[-1]})
        ctx.count('classes_with_fields')
    ctx.extra['classes'] = len(snap)


def search(ctx):
    """Broken tie: turn code/model disagreements into property violations where the property
    (wire format clauses) says which side is right.  The Lean model is proved equal to the
    independent wire specification (Props/C01: encode_wire_spec); so, while those theorems
    still check, a Fits assignment on which the real encoder's bytes differ from the model's
    is a concrete violation of the declared-order / little-endian / LSB-first clause."""
    if not ctx.lean_ok:
        ctx.notes.append('Lean obligations are broken; disagreements are not promoted to wire-format violations')
        return
    for d in ctx.disagreements:
        if d['what'] == 'encode' and d['code'].startswith('ok ') and d['model'].startswith('ok '):
            ctx.violate('C01:wire-format:%s' % d['case'].get('class'),
                        'encoded bytes of %s differ from the proved wire format' % d['case'].get('class'),
                        d['case'], expected=d['model'], observed=d['code'])
            d['explained_by'] = 'wire-format'


def replay(ctx, v):
    snap = registry.snapshot()
    case = v['case']
    by_name = dict((info['name'], (i, cls, info)) for i, (cls, info) in enumerate(snap))
    if case.get('class') not in by_name:
        print('class %s no longer registered' % case.get('class'))
        return True
    idx, cls, info = by_name[case['class']]
    if case.get('op') == 'construct':
        print('construct %s: %s' % (info['name'], info['malformed'] or 'ok'))
        return bool(info['malformed'])
    if case.get('op') == 'pairing':
        c2 = ctx.__class__('C01', 'quick', 0)
        _registry_facts(c2, snap)
        hit = [x for x in c2.violations if x['signature'] == v['signature']]
        print('pairing %s: %s' % (info['name'], hit[0]['what'] if hit else 'ok'))
        return bool(hit)
    vals = [cc.parse(t) for t in case['values']]
    c2 = ctx.__class__('C01', 'quick', 0)
    me = v.get('expected') if v['signature'].startswith('C01:wire-format') else None
    real = cc.encode_real(cls, info['fields'], vals)
    print('class %s values %s' % (info['name'], case['values']))
    print('  real encoder: %s' % (lean.hexs(real[1]) if real[0] == 'ok' else real[0]))
    if me:
        print('  proved wire format: %s' % me)
        return not (real[0] == 'ok' and 'ok ' + lean.hexs(real[1]) == me)
    _judge(c2, idx, cls, info, case.get('mode', ''), vals, 'py:skip', None)
    for x in c2.violations:
        print('  ' + x['what'])
    return bool(c2.violations)
