"""./setup: lake build the targets of all claimed checks (one lake invocation)."""
import importlib
import json
import os
import sys

HERE = os.path.dirname(os.path.abspath(__file__))
sys.path.insert(0, os.path.dirname(HERE))
from harness.lib import lean, repo  # noqa: E402


def main():
    with open(os.path.join(repo.VERIF, 'MANIFEST.json')) as f:
        man = json.load(f)
    targets = []
    for c in man.get('checks', []):
        mod = importlib.import_module('harness.props.' + c['property_id'].lower())
        for t in getattr(mod, 'TARGETS', []):
            if t not in targets:
                targets.append(t)
    ok, out = lean.build(targets, timeout=3000)
    sys.stdout.write(out[-3000:])
    if not ok:
        # build the rest one by one so that one broken module does not starve the others;
        # the check of the affected property reports the breakage itself
        for t in targets:
            ok1, out1 = lean.build([t], timeout=3000)
            print('%s: %s' % (t, 'ok' if ok1 else 'FAILED'))
    return 0


if __name__ == '__main__':
    sys.exit(main())
