"""T: loop constants of pyipmi/fru.py and pyipmi/sel.py  ->  lean/PyIpmi/Gen/Loops10.lean

AST extraction (no execution of the loops): the numbers and completion-code sets that steer
the chunked FRU read/write loops and the SEL partial-read fallback.  The Lean models take them
as a parameter, and Props/C10.lean / Props/C12.lean `decide` the side conditions under which
the theorems hold on *these* values (e.g. every device limit >= 2 is reached by the
req_size sequence) - so an edit of a constant in the source re-opens that obligation.

Fails closed: any shape outside the small grammar below raises TieBroken.
"""
import ast
import os

from ..lib import lean, repo
from ..lib.lean import TieBroken

OUT = os.path.join(lean.LEAN_DIR, 'PyIpmi', 'Gen', 'Loops10.lean')


def _parse(rel):
    try:
        return ast.parse(repo.read(rel))
    except (IOError, SyntaxError) as e:
        raise TieBroken('%s cannot be parsed: %s' % (rel, e))


def _method(tree, cls, name, rel):
    for node in tree.body:
        if isinstance(node, ast.ClassDef) and node.name == cls:
            for f in node.body:
                if isinstance(f, ast.FunctionDef) and f.name == name:
                    return f
    raise TieBroken('%s: %s.%s not found' % (rel, cls, name))


def _int(node, what):
    if isinstance(node, ast.Constant) and isinstance(node.value, int) and not isinstance(node.value, bool) \
            and node.value >= 0:
        return node.value
    raise TieBroken('%s is not a non-negative integer literal: %s' % (what, ast.dump(node)[:120]))


def _is_name(node, name):
    return isinstance(node, ast.Name) and node.id == name


def _is_self_attr(node, attr):
    return isinstance(node, ast.Attribute) and node.attr == attr and _is_name(node.value, 'self')


def _cc(node, what):
    """`constants.CC_X` -> its value in the working tree's constants module."""
    if isinstance(node, ast.Attribute) and _is_name(node.value, 'constants'):
        from pyipmi.msgs import constants
        v = getattr(constants, node.attr, None)
        if isinstance(v, int):
            return v
    if isinstance(node, ast.Constant) and isinstance(node.value, int):
        return node.value
    raise TieBroken('%s is not a completion-code constant: %s' % (what, ast.dump(node)[:120]))


def _one(values, what):
    vs = sorted(set(values))
    if len(vs) != 1:
        raise TieBroken('%s: expected one value, found %s' % (what, vs))
    return vs[0]


# ---- fru.py ---------------------------------------------------------------------------

def _fru(tree):
    rel = 'pyipmi/fru.py'
    init = _method(tree, 'Fru', '__init__', rel)
    wl = [_int(n.value, 'write_length') for n in ast.walk(init)
          if isinstance(n, ast.Assign) and len(n.targets) == 1 and _is_self_attr(n.targets[0], 'write_length')]
    write_len = _one(wl, 'Fru.__init__ write_length')

    wr = _method(tree, 'Fru', 'write_fru_data', rel)
    ok = False
    for n in ast.walk(wr):
        if isinstance(n, ast.For) and isinstance(n.iter, ast.Call) and _is_name(n.iter.func, 'chunks') \
                and len(n.iter.args) == 2 and _is_self_attr(n.iter.args[1], 'write_length'):
            ok = True
    if not ok:
        raise TieBroken('write_fru_data does not iterate over chunks(data, self.write_length)')
    cmp_ok = any(isinstance(n, ast.Compare) and len(n.ops) == 1 and isinstance(n.ops[0], ast.NotEq)
                 and isinstance(n.left, ast.Attribute) and n.left.attr == 'count_written'
                 and isinstance(n.comparators[0], ast.Call) and _is_name(n.comparators[0].func, 'len')
                 for n in ast.walk(wr))
    if not cmp_ok:
        raise TieBroken('write_fru_data does not compare count_written != len(chunk)')

    rd = _method(tree, 'Fru', 'read_fru_data', rel)
    init_req = _one([_int(n.value, 'req_size') for n in rd.body
                     if isinstance(n, ast.Assign) and len(n.targets) == 1 and _is_name(n.targets[0], 'req_size')],
                    'read_fru_data initial req_size')
    decs, caught, guards, advance = [], [], [], []
    for n in ast.walk(rd):
        if isinstance(n, ast.AugAssign) and _is_name(n.target, 'req_size'):
            if not isinstance(n.op, ast.Sub):
                raise TieBroken('req_size is changed by something other than -=')
            decs.append(_int(n.value, 'req_size decrement'))
        if isinstance(n, ast.AugAssign) and _is_name(n.target, 'off'):
            if not (isinstance(n.op, ast.Add) and isinstance(n.value, ast.Attribute)
                    and n.value.attr == 'count' and _is_name(n.value.value, 'rsp')):
                raise TieBroken('read_fru_data advances `off` by something other than rsp.count')
            advance.append(1)
        if isinstance(n, ast.Compare) and len(n.ops) == 1 and isinstance(n.ops[0], ast.In) \
                and isinstance(n.left, ast.Attribute) and n.left.attr == 'cc':
            tup = n.comparators[0]
            if not isinstance(tup, (ast.Tuple, ast.List, ast.Set)):
                raise TieBroken('ex.cc in <not a literal collection>')
            caught.append(tuple(_cc(e, 'caught code') for e in tup.elts))
        if isinstance(n, ast.Compare) and len(n.ops) == 1 and _is_name(n.left, 'req_size') \
                and isinstance(n.comparators[0], ast.Constant):
            if not (isinstance(n.ops[0], ast.LtE) and n.comparators[0].value == 0):
                raise TieBroken('read_fru_data gives up on a condition other than req_size <= 0')
            guards.append(1)
    dec = _one(decs, 'read_fru_data req_size decrement')
    if len(caught) != 1 or not guards or len(advance) != 1:
        raise TieBroken('read_fru_data: expected one `ex.cc in (...)`, one `req_size <= 0` and one `off += rsp.count`')
    return {'initReq': init_req, 'dec': dec, 'caught': list(caught[0]), 'writeLen': write_len}


# ---- sel.py ---------------------------------------------------------------------------

def _sel(tree):
    rel = 'pyipmi/sel.py'
    g = _method(tree, 'Sel', 'get_sel_entry', rel)
    entire = _one([_int(n.value, 'ENTIRE_RECORD') for n in g.body
                   if isinstance(n, ast.Assign) and len(n.targets) == 1 and _is_name(n.targets[0], 'ENTIRE_RECORD')],
                  'ENTIRE_RECORD')
    stateless, why = _sel_stateless(tree, g)
    floor, floor_test = _sel_floor(g)
    empty_stop, empty_test = _sel_empty_stop(g)
    cmp_entire, full, step, rec, shrink = [], [], [], [], []
    for n in ast.walk(g):
        if n is empty_test:
            continue
        if isinstance(n, ast.Compare) and len(n.ops) == 1 and _is_self_attr(n.left, 'max_req_len'):
            if n is floor_test:
                continue
            if not isinstance(n.ops[0], (ast.Eq, ast.NotEq)):
                raise TieBroken('max_req_len compared with something other than == / != (or the floor test '
                                'directly behind the decrement)')
            cmp_entire.append(_int(n.comparators[0], 'max_req_len comparison'))
        if isinstance(n, ast.Assign) and len(n.targets) == 1 and _is_self_attr(n.targets[0], 'max_req_len') \
                and isinstance(n.value, ast.Constant):
            full.append(_int(n.value, 'fallback length'))
        if isinstance(n, ast.AugAssign) and _is_self_attr(n.target, 'max_req_len'):
            if not isinstance(n.op, ast.Sub):
                raise TieBroken('max_req_len changed by something other than -=')
            step.append(_int(n.value, 'max_req_len decrement'))
        if isinstance(n, ast.Compare) and len(n.ops) == 1 and isinstance(n.left, ast.BinOp) \
                and isinstance(n.left.op, ast.Add) and isinstance(n.ops[0], ast.Gt):
            l, r = n.left.left, n.left.right
            if not (isinstance(l, ast.Attribute) and l.attr == 'offset' and isinstance(r, ast.Attribute)
                    and r.attr == 'length'):
                raise TieBroken('get_sel_entry: clamp condition is not req.offset + req.length > N')
            rec.append(_int(n.comparators[0], 'record length (clamp condition)'))
        if isinstance(n, ast.Assign) and len(n.targets) == 1 and isinstance(n.targets[0], ast.Attribute) \
                and n.targets[0].attr == 'length' and isinstance(n.value, ast.BinOp):
            b = n.value
            if not (isinstance(b.op, ast.Sub) and isinstance(b.right, ast.Attribute) and b.right.attr == 'offset'):
                raise TieBroken('get_sel_entry: clamp is not N - req.offset')
            rec.append(_int(b.left, 'record length (clamp)'))
        if isinstance(n, ast.Assign) and len(n.targets) == 1 and isinstance(n.targets[0], ast.Attribute) \
                and n.targets[0].attr == 'offset' and not isinstance(n.value, ast.Constant):
            v = n.value
            if not (isinstance(v, ast.Call) and _is_name(v.func, 'len') and len(v.args) == 1
                    and _is_name(v.args[0], 'record_data')):
                raise TieBroken('get_sel_entry: next offset is not len(record_data)')
        if isinstance(n, ast.AugAssign) and isinstance(n.target, ast.Attribute) and n.target.attr == 'offset':
            raise TieBroken('get_sel_entry: next offset is not len(record_data)')
        if isinstance(n, ast.Compare) and len(n.ops) == 1 and isinstance(n.left, ast.Call) \
                and _is_name(n.left.func, 'len'):
            if not isinstance(n.ops[0], ast.GtE):
                raise TieBroken('get_sel_entry: loop exit is not len(record_data) >= N')
            rec.append(_int(n.comparators[0], 'record length (loop exit)'))
        if isinstance(n, ast.Compare) and len(n.ops) == 1 and isinstance(n.ops[0], ast.Eq) \
                and isinstance(n.left, ast.Attribute) and n.left.attr == 'completion_code':
            shrink.append(_cc(n.comparators[0], 'shrink code'))
    if len(cmp_entire) != 2 or len(rec) != 3:
        raise TieBroken('get_sel_entry: expected two max_req_len comparisons and three record-length literals')
    if _one(cmp_entire, 'max_req_len comparisons') != entire:
        raise TieBroken('get_sel_entry compares max_req_len with %s but starts with %s' % (cmp_entire, entire))

    c = _method(tree, 'Sel', 'get_and_clear_sel_entry', rel)
    budget, gac_retry = _sel_budget(c)
    cancel = [_cc(n.comparators[0], 'cancel code') for n in ast.walk(c)
              if isinstance(n, ast.Compare) and len(n.ops) == 1 and isinstance(n.ops[0], ast.Eq)
              and isinstance(n.left, ast.Attribute) and n.left.attr == 'cc']
    if len(cancel) != 2:
        raise TieBroken('get_and_clear_sel_entry: expected two e.cc == CC_RES_CANCELED tests')

    s = _method(tree, 'Sel', 'sel_entries', rel)
    ids = {}
    for n in s.body:
        if isinstance(n, ast.Assign) and len(n.targets) == 1 and isinstance(n.targets[0], ast.Name) \
                and n.targets[0].id in ('START_SEL_RECORD_ID', 'END_SEL_RECORD_ID'):
            ids[n.targets[0].id] = _int(n.value, n.targets[0].id)
    if len(ids) != 2:
        raise TieBroken('sel_entries: START/END_SEL_RECORD_ID not found')
    return {'entire': entire, 'full': _one(full, 'fallback length'), 'recLen': _one(rec, 'record length'),
            'step': _one(step, 'max_req_len decrement'), 'ccShrink': _one(shrink, 'shrink code'),
            'ccCancel': _one(cancel, 'cancel code'), 'first': ids['START_SEL_RECORD_ID'],
            'last': ids['END_SEL_RECORD_ID'], 'floor': floor, 'budget': gac_retry if budget else None,
            'emptyStop': empty_stop, 'stateless': stateless, 'statelessWhy': why}


SEL_METHODS = ('get_sel_entry', 'sel_entries', 'get_sel_entries', 'get_and_clear_sel_entry', 'delete_sel_entry',
               'get_sel_reservation_id', 'get_sel_entries_count')


def _sel_stateless(tree, g):
    """Does a call of the SEL retrieval functions see anything an EARLIER call left on the object?  True when
      * `self.max_req_len = ENTIRE_RECORD` is a statement of get_sel_entry's own suite (unconditional: not inside an
        if / try / loop), in front of the loop and of every other mention of self.max_req_len, and the only plain
        assignment of ENTIRE_RECORD's name to it;
      * no retrieval function of class Sel stores any OTHER attribute of self, and none reaches the attributes by
        name (getattr / setattr / hasattr / vars / __dict__);
    else (False, reason) - written to Gen/Loops10.lean as `selStateless`, where Props.C12.source_variant demands true."""
    loops = [i for i, st in enumerate(g.body) if isinstance(st, ast.While)]
    inits = [i for i, st in enumerate(g.body)
             if isinstance(st, ast.Assign) and len(st.targets) == 1 and _is_self_attr(st.targets[0], 'max_req_len')
             and _is_name(st.value, 'ENTIRE_RECORD')]
    if len(inits) != 1 or not loops or inits[0] > loops[0]:
        return False, ('get_sel_entry: `self.max_req_len = ENTIRE_RECORD` is not an unconditional statement in front of '
                       'the loop (found %d at the top level)' % len(inits))
    for st in g.body[:inits[0]]:
        if any(_is_self_attr(n, 'max_req_len') for n in ast.walk(st)):
            return False, 'get_sel_entry: self.max_req_len is mentioned before it is initialised'
    others = [n for n in ast.walk(g) if isinstance(n, ast.Assign) and any(_is_self_attr(t, 'max_req_len') for t in n.targets)
              and _is_name(n.value, 'ENTIRE_RECORD')]
    if len(others) != 1:
        return False, 'get_sel_entry: max_req_len is set to ENTIRE_RECORD in %d places' % len(others)
    for node in tree.body:
        if not (isinstance(node, ast.ClassDef) and node.name == 'Sel'):
            continue
        for f in node.body:
            if not (isinstance(f, ast.FunctionDef) and f.name in SEL_METHODS):
                continue
            for n in ast.walk(f):
                if isinstance(n, ast.Attribute) and isinstance(n.ctx, (ast.Store, ast.Del)) and _is_name(n.value, 'self') \
                        and not (n.attr == 'max_req_len' and f.name == 'get_sel_entry'):
                    return False, 'Sel.%s stores self.%s' % (f.name, n.attr)
                if isinstance(n, ast.Name) and n.id in ('getattr', 'setattr', 'hasattr', 'delattr', 'vars'):
                    return False, 'Sel.%s uses %s()' % (f.name, n.id)
                if isinstance(n, ast.Attribute) and n.attr == '__dict__':
                    return False, 'Sel.%s uses __dict__' % f.name
    return True, ''


def _is_retry_error(node):
    """`raise RetryError()` / `raise errors.RetryError()`"""
    if not (isinstance(node, ast.Raise) and node.cause is None and isinstance(node.exc, ast.Call)
            and not node.exc.args and not node.exc.keywords):
        return False
    f = node.exc.func
    return _is_name(f, 'RetryError') or (isinstance(f, ast.Attribute) and f.attr == 'RetryError'
                                         and _is_name(f.value, 'errors'))


def _blocks(fn):
    for n in ast.walk(fn):
        for field in ('body', 'orelse', 'finalbody'):
            b = getattr(n, field, None)
            if isinstance(b, list):
                yield b


def _sel_floor(g):
    """What follows `self.max_req_len -= 1` in its block: nothing (as shipped: floor None) or
    `if self.max_req_len <= F: raise RetryError()` (`< F` is read as `<= F-1`).  -> (F | None, test node)"""
    hits = [(b, i) for b in _blocks(g) for i, st in enumerate(b)
            if isinstance(st, ast.AugAssign) and _is_self_attr(st.target, 'max_req_len')]
    if len(hits) != 1:
        raise TieBroken('get_sel_entry: expected exactly one `self.max_req_len -= …`')
    b, i = hits[0]
    rest = b[i + 1:]
    if not rest:
        return None, None
    st = rest[0]
    if len(rest) != 1 or not (isinstance(st, ast.If) and not st.orelse and len(st.body) == 1
                              and _is_retry_error(st.body[0]) and isinstance(st.test, ast.Compare)
                              and len(st.test.ops) == 1 and _is_self_attr(st.test.left, 'max_req_len')
                              and isinstance(st.test.ops[0], (ast.LtE, ast.Lt))):
        raise TieBroken('get_sel_entry: the decrement of max_req_len is followed by something other than '
                        '`if self.max_req_len <= N: raise RetryError()`')
    f = _int(st.test.comparators[0], 'max_req_len floor')
    return (f if isinstance(st.test.ops[0], ast.LtE) else f - 1), st.test


def _is_rsp_data(node):
    return isinstance(node, ast.Attribute) and node.attr == 'record_data' and _is_name(node.value, 'rsp')


def _sel_empty_stop(g):
    """The `while True` body of get_sel_entry between the completion-code test and `record_data.extend(
    rsp.record_data)`: nothing (as shipped and after 8f8257b: an empty completed answer is appended and the same
    request sent again) or `if len(rsp.record_data) == 0: raise RetryError()` (also `< 1`, `not rsp.record_data`).
    -> (bool, test node)"""
    loops = [st for st in g.body if isinstance(st, ast.While)]
    if len(loops) != 1:
        raise TieBroken('get_sel_entry: expected exactly one while loop')
    body = loops[0].body
    ext = [i for i, st in enumerate(body)
           if isinstance(st, ast.Expr) and isinstance(st.value, ast.Call) and isinstance(st.value.func, ast.Attribute)
           and st.value.func.attr == 'extend' and _is_name(st.value.func.value, 'record_data')
           and len(st.value.args) == 1 and _is_rsp_data(st.value.args[0])]
    if len(ext) != 1:
        raise TieBroken('get_sel_entry: expected exactly one `record_data.extend(rsp.record_data)` in the loop body')
    hits = []
    for i, st in enumerate(body):
        if not isinstance(st, ast.If):
            continue
        t = st.test
        is_len = (isinstance(t, ast.Compare) and len(t.ops) == 1 and isinstance(t.left, ast.Call)
                  and _is_name(t.left.func, 'len') and len(t.left.args) == 1 and _is_rsp_data(t.left.args[0]))
        is_not = isinstance(t, ast.UnaryOp) and isinstance(t.op, ast.Not) and _is_rsp_data(t.operand)
        if not (is_len or is_not):
            continue
        if is_len:
            c = t.comparators[0]
            ok = (isinstance(c, ast.Constant) and not isinstance(c.value, bool)
                  and ((isinstance(t.ops[0], ast.Eq) and c.value == 0) or (isinstance(t.ops[0], ast.Lt) and c.value == 1)
                       or (isinstance(t.ops[0], ast.LtE) and c.value == 0)))
            if not ok:
                raise TieBroken('get_sel_entry: len(rsp.record_data) is tested for something other than "empty"')
        if st.orelse or len(st.body) != 1 or not _is_retry_error(st.body[0]):
            raise TieBroken('get_sel_entry: the test for an empty answer does something other than `raise RetryError()`')
        if i != ext[0] - 1:
            raise TieBroken('get_sel_entry: the test for an empty answer is not directly in front of '
                            '`record_data.extend(rsp.record_data)`')
        hits.append(t)
    if len(hits) > 1:
        raise TieBroken('get_sel_entry: more than one test for an empty answer')
    # the answer's data is used nowhere else in the loop (a counter / another exit would be outside the model)
    uses = sum(1 for n in ast.walk(loops[0]) if _is_rsp_data(n))
    if uses != 1 + len(hits):
        raise TieBroken('get_sel_entry: rsp.record_data is used in %d places of the loop (expected %d)' % (uses, 1 + len(hits)))
    return (True, hits[0]) if hits else (False, None)


def _sel_budget(c):
    """get_and_clear_sel_entry: `while True:` without a retry parameter (as shipped) -> (False, 0), or
    `retry=N` with `while retry > 0: retry -= 1 …` ending in `raise RetryError()` -> (True, N)."""
    body = [st for st in c.body if not (isinstance(st, ast.Expr) and isinstance(st.value, ast.Constant))]
    if not body or not isinstance(body[0], ast.While):
        raise TieBroken('get_and_clear_sel_entry does not consist of one while loop')
    w = body[0]
    names = [a.arg for a in c.args.args]
    if isinstance(w.test, ast.Constant) and w.test.value is True:
        if names != ['self', 'record_id'] or len(body) != 1 or w.orelse:
            raise TieBroken('get_and_clear_sel_entry: `while True` with unexpected parameters / trailing statements')
        return False, 0
    if names != ['self', 'record_id', 'retry'] or len(c.args.defaults) != 1:
        raise TieBroken('get_and_clear_sel_entry: parameters are not (self, record_id, retry=N)')
    n = _int(c.args.defaults[0], 'default retry of get_and_clear_sel_entry')
    t = w.test
    if not (isinstance(t, ast.Compare) and len(t.ops) == 1 and isinstance(t.ops[0], ast.Gt) and _is_name(t.left, 'retry')
            and isinstance(t.comparators[0], ast.Constant) and t.comparators[0].value == 0):
        raise TieBroken('get_and_clear_sel_entry: loop test is not `retry > 0`')
    first = w.body[0] if w.body else None
    if not (isinstance(first, ast.AugAssign) and _is_name(first.target, 'retry') and isinstance(first.op, ast.Sub)
            and isinstance(first.value, ast.Constant) and first.value.value == 1):
        raise TieBroken('get_and_clear_sel_entry: the loop body does not start with `retry -= 1`')
    if any(isinstance(x, (ast.Assign, ast.AugAssign)) and any(_is_name(tg, 'retry') for tg in (
            x.targets if isinstance(x, ast.Assign) else [x.target])) for x in ast.walk(w) if x is not first):
        raise TieBroken('get_and_clear_sel_entry: retry is assigned elsewhere in the loop')
    tail = list(w.orelse) + body[1:]
    if len(tail) != 1 or not _is_retry_error(tail[0]):
        raise TieBroken('get_and_clear_sel_entry: the exhausted loop is not followed by `raise RetryError()`')
    return True, n


DEFAULTS = {'fru': {'initReq': 32, 'dec': 2, 'caught': [202, 200, 201], 'writeLen': 16},
            'sel': {'entire': 255, 'full': 16, 'recLen': 16, 'step': 1, 'ccShrink': 202, 'ccCancel': 197,
                    'first': 0, 'last': 65535, 'floor': 0, 'budget': 5, 'emptyStop': True, 'stateless': True,
                    'statelessWhy': ''}}


def extract(need=('fru', 'sel')):
    """Constants of both files.  The part a check does not `need` (C10 needs 'fru', C12 'sel';
    they share the generated file) falls back to the pinned values when its source has left
    the grammar - that breakage belongs to the other property's check."""
    out = {}
    for part, fn, rel in (('fru', _fru, 'pyipmi/fru.py'), ('sel', _sel, 'pyipmi/sel.py')):
        try:
            out[part] = fn(_parse(rel))
        except TieBroken:
            if part in need:
                raise
            out[part] = dict(DEFAULTS[part])
    return out


def extract_lenient():
    return extract(need=())


def render(c):
    f, s = c['fru'], c['sel']
    return '''/- GENERATED by harness/translate/loops10.py from pyipmi/fru.py and pyipmi/sel.py of the
   working tree (AST extraction).  Do not edit: rewritten on every check run. -/
import PyIpmi.Model.FruXfer
import PyIpmi.Model.SelXfer
namespace PyIpmi.Gen.Loops10

/-- read_fru_data: req_size = %d; req_size -= %d; caught completion codes; write_length = %d -/
def fruCfg : PyIpmi.FruXfer.Cfg := ⟨%d, %d, [%s], %d⟩

/-- get_sel_entry: ENTIRE_RECORD, fallback length, record length, decrement, shrink code;
get_and_clear_sel_entry: cancel code; sel_entries: START / END record id -/
def selCfg : PyIpmi.SelXfer.Cfg := ⟨%d, %d, %d, %d, %d, %d, %d, %d⟩

/-- get_sel_entry: floor of max_req_len behind the decrement (`if self.max_req_len <= F: raise
RetryError()`; none = the length is lowered without end); get_and_clear_sel_entry(record_id, retry=N):
`while retry > 0: retry -= 1 …` ending in RetryError (none = `while True`, no such parameter);
get_sel_entry: `if len(rsp.record_data) == 0: raise RetryError()` in front of `record_data.extend(…)`
(false = an empty completed answer is appended and the identical request sent again) -/
def selVariant : PyIpmi.SelXfer.Variant := { floor := %s, budget := %s, emptyStop := %s }

/-- get_sel_entry re-initialises `self.max_req_len = ENTIRE_RECORD` unconditionally in front of its loop and
before any other mention of it, and the SEL retrieval functions of class Sel keep nothing else on the object:
a call sees nothing an earlier call (one that ended in an exception included) left behind - the models of
Model/SelXfer.lean take the device and nothing else.%s -/
def selStateless : Bool := %s

end PyIpmi.Gen.Loops10
''' % (f['initReq'], f['dec'], f['writeLen'],
       f['initReq'], f['dec'], ', '.join(str(x) for x in f['caught']), f['writeLen'],
       s['entire'], s['full'], s['recLen'], s['step'], s['ccShrink'], s['ccCancel'], s['first'], s['last'],
       'none' if s['floor'] is None else 'some (%d)' % s['floor'],
       'none' if s['budget'] is None else 'some %d' % s['budget'],
       'true' if s.get('emptyStop') else 'false',
       ('' if s.get('stateless', True) else '  NOT SO in the working tree: ' + s.get('statelessWhy', '').replace('-/', '- /')),
       'true' if s.get('stateless', True) else 'false')


def generate(need=('fru', 'sel')):
    if isinstance(need, str):
        need = (need,)
    c = extract(need)
    lean.write_if_changed(OUT, render(c))
    return c
