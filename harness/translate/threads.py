"""Translator for C14: the concurrency-relevant SHAPE of pyipmi/interfaces/rmcp.py and session.py,
read from the AST of the working tree and written to lean/PyIpmi/Gen/Threads.lean.

What the interleaving model (Model/Threads.lean) hard-wires and this translator re-reads on every run:

  * `_send_and_receive` first bumps the IPMB sequence number (`self._inc_sequence_number()`) and reads it
    into the header; there is ONE `with self.transaction_lock:` block; WHERE the sequence number is bumped and
    read relative to that block is the model's second variant (`seqInLock`: the block is the first statement
    of the function and nothing outside it mentions `next_sequence_number` / `_inc_sequence_number` -
    fixes/C04-2.diff; as shipped both happen before the block);
  * that block is on ONE lock object, whatever target the request addresses (`oneLock`: the context expression is the
    attribute `self.transaction_lock` itself, there is no other `with` in the function, the attribute is assigned once
    - `threading.Lock()` in `__init__` - and the class creates no other lock; `with self._lock_for(target):` or a lock
    per thread / per call is a different program: threads addressing different targets would not be serialised);
  * every socket access of a request (`_send_ipmi_msg`, `_receive_ipmi_msg`, `self._q.get`) is lexically
    inside that block, and nothing is put back into `self._q`;
  * the session wrapper is built inside `_send_ipmi_msg` (`IpmiMsg(self._session)` … `.pack(...)`), i.e.
    under the lock, and `IpmiMsg.pack` bumps the session sequence number exactly once, when activated;
  * the lock block ends with the retry loop `retry = 0; while retry <= self.max_retries: try: <transmit>; … inner
    receive loop (received_retry) …; break; except socket.timeout: retry += 1`; WHERE the session wrapper is built
    relative to that loop is the model's third variant (`packPerAttempt`: the transmission inside the loop is
    `self._send_ipmi_msg(<one argument>)` and `_send_ipmi_msg` builds the wrapper unconditionally, nothing before the
    loop builds one - so every retransmission takes the next session sequence number; `false` when a wrapper built
    before the loop is handed to the transmission: the retransmission then repeats the number);
  * `Session.increment_sequence_number` is `+= 1; if > 0xffffffff: = 1`;
  * the keep-alive callable handed to `call_repeatedly` reaches `_send_and_receive` (so it takes the
    lock), as do `send_and_receive` and `send_and_receive_raw`;
  * `_inc_sequence_number` is `(n + 1) % 64`;
  * session teardown: `call_repeatedly` runs `while not stopped.wait(interval): try: func(*args) except
    socket.timeout: pass` in a started thread and returns a stopper that sets the event; WHAT ELSE the
    stopper does is the model's variant (`stopperJoins`: it then joins the thread, directly or guarded by
    `current_thread() is not t`); `close_session` is: stopper first, `if self._session.activated is False:
    return`, the Close Session request through `send_and_receive`, and `self._session.activated = False` as
    its last statement (the only store of False to it).

Fail closed: anything the walker does not recognise is reported as a flag value that differs from
`Shape.expected`, so the theorem `Props.C14.source_shape` stops building (tie broken), and the check
goes on to look for a failing schedule on the real threads.
"""
import ast
import os

from ..lib import lean, repo

OUT = os.path.join(lean.LEAN_DIR, 'PyIpmi', 'Gen', 'Threads.lean')


def _cls(tree, name):
    for n in tree.body:
        if isinstance(n, ast.ClassDef) and n.name == name:
            return n
    raise lean.TieBroken('class %s not found' % name)


def _meth(cls, name):
    for n in cls.body:
        if isinstance(n, ast.FunctionDef) and n.name == name:
            return n
    return None


def _is_self_attr(node, attr):
    return (isinstance(node, ast.Attribute) and node.attr == attr
            and isinstance(node.value, ast.Name) and node.value.id == 'self')


def _self_calls(node):
    """names of `self.<name>(...)` calls anywhere below node"""
    out = []
    for n in ast.walk(node):
        if isinstance(n, ast.Call) and isinstance(n.func, ast.Attribute) \
                and isinstance(n.func.value, ast.Name) and n.func.value.id == 'self':
            out.append(n.func.attr)
    return out


def _q_calls(node, meth):
    """calls self._q.<meth>(...) below node"""
    k = 0
    for n in ast.walk(node):
        if isinstance(n, ast.Call) and isinstance(n.func, ast.Attribute) and n.func.attr == meth \
                and _is_self_attr(n.func.value, '_q'):
            k += 1
    return k


def _reaches(cls, start, goal, seen=None):
    """does method `start` (transitively through self.<m>() calls) call `goal`?"""
    seen = seen or set()
    if start in seen:
        return False
    seen.add(start)
    m = _meth(cls, start)
    if m is None:
        return False
    calls = _self_calls(m)
    if goal in calls:
        return True
    return any(_reaches(cls, c, goal, seen) for c in calls)


def analyse():
    tree = ast.parse(repo.read('pyipmi/interfaces/rmcp.py'))
    rmcp = _cls(tree, 'Rmcp')
    ipmimsg = _cls(tree, 'IpmiMsg')
    f = {}
    sar = _meth(rmcp, '_send_and_receive')
    if sar is None:
        raise lean.TieBroken('Rmcp._send_and_receive not found')
    withs = [n for n in ast.walk(sar) if isinstance(n, ast.With)
             and any(_is_self_attr(i.context_expr, 'transaction_lock') for i in n.items)]
    f['lockBlocks'] = len(withs)
    # ONE lock object for every caller and every target: the block's context expression is the attribute itself (not a
    # call such as `self._lock_for(target)`, not a local), `_send_and_receive` has no other `with`, the attribute is
    # assigned once in the class (`self.transaction_lock = threading.Lock()` in __init__) and the class creates no
    # other lock
    all_withs = [n for n in ast.walk(sar) if isinstance(n, ast.With)]
    assigns = [(m.name, n) for m in rmcp.body if isinstance(m, ast.FunctionDef) for n in ast.walk(m)
               if isinstance(n, (ast.Assign, ast.AugAssign, ast.AnnAssign))
               and any(_is_self_attr(t, 'transaction_lock') or (isinstance(t, (ast.Tuple, ast.List)) and any(
                   _is_self_attr(e, 'transaction_lock') for e in t.elts))
                   for t in (n.targets if isinstance(n, ast.Assign) else [n.target]))]

    def is_lock_ctor(n):
        return isinstance(n, ast.Call) and (
            (isinstance(n.func, ast.Attribute) and n.func.attr in ('Lock', 'RLock', 'Semaphore', 'BoundedSemaphore', 'Condition'))
            or (isinstance(n.func, ast.Name) and n.func.id in ('Lock', 'RLock', 'Semaphore', 'BoundedSemaphore', 'Condition')))
    ctors = [n for n in ast.walk(rmcp) if is_lock_ctor(n)]
    lock_rebound = any(isinstance(n, (ast.Delete,)) and any(_is_self_attr(t, 'transaction_lock') for t in n.targets)
                       for n in ast.walk(rmcp)) or any(
        isinstance(n, ast.Call) and isinstance(n.func, ast.Name) and n.func.id in ('setattr', 'delattr')
        and len(n.args) >= 2 and isinstance(n.args[1], ast.Constant) and n.args[1].value == 'transaction_lock'
        for n in ast.walk(rmcp)) or any(
        isinstance(m, ast.FunctionDef) and m.name in ('transaction_lock', '__getattr__', '__getattribute__')
        for m in rmcp.body)
    f['oneLock'] = bool(
        len(withs) == 1 and len(all_withs) == 1 and len(withs[0].items) == 1
        and len(assigns) == 1 and assigns[0][0] == '__init__' and isinstance(assigns[0][1], ast.Assign)
        and len(assigns[0][1].targets) == 1 and is_lock_ctor(assigns[0][1].value)
        and isinstance(assigns[0][1].value.func, ast.Attribute) and assigns[0][1].value.func.attr == 'Lock'
        and _is_name(assigns[0][1].value.func.value, 'threading') and not assigns[0][1].value.args
        and len(ctors) == 1 and not lock_rebound)
    # the lock is taken and released by that one `with` statement ONLY: every other mention of the attribute in class
    # Rmcp (an explicit .release() / .acquire() inside the block - between a time-out and the retransmission, say -, an
    # alias, the lock handed to somebody else) could end the mutual exclusion in the middle of an exchange
    allowed = set(id(i.context_expr) for n in withs for i in n.items) | set(
        id(t) for _, a in assigns for t in (a.targets if isinstance(a, ast.Assign) else [a.target]))
    f['lockOpsElsewhere'] = sum(1 for n in ast.walk(rmcp) if _is_self_attr(n, 'transaction_lock') and id(n) not in allowed) \
        + sum(1 for n in ast.walk(rmcp) if isinstance(n, ast.Constant) and n.value == 'transaction_lock')
    others = [ast.unparse(i.context_expr) for n in all_withs for i in n.items
              if not _is_self_attr(i.context_expr, 'transaction_lock')]
    f['lockText'] = ('self.transaction_lock, the one threading.Lock() of the class' if f['oneLock'] else
                     'with-blocks on %s; %d lock object(s) created in class Rmcp; transaction_lock assigned in %s' % (
                         others or ['self.transaction_lock'], len(ctors), [a[0] for a in assigns]))
    # statements before the lock block (top level of the function body)
    top = sar.body
    idx = next((i for i, s in enumerate(top) if s in withs), None)
    before = top[:idx] if idx is not None else top
    after = top[idx + 1:] if idx is not None else []
    inside = withs[0] if withs else ast.Module(body=[], type_ignores=[])
    def first_stmt(stmts):
        for s in stmts:
            if isinstance(s, ast.Expr) and isinstance(s.value, ast.Constant):
                continue   # docstring
            return s
        return None

    def is_inc(s):
        return bool(s is not None and isinstance(s, ast.Expr) and isinstance(s.value, ast.Call)
                    and isinstance(s.value.func, ast.Attribute) and s.value.func.attr == '_inc_sequence_number'
                    and _is_self_attr(s.value.func, '_inc_sequence_number') and not s.value.args)
    first = first_stmt(top)
    # the first statement executed: of the function, or of the lock block when the function begins with it
    f['incFirst'] = is_inc(first) or bool(withs and first is withs[0] and is_inc(first_stmt(withs[0].body)))
    f['incCalls'] = _self_calls(sar).count('_inc_sequence_number')
    io = ('_send_ipmi_msg', '_receive_ipmi_msg', '_send_rmcp_msg', '_receive_rmcp_msg', '_send_asf_msg',
          '_receive_asf_msg', '_drain_socket')
    outside_nodes = ast.Module(body=list(before) + list(after), type_ignores=[])
    f['ioOutsideLock'] = sum(1 for c in _self_calls(outside_nodes) if c in io) + _q_calls(outside_nodes, 'get') \
        + sum(1 for n in ast.walk(outside_nodes) if isinstance(n, ast.Attribute) and n.attr == '_sock')
    # the VARIANT: is the sequence counter touched outside the lock block at all?
    seq_outside = sum(1 for n in ast.walk(outside_nodes) if isinstance(n, ast.Attribute)
                      and n.attr in ('next_sequence_number', '_inc_sequence_number'))
    f['seqOutsideLock'] = seq_outside
    f['seqInLock'] = bool(withs and seq_outside == 0 and first is withs[0])
    f['sendsInLock'] = _self_calls(inside).count('_send_ipmi_msg')
    f['recvsInLock'] = _self_calls(inside).count('_receive_ipmi_msg')
    f['qGetInLock'] = _q_calls(inside, 'get')
    f['qPut'] = _q_calls(sar, 'put')
    # packing of the session wrapper: not in _send_and_receive itself, but in _send_ipmi_msg
    f['packInSar'] = sum(1 for n in ast.walk(sar) if isinstance(n, ast.Call) and isinstance(n.func, ast.Attribute)
                         and n.func.attr == 'pack')
    sim = _meth(rmcp, '_send_ipmi_msg')

    def packs(node):
        return sum(1 for n in ast.walk(node) if isinstance(n, ast.Call) and isinstance(n.func, ast.Attribute)
                   and n.func.attr == 'pack')

    def builds(node):
        return any(isinstance(n, ast.Call) and isinstance(n.func, ast.Name) and n.func.id == 'IpmiMsg'
                   for n in ast.walk(node))
    # helper methods that build the session wrapper: `IpmiMsg(...)` and `.pack(` in their own body
    packers = set(m.name for m in rmcp.body if isinstance(m, ast.FunctionDef) and m.name != '_send_ipmi_msg'
                  and builds(m) and packs(m) > 0)
    helper_calls = [] if sim is None else [c for c in _self_calls(sim) if c in packers]
    f['packInSend'] = 0 if sim is None else packs(sim) + sum(packs(_meth(rmcp, c)) for c in helper_calls)
    f['sendBuildsIpmiMsg'] = bool(sim is not None and (builds(sim) or bool(helper_calls)))
    analyse_retry_loop(rmcp, sar, inside, sim, packers, f)
    # IpmiMsg.pack bumps the session sequence number once, guarded by `activated`
    pk = _meth(ipmimsg, 'pack')
    incs = [] if pk is None else [n for n in ast.walk(pk) if isinstance(n, ast.Call) and isinstance(n.func, ast.Attribute)
                                   and n.func.attr == 'increment_sequence_number']
    f['packIncs'] = len(incs)
    guarded = False
    if pk is not None:
        for n in ast.walk(pk):
            if isinstance(n, ast.If) and isinstance(n.test, ast.Attribute) and n.test.attr == 'activated' \
                    and any(c in ast.walk(n) for c in incs):
                guarded = True
    f['packIncGuardedByActivated'] = guarded
    # _inc_sequence_number: self.next_sequence_number = (self.next_sequence_number + 1) % 64
    inc = _meth(rmcp, '_inc_sequence_number')
    f['seqAdd'], f['seqMod'] = 0, 0
    if inc is not None and len(inc.body) == 1 and isinstance(inc.body[0], ast.Assign):
        v = inc.body[0].value
        if isinstance(v, ast.BinOp) and isinstance(v.op, ast.Mod) and isinstance(v.right, ast.Constant) \
                and isinstance(v.left, ast.BinOp) and isinstance(v.left.op, ast.Add) \
                and _is_self_attr(v.left.left, 'next_sequence_number') and isinstance(v.left.right, ast.Constant) \
                and _is_self_attr(inc.body[0].targets[0], 'next_sequence_number'):
            f['seqAdd'], f['seqMod'] = v.left.right.value, v.right.value
    # keep-alive callable and the public entry points reach _send_and_receive
    est = _meth(rmcp, 'establish_session')
    ka = None
    if est is not None:
        for n in ast.walk(est):
            if isinstance(n, ast.Call) and isinstance(n.func, ast.Name) and n.func.id == 'call_repeatedly' \
                    and len(n.args) == 2 and isinstance(n.args[1], ast.Attribute) and _is_self_attr(n.args[1], n.args[1].attr):
                ka = n.args[1].attr
    f['keepAliveLocked'] = bool(ka and _reaches(rmcp, ka, '_send_and_receive'))
    f['keepAliveName'] = ka or '?'
    f['rawLocked'] = _reaches(rmcp, 'send_and_receive_raw', '_send_and_receive')
    f['msgLocked'] = _reaches(rmcp, 'send_and_receive', '_send_and_receive')
    # Session.increment_sequence_number
    stree = ast.parse(repo.read('pyipmi/session.py'))
    sess = _cls(stree, 'Session')
    isn = _meth(sess, 'increment_sequence_number')
    f['sessAdd'], f['sessLimit'], f['sessWrapTo'] = 0, 0, 0
    if isn is not None and len(isn.body) == 2 and isinstance(isn.body[0], ast.AugAssign) \
            and isinstance(isn.body[0].op, ast.Add) and isinstance(isn.body[0].value, ast.Constant) \
            and isinstance(isn.body[1], ast.If) and isinstance(isn.body[1].test, ast.Compare) \
            and len(isn.body[1].test.ops) == 1 and isinstance(isn.body[1].test.ops[0], ast.Gt) \
            and isinstance(isn.body[1].test.comparators[0], ast.Constant) and len(isn.body[1].body) == 1 \
            and isinstance(isn.body[1].body[0], ast.Assign) and isinstance(isn.body[1].body[0].value, ast.Constant):
        f['sessAdd'] = isn.body[0].value.value
        f['sessLimit'] = isn.body[1].test.comparators[0].value
        f['sessWrapTo'] = isn.body[1].body[0].value.value
    analyse_teardown(tree, rmcp, f)
    return f


def _is_name(n, name):
    return isinstance(n, ast.Name) and n.id == name


def analyse_retry_loop(rmcp, sar, inside, sim, packers, f):
    """The retry loop at the end of the lock block, and where the session wrapper is built relative to it."""
    f['retryLoop'], f['packBeforeLoop'], f['packPerAttempt'] = False, 0, False
    f['packText'] = '?'
    body = list(getattr(inside, 'body', []))

    def is_budget(t, name):
        return isinstance(t, ast.Compare) and _is_name(t.left, name) and len(t.ops) == 1 \
            and isinstance(t.ops[0], ast.LtE) and _is_self_attr(t.comparators[0], 'max_retries')

    def is_zero(st, name):
        return isinstance(st, ast.Assign) and len(st.targets) == 1 and _is_name(st.targets[0], name) \
            and isinstance(st.value, ast.Constant) and st.value.value == 0 and st.value.value is not False

    def is_incr(st, name):
        return isinstance(st, ast.AugAssign) and isinstance(st.op, ast.Add) and _is_name(st.target, name) \
            and isinstance(st.value, ast.Constant) and st.value.value == 1

    loops = [i for i, st in enumerate(body) if isinstance(st, ast.While)]
    if len(loops) != 1 or loops[0] != len(body) - 1 or loops[0] == 0:
        return
    loop, before = body[-1], body[:-1]
    ok = is_budget(loop.test, 'retry') and not loop.orelse and is_zero(before[-1], 'retry') \
        and len(loop.body) == 1 and isinstance(loop.body[0], ast.Try)
    send_call = None
    if ok:
        tr = loop.body[0]
        hs = tr.handlers
        ok = not tr.orelse and not tr.finalbody and len(hs) == 1 and isinstance(hs[0].type, ast.Attribute) \
            and hs[0].type.attr == 'timeout' and _is_name(hs[0].type.value, 'socket') \
            and len(hs[0].body) == 1 and is_incr(hs[0].body[0], 'retry')
        tb = tr.body
        if ok and len(tb) >= 4 and isinstance(tb[0], ast.Expr) and isinstance(tb[0].value, ast.Call) \
                and _is_self_attr(tb[0].value.func, '_send_ipmi_msg'):
            send_call = tb[0].value
        else:
            ok = False
    if ok:
        inner = [st for st in tb if isinstance(st, ast.While)]
        io_calls = lambda node: _self_calls(node).count('_receive_ipmi_msg') + _q_calls(node, 'get')  # noqa
        ok = len(inner) == 1 and not inner[0].orelse and isinstance(inner[0].test, ast.BoolOp) \
            and isinstance(inner[0].test.op, ast.And) and len(inner[0].test.values) == 2 \
            and is_budget(inner[0].test.values[1], 'received_retry') \
            and any(is_incr(n, 'received_retry') for n in ast.walk(inner[0])) \
            and any(is_zero(st, 'received_retry') for st in tb[1:tb.index(inner[0])]) \
            and io_calls(inner[0]) == io_calls(sar) and io_calls(inner[0]) > 0 \
            and _self_calls(sar).count('_send_ipmi_msg') == 1 \
            and isinstance(tb[-1], ast.Break) and isinstance(tb[-2], ast.If) and not tb[-2].orelse \
            and len(tb[-2].body) == 1 and isinstance(tb[-2].body[0], ast.Raise) \
            and tb.index(inner[0]) == len(tb) - 3 \
            and not any(isinstance(n, (ast.Break, ast.Return)) for n in ast.walk(inner[0]))
    f['retryLoop'] = bool(ok)
    # session wrappers built before the loop (inside the lock block): calls of a packing helper / of
    # _send_ipmi_msg, or a direct IpmiMsg(...).pack(...)
    pre = ast.Module(body=before, type_ignores=[])
    f['packBeforeLoop'] = sum(1 for c in _self_calls(pre) if c in packers or c == '_send_ipmi_msg') \
        + sum(1 for n in ast.walk(pre) if isinstance(n, ast.Call) and isinstance(n.func, ast.Name) and n.func.id == 'IpmiMsg')
    # does the transmission of every attempt build the wrapper itself, unconditionally?
    uncond = False
    if sim is not None:
        top = [st for st in sim.body]
        flat = ast.Module(body=[st for st in top if not isinstance(st, (ast.If, ast.Try, ast.While, ast.For, ast.With))],
                          type_ignores=[])
        direct = any(isinstance(n, ast.Call) and isinstance(n.func, ast.Name) and n.func.id == 'IpmiMsg'
                     for n in ast.walk(flat)) and any(
            isinstance(n, ast.Call) and isinstance(n.func, ast.Attribute) and n.func.attr == 'pack' for n in ast.walk(flat))
        via = any(c in packers for c in _self_calls(flat))
        uncond = direct or via
    one_arg = bool(send_call is not None and len(send_call.args) == 1 and not send_call.keywords
                   and len(sim.args.args) == 2 and not sim.args.defaults and sim.args.vararg is None
                   and sim.args.kwarg is None) if sim is not None else False
    f['packPerAttempt'] = bool(ok and uncond and one_arg and f['packBeforeLoop'] == 0)
    f['packText'] = ('by the transmission of every attempt' if f['packPerAttempt'] else
                     'before the retry loop (%d), transmission %s' % (
                         f['packBeforeLoop'], 'packs unconditionally' if uncond else 'is handed / may reuse a stored datagram'))


def _method_call_on(node, obj, meth):
    """node is the call  <obj>.<meth>(...)  on the local name obj -> the Call, else None"""
    if isinstance(node, ast.Call) and isinstance(node.func, ast.Attribute) and node.func.attr == meth \
            and _is_name(node.func.value, obj):
        return node
    return None


def _body(fn):
    """statements of a function without its docstring"""
    b = list(fn.body)
    if b and isinstance(b[0], ast.Expr) and isinstance(b[0].value, ast.Constant) and isinstance(b[0].value.value, str):
        b = b[1:]
    return b


def analyse_teardown(tree, rmcp, f):
    # ---- call_repeatedly
    cr = next((n for n in tree.body if isinstance(n, ast.FunctionDef) and n.name == 'call_repeatedly'), None)
    f['loopWaitsThenCalls'] = f['loopSwallowsOnlyTimeout'] = f['stopperSets'] = f['stopperJoins'] = False
    f['stopperText'] = '?'
    if cr is not None and len(cr.args.args) == 2 and cr.args.vararg is not None:
        interval, func, star = cr.args.args[0].arg, cr.args.args[1].arg, cr.args.vararg.arg
        body = _body(cr)
        ev = thr = None
        nested = {}
        target = None
        started = False
        ret = None
        other = 0
        for st in body:
            if isinstance(st, ast.Assign) and len(st.targets) == 1 and isinstance(st.targets[0], ast.Name) \
                    and isinstance(st.value, ast.Call) and isinstance(st.value.func, ast.Attribute) \
                    and _is_name(st.value.func.value, 'threading'):
                if st.value.func.attr == 'Event' and not st.value.args and not st.value.keywords:
                    ev = st.targets[0].id
                elif st.value.func.attr == 'Thread' and not st.value.args and len(st.value.keywords) == 1 \
                        and st.value.keywords[0].arg == 'target' and isinstance(st.value.keywords[0].value, ast.Name):
                    thr = st.targets[0].id
                    target = st.value.keywords[0].value.id
                else:
                    other += 1
            elif isinstance(st, ast.FunctionDef):
                nested[st.name] = st
            elif isinstance(st, ast.Assign) and len(st.targets) == 1 and isinstance(st.targets[0], ast.Attribute) \
                    and st.targets[0].attr == 'daemon' and thr and _is_name(st.targets[0].value, thr):
                pass
            elif isinstance(st, ast.Expr) and thr and _method_call_on(st.value, thr, 'start') is not None:
                started = True
            elif isinstance(st, ast.Return):
                ret = st.value
            else:
                other += 1
        loop = nested.get(target)
        if loop is not None and ev and started and other == 0 and not loop.args.args:
            lb = _body(loop)
            if len(lb) == 1 and isinstance(lb[0], ast.While) and not lb[0].orelse \
                    and isinstance(lb[0].test, ast.UnaryOp) and isinstance(lb[0].test.op, ast.Not):
                w = _method_call_on(lb[0].test.operand, ev, 'wait')
                wb = lb[0].body
                if w is not None and len(w.args) == 1 and _is_name(w.args[0], interval) and len(wb) == 1 \
                        and isinstance(wb[0], ast.Try) and not wb[0].orelse and not wb[0].finalbody \
                        and len(wb[0].body) == 1 and isinstance(wb[0].body[0], ast.Expr):
                    c = wb[0].body[0].value
                    if isinstance(c, ast.Call) and _is_name(c.func, func) and len(c.args) == 1 \
                            and isinstance(c.args[0], ast.Starred) and _is_name(c.args[0].value, star) \
                            and not c.keywords:
                        f['loopWaitsThenCalls'] = True
                    hs = wb[0].handlers
                    f['loopSwallowsOnlyTimeout'] = bool(
                        len(hs) == 1 and isinstance(hs[0].type, ast.Attribute) and hs[0].type.attr == 'timeout'
                        and _is_name(hs[0].type.value, 'socket') and len(hs[0].body) == 1
                        and isinstance(hs[0].body[0], ast.Pass))
        # ---- the stopper
        if ev and isinstance(ret, ast.Attribute) and ret.attr == 'set' and _is_name(ret.value, ev):
            f['stopperSets'], f['stopperJoins'], f['stopperText'] = True, False, '%s.set' % ev
        elif ev and thr and isinstance(ret, ast.Name) and ret.id in nested and ret.id != target:
            sb = _body(nested[ret.id])
            ok = bool(sb) and not nested[ret.id].args.args and isinstance(sb[0], ast.Expr) \
                and _method_call_on(sb[0].value, ev, 'set') is not None and not sb[0].value.args
            joins = False

            def is_join(st):
                j = _method_call_on(st.value, thr, 'join') if isinstance(st, ast.Expr) else None
                return j is not None and not j.args and not j.keywords
            if ok and len(sb) == 2:
                st = sb[1]
                if is_join(st):
                    joins = True
                elif isinstance(st, ast.If) and not st.orelse and len(st.body) == 1 and is_join(st.body[0]) \
                        and isinstance(st.test, ast.Compare) and len(st.test.ops) == 1 \
                        and isinstance(st.test.ops[0], (ast.IsNot, ast.NotEq)) \
                        and isinstance(st.test.left, ast.Call) and isinstance(st.test.left.func, ast.Attribute) \
                        and st.test.left.func.attr in ('current_thread', 'currentThread') \
                        and _is_name(st.test.left.func.value, 'threading') and _is_name(st.test.comparators[0], thr):
                    joins = True
                else:
                    ok = False
            elif len(sb) != 1:
                ok = False
            f['stopperSets'], f['stopperJoins'] = ok, ok and joins
            f['stopperText'] = '%s: %s.set()%s' % (ret.id, ev, ('; %s.join()' % thr) if joins else '') if ok else '?'
    # ---- close_session
    cs = _meth(rmcp, 'close_session')
    f['closeStopsFirst'] = f['closeChecksActivated'] = f['closeLocked'] = f['closeDeactivatesLast'] = False
    if cs is not None:
        def is_log(st):
            return isinstance(st, ast.Expr) and isinstance(st.value, ast.Call) and isinstance(st.value.func, ast.Attribute) \
                and isinstance(st.value.func.value, ast.Call) and _is_name(st.value.func.value.func, 'log')
        b = [st for st in _body(cs) if not is_log(st)]
        if b and isinstance(b[0], ast.If) and not b[0].orelse and _is_self_attr(b[0].test, '_stop_keep_alive') \
                and len(b[0].body) == 1 and isinstance(b[0].body[0], ast.Expr) \
                and isinstance(b[0].body[0].value, ast.Call) and _is_self_attr(b[0].body[0].value.func, '_stop_keep_alive') \
                and not b[0].body[0].value.args:
            f['closeStopsFirst'] = True

        def is_activated(n):
            return isinstance(n, ast.Attribute) and n.attr == 'activated' and _is_self_attr(n.value, '_session')
        def act_is_false(t):
            return isinstance(t, ast.Compare) and is_activated(t.left) and len(t.ops) == 1 \
                and isinstance(t.ops[0], ast.Is) and isinstance(t.comparators[0], ast.Constant) \
                and t.comparators[0].value is False

        def session_is_none(t):
            return isinstance(t, ast.Compare) and _is_self_attr(t.left, '_session') and len(t.ops) == 1 \
                and isinstance(t.ops[0], ast.Is) and isinstance(t.comparators[0], ast.Constant) \
                and t.comparators[0].value is None

        def guard(t):
            """`self._session.activated is False`, optionally preceded by `self._session is None or` (no session was
            ever attached: outside the model, where a session exists)"""
            return act_is_false(t) or (isinstance(t, ast.BoolOp) and isinstance(t.op, ast.Or) and len(t.values) == 2
                                       and session_is_none(t.values[0]) and act_is_false(t.values[1]))
        if len(b) > 1 and isinstance(b[1], ast.If) and not b[1].orelse and guard(b[1].test):
            inner = [st for st in b[1].body if not is_log(st)]
            f['closeChecksActivated'] = len(inner) == 1 and isinstance(inner[0], ast.Return) and inner[0].value is None
        rest = b[2:]
        sends = [n for st in rest for n in ast.walk(st) if isinstance(n, ast.Call) and isinstance(n.func, ast.Attribute)
                 and isinstance(n.func.value, ast.Name) and n.func.value.id == 'self']
        names = [n.func.attr for n in sends]
        f['closeLocked'] = names == ['send_and_receive'] and _reaches(rmcp, 'send_and_receive', '_send_and_receive') \
            and not any(isinstance(n, (ast.With, ast.While, ast.For, ast.Try, ast.If)) for st in rest for n in ast.walk(st))
        stores = [n for n in ast.walk(rmcp) if isinstance(n, (ast.Assign, ast.AugAssign, ast.AnnAssign))
                  and any(isinstance(t, ast.Attribute) and t.attr == 'activated'
                          for t in (n.targets if isinstance(n, ast.Assign) else [n.target]))]
        false_stores = [n for n in stores if not (isinstance(n, ast.Assign) and isinstance(n.value, ast.Constant)
                                                  and n.value.value is True)]
        # (fix C06-4) establish_session clears the caller's Session object - `session.activated = False` - among its
        # first statements, before anything is sent (before its first `self.<method>(...)` call statement, the ping):
        # no session exists at that point, the store is not part of any teardown; it is C06's (Props.C06.handshake_shape)
        est_fn = _meth(rmcp, 'establish_session')
        if est_fn is not None:
            for st in _body(est_fn):
                if isinstance(st, ast.Expr) and isinstance(st.value, ast.Call) and isinstance(st.value.func, ast.Attribute) \
                        and _is_name(st.value.func.value, 'self'):
                    break
                if isinstance(st, ast.Assign) and isinstance(st.value, ast.Constant) and st.value.value is False:
                    false_stores = [n for n in false_stores if n is not st]
        last = rest[-1] if rest else None
        f['closeDeactivatesLast'] = bool(
            last is not None and isinstance(last, ast.Assign) and len(last.targets) == 1 and is_activated(last.targets[0])
            and isinstance(last.value, ast.Constant) and last.value.value is False and false_stores == [last]
            and isinstance(rest[-2] if len(rest) > 1 else None, ast.Expr))
        # the request itself must be sent before the store: the send is in an earlier statement
        if f['closeDeactivatesLast']:
            idx = [i for i, st in enumerate(rest) if any(n in sends for n in ast.walk(st))]
            f['closeDeactivatesLast'] = bool(idx) and idx[-1] < len(rest) - 1
    return f


def _b(x):
    return 'true' if x else 'false'


def generate():
    f = analyse()
    txt = '''/- GENERATED by harness/translate/threads.py from pyipmi/interfaces/rmcp.py and pyipmi/session.py
   on every run of ./check C14 — do not edit. -/
import PyIpmi.Model.Threads
namespace PyIpmi.Gen.Threads
open PyIpmi.Threads

/-- keep-alive callable installed by establish_session: %s;  stopper returned by call_repeatedly: %s;
mentions of next_sequence_number / _inc_sequence_number outside the lock block of _send_and_receive: %d;
session wrapper built: %s;  lock: %s -/
def shape : Shape :=
  { lockBlocks := %d, oneLock := %s, lockOpsElsewhere := %d, incFirst := %s, seqInLock := %s, incCalls := %d, ioOutsideLock := %d, sendsInLock := %d, recvsInLock := %d,
    qGetInLock := %d, qPut := %d, packInSar := %d, packInSend := %d, sendBuildsIpmiMsg := %s,
    retryLoop := %s, packBeforeLoop := %d, packPerAttempt := %s, packIncs := %d,
    packIncGuardedByActivated := %s, seqAdd := %d, seqMod := %d, keepAliveLocked := %s, rawLocked := %s,
    msgLocked := %s, sessAdd := %d, sessLimit := %d, sessWrapTo := %d,
    loopWaitsThenCalls := %s, loopSwallowsOnlyTimeout := %s, stopperSets := %s, stopperJoins := %s,
    closeStopsFirst := %s, closeChecksActivated := %s, closeLocked := %s, closeDeactivatesLast := %s }

end PyIpmi.Gen.Threads
''' % (f['keepAliveName'], f['stopperText'], f['seqOutsideLock'], f['packText'], f['lockText'].replace('-/', '- /'), f['lockBlocks'], _b(f['oneLock']), f['lockOpsElsewhere'], _b(f['incFirst']), _b(f['seqInLock']),
       f['incCalls'], f['ioOutsideLock'], f['sendsInLock'],
       f['recvsInLock'], f['qGetInLock'], f['qPut'], f['packInSar'], f['packInSend'], _b(f['sendBuildsIpmiMsg']),
       _b(f['retryLoop']), f['packBeforeLoop'], _b(f['packPerAttempt']), f['packIncs'], _b(f['packIncGuardedByActivated']), int(f['seqAdd']), int(f['seqMod']), _b(f['keepAliveLocked']),
       _b(f['rawLocked']), _b(f['msgLocked']), int(f['sessAdd']), int(f['sessLimit']), int(f['sessWrapTo']),
       _b(f['loopWaitsThenCalls']), _b(f['loopSwallowsOnlyTimeout']), _b(f['stopperSets']), _b(f['stopperJoins']),
       _b(f['closeStopsFirst']), _b(f['closeChecksActivated']), _b(f['closeLocked']), _b(f['closeDeactivatesLast']))
    lean.write_if_changed(OUT, txt)
    return f
