"""Translator for C14: the concurrency-relevant SHAPE of pyipmi/interfaces/rmcp.py and session.py,
read from the AST of the working tree and written to lean/PyIpmi/Gen/Threads.lean.

What the interleaving model (Model/Threads.lean) hard-wires and this translator re-reads on every run:

  * `_send_and_receive` first bumps the IPMB sequence number (`self._inc_sequence_number()`), reads it
    into the header, and only then enters ONE `with self.transaction_lock:` block;
  * every socket access of a request (`_send_ipmi_msg`, `_receive_ipmi_msg`, `self._q.get`) is lexically
    inside that block, and nothing is put back into `self._q`;
  * the session wrapper is built inside `_send_ipmi_msg` (`IpmiMsg(self._session)` … `.pack(...)`), i.e.
    under the lock, and `IpmiMsg.pack` bumps the session sequence number exactly once, when activated;
  * `Session.increment_sequence_number` is `+= 1; if > 0xffffffff: = 1`;
  * the keep-alive callable handed to `call_repeatedly` reaches `_send_and_receive` (so it takes the
    lock), as do `send_and_receive` and `send_and_receive_raw`;
  * `_inc_sequence_number` is `(n + 1) % 64`.

Fail closed: anything the walker does not recognise is reported as a flag value that differs from
`Shape.expected`, so the theorem `Props.C14.source_shape` stops building (tie broken), and the check
goes on to look for a failing schedule on the real threads.
"""
import ast
import os

from ..lib import lean, repo

OUT = os.path.join(lean.LEAN_DIR, 'PyIpmi', 'Gen', 'Threads.lean')


def _cls(tree, name):
    for n in tree.body:
        if isinstance(n, ast.ClassDef) and n.name == name:
            return n
    raise lean.TieBroken('class %s not found' % name)


def _meth(cls, name):
    for n in cls.body:
        if isinstance(n, ast.FunctionDef) and n.name == name:
            return n
    return None


def _is_self_attr(node, attr):
    return (isinstance(node, ast.Attribute) and node.attr == attr
            and isinstance(node.value, ast.Name) and node.value.id == 'self')


def _self_calls(node):
    """names of `self.<name>(...)` calls anywhere below node"""
    out = []
    for n in ast.walk(node):
        if isinstance(n, ast.Call) and isinstance(n.func, ast.Attribute) \
                and isinstance(n.func.value, ast.Name) and n.func.value.id == 'self':
            out.append(n.func.attr)
    return out


def _q_calls(node, meth):
    """calls self._q.<meth>(...) below node"""
    k = 0
    for n in ast.walk(node):
        if isinstance(n, ast.Call) and isinstance(n.func, ast.Attribute) and n.func.attr == meth \
                and _is_self_attr(n.func.value, '_q'):
            k += 1
    return k


def _reaches(cls, start, goal, seen=None):
    """does method `start` (transitively through self.<m>() calls) call `goal`?"""
    seen = seen or set()
    if start in seen:
        return False
    seen.add(start)
    m = _meth(cls, start)
    if m is None:
        return False
    calls = _self_calls(m)
    if goal in calls:
        return True
    return any(_reaches(cls, c, goal, seen) for c in calls)


def analyse():
    tree = ast.parse(repo.read('pyipmi/interfaces/rmcp.py'))
    rmcp = _cls(tree, 'Rmcp')
    ipmimsg = _cls(tree, 'IpmiMsg')
    f = {}
    sar = _meth(rmcp, '_send_and_receive')
    if sar is None:
        raise lean.TieBroken('Rmcp._send_and_receive not found')
    withs = [n for n in ast.walk(sar) if isinstance(n, ast.With)
             and any(_is_self_attr(i.context_expr, 'transaction_lock') for i in n.items)]
    f['lockBlocks'] = len(withs)
    # statements before the lock block (top level of the function body)
    top = sar.body
    idx = next((i for i, s in enumerate(top) if s in withs), None)
    before = top[:idx] if idx is not None else top
    after = top[idx + 1:] if idx is not None else []
    inside = withs[0] if withs else ast.Module(body=[], type_ignores=[])
    first_call = None
    for s in before:
        if isinstance(s, ast.Expr) and isinstance(s.value, ast.Constant):
            continue   # docstring
        if isinstance(s, ast.Expr) and isinstance(s.value, ast.Call):
            first_call = s.value
        break
    f['incFirst'] = bool(first_call is not None and isinstance(first_call.func, ast.Attribute)
                         and first_call.func.attr == '_inc_sequence_number'
                         and _is_self_attr(first_call.func, '_inc_sequence_number'))
    f['incCalls'] = _self_calls(sar).count('_inc_sequence_number')
    io = ('_send_ipmi_msg', '_receive_ipmi_msg', '_send_rmcp_msg', '_receive_rmcp_msg', '_send_asf_msg',
          '_receive_asf_msg')
    outside_nodes = ast.Module(body=list(before) + list(after), type_ignores=[])
    f['ioOutsideLock'] = sum(1 for c in _self_calls(outside_nodes) if c in io) + _q_calls(outside_nodes, 'get') \
        + sum(1 for n in ast.walk(outside_nodes) if isinstance(n, ast.Attribute) and n.attr == '_sock')
    f['sendsInLock'] = _self_calls(inside).count('_send_ipmi_msg')
    f['recvsInLock'] = _self_calls(inside).count('_receive_ipmi_msg')
    f['qGetInLock'] = _q_calls(inside, 'get')
    f['qPut'] = _q_calls(sar, 'put')
    # packing of the session wrapper: not in _send_and_receive itself, but in _send_ipmi_msg
    f['packInSar'] = sum(1 for n in ast.walk(sar) if isinstance(n, ast.Call) and isinstance(n.func, ast.Attribute)
                         and n.func.attr == 'pack')
    sim = _meth(rmcp, '_send_ipmi_msg')
    f['packInSend'] = 0 if sim is None else sum(
        1 for n in ast.walk(sim) if isinstance(n, ast.Call) and isinstance(n.func, ast.Attribute) and n.func.attr == 'pack')
    f['sendBuildsIpmiMsg'] = bool(sim is not None and any(
        isinstance(n, ast.Call) and isinstance(n.func, ast.Name) and n.func.id == 'IpmiMsg' for n in ast.walk(sim)))
    # IpmiMsg.pack bumps the session sequence number once, guarded by `activated`
    pk = _meth(ipmimsg, 'pack')
    incs = [] if pk is None else [n for n in ast.walk(pk) if isinstance(n, ast.Call) and isinstance(n.func, ast.Attribute)
                                   and n.func.attr == 'increment_sequence_number']
    f['packIncs'] = len(incs)
    guarded = False
    if pk is not None:
        for n in ast.walk(pk):
            if isinstance(n, ast.If) and isinstance(n.test, ast.Attribute) and n.test.attr == 'activated' \
                    and any(c in ast.walk(n) for c in incs):
                guarded = True
    f['packIncGuardedByActivated'] = guarded
    # _inc_sequence_number: self.next_sequence_number = (self.next_sequence_number + 1) % 64
    inc = _meth(rmcp, '_inc_sequence_number')
    f['seqAdd'], f['seqMod'] = 0, 0
    if inc is not None and len(inc.body) == 1 and isinstance(inc.body[0], ast.Assign):
        v = inc.body[0].value
        if isinstance(v, ast.BinOp) and isinstance(v.op, ast.Mod) and isinstance(v.right, ast.Constant) \
                and isinstance(v.left, ast.BinOp) and isinstance(v.left.op, ast.Add) \
                and _is_self_attr(v.left.left, 'next_sequence_number') and isinstance(v.left.right, ast.Constant) \
                and _is_self_attr(inc.body[0].targets[0], 'next_sequence_number'):
            f['seqAdd'], f['seqMod'] = v.left.right.value, v.right.value
    # keep-alive callable and the public entry points reach _send_and_receive
    est = _meth(rmcp, 'establish_session')
    ka = None
    if est is not None:
        for n in ast.walk(est):
            if isinstance(n, ast.Call) and isinstance(n.func, ast.Name) and n.func.id == 'call_repeatedly' \
                    and len(n.args) == 2 and isinstance(n.args[1], ast.Attribute) and _is_self_attr(n.args[1], n.args[1].attr):
                ka = n.args[1].attr
    f['keepAliveLocked'] = bool(ka and _reaches(rmcp, ka, '_send_and_receive'))
    f['keepAliveName'] = ka or '?'
    f['rawLocked'] = _reaches(rmcp, 'send_and_receive_raw', '_send_and_receive')
    f['msgLocked'] = _reaches(rmcp, 'send_and_receive', '_send_and_receive')
    # Session.increment_sequence_number
    stree = ast.parse(repo.read('pyipmi/session.py'))
    sess = _cls(stree, 'Session')
    isn = _meth(sess, 'increment_sequence_number')
    f['sessAdd'], f['sessLimit'], f['sessWrapTo'] = 0, 0, 0
    if isn is not None and len(isn.body) == 2 and isinstance(isn.body[0], ast.AugAssign) \
            and isinstance(isn.body[0].op, ast.Add) and isinstance(isn.body[0].value, ast.Constant) \
            and isinstance(isn.body[1], ast.If) and isinstance(isn.body[1].test, ast.Compare) \
            and len(isn.body[1].test.ops) == 1 and isinstance(isn.body[1].test.ops[0], ast.Gt) \
            and isinstance(isn.body[1].test.comparators[0], ast.Constant) and len(isn.body[1].body) == 1 \
            and isinstance(isn.body[1].body[0], ast.Assign) and isinstance(isn.body[1].body[0].value, ast.Constant):
        f['sessAdd'] = isn.body[0].value.value
        f['sessLimit'] = isn.body[1].test.comparators[0].value
        f['sessWrapTo'] = isn.body[1].body[0].value.value
    return f


def _b(x):
    return 'true' if x else 'false'


def generate():
    f = analyse()
    txt = '''/- GENERATED by harness/translate/threads.py from pyipmi/interfaces/rmcp.py and pyipmi/session.py
   on every run of ./check C14 — do not edit. -/
import PyIpmi.Model.Threads
namespace PyIpmi.Gen.Threads
open PyIpmi.Threads

/-- keep-alive callable installed by establish_session: %s -/
def shape : Shape :=
  { lockBlocks := %d, incFirst := %s, incCalls := %d, ioOutsideLock := %d, sendsInLock := %d, recvsInLock := %d,
    qGetInLock := %d, qPut := %d, packInSar := %d, packInSend := %d, sendBuildsIpmiMsg := %s, packIncs := %d,
    packIncGuardedByActivated := %s, seqAdd := %d, seqMod := %d, keepAliveLocked := %s, rawLocked := %s,
    msgLocked := %s, sessAdd := %d, sessLimit := %d, sessWrapTo := %d }

end PyIpmi.Gen.Threads
''' % (f['keepAliveName'], f['lockBlocks'], _b(f['incFirst']), f['incCalls'], f['ioOutsideLock'], f['sendsInLock'],
       f['recvsInLock'], f['qGetInLock'], f['qPut'], f['packInSar'], f['packInSend'], _b(f['sendBuildsIpmiMsg']),
       f['packIncs'], _b(f['packIncGuardedByActivated']), int(f['seqAdd']), int(f['seqMod']), _b(f['keepAliveLocked']),
       _b(f['rawLocked']), _b(f['msgLocked']), int(f['sessAdd']), int(f['sessLimit']), int(f['sessWrapTo']))
    lean.write_if_changed(OUT, txt)
    return f
