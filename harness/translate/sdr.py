"""T: pyipmi/sdr.py (+ utils.BCD_MAP)  ->  lean/PyIpmi/Gen/SdrTables.lean   (C16, C17)

Extracted from the working tree on every run, by `ast` over the source with the module
imported only to resolve the *names* used as dictionary keys (SDR_TYPE_*, L_*):

* the record-type dispatch of `SdrCommon.from_data`: which index of `data` is the type byte,
  the dict `type constant -> class`, the `.get` default class;
* the linearisation dispatch of `SdrFullSensorRecord.lin`: the mask applied to
  `self.linearization`, the dict `L_* -> function`, every function normalised to a *tag* from
  its AST shape (not from its key!), and the `except KeyError -> DecodingError` handler;
* `utils.BCD_MAP` as character codes (the 'bcd+' codec: FRU fields), and the BCD plus table the SDR
  id-string path uses: the class-level string constant that `fields.TypeLengthString._from_data`
  indexes (`self.<NAME>[…]`), read from the AST and cross-checked against the imported class; when
  `_from_data` indexes no such table the SDR path goes through the 'bcd+' codec as well and the
  table is `utils.BCD_MAP` (`sdr_bcd_source` says which).

Class tags   0 SdrFullSensorRecord  1 SdrCompactSensorRecord  2 SdrEventOnlySensorRecord
             3 SdrFruDeviceLocator  4 SdrManagementControllerDeviceLocator
             5 SdrManagementControllerConfirmationRecord  6 SdrOEMSensorRecord
             7 SdrUnknownSensorRecord
Function tags 0 x  1 ln x  2 log10 x  3 log2 x  4 e^x  5 10^x  6 2^x  7 1/x  8 x^2  9 x^3
              10 sqrt x  11 pow(x, 1/3) (ValueError for x < 0)  12 copysign(pow(abs(x), 1/3), x) (real cube root)

Fails closed: any shape outside this grammar raises TieBroken.

The arithmetic / bit EXPRESSIONS of the same source (masks, shifts, sign extension, the
conversion formulas and their inverse) are translated by harness/translate/sdrexpr.py into
Gen/SdrExpr.lean (C16) and Gen/SensorExpr.lean (C17).
"""
import ast
import os

from ..lib import lean, repo
from ..lib.lean import TieBroken

OUT = os.path.join(lean.LEAN_DIR, 'PyIpmi', 'Gen', 'SdrTables.lean')

CLASS_TAG = {
    'SdrFullSensorRecord': 0,
    'SdrCompactSensorRecord': 1,
    'SdrEventOnlySensorRecord': 2,
    'SdrFruDeviceLocator': 3,
    'SdrManagementControllerDeviceLocator': 4,
    'SdrManagementControllerConfirmationRecord': 5,
    'SdrOEMSensorRecord': 6,
    'SdrUnknownSensorRecord': 7,
}
FN_NAMES = ['linear', 'ln', 'log10', 'log2', 'exp', 'exp10', 'exp2', 'inv', 'sqr', 'cube', 'sqrt', 'cubert',
            'cubert-signed']


def _find(body, kind, name):
    for n in body:
        if isinstance(n, kind) and getattr(n, 'name', None) == name:
            return n
    raise TieBroken('sdr.py: %s %s not found' % (kind.__name__, name))


def _is_math(node, fn):
    return isinstance(node, ast.Attribute) and node.attr == fn and \
        isinstance(node.value, ast.Name) and node.value.id == 'math'


def _num(node):
    """A numeric literal, or the literal quotient a/b."""
    if isinstance(node, ast.Constant) and isinstance(node.value, (int, float)) and not isinstance(node.value, bool):
        return float(node.value)
    if isinstance(node, ast.BinOp) and isinstance(node.op, ast.Div):
        a, b = _num(node.left), _num(node.right)
        if a is None or b in (None, 0.0):
            return None
        return a / b
    return None


def _fn_tag(node):
    """Normalise one linearisation function to its tag from the shape of its AST."""
    if _is_math(node, 'log'):
        return 1
    if _is_math(node, 'log10'):
        return 2
    if _is_math(node, 'log2'):
        return 3
    if _is_math(node, 'exp'):
        return 4
    if _is_math(node, 'sqrt'):
        return 10
    if isinstance(node, ast.Lambda):
        a = node.args
        if len(a.args) != 1 or a.vararg or a.kwarg or a.kwonlyargs or a.defaults or getattr(a, 'posonlyargs', []):
            raise TieBroken('lin: lambda with an unexpected signature')
        x = a.args[0].arg
        b = node.body

        def isx(n):
            return isinstance(n, ast.Name) and n.id == x

        if isx(b):
            return 0
        if isinstance(b, ast.BinOp) and isinstance(b.op, ast.Div) and _num(b.left) == 1.0 and isx(b.right):
            return 7
        if isinstance(b, ast.Call) and not b.keywords and len(b.args) == 1 and isx(b.args[0]):
            for fn, tag in (('log', 1), ('log10', 2), ('log2', 3), ('exp', 4), ('sqrt', 10)):
                if _is_math(b.func, fn):
                    return tag
        if isinstance(b, ast.Call) and not b.keywords and len(b.args) == 2:
            p, q = b.args
            if _is_math(b.func, 'log') and isx(p):
                if _num(q) == 10.0:
                    return 2
                if _num(q) == 2.0:
                    return 3
            if _is_math(b.func, 'pow'):
                if isx(q) and _num(p) == 10.0:
                    return 5
                if isx(q) and _num(p) == 2.0:
                    return 6
                if isx(p) and _num(q) == 2.0:
                    return 8
                if isx(p) and _num(q) == 3.0:
                    return 9
                if isx(p) and _num(q) is not None and abs(_num(q) - 1.0 / 3) < 1e-15:
                    return 11
            # math.copysign(math.pow(abs(x), 1.0/3), x): the cube root of |x| with the sign of x
            if _is_math(b.func, 'copysign') and isx(q) and isinstance(p, ast.Call) and not p.keywords and \
                    len(p.args) == 2 and _is_math(p.func, 'pow'):
                base, ex = p.args
                if isinstance(base, ast.Call) and isinstance(base.func, ast.Name) and base.func.id == 'abs' and \
                        not base.keywords and len(base.args) == 1 and isx(base.args[0]) and \
                        _num(ex) is not None and abs(_num(ex) - 1.0 / 3) < 1e-15:
                    return 12
    raise TieBroken('lin: function outside the translator grammar: %s' % ast.dump(node)[:200])


def _key(node, mod, what):
    if isinstance(node, ast.Name) and isinstance(getattr(mod, node.id, None), int):
        return int(getattr(mod, node.id))
    if isinstance(node, ast.Constant) and isinstance(node.value, int):
        return int(node.value)
    raise TieBroken('%s: key is not an integer constant of pyipmi.sdr: %s' % (what, ast.dump(node)[:120]))


def _dispatch(tree, mod):
    common = _find(tree.body, ast.ClassDef, 'SdrCommon')
    fn = _find(common.body, ast.FunctionDef, 'from_data')
    stmts = [s for s in fn.body if not (isinstance(s, ast.Expr) and isinstance(s.value, ast.Constant))]
    if len(stmts) != 3:
        raise TieBroken('from_data: expected `sdr_type = data[i]`, `cls = {...}.get(...)`, `return cls(...)`')
    s0, s1, s2 = stmts
    params = [a.arg for a in fn.args.args]
    # sdr_type = data[3]
    ok0 = isinstance(s0, ast.Assign) and len(s0.targets) == 1 and isinstance(s0.targets[0], ast.Name) and \
        isinstance(s0.value, ast.Subscript) and isinstance(s0.value.value, ast.Name) and \
        s0.value.value.id == params[0] and isinstance(s0.value.slice, ast.Constant) and \
        isinstance(s0.value.slice.value, int)
    if not ok0:
        raise TieBroken('from_data: type byte is not `data[<int>]`')
    tvar = s0.targets[0].id
    index = s0.value.slice.value
    # cls = {...}.get(sdr_type, Default)
    ok1 = isinstance(s1, ast.Assign) and len(s1.targets) == 1 and isinstance(s1.targets[0], ast.Name) and \
        isinstance(s1.value, ast.Call) and isinstance(s1.value.func, ast.Attribute) and \
        s1.value.func.attr == 'get' and isinstance(s1.value.func.value, ast.Dict) and \
        len(s1.value.args) == 2 and not s1.value.keywords and \
        isinstance(s1.value.args[0], ast.Name) and s1.value.args[0].id == tvar and \
        isinstance(s1.value.args[1], ast.Name)
    if not ok1:
        raise TieBroken('from_data: class is not selected by `{...}.get(sdr_type, Default)`')
    cvar = s1.targets[0].id
    d = s1.value.func.value
    table = []
    for k, v in zip(d.keys, d.values):
        if not isinstance(v, ast.Name) or v.id not in CLASS_TAG:
            raise TieBroken('from_data: dispatch value is not a known record class')
        table.append((_key(k, mod, 'from_data'), CLASS_TAG[v.id]))
    if len(set(k for k, _ in table)) != len(table):
        raise TieBroken('from_data: duplicate dispatch keys')
    dflt = s1.value.args[1].id
    if dflt not in CLASS_TAG:
        raise TieBroken('from_data: unknown default class %s' % dflt)
    # return cls(data, next_id)
    ok2 = isinstance(s2, ast.Return) and isinstance(s2.value, ast.Call) and \
        isinstance(s2.value.func, ast.Name) and s2.value.func.id == cvar and \
        [getattr(a, 'id', None) for a in s2.value.args] == params[:2] and not s2.value.keywords
    if not ok2:
        raise TieBroken('from_data: does not end in `return cls(data, next_id)`')
    return index, sorted(table), CLASS_TAG[dflt]


def _lin(tree, mod):
    full = _find(tree.body, ast.ClassDef, 'SdrFullSensorRecord')
    fn = _find(full.body, ast.FunctionDef, 'lin')
    if not any(isinstance(d, ast.Name) and d.id == 'property' for d in fn.decorator_list):
        raise TieBroken('lin is not a property')
    if len(fn.body) != 1 or not isinstance(fn.body[0], ast.Try):
        raise TieBroken('lin: expected a single try statement')
    t = fn.body[0]
    if len(t.body) != 1 or not isinstance(t.body[0], ast.Return) or t.orelse or t.finalbody:
        raise TieBroken('lin: try body is not a single return')
    r = t.body[0].value
    ok = isinstance(r, ast.Subscript) and isinstance(r.value, ast.Dict) and isinstance(r.slice, ast.BinOp) and \
        isinstance(r.slice.op, ast.BitAnd) and isinstance(r.slice.left, ast.Attribute) and \
        r.slice.left.attr == 'linearization' and isinstance(r.slice.left.value, ast.Name) and \
        r.slice.left.value.id == 'self' and isinstance(r.slice.right, ast.Constant) and \
        isinstance(r.slice.right.value, int)
    if not ok:
        raise TieBroken('lin: not `{...}[self.linearization & <mask>]`')
    mask = r.slice.right.value
    table = []
    for k, v in zip(r.value.keys, r.value.values):
        table.append((_key(k, mod, 'lin'), _fn_tag(v)))
    if len(set(k for k, _ in table)) != len(table):
        raise TieBroken('lin: duplicate keys')
    # except KeyError: raise errors.DecodingError(...)
    if len(t.handlers) != 1:
        raise TieBroken('lin: expected exactly one except clause')
    h = t.handlers[0]
    okh = isinstance(h.type, ast.Name) and h.type.id == 'KeyError' and len(h.body) == 1 and \
        isinstance(h.body[0], ast.Raise) and isinstance(h.body[0].exc, ast.Call) and \
        getattr(h.body[0].exc.func, 'attr', getattr(h.body[0].exc.func, 'id', None)) == 'DecodingError'
    if not okh:
        raise TieBroken('lin: unknown key is not turned into DecodingError')
    return mask, sorted(table)


def _sdr_bcd(fields):
    """(table as character codes, where it comes from) | None: the string constant of TypeLengthString
    that _from_data indexes."""
    try:
        tree = ast.parse(repo.read('pyipmi/fields.py'))
    except SyntaxError as e:
        raise TieBroken('pyipmi/fields.py does not parse: %s' % e)
    cls = _find(tree.body, ast.ClassDef, 'TypeLengthString')
    fn = _find(cls.body, ast.FunctionDef, '_from_data')
    consts = {}
    for n in cls.body:
        if isinstance(n, ast.Assign) and len(n.targets) == 1 and isinstance(n.targets[0], ast.Name) and \
                isinstance(n.value, ast.Constant) and isinstance(n.value.value, str):
            if n.targets[0].id in consts:
                raise TieBroken('fields.py: TypeLengthString.%s is assigned twice' % n.targets[0].id)
            consts[n.targets[0].id] = n.value.value
    used = set()
    for n in ast.walk(fn):
        if isinstance(n, ast.Subscript) and isinstance(n.value, ast.Attribute) and \
                isinstance(n.value.value, ast.Name) and n.value.value.id == 'self' and n.value.attr in consts:
            used.add(n.value.attr)
    if not used:
        return None
    if len(used) != 1:
        raise TieBroken('fields.py: TypeLengthString._from_data indexes more than one string table: %s' % sorted(used))
    name = used.pop()
    live = getattr(getattr(fields, 'TypeLengthString', None), name, None)
    if live != consts[name]:
        raise TieBroken('fields.py: TypeLengthString.%s is %r in the imported class, %r in the source text' % (
            name, live, consts[name]))
    return [ord(c) for c in consts[name]], 'fields.TypeLengthString.' + name


def extract():
    """{'type_index', 'dispatch', 'default', 'lin_mask', 'lin', 'bcd_map', 'sdr_bcd_map', 'sdr_bcd_source'}
    from the working tree."""
    import importlib
    try:
        mod = importlib.import_module('pyipmi.sdr')
        utils = importlib.import_module('pyipmi.utils')
        fields = importlib.import_module('pyipmi.fields')
    except Exception as e:  # noqa
        raise TieBroken('pyipmi.sdr does not import: %s: %s' % (type(e).__name__, e))
    try:
        tree = ast.parse(repo.read('pyipmi/sdr.py'))
    except SyntaxError as e:
        raise TieBroken('pyipmi/sdr.py does not parse: %s' % e)
    index, dispatch, dflt = _dispatch(tree, mod)
    mask, lin = _lin(tree, mod)
    bcd = getattr(utils, 'BCD_MAP', None)
    if not isinstance(bcd, list) or not all(isinstance(c, str) and len(c) == 1 for c in bcd):
        raise TieBroken('utils.BCD_MAP is not a list of single characters')
    sb = _sdr_bcd(fields) or ([ord(c) for c in bcd], "utils.BCD_MAP (the 'bcd+' codec; no table of its own)")
    return {'type_index': index, 'dispatch': dispatch, 'default': dflt,
            'lin_mask': mask, 'lin': lin, 'bcd_map': [ord(c) for c in bcd],
            'sdr_bcd_map': sb[0], 'sdr_bcd_source': sb[1]}


def _pairs(l):
    return '[' + ', '.join('(%d, %d)' % p for p in l) + ']'


def generate():
    t = extract()
    out = [
        '/- GENERATED by harness/translate/sdr.py from pyipmi/sdr.py and pyipmi/utils.py of the',
        '   working tree.  Do not edit: rewritten on every check run. -/',
        'namespace PyIpmi.Gen.SdrTables',
        '',
        '/-- `SdrCommon.from_data`: index of the record-type byte in `data`. -/',
        'def typeIndex : Nat := %d' % t['type_index'],
        '',
        '/-- `SdrCommon.from_data`: record-type byte ↦ class tag (0 full, 1 compact, 2 event-only,',
        '3 FRU locator, 4 MC locator, 5 MC confirmation, 6 OEM, 7 unknown). -/',
        'def dispatch : List (Nat × Nat) := %s' % _pairs(t['dispatch']),
        '',
        '/-- class tag used when the type byte is not a key of `dispatch` (`.get` default). -/',
        'def dispatchDefault : Nat := %d' % t['default'],
        '',
        '/-- `SdrFullSensorRecord.lin`: mask applied to `self.linearization`. -/',
        'def linMask : Nat := %d' % t['lin_mask'],
        '',
        '/-- `SdrFullSensorRecord.lin`: key ↦ function tag (0 x, 1 ln, 2 log10, 3 log2, 4 e^x, 5 10^x,',
        '6 2^x, 7 1/x, 8 x², 9 x³, 10 sqrt, 11 `math.pow(x, 1.0/3)`: cube root of x ≥ 0, ValueError below,',
        '12 `math.copysign(math.pow(abs(x), 1.0/3), x)`: real cube root), tag taken from the shape of the function. -/',
        'def lin : List (Nat × Nat) := %s' % _pairs(t['lin']),
        '',
        '/-- `utils.BCD_MAP` as character codes. -/',
        'def bcdMap : List Nat := [%s]' % ', '.join(str(c) for c in t['bcd_map']),
        '',
        '/-- The BCD plus table of the SDR id-string path (`TypeLengthString(sdr=True)`), as character codes:',
        '%s. -/' % t['sdr_bcd_source'],
        'def sdrBcdMap : List Nat := [%s]' % ', '.join(str(c) for c in t['sdr_bcd_map']),
        '',
        'end PyIpmi.Gen.SdrTables',
    ]
    lean.write_if_changed(OUT, '\n'.join(out) + '\n')
    return t
