"""T: pyipmi/hpm.py, pyipmi/fields.py (VersionField), pyipmi/utils.py (chunks)  ->  lean/PyIpmi/Gen/Hpm.lean

Every function the C18 model mirrors is matched, statement by statement, against a template
of its AST in which only named holes (`HOLE_x`: an integer constant expression, `FMT_x`: a
struct format string) may vary.  The holes become the constants of `Gen/Hpm.lean`; the model
and the theorems are stated over them.  Anything else (a different statement, operator,
slice bound, exception clause, loop condition, ...) is outside the translator's grammar and
raises `TieBroken` — the runner then treats the tie as broken and the property oracle, which
is always evaluated on the real code, decides whether there is a failing input.

Four statements are known in two admissible forms (as shipped / repaired, see fixes/C18-*.md:
the OEM data slice, the description codec, the OEM data assignment guarded by `if
self.oem_data_length:` or not, the outcome of the status polls ignored or checked);
which one the code has is decided by *probing its behaviour* in harness/props/c18.py, not here.
"""
import ast
import inspect
import os
import struct
import textwrap
from fractions import Fraction

from ..lib import lean
from ..lib.lean import TieBroken

OUT = os.path.join(lean.LEAN_DIR, 'PyIpmi', 'Gen', 'Hpm.lean')


# ------------------------------------------------------------------------------------------
# template matcher
# ------------------------------------------------------------------------------------------
class _NoMatch(Exception):
    pass


def _strip_doc(body):
    if body and isinstance(body[0], ast.Expr) and isinstance(getattr(body[0], 'value', None), ast.Constant) \
            and isinstance(body[0].value.value, str):
        return body[1:]
    return body


def _const_int(node, scope):
    """Integer value of a constant expression: literal, module-level name, Class.ATTR, +."""
    if isinstance(node, ast.Constant) and isinstance(node.value, int) and not isinstance(node.value, bool):
        return node.value
    if isinstance(node, ast.Name) and isinstance(scope.get(node.id), int):
        return scope[node.id]
    if isinstance(node, ast.Attribute) and isinstance(node.value, ast.Name):
        base = scope.get(node.value.id)
        v = getattr(base, node.attr, None) if base is not None else None
        if isinstance(v, int) and not isinstance(v, bool):
            return v
    if isinstance(node, ast.Attribute) and isinstance(node.value, ast.Name) and node.value.id == 'self':
        v = getattr(scope.get('__self_class__'), node.attr, None)
        if isinstance(v, int) and not isinstance(v, bool):
            return v
    raise _NoMatch('not an integer constant: %s' % ast.dump(node)[:80])


def _match(pat, node, scope, env):
    if isinstance(pat, ast.Name) and pat.id.startswith('HOLE_'):
        v = _const_int(node, scope)
        k = pat.id[5:]
        if k in env and env[k] != v:
            raise _NoMatch('hole %s bound twice: %r / %r' % (k, env[k], v))
        env[k] = v
        return
    if isinstance(pat, ast.Name) and pat.id.startswith('FMT_'):
        if not (isinstance(node, ast.Constant) and isinstance(node.value, str)):
            raise _NoMatch('format string expected')
        env[pat.id[4:]] = node.value
        return
    if type(pat) is not type(node):
        raise _NoMatch('%s vs %s' % (type(pat).__name__, type(node).__name__))
    if isinstance(pat, ast.AST):
        for name, pv in ast.iter_fields(pat):
            if name in ('ctx', 'type_comment', 'kind'):
                continue
            nv = getattr(node, name, None)
            if name == 'body' and isinstance(pv, list):
                pv, nv = _strip_doc(pv), _strip_doc(nv)
            _match(pv, nv, scope, env)
        return
    if isinstance(pat, list):
        if len(pat) != len(node):
            raise _NoMatch('%d vs %d statements/items' % (len(pat), len(node)))
        for p, n in zip(pat, node):
            _match(p, n, scope, env)
        return
    if pat != node:
        raise _NoMatch('%r vs %r' % (pat, node))


def _func_ast(obj):
    src = textwrap.dedent(inspect.getsource(obj))
    tree = ast.parse(src)
    fn = tree.body[0]
    if not isinstance(fn, ast.FunctionDef):
        raise TieBroken('%r is not a plain function' % obj)
    fn.decorator_list = []
    return fn


def _extract(what, obj, templates, scope, cls=None):
    """Match `obj` against the alternatives; return the hole environment."""
    try:
        fn = _func_ast(obj)
    except (OSError, TypeError, SyntaxError) as e:
        raise TieBroken('%s: source not available (%s)' % (what, e))
    sc = dict(scope)
    sc['__self_class__'] = cls
    errs = []
    for t in templates:
        pat = ast.parse(textwrap.dedent(t)).body[0]
        env = {}
        try:
            _match(pat, fn, sc, env)
            return env
        except _NoMatch as e:
            errs.append(str(e))
    raise TieBroken('%s left the translator\'s grammar (%s)' % (what, '; '.join(errs)[:300]))


# ------------------------------------------------------------------------------------------
# templates (the admissible shapes of the code the model mirrors)
# ------------------------------------------------------------------------------------------
T_CHUNKS = ['''
def chunks(data, count):
    for i in range(HOLE_chunk_start, len(data), count):
        yield data[i:i+count]
''']

T_BLOCKSIZE = ['''
def _determine_max_block_size():
    return HOLE_block_size
''']

T_UPLOAD_BLOCK = ['''
def upload_firmware_block(self, block_number, data):
    if isinstance(data, str):
        data = [ord(c) for c in data]

    self.send_message_with_name('UploadFirmwareBlock', number=block_number,
                                data=data)
''']

T_UPLOAD_BINARY = ['''
def upload_binary(self, binary, timeout=2, interval=0.1, retry=3):
    block_number = HOLE_first_block
    block_size = self._determine_max_block_size()

    for chunk in chunks(binary, block_size):
        try:
            self.upload_firmware_block(block_number, chunk)
        except CompletionCodeError as e:
            if e.cc == HOLE_cc_in_progress:

                self.wait_for_long_duration_command(
                        HOLE_cmd_upload_block,
                        timeout, interval)
            else:
                raise HpmError('upload_firmware_block CC=0x%02x' % e.cc)
        except IpmiTimeoutError:
            retry -= HOLE_retry_dec
            if retry == HOLE_retry_floor:
                raise IpmiTimeoutError()

        block_number += HOLE_block_incr
        block_number &= HOLE_block_mask
''', '''
def upload_binary(self, binary, timeout=2, interval=0.1, retry=3):
    block_number = HOLE_first_block
    block_size = self._determine_max_block_size()

    for chunk in chunks(binary, block_size):
        tries = retry
        while True:
            try:
                self.upload_firmware_block(block_number, chunk)
            except CompletionCodeError as e:
                if e.cc == HOLE_cc_in_progress:

                    self.wait_for_long_duration_command(
                            HOLE_cmd_upload_block,
                            timeout, interval)
                else:
                    raise HpmError(
                        'upload_firmware_block CC=0x%02x' % e.cc)
            except IpmiTimeoutError:
                tries -= HOLE_retry_dec
                if tries <= HOLE_retry_floor:
                    raise IpmiTimeoutError()
                continue
            break

        block_number += HOLE_block_incr
        block_number &= HOLE_block_mask
''']

T_WAIT = ['''
def wait_for_long_duration_command(self, expected_cmd, timeout, interval):

    start_time = time.time()
    while time.time() < start_time + timeout:
        try:
            status = self.get_upgrade_status()
            if status.command_in_progress is not expected_cmd \\
                    and status.command_in_progress != HOLE_cmd_status:
                pass
            if status.last_completion_code \\
                    == HOLE_cc_in_progress:
                time.sleep(interval)
            else:
                return
        except IpmiTimeoutError:
            time.sleep(interval)
        except IOError:
            time.sleep(interval)
''', '''
def wait_for_long_duration_command(self, expected_cmd, timeout, interval):
    start_time = time.time()
    last_cc = HOLE_cc_in_progress
    while time.time() < start_time + timeout:
        try:
            status = self.get_upgrade_status()
            if status.command_in_progress is not expected_cmd \\
                    and status.command_in_progress != HOLE_cmd_status:
                pass
            last_cc = status.last_completion_code
            if last_cc == HOLE_cc_in_progress:
                time.sleep(interval)
            elif last_cc != HOLE_cc_ok:
                raise HpmError('long duration command 0x%02x CC=0x%02x'
                               % (expected_cmd, last_cc))
            else:
                return
        except IpmiTimeoutError:
            last_cc = None
            time.sleep(interval)
        except IOError:
            last_cc = None
            time.sleep(interval)

    if last_cc is not None:
        raise HpmError('long duration command 0x%02x still in progress '
                       'after %ss' % (expected_cmd, timeout))
''']

T_STATUS = ['''
def get_upgrade_status(self):
    return UpgradeStatus(self.send_message_with_name('GetUpgradeStatus'))
''']

T_STATUS_RSP = ['''
def _from_response(self, rsp):
    self.command_in_progress = rsp.command_in_progress
    self.last_completion_code = rsp.last_completion_code
''']

_HDR = '''
def _from_data(self, data):
    self.signature = data[HOLE_sig_start:HOLE_sig_end]

    for a in self.FORMAT:
        setattr(self, a.field_name, struct.unpack(
                a.format, data[a.start:a.start+a.len])[0])

    if isinstance(data, str):
        data = [ord(c) for c in data]

    self.manufacturer_id = data[HOLE_man0] | data[HOLE_man1] << HOLE_sh1 | data[HOLE_man2] << HOLE_sh2
    self.components = []
    for i in range(HOLE_component_bits):
        if data[HOLE_components_idx] & (1 << i):
            self.components.append(i)
    self.earliest_compatible_revision = \\
        VersionField(data[HOLE_ecr_start:HOLE_ecr_start + HOLE_version_len])
    self.firmware_revision = \\
        VersionField(data[HOLE_fr_start:HOLE_fr_start + HOLE_version_aux_len])

%s
    # XXX checksum check
    self.checksum = data[HOLE_oem_start + self.oem_data_length]
    self.length = HOLE_oem_start + self.oem_data_length+HOLE_header_chk_len
'''
_OEM_IF = '''    if self.oem_data_length:
        self.oem_data = %s'''
T_HEADER = [_HDR % (_OEM_IF % 'data[HOLE_oem_start:-1]'),
            _HDR % (_OEM_IF % 'data[HOLE_oem_start:HOLE_oem_start + self.oem_data_length]'),
            _HDR % '    self.oem_data = data[HOLE_oem_start:HOLE_oem_start + self.oem_data_length]']

T_HEADER_INIT = ['''
def __init__(self, data=None):
    for a in self.FORMAT:
        setattr(self, a.field_name, None)
    if data:
        self._from_data(data)
''']

T_RECORD_INIT = ['''
def __init__(self, data=None):
    self.action_type = array('B', data)[0]
    if data:
        (self.action, self.components, self.checksum) \\
            = struct.unpack(FMT_rec_header, data[HOLE_rec_start:HOLE_rec_header_len])
        self.length = HOLE_rec_header_len
''']

T_CREATE = ['''
def create_from_data(data):
    action_type = array('B', data)[0]
    if action_type == HOLE_act_backup:
        return UpgradeActionRecordBackup(data)
    elif action_type == HOLE_act_prepare:
        return UpgradeActionRecordPrepare(data)
    elif action_type == HOLE_act_upload:
        return UpgradeActionRecordUploadForUpgrade(data)
    elif action_type == HOLE_act_compare:
        return UpgradeActionRecordUploadForCompare(data)
    else:
        raise HpmError('unsupported ActionRecord')
''']

_UPL = '''
def __init__(self, data=None):
    UpgradeActionRecord.__init__(self, data)
    if data:
        self.firmware_version = \\
            VersionField(
                data[HOLE_up_ver_start:HOLE_up_ver_start + HOLE_version_aux_len])
        self.firmware_description_string \\
            = %s
        self.firmware_length = struct.unpack(FMT_fw_length, data[HOLE_up_len_start:HOLE_up_len_end])[0]
        self.firmware_image_data = data[HOLE_up_data_start:(HOLE_up_data_start + self.firmware_length)]
        self.length += HOLE_up_len_extra + self.firmware_length
'''
T_UPLOAD_REC = [_UPL % 'py3dec_unic_bytes_fix(data[HOLE_up_desc_start:HOLE_up_desc_end])',
                _UPL % "data[HOLE_up_desc_start:HOLE_up_desc_end].decode('latin-1')",
                _UPL % "data[HOLE_up_desc_start:HOLE_up_desc_end].decode('latin_1')",
                _UPL % "data[HOLE_up_desc_start:HOLE_up_desc_end].decode('iso-8859-1')"]

T_CHECKSUM_REC = ['''
def _from_data(self, data):
    self.data = data[HOLE_trailer_start:HOLE_trailer_len]
''']

T_FROM_FILE = ['''
def _from_file(self, filename):

    try:
        file = open(filename, "rb")
    except IOError:
        print('Error open file "%s"' % filename)

    ################################
    # get file size
    file_size = os.stat(filename).st_size
    file_data = file.read(file_size)

    ################################
    # get image checksum
    self._check_md5_sum(file_data)
    # XXX verify checksum

    ################################
    # Upgrade Image Header
    self.header = UpgradeImageHeaderRecord(file_data)
    off = self.header.length

    ################################
    # Upgrade Actions
    self.actions = []
    while (off + HOLE_trailer_len) < len(file_data):
        action = UpgradeActionRecord.create_from_data(file_data[off:])
        self.actions.append(action)
        off += action.length

    ################################
    # Image checksum
    self.checksum = ImageChecksumRecord(file_data[off:file_size])

    file.close()
''']

T_MD5 = ['''
def _check_md5_sum(self, filedata):
    summer = hashlib.md5()
    self.checksum_actual \\
        = summer.update(filedata[:-HOLE_trailer_len])
    self.checksum_expected = filedata[-HOLE_trailer_len:]
''']

T_VERSION_FROM = ['''
def _from_data(self, data):
    if isinstance(data, str):
        data = [ord(c) for c in data]

    data = array.array('B', data)
    self.version = self._decode_data(data[0:HOLE_version_len])
    if len(data) == HOLE_version_aux_len:
        self.auxiliary = data[HOLE_version_len:HOLE_version_aux_len]
''']

T_VERSION_DECODE = ['''
def _decode_data(self, data):
    self.major = data[0]

    if data[1] == HOLE_minor_undefined:
        self.minor = data[1]
    elif data[1] <= HOLE_minor_bcd_max:
        self.minor = int(py3_array_tobytes(data[1:2]).decode('bcd+'))
    else:
        raise DecodingError()
''']

HEADER_FIELDS = ['format_version', 'device_id', 'product_id', 'time', 'capabilities', 'selftest_timeout',
                 'rollback_timeout', 'inaccessibility_timeout', 'earliest_compatible_revision',
                 'oem_data_length']


def _fmt(what, fmt, length=None):
    """struct format of one unsigned integer -> (byte length, little-endian?)."""
    if not isinstance(fmt, str) or len(fmt) not in (1, 2):
        raise TieBroken('%s: unsupported struct format %r' % (what, fmt))
    order, code = (fmt[0], fmt[1]) if len(fmt) == 2 else ('<', fmt)
    if code not in ('B', 'H', 'L', 'I') or order not in ('<', '>', '!', '='):
        raise TieBroken('%s: unsupported struct format %r' % (what, fmt))
    n = struct.calcsize('<' + code)
    if length is not None and n != length:
        raise TieBroken('%s: format %r does not cover %d bytes' % (what, fmt, length))
    le = order in ('<', '=') or n == 1
    return n, le


def _tenths(what, v):
    f = Fraction(str(v)) * 10
    if f.denominator != 1 or f < 0:
        raise TieBroken('%s: default %r is not a non-negative multiple of 0.1' % (what, v))
    return int(f)


def extract():
    """Return the dict of constants (also used by the harness)."""
    import pyipmi.hpm as H
    import pyipmi.utils as U
    import pyipmi.fields as F
    from pyipmi.msgs import constants as C
    scope = dict((k, v) for k, v in vars(H).items())
    scope['VersionField'] = F.VersionField
    k = {}
    k.update(_extract('utils.chunks', U.chunks, T_CHUNKS, vars(U)))
    if H.chunks is not U.chunks:
        raise TieBroken('hpm.chunks is not utils.chunks')
    k.update(_extract('Hpm._determine_max_block_size', H.Hpm._determine_max_block_size, T_BLOCKSIZE, scope))
    _extract('Hpm.upload_firmware_block', H.Hpm.upload_firmware_block, T_UPLOAD_BLOCK, scope)
    k.update(_extract('Hpm.upload_binary', H.Hpm.upload_binary, T_UPLOAD_BINARY, scope))
    # which of the two admissible shapes: as shipped (an unanswered block is skipped) / repaired (sent again, same number)
    try:
        _extract('Hpm.upload_binary', H.Hpm.upload_binary, T_UPLOAD_BINARY[1:], scope)
        k['upload_resend'] = 1
    except TieBroken:
        k['upload_resend'] = 0
    sig = inspect.signature(H.Hpm.upload_binary)
    k['default_timeout_tenths'] = _tenths('upload_binary timeout', sig.parameters['timeout'].default)
    k['default_interval_tenths'] = _tenths('upload_binary interval', sig.parameters['interval'].default)
    k['default_retry'] = int(sig.parameters['retry'].default)
    w = _extract('Hpm.wait_for_long_duration_command', H.Hpm.wait_for_long_duration_command, T_WAIT, scope)
    if w['cc_in_progress'] != k['cc_in_progress']:
        raise TieBroken('two different in-progress codes')
    k['cmd_status'] = w['cmd_status']
    k['cc_ok'] = w.get('cc_ok', 0)      # the as-shipped form never looks at the final code
    _extract('Hpm.get_upgrade_status', H.Hpm.get_upgrade_status, T_STATUS, scope)
    _extract('UpgradeStatus._from_response', H.UpgradeStatus._from_response, T_STATUS_RSP, scope)
    # header
    _extract('UpgradeImageHeaderRecord.__init__', H.UpgradeImageHeaderRecord.__init__, T_HEADER_INIT, scope)
    k.update(_extract('UpgradeImageHeaderRecord._from_data', H.UpgradeImageHeaderRecord._from_data, T_HEADER, scope))
    fmt = H.UpgradeImageHeaderRecord.FORMAT
    names = [a.field_name for a in fmt]
    if names != HEADER_FIELDS:
        raise TieBroken('UpgradeImageHeaderRecord.FORMAT fields changed: %s' % names)
    k['fields'] = []
    for a in fmt:
        n, le = _fmt('FORMAT.' + a.field_name, a.format, a.len)
        k['fields'].append((a.field_name, int(a.start), n, le))
    if (k['man1'], k['man2'], k['sh1'], k['sh2']) != (k['man0'] + 1, k['man0'] + 2, 8, 16):
        raise TieBroken('manufacturer_id is not a 3-byte little-endian value any more')
    if (k['sig_start'], k['chunk_start']) != (0, 0):
        raise TieBroken('signature / chunk start moved')
    # records
    k.update(_extract('UpgradeActionRecord.__init__', H.UpgradeActionRecord.__init__, T_RECORD_INIT, scope))
    if k['rec_header'] != 'BBB' or k['rec_start'] != 0 or k['rec_header_len'] != 3:
        raise TieBroken('action record header is not three single bytes any more')
    k.update(_extract('UpgradeActionRecord.create_from_data', H.UpgradeActionRecord.create_from_data, T_CREATE, scope))
    for cls in (H.UpgradeActionRecordBackup, H.UpgradeActionRecordPrepare, H.UpgradeActionRecordUploadForCompare):
        if '__init__' in vars(cls) or cls.__bases__ != (H.UpgradeActionRecord,):
            raise TieBroken('%s is not a plain UpgradeActionRecord any more' % cls.__name__)
    k.update(_extract('UpgradeActionRecordUploadForUpgrade.__init__',
                      H.UpgradeActionRecordUploadForUpgrade.__init__, T_UPLOAD_REC, scope))
    n, le = _fmt('firmware_length', k['fw_length'], k['up_len_end'] - k['up_len_start'])
    k['fw_length_le'] = le
    k.update(_extract('ImageChecksumRecord._from_data', H.ImageChecksumRecord._from_data, T_CHECKSUM_REC, scope))
    if k['trailer_start'] != 0:
        raise TieBroken('image checksum record does not start at its first byte')
    k.update(_extract('UpgradeImage._from_file', H.UpgradeImage._from_file, T_FROM_FILE, scope))
    k.update(_extract('UpgradeImage._check_md5_sum', H.UpgradeImage._check_md5_sum, T_MD5, scope))
    # version field
    k.update(_extract('VersionField._from_data', F.VersionField._from_data, T_VERSION_FROM, vars(F),
                      F.VersionField))
    k.update(_extract('VersionField._decode_data', F.VersionField._decode_data, T_VERSION_DECODE, vars(F),
                      F.VersionField))
    if k['cmd_upload_block'] != C.CMDID_HPM_UPLOAD_FIRMWARE_BLOCK:
        raise TieBroken('upload_binary waits for another command')
    return k


def _camel(s):
    parts = s.split('_')
    return parts[0] + ''.join(p.capitalize() for p in parts[1:])


def generate():
    k = extract()
    out = ['/- GENERATED by harness/translate/hpm.py from pyipmi/hpm.py, fields.py (VersionField) and',
           '   utils.py (chunks) of the working tree.  Do not edit: rewritten on every check run. -/',
           'namespace PyIpmi.Gen.Hpm',
           '',
           '/-- one `image_header` entry of `UpgradeImageHeaderRecord.FORMAT`: start, length, little-endian -/',
           'structure Fld where',
           '  start : Nat',
           '  len : Nat',
           '  le : Bool',
           '  deriving Repr, DecidableEq',
           '']
    for name, start, n, le in k['fields']:
        out.append('def %s : Fld := ⟨%d, %d, %s⟩' % (_camel('hf_' + name), start, n, 'true' if le else 'false'))
    out.append('')
    nat_keys = ['sig_end', 'man0', 'components_idx', 'component_bits', 'ecr_start', 'fr_start', 'version_len',
                'version_aux_len', 'oem_start', 'header_chk_len', 'minor_undefined', 'minor_bcd_max',
                'rec_header_len', 'act_backup', 'act_prepare', 'act_upload', 'act_compare',
                'up_ver_start', 'up_desc_start', 'up_desc_end', 'up_len_start', 'up_len_end',
                'up_data_start', 'up_len_extra', 'trailer_len',
                'block_size', 'first_block', 'block_incr', 'block_mask', 'cc_in_progress',
                'retry_dec', 'retry_floor', 'default_retry', 'default_timeout_tenths',
                'default_interval_tenths', 'cmd_upload_block', 'cmd_status', 'cc_ok']
    for key in nat_keys:
        out.append('def %s : Nat := %d' % (_camel(key), int(k[key])))
    out.append('def fwLengthLe : Bool := %s' % ('true' if k['fw_length_le'] else 'false'))
    out.append('/-- `upload_binary`: is a block whose request got no answer sent again (same number)?  As shipped: no. -/')
    out.append('def uploadResend : Bool := %s' % ('true' if k['upload_resend'] else 'false'))
    out.append('')
    out.append('end PyIpmi.Gen.Hpm')
    lean.write_if_changed(OUT, '\n'.join(out) + '\n')
    return k
