"""T: retry / reservation / SDR-transfer loops of the working tree  ->  lean/PyIpmi/Gen/Loops11.lean

Pure `ast` extraction (nothing is executed except `pyipmi.msgs.constants` for the values of the
named completion codes) from

    pyipmi/helper.py    get_sdr_chunk_helper, get_sdr_data_helper, _clear_repository,
                        clear_repository_helper
    pyipmi/__init__.py  Ipmi.send_message
    pyipmi/sdr.py       Sdr._get_sdr_chunk, get_repository_sdr, sdr_repository_entries,
                        clear_sdr_repository
    pyipmi/sensor.py    Sensor._get_device_sdr_chunk, get_device_sdr, device_sdr_entries
    pyipmi/sel.py       Sel.clear_sel

What is read: retry budgets (20 / 5 / 3), initial request size and decrement, header read, which
completion code every `if`/`except` branch tests for and what that branch does, the loop tests
(`== 0`, `<= 0`, `> 0`), which reservation function every call site passes.  Four things are
read as *variants* rather than fixed shape, because the pinned tree and the repaired tree differ in
them: whether the 0xCA handler of get_sdr_data_helper ends in `continue`, which reservation
function `_get_sdr_chunk` renews with, whether `send_message` re-raises non-busy codes, and whether
the reservation id get_sdr_chunk_helper obtains after a cancellation is handed on (`staleRes`): the
chunk readers return / attach `req.reservation_id`, get_sdr_data_helper adopts it at the header
read, at every chunk read and in the 0xCA branch of its CompletionCodeError handler and returns it
(`with_reservation`), the entries generators adopt it for the next record (through
`_get_repository_sdr` / `_get_device_sdr`).  All of these places or none: a tree that hands the id
on in some places only is outside the grammar (TieBroken).

Fail closed: every statement of every function above has to match the grammar below; anything
else raises `TieBroken` with the offending source line.
"""
import ast
import os

from ..lib import lean, repo
from ..lib.lean import TieBroken

OUT = os.path.join(lean.LEAN_DIR, 'PyIpmi', 'Gen', 'Loops11.lean')

CMP = {ast.Eq: 'eq', ast.NotEq: 'ne', ast.Lt: 'lt', ast.LtE: 'le', ast.Gt: 'gt', ast.GtE: 'ge'}
STORE_OF_RESERVE = {'reserve_sdr_repository': 'repo', 'reserve_device_sdr_repository': 'dev'}


def _u(node):
    return ast.unparse(node).strip()


def _fail(where, node, why):
    line = getattr(node, 'lineno', '?')
    raise TieBroken('%s line %s: %s: %s' % (where, line, why, _u(node)[:120] if isinstance(node, ast.AST) else node))


def _expect(cond, where, node, why):
    if not cond:
        _fail(where, node, why)


def _parse(rel):
    try:
        return ast.parse(repo.read(rel))
    except (IOError, SyntaxError) as e:
        raise TieBroken('%s cannot be parsed: %s' % (rel, e))


def _func(tree, name, cls=None, where=''):
    body = tree.body
    if cls is not None:
        cl = [n for n in body if isinstance(n, ast.ClassDef) and n.name == cls]
        if len(cl) != 1:
            raise TieBroken('%s: class %s not found' % (where, cls))
        body = cl[0].body
    fn = [n for n in body if isinstance(n, ast.FunctionDef) and n.name == name]
    if len(fn) != 1:
        raise TieBroken('%s: function %s not found' % (where, name))
    return fn[0]


def _stmts(fn):
    """Function body without the docstring."""
    b = list(fn.body)
    if b and isinstance(b[0], ast.Expr) and isinstance(b[0].value, ast.Constant) and isinstance(b[0].value.value, str):
        b = b[1:]
    return b


def _no_sleep(stmts):
    return [s for s in stmts if not _u(s).startswith('time.sleep(')]


def _defaults(fn):
    args = [a.arg for a in fn.args.args]
    d = {}
    for a, v in zip(args[len(args) - len(fn.args.defaults):], fn.args.defaults):
        d[a] = v.value if isinstance(v, ast.Constant) else _u(v)
    return args, d


def _cmp_const(test, lhs, where):
    """`<lhs> <op> <int>` -> (op, int)."""
    _expect(isinstance(test, ast.Compare) and len(test.ops) == 1 and _u(test.left) == lhs
            and isinstance(test.comparators[0], ast.Constant) and isinstance(test.comparators[0].value, int)
            and type(test.ops[0]) in CMP, where, test, 'expected `%s <cmp> <int>`' % lhs)
    return CMP[type(test.ops[0])], test.comparators[0].value


def _cmp_expr(test, lhs, rhs, where):
    _expect(isinstance(test, ast.Compare) and len(test.ops) == 1 and _u(test.left) == lhs
            and _u(test.comparators[0]) == rhs and type(test.ops[0]) in CMP, where, test,
            'expected `%s <cmp> %s`' % (lhs, rhs))
    return CMP[type(test.ops[0])]


def _const_value(expr, where):
    """`constants.NAME` / `msgs.constants.NAME` -> live value."""
    s = _u(expr)
    for prefix in ('constants.', 'msgs.constants.'):
        if s.startswith(prefix):
            name = s[len(prefix):]
            import pyipmi.msgs.constants as c
            if not hasattr(c, name) or not isinstance(getattr(c, name), int):
                _fail(where, expr, 'unknown constant')
            return getattr(c, name)
    _fail(where, expr, 'expected a name from msgs.constants')


def _eq_code(test, lhs, where):
    _expect(isinstance(test, ast.Compare) and len(test.ops) == 1 and isinstance(test.ops[0], ast.Eq)
            and _u(test.left) == lhs, where, test, 'expected `%s == constants.X`' % lhs)
    return _const_value(test.comparators[0], where)


def _decr(stmt, var, where):
    _expect(isinstance(stmt, ast.AugAssign) and isinstance(stmt.op, ast.Sub) and _u(stmt.target) == var
            and isinstance(stmt.value, ast.Constant) and isinstance(stmt.value.value, int), where, stmt,
            'expected `%s -= <int>`' % var)
    return stmt.value.value


def _raise_retry(stmts, where, node):
    _expect(len(stmts) == 1 and _u(stmts[0]) == 'raise RetryError()', where, node, 'expected `raise RetryError()`')


# ---------------------------------------------------------------------------------------
def _chunk_helper(tree):
    w = 'helper.get_sdr_chunk_helper'
    fn = _func(tree, 'get_sdr_chunk_helper', where=w)
    args, dflt = _defaults(fn)
    _expect(args == ['send_fn', 'req', 'reserve_fn', 'retry'] and isinstance(dflt.get('retry'), int), w, fn.args,
            'unexpected signature')
    body = _stmts(fn)
    _expect(len(body) == 2 and isinstance(body[0], ast.While) and _u(body[0].test) == 'True'
            and not body[0].orelse and _u(body[1]) == 'return rsp', w, fn, 'expected `while True: …; return rsp`')
    loop = body[0].body
    _expect(len(loop) == 4, w, body[0], 'expected 4 statements in the loop')
    decr = _decr(loop[0], 'retry', w)
    _expect(isinstance(loop[1], ast.If) and not loop[1].orelse, w, loop[1], 'expected the exhaustion test')
    cmp_, at = _cmp_const(loop[1].test, 'retry', w)
    _raise_retry(loop[1].body, w, loop[1])
    _expect(_u(loop[2]) == 'rsp = send_fn(req)', w, loop[2], 'expected `rsp = send_fn(req)`')
    ok = renew = None
    plain = []
    node = loop[3]
    else_raises = False
    while True:
        _expect(isinstance(node, ast.If), w, node, 'expected an if/elif chain on rsp.completion_code')
        code = _eq_code(node.test, 'rsp.completion_code', w)
        acts = [_u(s) for s in _no_sleep(node.body)]
        if acts == ['break']:
            _expect(ok is None, w, node, 'two success branches')
            ok = code
        elif acts == ['req.reservation_id = reserve_fn()', 'continue']:
            _expect(renew is None, w, node, 'two renewing branches')
            renew = code
        elif acts == ['continue']:
            plain.append(code)
        else:
            _fail(w, node, 'branch outside the grammar (break | renew+continue | continue)')
        if len(node.orelse) == 1 and isinstance(node.orelse[0], ast.If):
            node = node.orelse[0]
            continue
        _expect([_u(s) for s in node.orelse] == ['check_completion_code(rsp.completion_code)'], w, node,
                'expected `else: check_completion_code(rsp.completion_code)`')
        else_raises = True
        break
    _expect(ok is not None and renew is not None and len(plain) == 2, w, fn,
            'expected one success, one renewing and two repeating branches')
    return dict(chunkRetryDefault=dflt['retry'], ccOk=ok, chunkRenew=renew, chunkRetry1=plain[0], chunkRetry2=plain[1],
                chunkDecr=decr, chunkExhaustCmp=cmp_, chunkExhaustAt=at, chunkElseRaises=else_raises)


def _data_helper(tree):
    w = 'helper.get_sdr_data_helper'
    fn = _func(tree, 'get_sdr_data_helper', where=w)
    args, dflt = _defaults(fn)
    _expect(args[:4] == ['reserve_fn', 'get_fn', 'record_id', 'reservation_id'] and dflt.get('reservation_id', 0) is None
            and (args[4:] == [] or (args[4:] == ['with_reservation'] and dflt.get('with_reservation') is False)),
            w, fn.args, 'unexpected signature')
    b = _stmts(fn)
    hands = {}      # place -> the renewed reservation id is handed on there
    hands['data_helper:with_reservation parameter'] = len(args) == 5
    hands['data_helper:returns the id'] = (len(b) == 15)
    if len(b) == 15:
        _expect(_u(b[13]) == 'if with_reservation:\n    return (next_id, record_data, reservation_id)', w, b[13],
                'expected `if with_reservation: return (next_id, record_data, reservation_id)`')
        b = b[:13] + b[14:]
    _expect(len(b) == 14, w, fn, 'expected 14 top-level statements (15 with the reservation returned), found %d' % len(b))
    _expect(_u(b[0]) == 'if reservation_id is None:\n    reservation_id = reserve_fn()', w, b[0], 'reserve-unless-given')
    # header read
    _expect(isinstance(b[1], ast.Assign) and _u(b[1].targets[0]) in ('(next_id, data)', '(next_id, data, reservation_id)')
            and isinstance(b[1].value, ast.Call)
            and _u(b[1].value.func) == 'get_fn' and [_u(a) for a in b[1].value.args[:2]] == ['reservation_id', 'record_id']
            and len(b[1].value.args) == 4 and all(isinstance(a, ast.Constant) for a in b[1].value.args[2:]),
            w, b[1], 'expected `(next_id, data[, reservation_id]) = get_fn(reservation_id, record_id, <off>, <len>)`')
    hands['data_helper:header read'] = _u(b[1].targets[0]) == '(next_id, data, reservation_id)'
    hdr_off, hdr_len = b[1].value.args[2].value, b[1].value.args[3].value
    _expect(_u(b[2]) == 'header = ByteBuffer(data)', w, b[2], 'header buffer')
    pops, names = [], []
    for s in b[3:7]:
        _expect(isinstance(s, ast.Assign) and isinstance(s.value, ast.Call) and _u(s.value.func) == 'header.pop_unsigned_int'
                and len(s.value.args) == 1 and isinstance(s.value.args[0], ast.Constant), w, s, 'header pop')
        pops.append(s.value.args[0].value)
        names.append(_u(s.targets[0]))
    _expect(names == ['record_id', 'record_version', 'record_type', 'record_payload_length'], w, b[3], 'header field order')
    _expect(isinstance(b[7], ast.Assign) and _u(b[7].targets[0]) == 'record_length' and isinstance(b[7].value, ast.BinOp)
            and isinstance(b[7].value.op, ast.Add) and _u(b[7].value.left) == 'record_payload_length'
            and isinstance(b[7].value.right, ast.Constant), w, b[7], 'record_length = record_payload_length + <int>')
    add = b[7].value.right.value
    _expect(_u(b[8]) == 'record_data = ByteBuffer(data)', w, b[8], 'record_data')
    _expect(_u(b[9]) == 'offset = len(record_data)', w, b[9], 'offset')
    consts = {}
    for s, nm in ((b[10], 'max_req_len'), (b[11], 'retry')):
        _expect(isinstance(s, ast.Assign) and _u(s.targets[0]) == nm and isinstance(s.value, ast.Constant)
                and isinstance(s.value.value, int), w, s, 'expected `%s = <int>`' % nm)
        consts[nm] = s.value.value
    _expect(isinstance(b[12], ast.While) and _u(b[12].test) == 'True' and not b[12].orelse, w, b[12], 'while True')
    _expect(_u(b[13]) == 'return (next_id, record_data)', w, b[13], 'return value')
    lp = b[12].body
    _expect(len(lp) == 8, w, b[12], 'expected 8 statements in the loop, found %d' % len(lp))
    decr = _decr(lp[0], 'retry', w)
    _expect(isinstance(lp[1], ast.If) and not lp[1].orelse, w, lp[1], 'exhaustion test')
    ex_cmp, ex_at = _cmp_const(lp[1].test, 'retry', w)
    _raise_retry(lp[1].body, w, lp[1])
    _expect(_u(lp[2]) == 'length = max_req_len', w, lp[2], 'length')
    _expect(isinstance(lp[3], ast.If) and not lp[3].orelse and [_u(s) for s in lp[3].body] == ['length = record_length - offset'],
            w, lp[3], 'clamp')
    clamp = _cmp_expr(lp[3].test, 'offset + length', 'record_length', w)
    t = lp[4]
    _expect(isinstance(t, ast.Try) and not t.orelse and not t.finalbody and len(t.handlers) == 1
            and [_u(s) for s in t.body] in (['next_id, data = get_fn(reservation_id, record_id, offset, length)'],
                                           ['next_id, data, reservation_id = get_fn(reservation_id, record_id, offset, length)'])
            and _u(t.handlers[0].type) == 'CompletionCodeError' and t.handlers[0].name == 'e', w, t, 'try/except around get_fn')
    hands['data_helper:chunk read'] = _u(t.body[0]).startswith('next_id, data, reservation_id =')
    h = t.handlers[0].body
    _expect(len(h) == 1 and isinstance(h[0], ast.If), w, t.handlers[0], 'handler is one if/else')
    ca = _eq_code(h[0].test, 'e.cc', w)
    hb = list(h[0].body)
    # intended: the id the chunk reader's request ended up with is taken from the exception before the read is repeated
    adopt = [s for s in hb if _u(s) == "reservation_id = getattr(e, 'reservation_id', reservation_id)"]
    hands['data_helper:0xCA branch of the CompletionCodeError handler'] = bool(adopt)
    if adopt:
        _expect(len(adopt) == 1 and len(hb) == 4 and hb[2] is adopt[0], w, h[0],
                '0xCA branch: decrement, zero test, adopt the reservation id, continue')
        hb = hb[:2] + hb[3:]
    _expect(len(hb) in (2, 3), w, h[0], '0xCA branch: decrement, zero test[, continue]')
    dec = _decr(hb[0], 'max_req_len', w)
    _expect(isinstance(hb[1], ast.If) and not hb[1].orelse and len(hb[1].body) == 1, w, hb[1], 'zero-length test')
    z_cmp, z_at = _cmp_const(hb[1].test, 'max_req_len', w)
    zact = _u(hb[1].body[0])
    _expect(zact in ('retry = 0', 'raise RetryError()'), w, hb[1], 'zero-length action')
    falls = True
    if len(hb) == 3:
        _expect(_u(hb[2]) == 'continue', w, hb[2], 'expected `continue`')
        falls = False
    _expect([_u(s) for s in h[0].orelse] == ['raise CompletionCodeError(e.cc)'], w, h[0], 'other codes re-raised')
    _expect(_u(lp[5]) == 'record_data.extend(data[:])', w, lp[5], 'append')
    _expect(_u(lp[6]) == 'offset = len(record_data)', w, lp[6], 'offset update')
    _expect(isinstance(lp[7], ast.If) and not lp[7].orelse and [_u(s) for s in lp[7].body] == ['break'], w, lp[7], 'break test')
    brk = _cmp_expr(lp[7].test, 'len(record_data)', 'record_length', w)
    _expect((z_cmp, z_at) == ('le', 0), w, hb[1], 'expected `max_req_len <= 0`')
    return dict(hdrLen=hdr_len, headerOffset=hdr_off, headerPops=pops, recordLengthAdd=add,
                maxReqLen=consts['max_req_len'], dataRetry=consts['retry'], reqLenDec=dec, cantReturn=ca,
                dataDecr=decr, dataExhaustCmp=ex_cmp, dataExhaustAt=ex_at, dataClampCmp=clamp, dataBreakCmp=brk,
                dataOtherCodeReraises=True, fallThrough=falls, zeroLenRaises=(zact == 'raise RetryError()'), hands=hands)


def _clear(tree):
    w = 'helper._clear_repository'
    fn = _func(tree, '_clear_repository', where=w)
    args, _ = _defaults(fn)
    _expect(args == ['reserve_fn', 'clear_fn', 'ctrl', 'retry', 'reservation'], w, fn.args, 'unexpected signature')
    b = _stmts(fn)
    _expect(len(b) == 2 and isinstance(b[0], ast.While) and _u(b[0].test) == 'True' and not b[0].orelse
            and _u(b[1]) == 'return reservation', w, fn, 'expected `while True: …; return reservation`')
    lp = b[0].body
    _expect(len(lp) == 5, w, b[0], 'expected 5 statements in the loop')
    decr = _decr(lp[0], 'retry', w)
    _expect(isinstance(lp[1], ast.If) and not lp[1].orelse, w, lp[1], 'exhaustion test')
    ex_cmp, ex_at = _cmp_const(lp[1].test, 'retry', w)
    _raise_retry(lp[1].body, w, lp[1])
    t = lp[2]
    _expect(isinstance(t, ast.Try) and not t.orelse and not t.finalbody and len(t.handlers) == 1
            and [_u(s) for s in t.body] == ['in_progress = clear_fn(ctrl, reservation)']
            and _u(t.handlers[0].type) == 'CompletionCodeError' and t.handlers[0].name == 'e', w, t, 'try/except around clear_fn')
    h = t.handlers[0].body
    _expect(len(h) == 1 and isinstance(h[0], ast.If), w, t.handlers[0], 'handler is one if/else')
    renew = _eq_code(h[0].test, 'e.cc', w)
    _expect([_u(s) for s in _no_sleep(h[0].body)] == ['reservation = reserve_fn()', 'continue'], w, h[0], 'renew + continue')
    _expect([_u(s) for s in h[0].orelse] == ['check_completion_code(e.cc)'], w, h[0], 'other codes raised')
    _expect(isinstance(lp[3], ast.If) and not lp[3].orelse and [_u(s) for s in _no_sleep(lp[3].body)] == ['continue'],
            w, lp[3], 'in-progress test')
    inprog = _eq_code(lp[3].test, 'in_progress', w)
    _expect(_u(lp[4]) == 'break', w, lp[4], 'break')

    w = 'helper.clear_repository_helper'
    fn = _func(tree, 'clear_repository_helper', where=w)
    args, dflt = _defaults(fn)
    _expect(args == ['reserve_fn', 'clear_fn', 'retry', 'reservation'] and isinstance(dflt.get('retry'), int)
            and dflt.get('reservation', 0) is None, w, fn.args, 'unexpected signature')
    b = _no_sleep(_stmts(fn))
    _expect(len(b) == 3, w, fn, 'expected reserve-unless-given and two phases')
    _expect(_u(b[0]) == 'if reservation is None:\n    reservation = reserve_fn()', w, b[0], 'reserve-unless-given')
    ctrls = []
    for s in b[1:]:
        _expect(isinstance(s, ast.Assign) and _u(s.targets[0]) == 'reservation' and isinstance(s.value, ast.Call)
                and _u(s.value.func) == '_clear_repository' and len(s.value.args) == 5 and not s.value.keywords
                and [_u(a) for i, a in enumerate(s.value.args) if i != 2] == ['reserve_fn', 'clear_fn', 'retry', 'reservation'],
                w, s, 'expected `reservation = _clear_repository(reserve_fn, clear_fn, <ctrl>, retry, reservation)`')
        ctrls.append(_const_value(s.value.args[2], w))
    import pyipmi.msgs.constants as c
    return dict(clearRetryDefault=dflt['retry'], clearRenew=renew, ctrlInitiate=ctrls[0], ctrlStatus=ctrls[1],
                statusInProgress=inprog, statusCompleted=c.REPOSITORY_ERASURE_COMPLETED,
                clearDecr=decr, clearExhaustCmp=ex_cmp, clearExhaustAt=ex_at, clearElseRaises=True,
                clearChainsReservation=True)


def _send_message(tree):
    w = 'Ipmi.send_message'
    fn = _func(tree, 'send_message', cls='Ipmi', where=w)
    args, dflt = _defaults(fn)
    _expect(args == ['self', 'req', 'retry'] and isinstance(dflt.get('retry'), int), w, fn.args, 'unexpected signature')
    b = _stmts(fn)
    _expect([_u(s) for s in b[:3]] == ['req.target = self.target', 'req.requester = self.requester', 'rsp = None']
            and len(b) == 5 and isinstance(b[3], ast.While) and _u(b[4]) == 'return rsp', w, fn, 'unexpected body')
    loop = b[3]
    lcmp, lat = _cmp_const(loop.test, 'retry', w)
    _raise_retry(loop.orelse, w, loop)
    lp = loop.body
    _expect(len(lp) == 2, w, loop, 'expected decrement + try')
    decr = _decr(lp[0], 'retry', w)
    t = lp[1]
    _expect(isinstance(t, ast.Try) and not t.orelse and not t.finalbody and len(t.handlers) == 1
            and [_u(s) for s in t.body] == ['rsp = self.interface.send_and_receive(req)', 'break']
            and _u(t.handlers[0].type) == 'CompletionCodeError' and t.handlers[0].name == 'e', w, t, 'try/except around the transfer')
    h = t.handlers[0].body
    _expect(len(h) == 1 and isinstance(h[0], ast.If) and [_u(s) for s in h[0].body] == ['continue'], w, t.handlers[0],
            'expected `if e.cc == CC_NODE_BUSY: continue`')
    busy = _eq_code(h[0].test, 'e.cc', w)
    orelse = [_u(s) for s in h[0].orelse]
    _expect(orelse in ([], ['raise'], ['raise e']), w, h[0], 'else branch outside the grammar (nothing | raise)')
    return dict(sendRetryDefault=dflt['retry'], sendBusy=busy, sendDecr=decr, sendLoopCmp=lcmp, sendLoopAt=lat,
                sendElseRaisesRetryError=True, retryAnyCode=(orelse == []))


def _self_name(expr, where):
    s = _u(expr)
    _expect(s.startswith('self.') and s[5:].isidentifier(), where, expr, 'expected self.<method>')
    return s[5:]


def _call_sites(sdr_tree, sensor_tree, sel_tree):
    out = {}
    hands = out['hands'] = {}
    for tree, cls, chunk, req_name, data_fn, entries, reserve_expected, key in (
            (sdr_tree, 'Sdr', '_get_sdr_chunk', 'GetSdr', 'get_repository_sdr', 'sdr_repository_entries', 'reserve_sdr_repository', 'repo'),
            (sensor_tree, 'Sensor', '_get_device_sdr_chunk', 'GetDeviceSdr', 'get_device_sdr', 'device_sdr_entries',
             'reserve_device_sdr_repository', 'dev')):
        w = '%s.%s' % (cls, chunk)
        fn = _func(tree, chunk, cls=cls, where=w)
        args, _ = _defaults(fn)
        _expect(args == ['self', 'reservation_id', 'record_id', 'offset', 'length'], w, fn.args, 'unexpected signature')
        b = [_u(s) for s in _stmts(fn)]
        _expect(b[:5] == ["req = create_request_by_name('%s')" % req_name, 'req.reservation_id = reservation_id',
                          'req.record_id = record_id', 'req.offset = offset', 'req.bytes_to_read = length']
                and len(b) == 7 and b[6] in ('return (rsp.next_record_id, rsp.record_data)',
                                             'return (rsp.next_record_id, rsp.record_data, req.reservation_id)'),
                w, fn, 'unexpected body')
        hands['%s:returns req.reservation_id' % chunk] = b[6].endswith('req.reservation_id)')
        call = _stmts(fn)[5]
        hands['%s:CompletionCodeError carries req.reservation_id' % chunk] = isinstance(call, ast.Try)
        if isinstance(call, ast.Try):
            t = call
            _expect(not t.orelse and not t.finalbody and len(t.handlers) == 1 and len(t.body) == 1
                    and _u(t.handlers[0].type) in ('CompletionCodeError', 'errors.CompletionCodeError')
                    and t.handlers[0].name == 'e'
                    and [_u(s) for s in t.handlers[0].body] == ['e.reservation_id = req.reservation_id', 'raise'], w, t,
                    'expected `try: rsp = get_sdr_chunk_helper(…) except CompletionCodeError as e: '
                    'e.reservation_id = req.reservation_id; raise`')
            call = t.body[0]
        _expect(isinstance(call, ast.Assign) and _u(call.targets[0]) == 'rsp' and isinstance(call.value, ast.Call)
                and _u(call.value.func) == 'get_sdr_chunk_helper' and len(call.value.args) == 3 and not call.value.keywords
                and [_u(a) for a in call.value.args[:2]] == ['self.send_message', 'req'], w, call,
                'expected `rsp = get_sdr_chunk_helper(self.send_message, req, self.<reserve>)`')
        nm = _self_name(call.value.args[2], w)
        _expect(nm in STORE_OF_RESERVE, w, call, 'unknown reservation function')
        out[key + 'Renew'] = STORE_OF_RESERVE[nm]

        w = '%s.%s' % (cls, data_fn)
        fn = _func(tree, data_fn, cls=cls, where=w)
        b = _stmts(fn)
        inner = '_' + data_fn
        through = len(b) == 1
        hands['%s:through %s' % (data_fn, inner)] = through
        if through:
            # get_repository_sdr / get_device_sdr is `_get_…_sdr(…)[0]`; the generator uses the pair
            _expect(_u(b[0]) == 'return self.%s(record_id, reservation_id)[0]' % inner, w, fn,
                    'expected `return self.%s(record_id, reservation_id)[0]`' % inner)
            args, dflt = _defaults(fn)
            _expect(args == ['self', 'record_id', 'reservation_id'] and dflt.get('reservation_id', 0) is None, w, fn.args,
                    'unexpected signature')
            w = '%s.%s' % (cls, inner)
            fn = _func(tree, inner, cls=cls, where=w)
            b = _stmts(fn)
            _expect(len(b) == 2 and isinstance(b[0], ast.Assign) and _u(b[0].targets[0]) == '(next_id, record_data, reservation_id)'
                    and isinstance(b[0].value, ast.Call) and _u(b[0].value.func) == 'get_sdr_data_helper'
                    and [_u(a) for a in b[0].value.args[1:]] == ['self.' + chunk, 'record_id', 'reservation_id']
                    and [(k.arg, _u(k.value)) for k in b[0].value.keywords] == [('with_reservation', 'True')]
                    and _u(b[1]).startswith('return (') and _u(b[1]).endswith('SdrCommon.from_data(record_data, next_id), reservation_id)'),
                    w, fn, 'unexpected body')
        else:
            _expect(len(b) == 2 and isinstance(b[0], ast.Assign) and _u(b[0].targets[0]) == '(next_id, record_data)'
                    and isinstance(b[0].value, ast.Call) and _u(b[0].value.func) == 'get_sdr_data_helper'
                    and not b[0].value.keywords
                    and [_u(a) for a in b[0].value.args[1:]] == ['self.' + chunk, 'record_id', 'reservation_id']
                    and _u(b[1]).endswith('SdrCommon.from_data(record_data, next_id)'), w, fn, 'unexpected body')
        args, dflt = _defaults(fn)
        _expect(args == ['self', 'record_id', 'reservation_id'] and dflt.get('reservation_id', 0) is None, w, fn.args,
                'unexpected signature')
        nm = _self_name(b[0].value.args[0], w)
        _expect(nm in STORE_OF_RESERVE, w, b[0], 'unknown reservation function')
        out[key + 'DataReserve'] = STORE_OF_RESERVE[nm]

        w = '%s.%s' % (cls, entries)
        fn = _func(tree, entries, cls=cls, where=w)
        b = _stmts(fn)
        _expect(len(b) == 3 and isinstance(b[0], ast.Assign) and _u(b[0].targets[0]) == 'reservation_id'
                and isinstance(b[0].value, ast.Call) and not b[0].value.args
                and isinstance(b[1], ast.Assign) and _u(b[1].targets[0]) == 'record_id' and isinstance(b[1].value, ast.Constant)
                and isinstance(b[2], ast.While) and _u(b[2].test) == 'True', w, fn, 'unexpected body')
        nm = _self_name(b[0].value.func, w)
        _expect(nm in STORE_OF_RESERVE, w, b[0], 'unknown reservation function')
        out[key + 'ListReserve'] = STORE_OF_RESERVE[nm]
        out[key + 'ListStart'] = b[1].value.value
        lp = [_u(s) for s in b[2].body]
        var = 's' if key == 'repo' else 'record'
        first = ['%s = self.%s(record_id, reservation_id)' % (var, data_fn),
                 '%s, reservation_id = self.%s(record_id, reservation_id)' % (var, inner)]
        _expect(lp[:1] in ([first[0]], [first[1]]) and lp[1:] == [
            'yield %s' % var, 'if %s.next_id == 65535:\n    break' % var, 'record_id = %s.next_id' % var], w, b[2], 'unexpected loop')
        hands['%s:adopts the id for the next record' % entries] = lp[0] == first[1]

    for tree, cls, fn_name, want, key in ((sdr_tree, 'Sdr', 'clear_sdr_repository',
                                           'clear_repository_helper(self.reserve_sdr_repository, self._clear_sdr_repository, retry)', 'sdrClear'),
                                          (sel_tree, 'Sel', 'clear_sel',
                                           'clear_repository_helper(self.get_sel_reservation_id, self._clear_sel, retry)', 'selClear')):
        w = '%s.%s' % (cls, fn_name)
        fn = _func(tree, fn_name, cls=cls, where=w)
        args, dflt = _defaults(fn)
        b = [_u(s) for s in _stmts(fn)]
        _expect(args == ['self', 'retry'] and isinstance(dflt.get('retry'), int) and b == [want], w, fn, 'unexpected body')
        out[key + 'Retry'] = dflt['retry']
    _expect(out['repoListStart'] == out['devListStart'], 'entries', 'record_id', 'different start ids')
    return out


def extract():
    helper = _parse('pyipmi/helper.py')
    d = {}
    d.update(_chunk_helper(helper))
    dh = _data_helper(helper)
    hands = dh.pop('hands')
    d.update(dh)
    d.update(_clear(helper))
    d.update(_send_message(_parse('pyipmi/__init__.py')))
    cs = _call_sites(_parse('pyipmi/sdr.py'), _parse('pyipmi/sensor.py'), _parse('pyipmi/sel.py'))
    hands.update(cs.pop('hands'))
    d.update(cs)
    if any(hands.values()) and not all(hands.values()):
        raise TieBroken('the reservation id obtained after a cancellation is handed on in some places only: yes at %s; no at %s' % (
            sorted(k for k, v in hands.items() if v), sorted(k for k, v in hands.items() if not v)))
    d['staleRes'] = not any(hands.values())
    if d['ccOk'] != 0:
        raise TieBroken('helper.get_sdr_chunk_helper: success is not completion code 0')
    return d


def _b(x):
    return 'true' if x else 'false'


def render(d):
    L = []
    L.append('/- GENERATED by harness/translate/loops11.py from pyipmi/helper.py, __init__.py, sdr.py, sensor.py,')
    L.append('   sel.py of the working tree (ast extraction).  Do not edit: rewritten on every check run. -/')
    L.append('import PyIpmi.Model.SdrXfer')
    L.append('namespace PyIpmi.Gen.Loops11')
    L.append('open PyIpmi.Model.Retry PyIpmi.Model.SdrXfer PyIpmi.Spec.Sdr')
    L.append('')
    L.append('/-- budgets and completion codes of get_sdr_chunk_helper, _clear_repository, send_message -/')
    L.append('def consts : Consts :=')
    L.append('  { ccOk := %d, chunkRetryDefault := %d, chunkRenew := %d, chunkRetry1 := %d, chunkRetry2 := %d,' % (
        d['ccOk'], d['chunkRetryDefault'], d['chunkRenew'], d['chunkRetry1'], d['chunkRetry2']))
    L.append('    clearRetryDefault := %d, clearRenew := %d, ctrlInitiate := %d, ctrlStatus := %d,' % (
        d['clearRetryDefault'], d['clearRenew'], d['ctrlInitiate'], d['ctrlStatus']))
    L.append('    statusInProgress := %d, statusCompleted := %d, sendRetryDefault := %d, sendBusy := %d }' % (
        d['statusInProgress'], d['statusCompleted'], d['sendRetryDefault'], d['sendBusy']))
    L.append('')
    L.append('/-- constants of get_sdr_data_helper and the entries generators -/')
    L.append('def xconsts : XConsts :=')
    L.append('  { hdrLen := %d, dataRetry := %d, maxReqLen := %d, reqLenDec := %d, cantReturn := %d, lastId := 65535 }' % (
        d['hdrLen'], d['dataRetry'], d['maxReqLen'], d['reqLenDec'], d['cantReturn']))
    L.append('')
    L.append('def retryShape : RetryShape :=')
    L.append('  { chunkDecr := %d, chunkExhaustCmp := .%s, chunkExhaustAt := %d, chunkElseRaises := %s,' % (
        d['chunkDecr'], d['chunkExhaustCmp'], d['chunkExhaustAt'], _b(d['chunkElseRaises'])))
    L.append('    clearDecr := %d, clearExhaustCmp := .%s, clearExhaustAt := %d, clearElseRaises := %s,' % (
        d['clearDecr'], d['clearExhaustCmp'], d['clearExhaustAt'], _b(d['clearElseRaises'])))
    L.append('    clearChainsReservation := %s, sendDecr := %d, sendLoopCmp := .%s, sendLoopAt := %d,' % (
        _b(d['clearChainsReservation']), d['sendDecr'], d['sendLoopCmp'], d['sendLoopAt']))
    L.append('    sendElseRaisesRetryError := %s }' % _b(d['sendElseRaisesRetryError']))
    L.append('')
    L.append('def xferShape : XferShape :=')
    L.append('  { headerOffset := %d, headerPops := [%s], recordLengthAdd := %d, dataDecr := %d,' % (
        d['headerOffset'], ', '.join(str(p) for p in d['headerPops']), d['recordLengthAdd'], d['dataDecr']))
    L.append('    dataExhaustCmp := .%s, dataExhaustAt := %d, dataClampCmp := .%s, dataBreakCmp := .%s,' % (
        d['dataExhaustCmp'], d['dataExhaustAt'], d['dataClampCmp'], d['dataBreakCmp']))
    L.append('    dataOtherCodeReraises := %s, repoDataReserve := .%s, devDataReserve := .%s,' % (
        _b(d['dataOtherCodeReraises']), d['repoDataReserve'], d['devDataReserve']))
    L.append('    repoListReserve := .%s, devListReserve := .%s, listStartId := %d }' % (
        d['repoListReserve'], d['devListReserve'], d['repoListStart']))
    L.append('')
    L.append('/-- the places where pinned and repaired source differ, as read from the source now -/')
    L.append('def variantRead : Variant := ⟨%s, .%s, .%s, %s⟩' % (_b(d['fallThrough']), d['repoRenew'], d['devRenew'],
                                                                 _b(d['staleRes'])))
    L.append('def sendVariantRead : SendVariant := ⟨%s⟩' % _b(d['retryAnyCode']))
    L.append('/-- `if max_req_len <= 0:` raises RetryError (true) or sets `retry = 0` (false); not reachable on a device with a fixed limit -/')
    L.append('def zeroLenRaises : Bool := %s' % _b(d['zeroLenRaises']))
    L.append('/-- default budgets of Sdr.clear_sdr_repository / Sel.clear_sel -/')
    L.append('def sdrClearRetry : Nat := %d' % d['sdrClearRetry'])
    L.append('def selClearRetry : Nat := %d' % d['selClearRetry'])
    L.append('')
    L.append('end PyIpmi.Gen.Loops11')
    return '\n'.join(L) + '\n'


def generate():
    d = extract()
    lean.write_if_changed(OUT, render(d))
    return d
