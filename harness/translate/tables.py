"""Translator T for C07: conversion tables and per-method constants of the API layer
-> lean/PyIpmi/Gen/Tables.lean (regenerated on every run, written only when changed).

Extracted by import (dict contents) and by AST (which constant a one-line wrapper method passes on):

  chassis.CONVERT_RAW_TO_BOOT_DEVICE / CONVERT_BOOT_DEVICE_TO_RAW      both directions
  messaging.CONVERT_RAW_TO_USER_PRIVILEGE / CONVERT_USER_PRIVILEGE_TO_RAW
  lan.CONVERT_RAW_TO_IP_SRC, the two codes of lan.ip_source_to_data
  chassis.Chassis.chassis_control_*        -> option passed to chassis_control
  picmg.Picmg.fru_control_*                -> option passed to fru_control
  picmg.Picmg.set_fru_(de)activation       -> control value
  picmg.Picmg.*_fru_*activation_lock       -> ctrl passed to set_fru_activation_policy
  msgs.picmg LED_FUNCTION_* constants and LED_FUNCTION_BLINKING_RANGE (must be a contiguous range)
  chassis.BOOT_PARAMETER_BOOT_FLAGS, lan.LAN_PARAMETER_{IP_ADDRESS, IP_ADDRESS_SOURCE, MAC_ADDRESS, 802_1Q_VLAN_ID}

Enum members are identified by the MEANING of their value string (tables below, written from the
IPMI text), never by position.  Anything outside this grammar raises TieBroken (fail closed).
"""
import ast
import os

from ..lib import lean, repo

OUT = os.path.join(lean.LEAN_DIR, 'PyIpmi', 'Gen', 'Tables.lean')

# value string of a BootDevice member -> index into Spec.Bmc.BootDev.all (by meaning, IPMI table 28-14)
BOOT_DEV_MEANING = {
    'no override': 0, 'pxe': 1, 'default hard drive': 2, 'default hard drive safe mode': 3,
    'diagnostic partition': 4, 'cd': 5, 'bios setup': 6, 'remote removable media': 7, 'remote cd': 8,
    'primary remote media': 9, 'remote hard drive': 10, 'primary removable media (usb)': 11}
# value string of a UserPrivilegeLevel member -> privilege limit code of IPMI 22.26/22.27
PRIV_MEANING = {'reserved': 0, 'callback': 1, 'user': 2, 'operator': 3, 'administrator': 4, 'oem': 5, 'no access': 15}
# string of CONVERT_RAW_TO_IP_SRC -> IP address source code of LAN parameter 4
IPSRC_MEANING = {'unknown': 0, 'static': 1, 'dhcp': 2, 'bios': 3, 'other': 4}

CHASSIS_METHODS = ['power_down', 'power_up', 'power_cycle', 'hard_reset', 'diagnostic_interrupt', 'soft_shutdown']
FRU_CONTROL_METHODS = ['cold_reset', 'warm_reset', 'graceful_reboot', 'diagnostic_interrupt']
POLICY_METHODS = ['set_fru_activation_lock', 'clear_fru_activation_lock', 'set_fru_deactivation_lock', 'clear_fru_deactivation_lock']


# API method -> names given to create_request_by_name / send_message_with_name in its body (AST-checked)
METHOD_MESSAGES = {
    'bmc.Bmc.get_device_id': ['GetDeviceId'], 'bmc.Bmc.get_device_guid': ['GetDeviceGuid'], 'bmc.Bmc.cold_reset': ['ColdReset'],
    'bmc.Bmc.warm_reset': ['WarmReset'], 'bmc.Bmc.set_watchdog_timer': ['SetWatchdogTimer'],
    'bmc.Bmc.get_watchdog_timer': ['GetWatchdogTimer'], 'bmc.Bmc.reset_watchdog_timer': ['ResetWatchdogTimer'],
    'chassis.Chassis.get_chassis_status': ['GetChassisStatus'], 'chassis.Chassis.chassis_control': ['ChassisControl'],
    'chassis.Chassis.get_system_boot_options': ['GetSystemBootOptions'],
    'chassis.Chassis.set_system_boot_options': ['SetSystemBootOptions'],
    'lan.Lan.get_lan_config_param': ['GetLanConfigurationParameters'], 'lan.Lan.set_lan_config_param': ['SetLanConfigurationParameters'],
    'messaging.Messaging.set_username': ['SetUserName'], 'messaging.Messaging.get_username': ['GetUserName'],
    'messaging.Messaging.get_user_access': ['GetUserAccess'], 'messaging.Messaging.set_user_access': ['SetUserAccess'],
    'messaging.Messaging.set_user_password': ['SetUserPassword'], 'messaging.Messaging.enable_user': ['SetUserPassword'],
    'messaging.Messaging.disable_user': ['SetUserPassword'],
    'sensor.Sensor.get_sensor_reading': ['GetSensorReading'], 'sensor.Sensor.set_sensor_thresholds': ['SetSensorThresholds'],
    'sensor.Sensor.get_sensor_thresholds': ['GetSensorThresholds'], 'sensor.Sensor.rearm_sensor_events': ['RearmSensorEvents'],
    'sensor.Sensor.send_platform_event': ['PlatformEvent'],
    'event.Event.set_event_receiver': ['SetEventReceiver'], 'event.Event.get_event_receiver': ['GetEventReceiver'],
    'picmg.Picmg.get_picmg_properties': ['GetPicmgProperties'], 'picmg.Picmg.fru_control': ['FruControl'],
    'picmg.Picmg.get_power_level': ['GetPowerLevel'], 'picmg.Picmg.get_fan_speed_properties': ['GetFanSpeedProperties'],
    'picmg.Picmg.set_fan_level': ['SetFanLevel'], 'picmg.Picmg.get_fan_level': ['GetFanLevel'],
    'picmg.Picmg.get_led_state': ['GetFruLedState'], 'picmg.Picmg.set_led_state': ['SetFruLedState'],
    'picmg.Picmg._set_fru_activation': ['SetFruActivation'], 'picmg.Picmg.set_fru_activation_policy': ['SetFruActivationPolicy'],
    'picmg.Picmg.set_port_state': ['SetPortState'], 'picmg.Picmg.get_port_state': ['GetPortState'],
    'picmg.Picmg.get_pm_global_status': ['GetPowerChannelStatus'], 'picmg.Picmg.get_power_channel_status': ['GetPowerChannelStatus'],
    'picmg.Picmg.send_channel_power': ['SendPowerChannelControl'], 'picmg.Picmg.send_pm_heartbeat': ['SendPmHeartbeat'],
    'picmg.Picmg.set_signaling_class': ['SetSignalingClass'], 'picmg.Picmg.get_signaling_class': ['GetSignalingClass'],
    'hpm.Hpm.get_upgrade_status': ['GetUpgradeStatus'], 'hpm.Hpm.get_target_upgrade_capabilities': ['GetTargetUpgradeCapabilities'],
    'hpm.Hpm.query_selftest_results': ['QuerySelftestResults'], 'hpm.Hpm.query_rollback_status': ['QueryRollbackStatus'],
    'hpm.Hpm.get_component_property': ['GetComponentProperties'],
    'dcmi.Dcmi.get_dcmi_capabilities': ['GetDcmiCapabilities'], 'dcmi.Dcmi.get_power_reading': ['GetPowerReading'],
    'dcmi.Dcmi.get_dcmi_sensor_record_ids': ['GetDcmiSensorInfo'],
}


def dcmi_sensor_walk():
    """get_dcmi_sensor_record_ids: the entity ids it walks (DCMI_ENTITIES, a tuple of constant names) and the constant
    keyword arguments of its one send_message_with_name('GetDcmiSensorInfo', ...) call."""
    import pyipmi.dcmi as dmod
    fn = _class_methods('pyipmi/dcmi.py', 'Dcmi').get('get_dcmi_sensor_record_ids')
    if fn is None:
        raise lean.TieBroken('dcmi.Dcmi.get_dcmi_sensor_record_ids: method missing')
    ents = None
    for node in ast.walk(fn):
        if isinstance(node, ast.Assign) and len(node.targets) == 1 and _is_param(node.targets[0], 'DCMI_ENTITIES'):
            if not isinstance(node.value, ast.Tuple):
                raise lean.TieBroken('get_dcmi_sensor_record_ids: DCMI_ENTITIES is not a tuple')
            ents = [_const(e, dmod, None, 'DCMI_ENTITIES') for e in node.value.elts]
    loops = [n for n in ast.walk(fn) if isinstance(n, ast.For)]
    if ents is None or len(loops) != 1 or not _is_param(loops[0].iter, 'DCMI_ENTITIES') or not _is_param(loops[0].target, 'entity_id'):
        raise lean.TieBroken('get_dcmi_sensor_record_ids: not one loop `for entity_id in DCMI_ENTITIES`')
    calls = [n for n in ast.walk(fn) if isinstance(n, ast.Call) and isinstance(n.func, ast.Attribute)
             and n.func.attr == 'send_message_with_name']
    if len(calls) != 1 or len(calls[0].args) != 1:
        raise lean.TieBroken('get_dcmi_sensor_record_ids: not exactly one send_message_with_name(name, **kw)')
    kw = dict((k.arg, k.value) for k in calls[0].keywords)
    if sorted(kw) != ['entity_id', 'entity_instance', 'entity_instance_start', 'sensor_type'] or not _is_param(kw['entity_id'], 'entity_id'):
        raise lean.TieBroken('get_dcmi_sensor_record_ids: keyword arguments changed: %s' % sorted(kw))
    return ents, [_const(kw[k], dmod, None, k) for k in ('sensor_type', 'entity_instance', 'entity_instance_start')]


def _message_names(fn):
    out = []
    for node in ast.walk(fn):
        if isinstance(node, ast.Call):
            f = node.func
            nm = f.id if isinstance(f, ast.Name) else f.attr if isinstance(f, ast.Attribute) else None
            if nm in ('create_request_by_name', 'send_message_with_name') and node.args:
                a = node.args[0]
                if not (isinstance(a, ast.Constant) and isinstance(a.value, str)):
                    raise lean.TieBroken('%s: message name is not a literal' % fn.name)
                out.append(a.value)
    return out


def message_layouts():
    """[(message name, index of its request class, index of its response class)] in Gen.Registry order."""
    from . import registry
    from pyipmi.msgs import create_message
    snap = registry.snapshot()
    index = dict((cls, i) for i, (cls, info) in enumerate(snap))
    by_name = dict((info['name'], (cls, info)) for cls, info in snap)
    cache = {}
    for key, want in sorted(METHOD_MESSAGES.items()):
        mod, cls, meth = key.split('.')
        ck = (mod, cls)
        if ck not in cache:
            cache[ck] = _class_methods('pyipmi/%s.py' % mod, cls)
        if meth not in cache[ck]:
            raise lean.TieBroken('%s: method missing' % key)
        got = _message_names(cache[ck][meth])
        if got != want:
            raise lean.TieBroken('%s uses messages %s, the model expects %s' % (key, got, want))
    out = []
    for name in sorted(set(n for v in METHOD_MESSAGES.values() for n in v)):
        if name + 'Req' not in by_name:
            raise lean.TieBroken('request class %sReq is not registered' % name)
        rcls, rinfo = by_name[name + 'Req']
        if rinfo['malformed']:
            raise lean.TieBroken('%sReq is malformed' % name)
        try:
            rsp = type(create_message(rinfo['netfn'] + 1, rinfo['cmd'], rinfo['group']))
        except Exception as e:  # noqa
            raise lean.TieBroken('no response class for %s: %s' % (name, type(e).__name__))
        if rsp not in index:
            raise lean.TieBroken('response class of %s is not in the registry snapshot' % name)
        out.append((name, index[rcls], index[rsp], _spec_literal(rinfo), _spec_literal(dict(snap)[rsp])))
    return out


def _spec_literal(info):
    """The MsgSpec of Gen/Registry.lean as a term (same rendering as harness/translate/registry.py)."""
    from . import registry
    grp = 'none' if info['group'] is None else 'some %d' % int(info['group'])
    fields = [] if info['malformed'] else info['fields']
    return '⟨%s, %s, %d, %d, %s, %d, %s, %s, [%s]⟩' % (
        registry._lean_str(info['name']), 'true' if info['name'].endswith('Req') else 'false', info['netfn'], info['cmd'], grp,
        info['lun'], 'true' if info['has_fields'] else 'false', 'true' if info['malformed'] else 'false',
        ', '.join(registry._field(f) for f in fields))


def _val(m):
    v = getattr(m, 'value', m)
    if isinstance(v, tuple):
        v = v[0]
    return str(v)


def _meaning(table, m, what):
    v = _val(m)
    if v not in table:
        raise lean.TieBroken('%s: unknown member value %r' % (what, v))
    return table[v]


def _class_methods(rel, cls):
    tree = ast.parse(repo.read(rel))
    for node in tree.body:
        if isinstance(node, ast.ClassDef) and node.name == cls:
            return dict((f.name, f) for f in node.body if isinstance(f, ast.FunctionDef))
    raise lean.TieBroken('%s: class %s not found' % (rel, cls))


def _single_call(fn, callee, what):
    """The body of `fn` must be one statement `[return] self.<callee>(args…)`; returns the arg nodes."""
    body = [s for s in fn.body if not (isinstance(s, ast.Expr) and isinstance(s.value, ast.Constant))]
    if len(body) != 1 or not isinstance(body[0], (ast.Expr, ast.Return)):
        raise lean.TieBroken('%s: body is not a single call' % what)
    call = body[0].value
    if not (isinstance(call, ast.Call) and isinstance(call.func, ast.Attribute) and call.func.attr == callee
            and isinstance(call.func.value, ast.Name) and call.func.value.id == 'self' and not call.keywords):
        raise lean.TieBroken('%s: does not call self.%s(...)' % (what, callee))
    return call.args


def _const(node, module, cls, what):
    if isinstance(node, ast.Constant) and isinstance(node.value, int):
        return node.value
    if isinstance(node, ast.Name) and hasattr(module, node.id):
        v = getattr(module, node.id)
    elif isinstance(node, ast.Attribute) and isinstance(node.value, ast.Name) and node.value.id == 'self' and cls is not None \
            and hasattr(cls, node.attr):
        v = getattr(cls, node.attr)
    else:
        raise lean.TieBroken('%s: argument is not a constant name' % what)
    if not isinstance(v, int) or isinstance(v, bool):
        raise lean.TieBroken('%s: constant is not an int' % what)
    return int(v)


def _is_param(node, name):
    return isinstance(node, ast.Name) and node.id == name


def snapshot():
    import pyipmi.chassis as chassis
    import pyipmi.messaging as messaging
    import pyipmi.lan as lanmod
    import pyipmi.picmg as picmg
    import pyipmi.msgs.picmg as mp
    t = {}
    # --- boot device, both directions
    r2b, b2r = chassis.CONVERT_RAW_TO_BOOT_DEVICE, chassis.CONVERT_BOOT_DEVICE_TO_RAW
    if not (isinstance(r2b, dict) and isinstance(b2r, dict)):
        raise lean.TieBroken('boot device tables are not dicts')
    t['rawToBootDevice'] = sorted((int(k), _meaning(BOOT_DEV_MEANING, v, 'CONVERT_RAW_TO_BOOT_DEVICE')) for k, v in r2b.items())
    t['bootDeviceToRaw'] = sorted((_meaning(BOOT_DEV_MEANING, k, 'CONVERT_BOOT_DEVICE_TO_RAW'), int(v)) for k, v in b2r.items())
    members = sorted(_meaning(BOOT_DEV_MEANING, m, 'BootDevice') for m in chassis.BootDevice)
    if members != list(range(12)):
        raise lean.TieBroken('BootDevice members changed: %s' % members)
    # --- user privilege, both directions
    r2p, p2r = messaging.CONVERT_RAW_TO_USER_PRIVILEGE, messaging.CONVERT_USER_PRIVILEGE_TO_RAW
    t['rawToUserPrivilege'] = sorted((int(k), _meaning(PRIV_MEANING, v, 'CONVERT_RAW_TO_USER_PRIVILEGE')) for k, v in r2p.items())
    t['userPrivilegeToRaw'] = sorted((_meaning(PRIV_MEANING, k, 'CONVERT_USER_PRIVILEGE_TO_RAW'), int(v)) for k, v in p2r.items())
    # --- ip source
    t['rawToIpSrc'] = sorted((int(k), _meaning(IPSRC_MEANING, v, 'CONVERT_RAW_TO_IP_SRC')) for k, v in lanmod.CONVERT_RAW_TO_IP_SRC.items())
    src = []
    for name in ('static', 'dhcp'):
        try:
            d = lanmod.ip_source_to_data(name)
        except Exception as e:  # noqa
            raise lean.TieBroken('ip_source_to_data(%r) raises %s' % (name, type(e).__name__))
        src.append((IPSRC_MEANING[name], [int(x) for x in d.array]))
    t['ipSrcToData'] = src
    # --- wrapper methods
    cm = _class_methods('pyipmi/chassis.py', 'Chassis')
    opts = []
    for n in CHASSIS_METHODS:
        name = 'chassis_control_' + n
        if name not in cm:
            raise lean.TieBroken('%s missing' % name)
        args = _single_call(cm[name], 'chassis_control', name)
        if len(args) != 1:
            raise lean.TieBroken('%s: arity' % name)
        opts.append(_const(args[0], chassis, None, name))
    t['chassisControlOption'] = opts
    pm = _class_methods('pyipmi/picmg.py', 'Picmg')
    fc = []
    for n in FRU_CONTROL_METHODS:
        name = 'fru_control_' + n
        args = _single_call(pm[name], 'fru_control', name)
        if len(args) != 2 or not _is_param(args[0], 'fru_id'):
            raise lean.TieBroken('%s: shape' % name)
        fc.append(_const(args[1], picmg, None, name))
    t['fruControlOption'] = fc
    act = []
    for name in ('set_fru_deactivation', 'set_fru_activation'):
        args = _single_call(pm[name], '_set_fru_activation', name)
        if len(args) != 2 or not _is_param(args[0], 'fru_id'):
            raise lean.TieBroken('%s: shape' % name)
        act.append(_const(args[1], picmg, None, name))
    t['fruActivationControl'] = act          # [deactivate, activate]
    pol = []
    for name in POLICY_METHODS:
        args = _single_call(pm[name], 'set_fru_activation_policy', name)
        if len(args) != 2 or not _is_param(args[0], 'fru_id'):
            raise lean.TieBroken('%s: shape' % name)
        pol.append(_const(args[1], picmg, picmg.Picmg, name))
    t['policyCtrl'] = pol
    # --- LED constants
    rng = list(mp.LED_FUNCTION_BLINKING_RANGE)
    if not rng or rng != list(range(rng[0], rng[-1] + 1)):
        raise lean.TieBroken('LED_FUNCTION_BLINKING_RANGE is not a contiguous range')
    t['ledBlinkLo'], t['ledBlinkHi'] = rng[0], rng[-1]
    t['ledOff'], t['ledOn'], t['ledLampTest'] = int(mp.LED_FUNCTION_OFF), int(mp.LED_FUNCTION_ON), int(mp.LED_FUNCTION_LAMP_TEST)
    st = picmg.LedState
    t['ledStateFn'] = [int(st.FUNCTION_OFF), int(st.FUNCTION_BLINKING), int(st.FUNCTION_ON), int(st.FUNCTION_LAMP_TEST)]
    # --- parameter selectors
    t['bootFlagsSelector'] = int(chassis.BOOT_PARAMETER_BOOT_FLAGS)
    t['lanIp'], t['lanIpSrc'] = int(lanmod.LAN_PARAMETER_IP_ADDRESS), int(lanmod.LAN_PARAMETER_IP_ADDRESS_SOURCE)
    t['lanMac'], t['lanVlan'] = int(lanmod.LAN_PARAMETER_MAC_ADDRESS), int(lanmod.LAN_PARAMETER_802_1Q_VLAN_ID)
    import pyipmi.hpm as hpmmod
    t['hpmDescriptionSelector'] = int(hpmmod.PROPERTY_DESCRIPTION_STRING)
    t['dcmiEntities'], (t['dcmiSensorType'], t['dcmiEntityInstance'], t['dcmiEntityInstanceStart']) = dcmi_sensor_walk()
    t['layouts'] = message_layouts()
    return t


def _pairs(l):
    return '[' + ', '.join('(%d, %d)' % p for p in l) + ']'


def _nats(l):
    return '[' + ', '.join('%d' % x for x in l) + ']'


def render(t):
    o = []
    o.append('/- GENERATED by harness/translate/tables.py from the working tree (chassis.py, messaging.py,')
    o.append('   lan.py, picmg.py, msgs/picmg.py).  Do not edit: rewritten on every check run.')
    o.append('   Enum members are numbered by MEANING: boot devices by their index in Spec.Bmc.BootDev.all,')
    o.append('   privileges by the IPMI privilege-limit code, IP sources by the IPMI address-source code. -/')
    o.append('import PyIpmi.Gen.Registry')
    o.append('namespace PyIpmi.Gen.Tables')
    o.append('open PyIpmi.Codec')
    o.append('')
    o.append('/-- chassis.CONVERT_RAW_TO_BOOT_DEVICE: raw selector ↦ device -/')
    o.append('def rawToBootDevice : List (Nat × Nat) := ' + _pairs(t['rawToBootDevice']))
    o.append('/-- chassis.CONVERT_BOOT_DEVICE_TO_RAW: device ↦ raw selector -/')
    o.append('def bootDeviceToRaw : List (Nat × Nat) := ' + _pairs(t['bootDeviceToRaw']))
    o.append('/-- messaging.CONVERT_RAW_TO_USER_PRIVILEGE: raw ↦ privilege -/')
    o.append('def rawToUserPrivilege : List (Nat × Nat) := ' + _pairs(t['rawToUserPrivilege']))
    o.append('/-- messaging.CONVERT_USER_PRIVILEGE_TO_RAW: privilege ↦ raw -/')
    o.append('def userPrivilegeToRaw : List (Nat × Nat) := ' + _pairs(t['userPrivilegeToRaw']))
    o.append('/-- lan.CONVERT_RAW_TO_IP_SRC: raw ↦ source -/')
    o.append('def rawToIpSrc : List (Nat × Nat) := ' + _pairs(t['rawToIpSrc']))
    o.append('/-- lan.ip_source_to_data: source ↦ request data -/')
    o.append('def ipSrcToData : List (Nat × List Nat) := [' + ', '.join('(%d, %s)' % (k, _nats(v)) for k, v in t['ipSrcToData']) + ']')
    o.append('/-- option passed by chassis_control_{power_down, power_up, power_cycle, hard_reset, diagnostic_interrupt, soft_shutdown} -/')
    o.append('def chassisControlOption : List Nat := ' + _nats(t['chassisControlOption']))
    o.append('/-- option passed by fru_control_{cold_reset, warm_reset, graceful_reboot, diagnostic_interrupt} -/')
    o.append('def fruControlOption : List Nat := ' + _nats(t['fruControlOption']))
    o.append('/-- control passed by set_fru_deactivation, set_fru_activation -/')
    o.append('def fruActivationControl : List Nat := ' + _nats(t['fruActivationControl']))
    o.append('/-- ctrl passed by set_fru_activation_lock, clear_fru_activation_lock, set_fru_deactivation_lock, clear_fru_deactivation_lock -/')
    o.append('def policyCtrl : List Nat := ' + _nats(t['policyCtrl']))
    for k in ('ledBlinkLo', 'ledBlinkHi', 'ledOff', 'ledOn', 'ledLampTest', 'bootFlagsSelector', 'lanIp', 'lanIpSrc', 'lanMac', 'lanVlan',
              'hpmDescriptionSelector', 'dcmiSensorType', 'dcmiEntityInstance', 'dcmiEntityInstanceStart'):
        o.append('def %s : Nat := %d' % (k, t[k]))
    o.append('/-- dcmi.Dcmi.get_dcmi_sensor_record_ids: DCMI_ENTITIES, in the order they are asked -/')
    o.append('def dcmiEntities : List Nat := ' + _nats(t['dcmiEntities']))
    o.append('/-- LedState.FUNCTION_{OFF, BLINKING, ON, LAMP_TEST} -/')
    o.append('def ledStateFn : List Nat := ' + _nats(t['ledStateFn']))
    o.append('')
    o.append('/-! request class found by `create_request_by_name(<name>)`, response class found by')
    o.append('`create_message(netfn + 1, cmdid, group_extension)`; indices into today\'s Gen.Registry -/')
    for name, qi, ri, _ql, _rl in t['layouts']:
        o.append('def req%s : MsgSpec := PyIpmi.Gen.Registry.m%d' % (name, qi))
        o.append('def rsp%s : MsgSpec := PyIpmi.Gen.Registry.m%d' % (name, ri))
    o.append('def apiPairs : List (MsgSpec × MsgSpec) := [' + ', '.join('(req%s, rsp%s)' % (l[0], l[0]) for l in t['layouts']) + ']')
    o.append('')
    o.append('/-! the same classes spelled out (checked against Gen.Registry by `rfl`): rewrite rules for the')
    o.append('refinement proofs of Lemmas/Api*.lean, which therefore see every layout change -/')
    for name, qi, ri, ql, rl in t['layouts']:
        o.append('theorem req%s_eq : req%s = %s := rfl' % (name, name, ql))
        o.append('theorem rsp%s_eq : rsp%s = %s := rfl' % (name, name, rl))
    o.append('')
    o.append('end PyIpmi.Gen.Tables')
    return '\n'.join(o) + '\n'


def generate():
    from . import registry
    registry.generate()          # Gen/Registry.lean must be the one the indices below refer to
    t = snapshot()
    lean.write_if_changed(OUT, render(t))
    return t
