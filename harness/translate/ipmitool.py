"""T: pyipmi/interfaces/ipmitool.py  ->  lean/PyIpmi/Gen/Ipmitool.lean   (property C19)

By AST.  Every method of `Ipmitool` that C19 anchors is normalised (doc-string dropped, every
string constant replaced by a numbered placeholder, `ast.unparse`d) and compared with the
*shape* the hand-written Lean model (Model/Ipmitool.lean) mirrors; the string constants
themselves - option letters, format strings, the regular expressions' literal parts, the
privilege-level names, the separators of the output parser - are what gets generated.
Fails closed: any other shape raises TieBroken.

`rmcp_ping` has two admitted shapes: without and with the privilege-level / cipher statements (fixes/C19-5).
Three places of the shape may take one of two forms (the defect and its repair; which one the
model has to follow is decided by the correspondence run, by probing the real code):
  * credentials interpolated directly, or through ONE helper method  `self.<name>(value)`;
  * `if self._cipher:`  or  `if self._cipher is not None:`;
  * `if len(target.routing) == 2:`  or  `elif len(target.routing) == 2:` after the `== 1` case;
the serial builder may or may not append a redirection literal, and `_run_ipmitool` may hand the
child its own stderr or merge it into the pipe (`stderr=STDOUT`).
"""
import ast
import copy
import os
import re

from ..lib import lean, repo
from ..lib.lean import TieBroken

OUT = os.path.join(lean.LEAN_DIR, 'PyIpmi', 'Gen', 'Ipmitool.lean')
SRC = 'pyipmi/interfaces/ipmitool.py'


class _Abstract(ast.NodeTransformer):
    def __init__(self):
        self.lits = []

    def visit_Constant(self, n):
        if isinstance(n.value, str):
            self.lits.append(n.value)
            return ast.copy_location(ast.Name(id='S%d' % (len(self.lits) - 1), ctx=ast.Load()), n)
        return n


def _shape(fn):
    body = fn.body
    if body and isinstance(body[0], ast.Expr) and isinstance(body[0].value, ast.Constant) \
            and isinstance(body[0].value.value, str):
        body = body[1:]
    a = _Abstract()
    text = '\n'.join(ast.unparse(a.visit(copy.deepcopy(s))) for s in body)
    sig = '(%s)%s' % (','.join(x.arg for x in fn.args.args),
                      ''.join('@' + ast.unparse(d) for d in fn.decorator_list))
    return sig + '\n' + text, a.lits


_QUOTE = re.compile(r'self\.(\w+)\((self\._session\.auth_(?:username|password))\)')

SHAPES = {
    '__init__': ['''(self,interface_type,cipher)
if interface_type in self.supported_interfaces:
    self._interface_type = interface_type
else:
    raise RuntimeError(S0 % interface_type)
if cipher is not None and int(cipher) not in range(0, 255):
    raise RuntimeError(S1 % cipher)
else:
    self._cipher = cipher
self.re_completion_code = re.compile(S2)
self.re_timeout = re.compile(S3)
self.re_unable_establish = re.compile(S4)
self.re_could_not_open = re.compile(S5)
self.re_long_password = re.compile(S6)
self._session = None'''],
    'rmcp_ping': ['''(self)
if self._interface_type == S0:
    raise RuntimeError(S1)
cmd = self.IPMITOOL_PATH
cmd += S2 % self._interface_type
cmd += S3 % self._session.rmcp_host
cmd += S4 % self._session.rmcp_port
if self._session.auth_type == Session.AUTH_TYPE_NONE:
    cmd += S5
elif self._session.auth_type == Session.AUTH_TYPE_PASSWORD:
    cmd += S6 % CRED(self._session.auth_username)
    cmd += S7 % CRED(self._session.auth_password)
cmd += S8
_, rc = self._run_ipmitool(cmd)
if rc:
    raise IpmiTimeoutError()''', '''(self)
if self._interface_type == S0:
    raise RuntimeError(S1)
cmd = self.IPMITOOL_PATH
cmd += S2 % self._interface_type
cmd += S3 % self._session.rmcp_host
cmd += S4 % self._session.rmcp_port
if self._session.priv_level != Session.PRIV_LEVEL_ADMINISTRATOR:
    cmd += self._build_ipmitool_priv_level(self._session.priv_level)
if self._cipher is not None:
    cmd += S5 % self._cipher
if self._session.auth_type == Session.AUTH_TYPE_NONE:
    cmd += S6
elif self._session.auth_type == Session.AUTH_TYPE_PASSWORD:
    cmd += S7 % CRED(self._session.auth_username)
    cmd += S8 % CRED(self._session.auth_password)
cmd += S9
_, rc = self._run_ipmitool(cmd)
if rc:
    raise IpmiTimeoutError()'''],
    '_parse_output': ['''(self,output)
cc, rsp = (None, None)
hexstr = S0
for line in py3dec_unic_bytes_fix(output).split(S1):
    if S2 in line:
        continue
    if self.re_timeout.match(line):
        raise IpmiTimeoutError()
    if self.re_unable_establish.match(line):
        raise IpmiConnectionError(S3.format(line))
    match_completion_code = self.re_completion_code.match(line)
    if match_completion_code:
        cc = int(match_completion_code.group(1), 16)
        break
    if self.re_could_not_open.match(line):
        raise RuntimeError(S4.format(output))
    if self.re_long_password.match(line):
        raise IpmiLongPasswordError(line)
    hexstr += line.replace(S5, S6).strip() + S7
hexstr = hexstr.strip()
if len(hexstr):
    rsp = array(S8, [int(value, 16) for value in hexstr.split(S9)])
return (cc, rsp)'''],
    'send_and_receive_raw': ['''(self,target,lun,netfn,raw_bytes)
if self._interface_type in [S0, S1]:
    cmd = self._build_ipmitool_cmd(target, lun, netfn, raw_bytes)
elif self._interface_type in [S2]:
    cmd = self._build_open_ipmitool_cmd(target, lun, netfn, raw_bytes)
elif self._interface_type in [S3]:
    cmd = self._build_serial_ipmitool_cmd(target, lun, netfn, raw_bytes)
else:
    raise RuntimeError(S4 % self._interface_type)
output, rc = self._run_ipmitool(cmd)
cc, rsp = self._parse_output(output)
data = array(S5)
if cc is not None:
    data.append(cc)
else:
    if rc != 0:
        raise RuntimeError(S6 % rc)
    data.append(CC_OK)
    if rsp:
        data.extend(rsp)
log().debug(S7.format(S8.join((S9 % b for b in array(S10, data)))))
return py3_array_tobytes(data)'''],
    '_build_ipmitool_raw_data': ['''(lun,netfn,raw)@staticmethod
cmd = S0.format(lun)
cmd += S1.join([S2 % d for d in [netfn] + array(S3, raw).tolist()])
return cmd'''],
    '_build_ipmitool_target': ['''(target)@staticmethod
cmd = S0
if target is None:
    return S1
if target.routing is not None:
    if len(target.routing) == 1:
        pass
    DEPTH2 len(target.routing) == 2:
        cmd += S2 % target.routing[1].rs_sa
        cmd += S3 % target.routing[0].channel
    elif len(target.routing) == 3:
        cmd += S4 % target.routing[1].rs_sa
        cmd += S5 % target.routing[0].channel
        cmd += S6 % target.routing[2].rs_sa
        cmd += S7 % target.routing[1].channel
    else:
        raise RuntimeError(S8 % target)
elif target.ipmb_address:
    cmd += S9 % target.ipmb_address
return cmd'''],
    '_build_ipmitool_priv_level': ['''(self,level)
LEVELS = {Session.PRIV_LEVEL_USER: S0, Session.PRIV_LEVEL_OPERATOR: S1, Session.PRIV_LEVEL_ADMINISTRATOR: S2}
return S3 % LEVELS[level]'''],
    '_build_ipmitool_cmd': ['''(self,target,lun,netfn,raw_bytes)
if not hasattr(self, S0):
    raise RuntimeError(S1)
cmd = self.IPMITOOL_PATH
cmd += S2 % self._interface_type
cmd += S3 % self._session.rmcp_host
cmd += S4 % self._session.rmcp_port
cmd += self._build_ipmitool_priv_level(self._session.priv_level)
CIPHERTEST
    cmd += S5 % self._cipher
if self._session.auth_type == Session.AUTH_TYPE_NONE:
    cmd += S6
elif self._session.auth_type == Session.AUTH_TYPE_PASSWORD:
    cmd += S7 % CRED(self._session.auth_username)
    cmd += S8 % CRED(self._session.auth_password)
else:
    raise RuntimeError(S9 % self._session.auth_type)
cmd += self._build_ipmitool_target(target)
cmd += self._build_ipmitool_raw_data(lun, netfn, raw_bytes)
cmd += S10
return cmd'''],
    '_build_serial_ipmitool_cmd': ['''(self,target,lun,netfn,raw_bytes)
if not hasattr(self, S0):
    raise RuntimeError(S1)
cmd = S2.format(path=self.IPMITOOL_PATH, interface=self._interface_type, port=self._session.serial_port, baud=self._session.serial_baudrate)
cmd += self._build_ipmitool_target(target)
cmd += self._build_ipmitool_raw_data(lun, netfn, raw_bytes)
return cmd''', '''(self,target,lun,netfn,raw_bytes)
if not hasattr(self, S0):
    raise RuntimeError(S1)
cmd = S2.format(path=self.IPMITOOL_PATH, interface=self._interface_type, port=self._session.serial_port, baud=self._session.serial_baudrate)
cmd += self._build_ipmitool_target(target)
cmd += self._build_ipmitool_raw_data(lun, netfn, raw_bytes)
cmd += S3
return cmd'''],
    '_build_open_ipmitool_cmd': ['''(self,target,lun,netfn,raw_bytes)
if not hasattr(self, S0):
    raise RuntimeError(S1)
cmd = self.IPMITOOL_PATH
cmd += S2 % self._interface_type
cmd += self._build_ipmitool_target(target)
cmd += self._build_ipmitool_raw_data(lun, netfn, raw_bytes)
cmd += S3
return cmd'''],
    '_run_ipmitool': ['''(cmd)@staticmethod
log().debug(S0, cmd)
child = POPEN
output = child.communicate()[0]
log().debug(S1, child.returncode, output)
if child.returncode == 127:
    raise RuntimeError(S2)
return (output, child.returncode)'''],
}


def _normalise(name, text, info):
    """Fold the permitted alternatives into the canonical shape; remember which was seen."""
    helpers = set(m.group(1) for m in _QUOTE.finditer(text))
    if name in ('rmcp_ping', '_build_ipmitool_cmd'):
        n_direct = len(re.findall(r'% self\._session\.auth_(?:username|password)\b', text))
        n_quoted = len(_QUOTE.findall(text))
        if n_direct + n_quoted != 2 or (n_direct and n_quoted) or len(helpers) > 1:
            raise TieBroken('%s: user and password are not interpolated the same way' % name)
        info.setdefault('helpers', set()).update(helpers)
        info.setdefault('cred_forms', set()).add('helper' if n_quoted else 'direct')
        text = _QUOTE.sub(r'CRED(\2)', text)
        text = re.sub(r'% (self\._session\.auth_(?:username|password))\b', r'% CRED(\1)', text)
    if name == '_build_ipmitool_cmd':
        if '\nif self._cipher is not None:\n' in text:
            info['cipher_test'] = 'is-not-none'
            text = text.replace('\nif self._cipher is not None:\n', '\nCIPHERTEST\n')
        elif '\nif self._cipher:\n' in text:
            info['cipher_test'] = 'truthy'
            text = text.replace('\nif self._cipher:\n', '\nCIPHERTEST\n')
    if name == '_run_ipmitool':
        for form, key in (('Popen(cmd, shell=True, stdout=PIPE, stderr=STDOUT)', 'merged'),
                          ('Popen(cmd, shell=True, stdout=PIPE)', 'inherited')):
            if '\nchild = %s\n' % form in text:
                info['popen_stderr'] = key
                text = text.replace('\nchild = %s\n' % form, '\nchild = POPEN\n')
                break
    if name == '_build_ipmitool_target':
        if '\n    elif len(target.routing) == 2:\n' in text:
            info['depth2'] = 'elif'
            text = text.replace('\n    elif len(target.routing) == 2:\n', '\n    DEPTH2 len(target.routing) == 2:\n')
        elif '\n    if len(target.routing) == 2:\n' in text:
            info['depth2'] = 'if'
            text = text.replace('\n    if len(target.routing) == 2:\n', '\n    DEPTH2 len(target.routing) == 2:\n')
    return text


# ---------------------------------------------------------------------------------------------
# string constants -> Lean

def _cps(s):
    return '[' + ', '.join(str(ord(c)) for c in s) + ']'


def _cmt(s):
    return '  -- ' + repr(s).replace('\n', ' ')


_PCT = re.compile(r'%(s|d|02x)')


def _fmt(s, what):
    """A %-format with exactly one conversion of %s, %d, %02x."""
    ms = list(_PCT.finditer(s))
    if len(ms) != 1 or s.count('%') != 1:
        raise TieBroken('format string of %s is not <text>%%s|%%d|%%02x<text>: %r' % (what, s))
    m = ms[0]
    conv = {'s': '.s', 'd': '.d', '02x': '.x02'}[m.group(1)]
    return '⟨%s, %s, %s⟩' % (_cps(s[:m.start()]), conv, _cps(s[m.end():])), s


def _fmt_brace_d(s, what):
    if s.count('{') != 1 or '{:d}' not in s:
        raise TieBroken('format string of %s is not <text>{:d}<text>: %r' % (what, s))
    i = s.index('{:d}')
    return '⟨%s, .d, %s⟩' % (_cps(s[:i]), _cps(s[i + 4:])), s


def _serial_pieces(s):
    out, pos = [], 0
    for m in re.finditer(r'\{(\w+)!s:s\}', s):
        if m.start() > pos:
            out.append('.lit ' + _cps(s[pos:m.start()]))
        if m.group(1) not in ('path', 'interface', 'port', 'baud'):
            raise TieBroken('serial format names an unknown field %r' % m.group(1))
        out.append({'path': '.path', 'interface': '.iface', 'port': '.port', 'baud': '.baud'}[m.group(1)])
        pos = m.end()
    if pos < len(s):
        out.append('.lit ' + _cps(s[pos:]))
    rest = re.sub(r'\{(\w+)!s:s\}', '', s)
    if '{' in rest or '}' in rest:
        raise TieBroken('serial format string outside the grammar: %r' % s)
    return '[' + ', '.join(out) + ']'


def _regex_tokens(rx):
    """Tokens of the tiny regular-expression grammar the parser's patterns use."""
    toks, i, lit = [], 0, ''

    def flush():
        nonlocal lit
        if lit:
            toks.append(('lit', lit))
            lit = ''
    while i < len(rx):
        if rx.startswith('.*', i):
            flush(); toks.append(('dotstar',)); i += 2
        elif rx.startswith('[0-9a-f]+', i):
            flush(); toks.append(('hexplus',)); i += 9
        elif rx[i] == '\\' and i + 1 < len(rx) and rx[i + 1] in '()':
            lit += rx[i + 1]; i += 2
        elif rx[i] == '(':
            flush(); toks.append(('open',)); i += 1
        elif rx[i] == ')':
            flush(); toks.append(('close',)); i += 1
        elif rx[i] in '.*+?[]{}|^$\\':
            raise TieBroken('regular expression outside the grammar: %r' % rx)
        else:
            lit += rx[i]; i += 1
    flush()
    return toks


def _regex_parts(rx, kinds, what):
    toks = _regex_tokens(rx)
    if [t[0] for t in toks] != kinds:
        raise TieBroken('regular expression %s has shape %s, expected %s' % (what, [t[0] for t in toks], kinds))
    return [t[1] for t in toks if t[0] == 'lit']


# formats whose argument is (or may be) a string: only %s is modelled for them
STRING_ARGS = ('fIface', 'fHost', 'fPort', 'fCipher', 'fUser', 'fPass', 'fLevel', 'pIface', 'pHost', 'pPort',
               'pUser', 'pPass', 'oIface', 'pCipher')


def extract():
    """Parse the working tree; return the dict of everything generated (also used by c19.py)."""
    src = repo.read(SRC)
    try:
        tree = ast.parse(src)
    except SyntaxError as e:
        raise TieBroken('ipmitool.py does not parse: %s' % e)
    cls = [n for n in tree.body if isinstance(n, ast.ClassDef) and n.name == 'Ipmitool']
    if len(cls) != 1:
        raise TieBroken('class Ipmitool not found')
    cls = cls[0]
    attrs, methods = {}, {}
    for n in cls.body:
        if isinstance(n, ast.Assign) and len(n.targets) == 1 and isinstance(n.targets[0], ast.Name):
            try:
                attrs[n.targets[0].id] = ast.literal_eval(n.value)
            except ValueError:
                raise TieBroken('class attribute %s is not a literal' % n.targets[0].id)
        elif isinstance(n, ast.FunctionDef):
            methods[n.name] = n
    info, lits = {}, {}
    for name, allowed in SHAPES.items():
        if name not in methods:
            raise TieBroken('method Ipmitool.%s is gone' % name)
        text, ls = _shape(methods[name])
        text = _normalise(name, text, info)
        if text not in allowed:
            import difflib
            d = list(difflib.unified_diff(allowed[0].split('\n'), text.split('\n'), lineterm='', n=0))
            raise TieBroken('Ipmitool.%s left the modelled shape: %s' % (name, ' | '.join(d[2:8])))
        lits[name] = ls
        if name == 'rmcp_ping':
            # second shape (fixes/C19-5): `-L` unless ADMINISTRATOR (ipmitool's default) and `-C` when configured
            info['ping_opts'] = allowed.index(text) == 1
    if len(info.get('cred_forms', ())) != 1:
        raise TieBroken('rmcp_ping and _build_ipmitool_cmd treat the credentials differently')
    form = list(info['cred_forms'])[0]
    helper = None
    if form == 'helper':
        helper = list(info['helpers'])[0]
        if helper not in methods:
            raise TieBroken('credential helper %s is not a method of Ipmitool' % helper)
    for k in ('cipher_test', 'depth2', 'popen_stderr'):
        if k not in info:
            raise TieBroken('could not classify %s' % k)
    for k in ('IPMITOOL_PATH', 'supported_interfaces'):
        if k not in attrs:
            raise TieBroken('class attribute %s is gone' % k)
    # constants of session.py
    stree = ast.parse(repo.read('pyipmi/session.py'))
    scls = [n for n in stree.body if isinstance(n, ast.ClassDef) and n.name == 'Session'][0]
    sconst = {}
    for n in scls.body:
        if isinstance(n, ast.Assign) and isinstance(n.targets[0], ast.Name) and isinstance(n.value, ast.Constant):
            sconst[n.targets[0].id] = n.value.value
    for k in ('AUTH_TYPE_NONE', 'AUTH_TYPE_PASSWORD', 'PRIV_LEVEL_USER', 'PRIV_LEVEL_OPERATOR',
              'PRIV_LEVEL_ADMINISTRATOR'):
        if not isinstance(sconst.get(k), int):
            raise TieBroken('Session.%s is not an integer constant' % k)
    return {'attrs': attrs, 'lits': lits, 'cred_form': form, 'helper': helper,
            'cipher_test': info['cipher_test'], 'depth2': info['depth2'], 'session': sconst,
            'popen_stderr': info['popen_stderr'], 'ping_opts': info['ping_opts'],
            'serial_redirect': lits['_build_serial_ipmitool_cmd'][3] if len(lits['_build_serial_ipmitool_cmd']) > 3 else ''}


def render(x):
    L = x['lits']
    out = []
    w = out.append
    w('/- GENERATED by harness/translate/ipmitool.py from pyipmi/interfaces/ipmitool.py and pyipmi/session.py.')
    w('   Do not edit.  Strings are lists of code points; the Python literal is in the comment. -/')
    w('namespace PyIpmi.Gen.Ipmitool')
    w('')
    w('inductive Conv where')
    w('  | s | d | x02')
    w('  deriving DecidableEq, Repr')
    w('')
    w('/-- a format string with exactly one conversion: text before, conversion, text after -/')
    w('structure Fmt where')
    w('  pre : List Nat')
    w('  conv : Conv')
    w('  post : List Nat')
    w('  deriving DecidableEq, Repr')
    w('')
    w('inductive SPiece where')
    w('  | lit (s : List Nat) | path | iface | port | baud')
    w('  deriving DecidableEq, Repr')
    w('')

    def s(name, val):
        w('def %s : List Nat := %s%s' % (name, _cps(val), _cmt(val)))

    def f(name, val, what, brace=False):
        body, raw = (_fmt_brace_d if brace else _fmt)(val, what)
        if name in STRING_ARGS and ', .s, ' not in body:
            raise TieBroken('%s interpolates a string but its conversion is not %%s: %r' % (what, val))
        w('def %s : Fmt := %s%s' % (name, body, _cmt(raw)))

    s('path', x['attrs']['IPMITOOL_PATH'])
    sup = x['attrs']['supported_interfaces']
    if not (isinstance(sup, list) and all(isinstance(i, str) for i in sup)):
        raise TieBroken('supported_interfaces is not a list of strings')
    w('def supported : List (List Nat) := [%s]%s' % (', '.join(_cps(i) for i in sup), _cmt(sup)))
    b = L['_build_ipmitool_cmd']
    f('fIface', b[2], 'lan -I'); f('fHost', b[3], 'lan -H'); f('fPort', b[4], 'lan -p')
    f('fCipher', b[5], 'lan -C'); s('noAuth', b[6]); f('fUser', b[7], 'lan -U'); f('fPass', b[8], 'lan -P')
    s('redirect', b[10])
    lv = L['_build_ipmitool_priv_level']
    f('fLevel', lv[3], '-L')
    sc = x['session']
    w('def levels : List (Nat × List Nat) := [(%d, %s), (%d, %s), (%d, %s)]%s' % (
        sc['PRIV_LEVEL_USER'], _cps(lv[0]), sc['PRIV_LEVEL_OPERATOR'], _cps(lv[1]),
        sc['PRIV_LEVEL_ADMINISTRATOR'], _cps(lv[2]), _cmt(lv[:3])))
    w('def authNone : Nat := %d' % sc['AUTH_TYPE_NONE'])
    w('def authPassword : Nat := %d' % sc['AUTH_TYPE_PASSWORD'])
    p = list(L['rmcp_ping'])
    s('pingRefused', p[0])
    f('pIface', p[2], 'ping -I'); f('pHost', p[3], 'ping -H'); f('pPort', p[4], 'ping -p')
    w('/-- does `rmcp_ping` pass the privilege level (unless ADMINISTRATOR) and the cipher?  (fixes/C19-5) -/')
    w('def pingOptsInSource : Bool := %s' % ('true' if x['ping_opts'] else 'false'))
    w('def levelAdmin : Nat := %d' % sc['PRIV_LEVEL_ADMINISTRATOR'])
    if x['ping_opts']:
        f('pCipher', p[5], 'ping -C')
        del p[5]
    else:
        w('def pCipher : Fmt := fCipher  -- rmcp_ping has no -C statement in this tree (only the intended model uses it)')
    s('pNoAuth', p[5]); f('pUser', p[6], 'ping -U'); f('pPass', p[7], 'ping -P'); s('pTail', p[8])
    t = L['_build_ipmitool_target']
    if t[0] != '' or t[1] != '':
        raise TieBroken('_build_ipmitool_target no longer starts from the empty string')
    f('t2', t[2], 'depth-2 -t'); f('b2', t[3], 'depth-2 -b'); f('tt3', t[4], 'depth-3 -T'); f('bb3', t[5], 'depth-3 -B')
    f('t3', t[6], 'depth-3 -t'); f('b3', t[7], 'depth-3 -b'); f('tAddr', t[9], 'ipmb -t')
    r = L['_build_ipmitool_raw_data']
    f('rawHead', r[0], '-l … raw', brace=True); s('rawSep', r[1]); f('rawByte', r[2], 'raw byte')
    if r[3] != 'B':
        raise TieBroken('raw bytes are no longer an array of unsigned bytes')
    o = L['_build_open_ipmitool_cmd']
    f('oIface', o[2], 'open -I'); s('openRedirect', o[3])
    se = L['_build_serial_ipmitool_cmd']
    w('def serial : List SPiece := %s%s' % (_serial_pieces(se[2]), _cmt(se[2])))
    s('serialRedirect', x['serial_redirect'])
    d = L['send_and_receive_raw']
    w('def lanIfaces : List (List Nat) := [%s, %s]' % (_cps(d[0]), _cps(d[1])))
    w('def openIfaces : List (List Nat) := [%s]' % _cps(d[2]))
    w('def serialIfaces : List (List Nat) := [%s]' % _cps(d[3]))
    i = L['__init__']
    a = _regex_parts(i[2], ['lit', 'dotstar', 'lit', 'open', 'lit', 'hexplus', 'close', 'lit'], 're_completion_code')
    s('ccHead', a[0]); s('ccKey', a[1]); s('ccGroupHead', a[2]); s('ccTail', a[3])
    a = _regex_parts(i[3], ['lit', 'dotstar', 'lit', 'hexplus', 'lit'], 're_timeout')
    s('toHead', a[0]); s('toKey', a[1]); s('toTail', a[2])
    # `[0-9a-f]+` followed by a literal: the model takes the maximal run, which is the regular
    # expression's only candidate iff the literal does not start with a hex digit
    if re.match(r'[0-9a-f]', a[2]) or re.match(r'[0-9a-f]', L['__init__'][2].split('+')[-1].lstrip(')\\')):
        raise TieBroken('a hex run is followed by a literal that starts with a hex digit')
    for nm, rx, what in (('reEstablish', i[4], 're_unable_establish'), ('reOpen', i[5], 're_could_not_open'),
                         ('reLongPw', i[6], 're_long_password')):
        a = _regex_parts(rx, ['dotstar', 'lit', 'dotstar'], what)
        s(nm, a[0])
    po = L['_parse_output']
    if po[0] != '' or po[6] != '' or po[8] != 'B' or any(len(po[k]) != 1 for k in (1, 5, 7, 9)):
        raise TieBroken('_parse_output: separators are no longer single characters')
    s('skipWord', po[2])
    w('def lineSep : Nat := %d%s' % (ord(po[1]), _cmt(po[1])))
    w('def dropChar : Nat := %d%s' % (ord(po[5]), _cmt(po[5])))
    w('def joinChar : Nat := %d%s' % (ord(po[7]), _cmt(po[7])))
    w('def splitChar : Nat := %d%s' % (ord(po[9]), _cmt(po[9])))
    w('')
    w('end PyIpmi.Gen.Ipmitool')
    return '\n'.join(out) + '\n'


def generate():
    x = extract()
    lean.write_if_changed(OUT, render(x))
    return x
