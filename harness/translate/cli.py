"""T: pyipmi/ipmitool.py + pyipmi.Ipmi + pyipmi/chassis.py  ->  lean/PyIpmi/Gen/Cli.lean

AST + import, regenerated on every run:

* COMMANDS: name -> handler; for every handler (lambda or module-level function, and the
  module-level helpers it hands `ipmi` to) the `ipmi.<method>` references in source order with
  the call arity (positional count, keyword names); aliases `f = ipmi.m` ... `f()` are followed;
* `dir(pyipmi.Ipmi)`: every public attribute with `inspect.signature` (self dropped);
* main(): the getopt option string, the `for o, a in opts` chain (option -> variable, conversion),
  the defaults, every `sys.exit(n)` with its context, the `except` clauses of the final `try`
  (exception -> message format, exit status), which variable feeds which call;
* chassis.py: `chassis_control_*` method -> option constant (value from msgs/chassis.py);
* the interface names `create_interface` knows;
* pyipmi/errors.py: the exception classes (each must derive directly from Exception);
* every `int(args[k])` / `int(args[k], 0)` of a handler (entry, argument index, base 0?);
* whether `ipmi.close()` sits inside the try that carries the except clauses;
* the printing handlers: does `print_link_state` tolerate None, does `sdr_show` guard the optional record
  attributes, which exception classes are caught between `convert_sensor_raw_to_value` and `main`;
* sdr.py: record type -> class -> does its `_from_data` set an ID string / an entity;
* every `ipmi.get_sensor_reading(<rec>.number[, <lun>])` a table entry reaches (through module-level helpers, with
  the helper's parameters substituted by the caller's arguments): the `if <rec>.type is SDR_TYPE_…` branch it sits
  in and its LUN argument (none / `<rec>.owner_lun` / an integer literal), and the default of the API's `lun`.

Fails closed: any shape outside this grammar raises TieBroken.
"""
import ast
import inspect
import os

from ..lib import lean, repo
from ..lib.lean import TieBroken

OUT = os.path.join(lean.LEAN_DIR, 'PyIpmi', 'Gen', 'Cli.lean')


# ------------------------------------------------------------------------------------ helpers
def _codes(s):
    return '[' + ', '.join(str(ord(c)) for c in s) + ']'


def _lean_str(s):
    out = []
    for c in s:
        if c == '\\':
            out.append('\\\\')
        elif c == '"':
            out.append('\\"')
        elif c == '\n':
            out.append('\\n')
        elif ord(c) < 32 or ord(c) > 126:
            out.append('\\u{%x}' % ord(c))
        else:
            out.append(c)
    return '"' + ''.join(out) + '"'


def _nats(l):
    return '[' + ', '.join(str(int(x)) for x in l) + ']'


def _bool(b):
    return 'true' if b else 'false'


class Interner(object):
    def __init__(self):
        self.names = []
        self.ids = {}

    def __call__(self, s):
        if s not in self.ids:
            self.ids[s] = len(self.names)
            self.names.append(s)
        return self.ids[s]


def _parents(root):
    par = {}
    for node in ast.walk(root):
        for ch in ast.iter_child_nodes(node):
            par[ch] = node
    return par


# --------------------------------------------------------------------------- handler analysis
def _analyze(fn, pname, module_funcs, seen, where):
    """`ipmi.<m>` references of function/lambda `fn` whose parameter `pname` is the Ipmi
    object -> list of (lineno, col, name, called, npos, kws)."""
    par = _parents(fn)
    refs = []
    aliases = {}
    body_nodes = list(ast.walk(fn))
    # a parameter re-bound inside the handler would invalidate the analysis
    for n in body_nodes:
        if isinstance(n, ast.Name) and n.id == pname and isinstance(n.ctx, (ast.Store, ast.Del)):
            raise TieBroken('%s: parameter %s is re-bound' % (where, pname))
    for n in body_nodes:
        if not (isinstance(n, ast.Name) and n.id == pname and isinstance(n.ctx, ast.Load)):
            continue
        p = par.get(n)
        if isinstance(p, ast.Attribute) and p.value is n:
            if not isinstance(p.ctx, ast.Load):
                raise TieBroken('%s: %s.%s is assigned/deleted' % (where, pname, p.attr))
            pp = par.get(p)
            if isinstance(pp, ast.Call) and pp.func is p:
                refs.append((p.lineno, p.col_offset, p.attr, True) + _arity(pp, where))
            elif isinstance(pp, ast.Assign) and pp.value is p and len(pp.targets) == 1 \
                    and isinstance(pp.targets[0], ast.Name):
                aliases.setdefault(pp.targets[0].id, []).append(p.attr)
                refs.append((p.lineno, p.col_offset, p.attr, False, 0, ()))
            else:
                raise TieBroken('%s: %s.%s used in an unsupported position (%s)' % (
                    where, pname, p.attr, type(pp).__name__))
        elif isinstance(p, ast.Call) and n in p.args:
            # ipmi handed on to a module-level helper
            if not (isinstance(p.func, ast.Name) and p.func.id in module_funcs):
                raise TieBroken('%s: %s passed to something that is not a module-level function' % (where, pname))
            helper = module_funcs[p.func.id]
            idx = p.args.index(n)
            hp = helper.args.args
            if idx >= len(hp) or any(isinstance(a, ast.Starred) for a in p.args):
                raise TieBroken('%s: cannot map %s into helper %s' % (where, pname, p.func.id))
            key = (p.func.id, hp[idx].arg)
            if key not in seen:
                seen.add(key)
                refs.extend(_analyze(helper, hp[idx].arg, module_funcs, seen, where + '>' + p.func.id))
        else:
            raise TieBroken('%s: bare use of %s in %s' % (where, pname, type(p).__name__))
    # calls through aliases
    for n in body_nodes:
        if isinstance(n, ast.Call) and isinstance(n.func, ast.Name) and n.func.id in aliases:
            for m in aliases[n.func.id]:
                refs.append((n.lineno, n.col_offset, m, True) + _arity(n, where))
    for n in body_nodes:
        if isinstance(n, ast.Name) and n.id in aliases and isinstance(n.ctx, ast.Load):
            p = par.get(n)
            if not (isinstance(p, ast.Call) and p.func is n):
                raise TieBroken('%s: alias %s escapes' % (where, n.id))
    return refs


def _arity(call, where):
    if any(isinstance(a, ast.Starred) for a in call.args):
        raise TieBroken('%s: *args in a call' % where)
    kws = []
    for k in call.keywords:
        if k.arg is None:
            raise TieBroken('%s: **kwargs in a call' % where)
        kws.append(k.arg)
    return (len(call.args), tuple(kws))


def _commands(tree, module_funcs):
    node = None
    for st in tree.body:
        if isinstance(st, ast.Assign) and len(st.targets) == 1 and isinstance(st.targets[0], ast.Name) \
                and st.targets[0].id == 'COMMANDS':
            node = st.value
    if not isinstance(node, ast.Tuple):
        raise TieBroken('COMMANDS is not a module-level tuple')
    out = []
    for el in node.elts:
        if not (isinstance(el, ast.Call) and isinstance(el.func, ast.Name) and el.func.id == 'Command'
                and len(el.args) == 2 and not el.keywords
                and isinstance(el.args[0], ast.Constant) and isinstance(el.args[0].value, str)):
            raise TieBroken('COMMANDS element is not Command(<str>, <fn>)')
        name = el.args[0].value
        fn = el.args[1]
        if isinstance(fn, ast.Lambda):
            hname, fnode = '<lambda>', fn
        elif isinstance(fn, ast.Name) and fn.id in module_funcs:
            hname, fnode = fn.id, module_funcs[fn.id]
        else:
            raise TieBroken('handler of %r is neither a lambda nor a module-level function' % name)
        a = fnode.args
        if len(a.args) != 2 or a.vararg or a.kwarg or a.kwonlyargs or getattr(a, 'posonlyargs', []):
            raise TieBroken('handler of %r does not take exactly (ipmi, args)' % name)
        refs = _analyze(fnode, a.args[0].arg, module_funcs, set(), name)
        refs.sort(key=lambda r: (r[0], r[1]))
        out.append({'name': name, 'handler': hname, 'refs': [r[2:] for r in refs], 'line': el.lineno,
                    'node': fnode})
    return out


# --------------------------------------------------------------------------------------- main
def _is_name(n, s):
    return isinstance(n, ast.Name) and n.id == s


def _is_call(n, dotted):
    if not isinstance(n, ast.Call):
        return False
    f = n.func
    parts = []
    while isinstance(f, ast.Attribute):
        parts.append(f.attr)
        f = f.value
    if isinstance(f, ast.Name):
        parts.append(f.id)
    else:
        return False
    return '.'.join(reversed(parts)) == dotted


def _sys_exit_code(st):
    """`sys.exit()` / `sys.exit(<int>)` statement -> status (None -> 0), else raise."""
    if isinstance(st, ast.Expr) and _is_call(st.value, 'sys.exit') and not st.value.keywords:
        if not st.value.args:
            return 0
        if len(st.value.args) == 1 and isinstance(st.value.args[0], ast.Constant) \
                and isinstance(st.value.args[0].value, int):
            return st.value.args[0].value
    raise TieBroken('main: expected sys.exit(<int>) at line %d' % getattr(st, 'lineno', 0))


def _conv(value, aname):
    """right-hand side of an option assignment -> Conv"""
    if isinstance(value, ast.Constant) and value.value is True:
        return 'Conv.constTrue'
    if _is_name(value, aname):
        return 'Conv.str'
    if _is_call(value, 'int') and not value.keywords and value.args and _is_name(value.args[0], aname):
        if len(value.args) == 1:
            return 'Conv.int10'
        if len(value.args) == 2 and isinstance(value.args[1], ast.Constant) and value.args[1].value == 0:
            return 'Conv.int0'
    if isinstance(value, ast.List) and len(value.elts) == 1 and isinstance(value.elts[0], ast.Tuple):
        t = value.elts[0].elts
        if len(t) == 3 and isinstance(t[0], ast.Constant) and isinstance(t[2], ast.Constant) \
                and isinstance(t[0].value, int) and isinstance(t[2].value, int) \
                and t[0].value >= 0 and t[2].value >= 0 \
                and _is_call(t[1], 'int') and not t[1].keywords and t[1].args and _is_name(t[1].args[0], aname):
            if len(t[1].args) == 1:
                return '(Conv.routeChannel %d %d false)' % (t[0].value, t[2].value)
            if len(t[1].args) == 2 and isinstance(t[1].args[1], ast.Constant) and t[1].args[1].value == 0:
                return '(Conv.routeChannel %d %d true)' % (t[0].value, t[2].value)
    raise TieBroken('main: unsupported option conversion at line %d' % value.lineno)


def _default(value):
    if isinstance(value, ast.Constant):
        v = value.value
        if v is None:
            return 'Val.none'
        if isinstance(v, bool):
            return '(Val.bool %s)' % _bool(v)
        if isinstance(v, int):
            return '(Val.int %d)' % v
        if isinstance(v, str):
            return '(Val.str %s)' % _codes(v)
    if _is_call(value, 'list') and not value.args:
        return 'Val.emptyList'
    raise TieBroken('main: unsupported default at line %d' % value.lineno)


def _bridge_stmt(st, after_set_routing):
    """`if R is None and C is not None: R = [(k1, k2, C), (k3, T, None)]` -> (R, C, k1, k2, k3, T)"""
    def cmp_none(t, op):
        return isinstance(t, ast.Compare) and isinstance(t.left, ast.Name) and len(t.ops) == 1 \
            and isinstance(t.ops[0], op) and isinstance(t.comparators[0], ast.Constant) and t.comparators[0].value is None

    def const(x):
        return isinstance(x, ast.Constant) and isinstance(x.value, int) and not isinstance(x.value, bool)
    t = st.test
    ok = isinstance(t.op, ast.And) and len(t.values) == 2 and cmp_none(t.values[0], ast.Is) \
        and cmp_none(t.values[1], ast.IsNot) and not st.orelse and len(st.body) == 1 \
        and isinstance(st.body[0], ast.Assign) and len(st.body[0].targets) == 1 and not after_set_routing
    if ok:
        rv, cv = t.values[0].left.id, t.values[1].left.id
        a = st.body[0]
        v = a.value
        ok = _is_name(a.targets[0], rv) and isinstance(v, ast.List) and len(v.elts) == 2 \
            and all(isinstance(e, ast.Tuple) and len(e.elts) == 3 for e in v.elts)
        if ok:
            h1, h2 = v.elts[0].elts, v.elts[1].elts
            ok = const(h1[0]) and const(h1[1]) and _is_name(h1[2], cv) and const(h2[0]) \
                and isinstance(h2[1], ast.Name) and isinstance(h2[2], ast.Constant) and h2[2].value is None
            if ok:
                return (rv, cv, h1[0].value, h1[1].value, h2[0].value, h2[1].id)
    raise TieBroken('main: compound "if … and …" statement at line %d is outside the grammar' % st.lineno)


def _main(tree, intern):
    fn = None
    for st in tree.body:
        if isinstance(st, ast.FunctionDef) and st.name == 'main':
            fn = st
    if fn is None:
        raise TieBroken('no main()')
    body = fn.body
    # --- try: opts, args = getopt.getopt(sys.argv[1:], '<s>') except getopt.GetoptError: ... sys.exit(n)
    t0 = body[0]
    if not (isinstance(t0, ast.Try) and len(t0.body) == 1 and isinstance(t0.body[0], ast.Assign)
            and _is_call(t0.body[0].value, 'getopt.getopt')):
        raise TieBroken('main does not start with try: getopt.getopt(...)')
    g = t0.body[0].value
    if len(g.args) != 2 or g.keywords or not (isinstance(g.args[1], ast.Constant) and isinstance(g.args[1].value, str)):
        raise TieBroken('getopt.getopt is not called with (argv, <literal short options>)')
    optstring = g.args[1].value
    if len(t0.handlers) != 1:
        raise TieBroken('getopt try has not exactly one handler')
    getopt_exit = _sys_exit_code(t0.handlers[0].body[-1])
    # --- defaults, then the for loop
    i = 1
    var_names, defaults = [], []
    while i < len(body) and isinstance(body[i], ast.Assign):
        a = body[i]
        if len(a.targets) != 1 or not isinstance(a.targets[0], ast.Name):
            raise TieBroken('main: unsupported default assignment')
        var_names.append(a.targets[0].id)
        defaults.append(_default(a.value))
        i += 1
    loop = body[i]
    if not (isinstance(loop, ast.For) and isinstance(loop.target, ast.Tuple) and len(loop.target.elts) == 2
            and _is_name(loop.iter, 'opts') and len(loop.body) == 1 and isinstance(loop.body[0], ast.If)):
        raise TieBroken('main: option loop has an unexpected shape')
    oname, aname = loop.target.elts[0].id, loop.target.elts[1].id
    rules = []
    node = loop.body[0]
    module_globals = set()
    while True:
        t = node.test
        if not (isinstance(t, ast.Compare) and _is_name(t.left, oname) and len(t.ops) == 1
                and isinstance(t.ops[0], ast.Eq) and isinstance(t.comparators[0], ast.Constant)
                and isinstance(t.comparators[0].value, str) and len(t.comparators[0].value) == 2
                and t.comparators[0].value[0] == '-'):
            raise TieBroken('main: option test has an unexpected shape at line %d' % node.lineno)
        opt = t.comparators[0].value[1]
        b = [s for s in node.body if not isinstance(s, ast.Global)]
        for s in node.body:
            if isinstance(s, ast.Global):
                module_globals.update(s.names)
        if len(b) == 1 and isinstance(b[0], ast.Assign) and len(b[0].targets) == 1 \
                and isinstance(b[0].targets[0], ast.Name):
            v = b[0].targets[0].id
            if v not in var_names:
                if v in module_globals:
                    var_names.append(v)
                    defaults.append('(Val.bool false)')
                else:
                    raise TieBroken('main: option %s assigns an undeclared variable %s' % (opt, v))
            rules.append((opt, '(OptAct.assign %d %s)' % (var_names.index(v), _conv(b[0].value, aname)), v))
        elif len(b) == 2 and isinstance(b[0], ast.Expr) and isinstance(b[0].value, ast.Call) \
                and isinstance(b[0].value.func, ast.Name) and b[0].value.func.id in ('usage', 'version') \
                and _sys_exit_code(b[1]) == 0:
            rules.append((opt, 'OptAct.exitOk', None))
        else:
            raise TieBroken('main: body of option %s is outside the grammar' % opt)
        if len(node.orelse) == 1 and isinstance(node.orelse[0], ast.If):
            node = node.orelse[0]
            continue
        if not (len(node.orelse) == 1 and isinstance(node.orelse[0], ast.Assert)):
            raise TieBroken('main: option chain does not end in assert False')
        break
    rest = body[i + 1:]
    # --- remaining statements: locate by shape
    facts = {'getoptExit': getopt_exit}
    sinks = {}

    def names_of(call):
        out = []
        for a in call.args:
            if not isinstance(a, ast.Name):
                raise TieBroken('main: argument of %s is not a plain variable' % ast.dump(call.func)[:60])
            out.append(a.id)
        return out

    final_try = None
    for st in rest:
        if isinstance(st, ast.If) and isinstance(st.test, ast.Compare) and _is_call(st.test.left, 'len') \
                and isinstance(st.test.ops[0], ast.Eq) and isinstance(st.test.comparators[0], ast.Constant) \
                and st.test.comparators[0].value == 0 and _is_name(st.test.left.args[0], 'args'):
            facts['noArgsExit'] = _sys_exit_code(st.body[-1])
        elif isinstance(st, ast.For) and st.orelse:
            facts['noCmdExit'] = _sys_exit_code(st.orelse[-1])
            ok = (isinstance(st.iter, ast.Call) and _is_call(st.iter, 'range'))
            src = ast.unparse(st)
            if not ok or "_get_command_function(' '.join(args[0:i + 1]))" not in src \
                    or 'args = args[i + 1:]' not in src or 'break' not in src:
                raise TieBroken('main: the command lookup loop changed shape')
        elif isinstance(st, ast.Assign) and _is_call(st.value, 'parse_interface_options'):
            sinks['parse_interface_options'] = names_of(st.value)
        elif isinstance(st, ast.Try) and not st.finalbody and len(st.body) == 1 \
                and isinstance(st.body[0], ast.Assign) and _is_call(st.body[0].value, 'pyipmi.interfaces.create_interface'):
            c = st.body[0].value
            kw = [k for k in c.keywords]
            if len(c.args) != 1 or len(kw) != 1 or kw[0].arg is not None or not isinstance(kw[0].value, ast.Name):
                raise TieBroken('main: create_interface call changed shape')
            sinks['create_interface'] = names_of(c) + [kw[0].value.id]
            if len(st.handlers) != 1 or ast.unparse(st.handlers[0].type) != 'RuntimeError':
                raise TieBroken('main: create_interface handler changed')
            facts['ifaceErrExit'] = _sys_exit_code(st.handlers[0].body[-1])
        elif isinstance(st, ast.Assign) and _is_call(st.value, 'pyipmi.Target') \
                and ast.unparse(st.targets[0]) == 'ipmi.target':
            sinks['Target'] = names_of(st.value)
        elif isinstance(st, ast.If) and isinstance(st.test, ast.BoolOp):
            # if <routing> is None and <channel> is not None: <routing> = [(c, c, <channel>), (c, <target>, None)]
            facts['bridge'] = _bridge_stmt(st, 'ipmi.target.set_routing' in sinks)
        elif isinstance(st, ast.If) and isinstance(st.test, ast.Compare) and isinstance(st.test.ops[0], ast.IsNot) \
                and isinstance(st.test.left, ast.Name):
            guard = st.test.left.id
            for s in st.body:
                if isinstance(s, ast.Expr) and isinstance(s.value, ast.Call):
                    fname = ast.unparse(s.value.func)
                    sinks[fname] = [guard] + names_of(s.value)
                elif isinstance(s, ast.If) and isinstance(s.test, ast.Compare) and isinstance(s.test.ops[0], ast.IsNot) \
                        and isinstance(s.test.left, ast.Name) and len(s.body) == 1 and isinstance(s.body[0], ast.Expr):
                    fname = ast.unparse(s.body[0].value.func)
                    sinks[fname] = [s.test.left.id] + names_of(s.body[0].value)
                else:
                    raise TieBroken('main: statement under "if %s is not None" is outside the grammar' % guard)
        elif isinstance(st, ast.Try) and (st.finalbody or (
                len(st.body) == 1 and isinstance(st.body[0], ast.Try) and st.body[0].finalbody)):
            final_try = st
    for k in ('noArgsExit', 'noCmdExit', 'ifaceErrExit'):
        if k not in facts:
            raise TieBroken('main: could not locate %s' % k)
    want = {
        'parse_interface_options': 2, 'create_interface': 2, 'Target': 1,
        'ipmi.target.set_routing': 2, 'ipmi.session.set_session_type_rmcp': 3,
        'ipmi.session.set_auth_type_user': 3, 'ipmi.session.set_priv_level': 2,
    }
    for k, n in want.items():
        if k not in sinks or len(sinks[k]) != n:
            raise TieBroken('main: call %s not found with %d variable arguments' % (k, n))
        for v in sinks[k]:
            if v not in var_names and v != 'interface_options':
                raise TieBroken('main: %s uses unknown variable %s' % (k, v))
    if sinks['parse_interface_options'] != [sinks['create_interface'][0], sinks['create_interface'][1]] and \
            sinks['parse_interface_options'][0] != sinks['create_interface'][0]:
        raise TieBroken('main: interface name differs between parse_interface_options and create_interface')
    if sinks['ipmi.target.set_routing'][0] != sinks['ipmi.target.set_routing'][1]:
        raise TieBroken('main: routing guard and argument differ')
    if facts.get('bridge') is not None:
        rv, cv, rq1, rs1, rq2, tv = facts['bridge']
        if rv != sinks['ipmi.target.set_routing'][1] or tv != sinks['Target'][0] or cv not in var_names:
            raise TieBroken('main: the bridging statement names other variables than Target() / set_routing()')
    if sinks['ipmi.session.set_session_type_rmcp'][0] != sinks['ipmi.session.set_session_type_rmcp'][1]:
        raise TieBroken('main: host guard and argument differ')
    if sinks['ipmi.session.set_auth_type_user'][0] != sinks['ipmi.session.set_session_type_rmcp'][0]:
        raise TieBroken('main: auth is not under the host guard')
    if sinks['ipmi.session.set_priv_level'][0] != sinks['ipmi.session.set_priv_level'][1]:
        raise TieBroken('main: priv guard and argument differ')
    # --- final try: ipmi.open(); cmd(ipmi, args)  / except ... / finally: ipmi.close()
    if final_try is None:
        raise TieBroken('main: no try/finally around the handler call')
    if final_try.finalbody:
        # try: open; cmd  except …  finally: close
        close_inside = False
        inner = final_try
    else:
        # try: (try: open; cmd  finally: close)  except …
        close_inside = True
        inner = final_try.body[0]
        if inner.handlers or inner.orelse:
            raise TieBroken('main: the inner try around the handler call has except/else clauses')
    if final_try.orelse:
        raise TieBroken('main: the handler try has an else clause')
    tb = [ast.unparse(s) for s in inner.body]
    if tb != ['ipmi.open()', 'cmd(ipmi, args)'] or [ast.unparse(s) for s in inner.finalbody] != ['ipmi.close()']:
        raise TieBroken('main: body/finally of the handler try changed: %s' % tb)
    main_refs = [('open', True, 0, ()), ('close', True, 0, ())]
    clauses = []
    lib_names = [n for n, _ in _error_classes()]
    for h in final_try.handlers:
        types = [None] if h.type is None else (list(h.type.elts) if isinstance(h.type, ast.Tuple) else [h.type])
        kinds, shorts = [], []
        for t in types:
            tname = 'BaseException' if t is None else ast.unparse(t)
            short = tname.split('.')[-1]
            if tname.startswith('pyipmi.errors.') and short in lib_names:
                kinds.append('.lib .%s' % _lib_ctor(short))
            elif tname in ('socket.timeout', 'TimeoutError'):
                kinds.append('.socketTimeout')
            elif tname in ('OSError', 'IOError', 'EnvironmentError', 'socket.error'):
                kinds.append('.osError')
            elif tname == 'Exception':
                kinds.append('.exception')
            elif tname == 'BaseException':
                kinds.append('.baseException')
            elif tname == 'KeyboardInterrupt':
                kinds.append('.keyboardInterrupt')
            elif isinstance(t, ast.Name):
                kinds.append('.other %s' % _lean_str(tname))
            else:
                raise TieBroken('main: except clause names %s, which is outside the grammar' % tname)
            shorts.append(short)
        kind = '[' + ', '.join(kinds) + ']'
        short = '/'.join(shorts)
        msg = 'none'
        status = None
        for s in h.body:
            if isinstance(s, ast.Expr) and _is_call(s.value, 'print') and len(s.value.args) == 1:
                a = s.value.args[0]
                if isinstance(a, ast.Constant) and isinstance(a.value, str):
                    msg = '(some (MsgFmt.lit %s))' % _codes(a.value)
                elif isinstance(a, ast.BinOp) and isinstance(a.op, ast.Mod) and isinstance(a.left, ast.Constant) \
                        and isinstance(a.left.value, str) and a.left.value.endswith('%02x') \
                        and a.left.value.count('%') == 1 and h.name and ast.unparse(a.right) == h.name + '.cc':
                    msg = '(some (MsgFmt.hex2cc %s))' % _codes(a.left.value[:-4])
                elif isinstance(a, ast.BinOp) and isinstance(a.op, ast.Mod) and isinstance(a.left, ast.Constant) \
                        and isinstance(a.left.value, str) and a.left.value[-2:] in ('%r', '%s') \
                        and a.left.value.count('%') == 1 and h.name and ast.unparse(a.right) == h.name:
                    msg = '(some (MsgFmt.%s %s))' % ('reprExc' if a.left.value.endswith('%r') else 'strExc',
                                                     _codes(a.left.value[:-2]))
                else:
                    raise TieBroken('main: message of except %s is outside the grammar' % short)
            elif isinstance(s, ast.If) and _is_name(s.test, 'verbose') and \
                    [ast.unparse(x) for x in s.body] == ['traceback.print_exc()'] and not s.orelse:
                pass
            elif isinstance(s, ast.Expr) and _is_call(s.value, 'sys.exit'):
                status = _sys_exit_code(s)
            else:
                raise TieBroken('main: statement in except %s is outside the grammar' % short)
        if status is None:
            raise TieBroken('main: except %s does not end the tool with sys.exit' % short)
        clauses.append((kind, msg, status, short))
    return {'optstring': optstring, 'vars': var_names, 'defaults': defaults, 'rules': rules,
            'facts': facts, 'sinks': sinks, 'clauses': clauses, 'main_refs': main_refs,
            'close_inside': close_inside}


# -------------------------------------------------------------------------------- error classes
def _lib_ctor(name):
    return name[0].lower() + name[1:]


def _error_classes():
    """classes defined in pyipmi/errors.py, in source order -> [(name, [base names])]"""
    import pyipmi.errors as E
    tree = ast.parse(repo.read('pyipmi/errors.py'))
    out = []
    for st in tree.body:
        if isinstance(st, ast.ClassDef):
            cls = getattr(E, st.name, None)
            if not (isinstance(cls, type) and issubclass(cls, BaseException)):
                raise TieBroken('pyipmi.errors.%s is not an exception class' % st.name)
            out.append((st.name, [b.__name__ for b in cls.__bases__]))
    return out


# ------------------------------------------------------------------- numeric handler arguments
def _reachable_funcs(fnode, module_funcs):
    """fnode and the module-level functions it calls by name, transitively -> [(name, node)]"""
    seen, order, todo = set(), [], [fnode]
    while todo:
        f = todo.pop(0)
        for n in ast.walk(f):
            if isinstance(n, ast.Call) and isinstance(n.func, ast.Name) and n.func.id in module_funcs \
                    and n.func.id not in seen:
                seen.add(n.func.id)
                order.append((n.func.id, module_funcs[n.func.id]))
                todo.append(module_funcs[n.func.id])
    return order


def _arg_convs(cmd_nodes):
    """[(entry index, argument index, base0)] for every int(<args>[k]) / int(<args>[k], 0) of a handler body.
    `raw` (modelled as a whole by cmdRaw) is skipped; an int() over `args` in any other form is outside the
    grammar."""
    out = []
    for idx, (name, fnode) in enumerate(cmd_nodes):
        if name == 'raw':
            continue
        aname = fnode.args.args[1].arg
        for n in ast.walk(fnode):
            if not (isinstance(n, ast.Call) and isinstance(n.func, ast.Name) and n.func.id == 'int'):
                continue
            if not any(isinstance(x, ast.Name) and x.id == aname for a in n.args for x in ast.walk(a)):
                continue
            a0 = n.args[0]
            if not (isinstance(a0, ast.Subscript) and _is_name(a0.value, aname) and isinstance(a0.slice, ast.Constant)
                    and isinstance(a0.slice.value, int) and a0.slice.value >= 0 and not n.keywords):
                raise TieBroken('%s: int() over %s in an unsupported form' % (name, aname))
            if len(n.args) == 1:
                base0 = False
            elif len(n.args) == 2 and isinstance(n.args[1], ast.Constant) and n.args[1].value == 0:
                base0 = True
            else:
                raise TieBroken('%s: int() with an unsupported base' % name)
            out.append((idx, a0.slice.value, base0, n.lineno, n.col_offset))
    out.sort(key=lambda t: (t[0], t[3], t[4]))
    return [t[:3] for t in out]


# ----------------------------------------------------------------------------- handler shape
def _is_none_test(test, var, negated):
    return (isinstance(test, ast.Compare) and _is_name(test.left, var) and len(test.ops) == 1
            and isinstance(test.ops[0], ast.IsNot if negated else ast.Is)
            and isinstance(test.comparators[0], ast.Constant) and test.comparators[0].value is None)


def _link_guard(module_funcs):
    f = module_funcs.get('print_link_state')
    if f is None or not f.args.args:
        raise TieBroken('no print_link_state(p, s)')
    p = f.args.args[0].arg
    body = [s for s in f.body if not (isinstance(s, ast.Expr) and isinstance(s.value, ast.Constant))]
    if body and isinstance(body[0], ast.If) and _is_none_test(body[0].test, p, False) \
            and isinstance(body[0].body[-1], ast.Return) and not body[0].orelse:
        return True
    if len(body) == 1 and isinstance(body[0], ast.If) and _is_none_test(body[0].test, p, True) and not body[0].orelse:
        return True
    # every use of p as p.<attr> would fail on None
    return False


def _has_attr_test(test, var, attrs):
    """hasattr(var, '<one of attrs>') (possibly and-ed)"""
    if isinstance(test, ast.BoolOp) and isinstance(test.op, ast.And):
        return any(_has_attr_test(v, var, attrs) for v in test.values)
    return (isinstance(test, ast.Call) and _is_name(test.func, 'hasattr') and len(test.args) == 2
            and _is_name(test.args[0], var) and isinstance(test.args[1], ast.Constant) and test.args[1].value in attrs)


def _sdr_show_guards(module_funcs):
    f = module_funcs.get('sdr_show')
    if f is None or len(f.args.args) != 2:
        raise TieBroken('no sdr_show(ipmi, s)')
    var = f.args.args[1].arg
    par = _parents(f)
    guards = {'device_id_string': True, 'entity': True}
    seen = set()
    for n in ast.walk(f):
        if not (isinstance(n, ast.Attribute) and _is_name(n.value, var) and isinstance(n.ctx, ast.Load)):
            continue
        if n.attr == 'device_id_string':
            key, names = 'device_id_string', ('device_id_string',)
        elif n.attr in ('entity_id', 'entity_instance'):
            key, names = 'entity', ('entity_id', 'entity_instance')
        else:
            continue
        seen.add(key)
        guarded = False
        x = n
        while x in par:
            up = par[x]
            if isinstance(up, ast.If) and x in up.body:
                t = up.test
                if _has_attr_test(t, var, names):
                    guarded = True
                # `if s.type is <FULL / COMPACT …>`: a record class that has the attribute
                if isinstance(t, ast.Compare) and isinstance(t.left, ast.Attribute) and _is_name(t.left.value, var) \
                        and t.left.attr == 'type':
                    guarded = True
            x = up
        if not guarded:
            guards[key] = False
    if seen != {'device_id_string', 'entity'}:
        # the header lines are gone: nothing to fail on
        pass
    return guards['device_id_string'], guards['entity']


def _state_guard(module_funcs):
    """sdr_show (and the helpers it calls): is every `'…%x…' % states` under a test of `states` against None?"""
    f = module_funcs.get('sdr_show')
    if f is None:
        raise TieBroken('no sdr_show(ipmi, s)')
    for _, fn in [('sdr_show', f)] + _reachable_funcs(f, module_funcs):
        par = _parents(fn)
        for n in ast.walk(fn):
            if not (isinstance(n, ast.BinOp) and isinstance(n.op, ast.Mod) and isinstance(n.left, ast.Constant)
                    and isinstance(n.left.value, str) and ('%x' in n.left.value or '%d' in n.left.value)):
                continue
            names = [x.id for x in ast.walk(n.right) if isinstance(x, ast.Name)]
            for var in names:
                if 'state' not in var:
                    continue
                # `if <var> is None: … return` earlier in the same function
                guarded = any(isinstance(st, ast.If) and _is_none_test(st.test, var, False)
                              and isinstance(st.body[-1], ast.Return) and st.lineno < n.lineno for st in fn.body)
                x = n
                while x in par:
                    up = par[x]
                    if isinstance(up, (ast.If, ast.IfExp)) and (
                            _is_none_test(up.test, var, False) or _is_none_test(up.test, var, True)):
                        guarded = True
                    x = up
                if not guarded:
                    return False
    return True


CONVERT = 'convert_sensor_raw_to_value'


def _handler_names(try_node):
    out = []
    for h in try_node.handlers:
        if h.type is None:
            out.append('BaseException')
            continue
        for t in (h.type.elts if isinstance(h.type, ast.Tuple) else [h.type]):
            out.append(ast.unparse(t).split('.')[-1])
    return out


def _catch_paths(fnode, module_funcs, inherited, depth=0):
    """for every call of CONVERT reachable from fnode: the exception class names of all try statements that
    enclose it (in fnode, and in the callers on the way) -> list of sets"""
    if depth > 6:
        raise TieBroken('helper recursion around %s' % CONVERT)
    par = _parents(fnode)
    out = []
    for n in ast.walk(fnode):
        if not isinstance(n, ast.Call):
            continue
        target = None
        if isinstance(n.func, ast.Attribute) and n.func.attr == CONVERT:
            target = 'convert'
        elif isinstance(n.func, ast.Name) and n.func.id in module_funcs and module_funcs[n.func.id] is not fnode:
            target = module_funcs[n.func.id]
        if target is None:
            continue
        caught = set(inherited)
        x = n
        while x in par:
            up = par[x]
            if isinstance(up, ast.Try) and x in up.body:
                caught.update(_handler_names(up))
            x = up
        if target == 'convert':
            out.append(caught)
        else:
            out.extend(_catch_paths(target, module_funcs, caught, depth + 1))
    return out


def _conv_catch(cmd_nodes, module_funcs):
    """command name -> classes caught on EVERY path from a CONVERT call to main (intersection over the calls)"""
    out = []
    for name, fnode in cmd_nodes:
        paths = _catch_paths(fnode, module_funcs, set())
        if paths:
            common = set.intersection(*paths)
            out.append((name, sorted(common)))
    return out


def _sdr_classes():
    """sdr.py: SdrCommon.from_data's dispatch table: record type -> class -> (sets an ID string, sets an entity)"""
    import pyipmi.sdr as S
    tree = ast.parse(repo.read('pyipmi/sdr.py'))
    classes = dict((st.name, st) for st in tree.body if isinstance(st, ast.ClassDef))

    def facts(cname):
        c = classes.get(cname)
        if c is None:
            raise TieBroken('sdr.py: no class %s' % cname)
        fd = [m for m in c.body if isinstance(m, ast.FunctionDef) and m.name == '_from_data']
        calls = set()
        for m in fd:
            for n in ast.walk(m):
                if isinstance(n, ast.Call) and isinstance(n.func, ast.Attribute) and _is_name(n.func.value, 'self'):
                    calls.add(n.func.attr)
                if isinstance(n, ast.Attribute) and _is_name(n.value, 'self') and isinstance(n.ctx, ast.Store):
                    calls.add('=' + n.attr)
        return ('_device_id_string' in calls or '=device_id_string' in calls,
                '_entity' in calls or '=entity_id' in calls)
    common = classes.get('SdrCommon')
    fd = [m for m in (common.body if common else []) if isinstance(m, ast.FunctionDef) and m.name == 'from_data']
    if len(fd) != 1:
        raise TieBroken('sdr.py: no SdrCommon.from_data')
    table, default = None, None
    for n in ast.walk(fd[0]):
        if isinstance(n, ast.Call) and isinstance(n.func, ast.Attribute) and n.func.attr == 'get' \
                and isinstance(n.func.value, ast.Dict) and len(n.args) == 2 and isinstance(n.args[1], ast.Name):
            table, default = n.func.value, n.args[1].id
    if table is None:
        raise TieBroken('sdr.py: from_data has no {type: class}.get(type, default)')
    out = []
    for k, v in zip(table.keys, table.values):
        if not (isinstance(k, ast.Name) and isinstance(getattr(S, k.id, None), int) and isinstance(v, ast.Name)):
            raise TieBroken('sdr.py: from_data table entry outside the grammar')
        out.append((getattr(S, k.id), v.id) + facts(v.id))
    return out, (default,) + facts(default)


# ------------------------------------------------------------------ which sensor is read
READ = 'get_sensor_reading'


class _Subst(ast.NodeTransformer):
    """helper parameters -> the caller's argument expressions; every other local name of a helper is made
    unmistakable (`<helper>:<name>`) so that it can never be taken for a variable of the handler"""

    def __init__(self, env, scope):
        self.env, self.scope = env, scope

    def visit_Name(self, node):
        if node.id in self.env:
            return self.env[node.id]
        if self.scope:
            return ast.Name(id='%s:%s' % (self.scope, node.id), ctx=ast.Load())
        return node


def _subst(expr, env, scope):
    import copy
    return _Subst(env, scope).visit(copy.deepcopy(expr))


def _type_branch(node, par, env, scope, where):
    """innermost enclosing `if <rec>.type is|== <SDR_TYPE_…>` whose BODY holds `node` -> (record type, rec name)"""
    import pyipmi.sdr as S
    x = node
    while x in par:
        up = par[x]
        if isinstance(up, ast.If) and any(x is b for b in up.body):
            t = up.test
            if isinstance(t, ast.Compare) and len(t.ops) == 1 and isinstance(t.left, ast.Attribute) \
                    and t.left.attr == 'type':
                if not isinstance(t.ops[0], (ast.Is, ast.Eq)):
                    raise TieBroken('%s: record-type test around %s is not `is` / `==`' % (where, READ))
                c = t.comparators[0]
                cname = c.attr if isinstance(c, ast.Attribute) else c.id if isinstance(c, ast.Name) else None
                val = c.value if isinstance(c, ast.Constant) else getattr(S, cname, None) if cname else None
                if not isinstance(val, int) or isinstance(val, bool):
                    raise TieBroken('%s: record type of the branch around %s is not a constant of sdr.py' % (where, READ))
                rec = _subst(t.left.value, env, scope)
                if not isinstance(rec, ast.Name):
                    raise TieBroken('%s: the record tested around %s is not a plain variable' % (where, READ))
                return val, rec.id
        x = up
    return None


def _sensor_reads_in(fn, ipmi, env, scope, inherited, module_funcs, where, depth, out):
    if depth > 6:
        raise TieBroken('%s: helper recursion around %s' % (where, READ))
    par = _parents(fn)
    calls = [n for n in ast.walk(fn) if isinstance(n, ast.Call)]
    calls.sort(key=lambda n: (n.lineno, n.col_offset))
    for n in calls:
        f = n.func
        if isinstance(f, ast.Attribute) and f.attr == READ:
            if not _is_name(f.value, ipmi):
                raise TieBroken('%s: %s called on something that is not the Ipmi object' % (where, READ))
            br = _type_branch(n, par, env, scope, where) or inherited
            if br is None:
                raise TieBroken('%s: %s outside an `if <rec>.type is SDR_TYPE_…` branch' % (where, READ))
            rtype, rec = br
            if any(isinstance(a, ast.Starred) for a in n.args) or any(k.arg is None for k in n.keywords):
                raise TieBroken('%s: */** in a %s call' % (where, READ))
            kw = dict((k.arg, k.value) for k in n.keywords)
            if len(n.args) > 2 or set(kw) - {'sensor_number', 'lun'} or (len(n.args) >= 1 and 'sensor_number' in kw) \
                    or (len(n.args) == 2 and 'lun' in kw):
                raise TieBroken('%s: arguments of %s are outside the grammar' % (where, READ))
            num = n.args[0] if n.args else kw.get('sensor_number')
            num = _subst(num, env, scope) if num is not None else None
            if not (isinstance(num, ast.Attribute) and num.attr == 'number' and _is_name(num.value, rec)):
                raise TieBroken('%s: %s is not called with the number of the record its branch tests' % (where, READ))
            lun = n.args[1] if len(n.args) == 2 else kw.get('lun')
            if lun is None:
                arg = 'LunArg.default'
            else:
                lun = _subst(lun, env, scope)
                if isinstance(lun, ast.Attribute) and lun.attr == 'owner_lun' and _is_name(lun.value, rec):
                    arg = 'LunArg.ownerLun'
                elif isinstance(lun, ast.Constant) and isinstance(lun.value, int) and not isinstance(lun.value, bool) \
                        and lun.value >= 0:
                    arg = '(LunArg.const %d)' % lun.value
                else:
                    raise TieBroken('%s: the LUN argument of %s (%s) is outside the grammar' % (
                        where, READ, ast.unparse(lun)))
            out.append((rtype, arg))
        elif isinstance(f, ast.Name) and f.id in module_funcs and any(_is_name(a, ipmi) for a in n.args):
            helper = module_funcs[f.id]
            hp = [a.arg for a in helper.args.args]
            if any(isinstance(a, ast.Starred) for a in n.args) or any(k.arg is None for k in n.keywords) \
                    or len(n.args) > len(hp):
                raise TieBroken('%s: cannot map the arguments of helper %s' % (where, f.id))
            env2 = {}
            dflts = helper.args.defaults
            for p_, dv in zip(hp[len(hp) - len(dflts):], dflts):
                if isinstance(dv, ast.Constant):
                    env2[p_] = dv           # a parameter the caller leaves out has its (constant) default
            for p_, a in list(zip(hp, n.args)) + [(k.arg, k.value) for k in n.keywords]:
                env2[p_] = _subst(a, env, scope)
            idx = [i for i, a in enumerate(n.args) if _is_name(a, ipmi)][0]
            br = _type_branch(n, par, env, scope, where) or inherited
            _sensor_reads_in(helper, hp[idx], env2, f.id, br, module_funcs, where + '>' + f.id, depth + 1, out)


def _sensor_reads(cmd_nodes, module_funcs):
    """[(command, record type, LunArg)] in table / source order, and the default of the API's `lun` parameter"""
    import pyipmi
    out = []
    for name, fnode in cmd_nodes:
        got = []
        _sensor_reads_in(fnode, fnode.args.args[0].arg, {}, None, None, module_funcs, name, 0, got)
        out.extend((name, t, a) for t, a in got)
    dflt = 0
    if out:
        try:
            ps = inspect.signature(pyipmi.Ipmi.get_sensor_reading).parameters
        except (TypeError, ValueError, AttributeError):
            raise TieBroken('no signature for Ipmi.%s' % READ)
        names = [p_ for p_ in ps if p_ != 'self']
        if len(names) >= 2 and names[1] == 'lun':
            dflt = ps['lun'].default
            if not isinstance(dflt, int) or isinstance(dflt, bool) or dflt < 0:
                raise TieBroken('Ipmi.%s: `lun` has no integer default' % READ)
        elif any(a == 'LunArg.default' for _, _, a in out):
            raise TieBroken('Ipmi.%s: second parameter is not `lun` (no default LUN to read off)' % READ)
    # an integer literal equal to the API's default names the same LUN as no argument at all
    out = [(c, t, 'LunArg.default' if a == '(LunArg.const %d)' % dflt else a) for c, t, a in out]
    return out, dflt


# ---------------------------------------------------------------------------------------- API
def _api(intern):
    import pyipmi
    cls = pyipmi.Ipmi
    out = []
    for n in sorted(dir(cls)):
        if n.startswith('_'):
            continue
        static = inspect.getattr_static(cls, n)
        obj = getattr(cls, n)
        callable_ = callable(obj) and not isinstance(static, property)
        ent = {'name': n, 'callable': callable_, 'params': [], 'nreq': 0, 'varpos': False, 'varkw': False,
               'kwreq': [], 'kwopt': []}
        if callable_:
            try:
                sig = inspect.signature(obj)
            except (TypeError, ValueError):
                raise TieBroken('no signature for Ipmi.%s' % n)
            ps = list(sig.parameters.values())
            if inspect.isfunction(static):
                if not ps:
                    raise TieBroken('Ipmi.%s is a function without self' % n)
                ps = ps[1:]
            elif isinstance(static, (staticmethod, classmethod)):
                pass    # staticmethod: as is; classmethod: getattr already bound cls
            elif inspect.isclass(static):
                pass
            else:
                raise TieBroken('Ipmi.%s has an unsupported kind %s' % (n, type(static).__name__))
            seen_default = False
            for p in ps:
                if p.kind == p.POSITIONAL_ONLY:
                    raise TieBroken('Ipmi.%s has positional-only parameters' % n)
                if p.kind == p.POSITIONAL_OR_KEYWORD:
                    ent['params'].append(p.name)
                    if p.default is p.empty:
                        if seen_default:
                            raise TieBroken('Ipmi.%s: required after default' % n)
                        ent['nreq'] += 1
                    else:
                        seen_default = True
                elif p.kind == p.VAR_POSITIONAL:
                    ent['varpos'] = True
                elif p.kind == p.VAR_KEYWORD:
                    ent['varkw'] = True
                else:
                    (ent['kwreq'] if p.default is p.empty else ent['kwopt']).append(p.name)
        out.append(ent)
    return out


# ------------------------------------------------------------------------------------ chassis
def _chassis(intern):
    """chassis_control_* method -> option constant (AST of chassis.py, values by import)."""
    import pyipmi.msgs.chassis as mc
    tree = ast.parse(repo.read('pyipmi/chassis.py'))
    cls = None
    for st in tree.body:
        if isinstance(st, ast.ClassDef) and st.name == 'Chassis':
            cls = st
    if cls is None:
        raise TieBroken('no class Chassis')
    out = []
    generic = False
    for st in cls.body:
        if not isinstance(st, ast.FunctionDef):
            continue
        if st.name == 'chassis_control':
            src = [ast.unparse(s) for s in st.body]
            if [a.arg for a in st.args.args] != ['self', 'option'] or \
                    src[:3] != ["req = create_request_by_name('ChassisControl')", 'req.control.option = option',
                                'rsp = self.send_message(req)']:
                raise TieBroken('Chassis.chassis_control changed shape')
            generic = True
        elif st.name.startswith('chassis_control_'):
            b = [s for s in st.body if not (isinstance(s, ast.Expr) and isinstance(s.value, ast.Constant))]
            if not (len(b) == 1 and isinstance(b[0], ast.Expr) and _is_call(b[0].value, 'self.chassis_control')
                    and len(b[0].value.args) == 1 and not b[0].value.keywords):
                raise TieBroken('Chassis.%s is not a single self.chassis_control(<const>) call' % st.name)
            a = b[0].value.args[0]
            if isinstance(a, ast.Name) and isinstance(getattr(mc, a.id, None), int):
                val = getattr(mc, a.id)
            elif isinstance(a, ast.Constant) and isinstance(a.value, int):
                val = a.value
            else:
                raise TieBroken('Chassis.%s: option is not a constant' % st.name)
            out.append((st.name, val))
    if not generic:
        raise TieBroken('no Chassis.chassis_control')
    return out


# ----------------------------------------------------------------------------------- generate
def _aardvark_guards():
    """Aardvark.open: the guard of enable_pullups(self.i2c_pullups) / enable_target_power(self.target_power):
    True = `is not None`, False = truthiness"""
    tree = ast.parse(repo.read('pyipmi/interfaces/aardvark.py'))
    fn = None
    for st in tree.body:
        if isinstance(st, ast.ClassDef) and st.name == 'Aardvark':
            for m in st.body:
                if isinstance(m, ast.FunctionDef) and m.name == 'open':
                    fn = m
    if fn is None:
        raise TieBroken('Aardvark.open not found')
    out = {}
    for st in fn.body:
        if not isinstance(st, ast.If):
            continue
        calls = [ast.unparse(s) for s in st.body]
        for meth, attr in (('enable_pullups', 'i2c_pullups'), ('enable_target_power', 'target_power')):
            if calls == ['self.%s(self.%s)' % (meth, attr)]:
                t = ast.unparse(st.test)
                if st.orelse or meth in out:
                    raise TieBroken('Aardvark.open: %s is guarded twice / has an else branch' % meth)
                if t == 'self.%s is not None' % attr:
                    out[meth] = True
                elif t == 'self.%s' % attr:
                    out[meth] = False
                else:
                    raise TieBroken('Aardvark.open: guard of %s is outside the grammar: %s' % (meth, t))
    if sorted(out) != ['enable_pullups', 'enable_target_power']:
        raise TieBroken('Aardvark.open: guarded calls of enable_pullups / enable_target_power not found')
    src = ast.unparse(fn)
    if 'if self.fastmode is not None:\n        self.enable_fastmode(self.fastmode)\n    else:\n        self.enable_fastmode(False)' not in src:
        raise TieBroken('Aardvark.open: fast mode statement changed shape')
    return out


def snapshot():
    tree = ast.parse(repo.read('pyipmi/ipmitool.py'))
    module_funcs = dict((st.name, st) for st in tree.body if isinstance(st, ast.FunctionDef))
    intern = Interner()
    api = _api(intern)
    for e in api:
        intern(e['name'])
    cmds = _commands(tree, module_funcs)
    main = _main(tree, intern)
    chassis = _chassis(intern)
    import pyipmi.interfaces
    ifaces = [i.NAME for i in pyipmi.interfaces.INTERFACES]
    cmd_nodes = [(c['name'], c.pop('node')) for c in cmds]
    errors = _error_classes()
    for n, bases in errors:
        if bases != ['Exception']:
            raise TieBroken('pyipmi.errors.%s derives from %s, not directly from Exception' % (n, bases))
    idg, entg = _sdr_show_guards(module_funcs)
    handlers = {'link': _link_guard(module_funcs), 'idstring': idg, 'entity': entg,
                'state': _state_guard(module_funcs),
                'catch': _conv_catch(cmd_nodes, module_funcs)}
    sdr_classes, sdr_default = _sdr_classes()
    sensor_reads, sensor_lun_default = _sensor_reads(cmd_nodes, module_funcs)
    return {'aardvark': _aardvark_guards(), 'sensor_reads': sensor_reads, 'sensor_lun_default': sensor_lun_default,
            'api': api, 'commands': cmds, 'main': main, 'chassis': chassis, 'interfaces': ifaces,
            'intern': intern, 'errors': [n for n, _ in errors], 'arg_convs': _arg_convs(cmd_nodes),
            'handlers': handlers, 'sdr_classes': sdr_classes, 'sdr_default': sdr_default}


def render(snap, namespace='PyIpmi.Gen.Cli', header=None):
    intern = snap['intern']
    out = [header or ('/- GENERATED by harness/translate/cli.py from pyipmi/ipmitool.py, pyipmi.Ipmi and\n'
                      '   pyipmi/chassis.py of the working tree.  Do not edit: rewritten on every check run. -/'),
           'import PyIpmi.Model.Cli',
           'namespace %s' % namespace,
           'open PyIpmi.Cli',
           '']
    api_lines = []
    for e in snap['api']:
        api_lines.append('  /- %s -/ ⟨%d, %s, %s, %d, %s, %s, %s, %s⟩' % (
            e['name'], intern(e['name']), _bool(e['callable']), _nats(intern(p) for p in e['params']), e['nreq'],
            _bool(e['varpos']), _bool(e['varkw']), _nats(intern(p) for p in e['kwreq']),
            _nats(intern(p) for p in e['kwopt'])))
    cmd_lines = []
    for c in snap['commands']:
        refs = ', '.join('⟨/- %s -/ %d, %s, %d, %s⟩' % (r[0], intern(r[0]), _bool(r[1]), r[2],
                                                         _nats(intern(k) for k in r[3])) for r in c['refs'])
        cmd_lines.append('  /- %s -/ ⟨%s, [%s], %d, [%s]⟩' % (
            c['name'], _codes(c['name']), ', '.join(_codes(t) for t in c['name'].split(' ')),
            intern(c['handler']), refs))
    m = snap['main']
    main_refs = ', '.join('⟨/- %s -/ %d, %s, %d, %s⟩' % (r[0], intern(r[0]), _bool(r[1]), r[2], _nats([]))
                          for r in m['main_refs'])
    chassis = ', '.join('(/- %s -/ %d, %d)' % (n, intern(n), v) for n, v in snap['chassis'])
    out.append('/-- `dir(pyipmi.Ipmi)` (public), with `inspect.signature` -/')
    out.append('def api : List ApiSig := [\n' + ',\n'.join(api_lines) + ']')
    out.append('')
    out.append('/-- `COMMANDS` -/')
    out.append('def commands : List Command := [\n' + ',\n'.join(cmd_lines) + ']')
    out.append('')
    out.append('/-- `ipmi.<m>()` calls of `main` itself -/')
    out.append('def mainRefs : List MethodRef := [' + main_refs + ']')
    out.append('')
    out.append('/-- `chassis_control_*` method ↦ option it passes to `chassis_control` -/')
    out.append('def chassisControl : List (Nat × Nat) := [' + chassis + ']')
    out.append('')
    v = m['vars']
    s = m['sinks']
    out.append('/-- variables of `main`: %s -/' % ', '.join('%d=%s' % (i, n) for i, n in enumerate(v)))
    out.append('def vars : List String := [' + ', '.join(_lean_str(n) for n in v) + ']')
    out.append('')
    rules = ',\n'.join('  /- -%s%s -/ ⟨%d, %s⟩' % (o, (' → ' + var) if var else '', ord(o), act)
                       for o, act, var in m['rules'])
    out.append('def shape : MainShape := {\n'
               '  optString := %s  /- %s -/\n'
               '  rules := [\n%s]\n'
               '  defaults := [%s]\n'
               '  getoptExit := %d\n  noArgsExit := %d\n  noCmdExit := %d\n  ifaceErrExit := %d\n'
               '  vIface := %d\n  vIfaceOpts := %d\n  vTarget := %d\n  vRouting := %d\n'
               '  vHost := %d\n  vPort := %d\n  vUser := %d\n  vPassword := %d\n  vPriv := %d\n'
               '  closeInside := %s%s }' % (
                   _codes(m['optstring']), m['optstring'], rules, ', '.join(m['defaults']),
                   m['facts']['getoptExit'], m['facts']['noArgsExit'], m['facts']['noCmdExit'],
                   m['facts']['ifaceErrExit'],
                   v.index(s['create_interface'][0]), v.index(s['parse_interface_options'][1]),
                   v.index(s['Target'][0]), v.index(s['ipmi.target.set_routing'][1]),
                   v.index(s['ipmi.session.set_session_type_rmcp'][1]),
                   v.index(s['ipmi.session.set_session_type_rmcp'][2]),
                   v.index(s['ipmi.session.set_auth_type_user'][1]),
                   v.index(s['ipmi.session.set_auth_type_user'][2]),
                   v.index(s['ipmi.session.set_priv_level'][1]), _bool(m['close_inside']),
                   '' if m['facts'].get('bridge') is None else '\n  bridge := some (%d, %d, %d, %d)' % (
                       v.index(m['facts']['bridge'][1]), m['facts']['bridge'][2], m['facts']['bridge'][3],
                       m['facts']['bridge'][4])))
    out.append('')
    out.append('/-- guards of `Aardvark.open()` around enable_pullups / enable_target_power (true: `is not None`) -/')
    out.append('def aardvarkGuards : AardvarkGuards := ⟨%s, %s⟩' % (
        _bool(snap['aardvark']['enable_pullups']), _bool(snap['aardvark']['enable_target_power'])))
    out.append('')
    out.append('/-- `except` clauses around `ipmi.open(); cmd(ipmi, args)` -/')
    out.append('def exits : List ExitClause := [\n' + ',\n'.join(
        '  /- %s -/ ⟨%s, %s, %d⟩' % (short, kind, msg, status) for kind, msg, status, short in m['clauses']) + ']')
    out.append('')
    out.append('/-- the exception classes of `pyipmi/errors.py`, in source order -/')
    out.append('def errorClasses : List String := [' + ', '.join(_lean_str(n) for n in snap['errors']) + ']')
    out.append('')
    names_by_idx = [c['name'] for c in snap['commands']]
    out.append('/-- every `int(args[k])` (base0 = false) / `int(args[k], 0)` (true) of a handler: entry, k, base0 -/')
    out.append('def argConvs : List ArgConv := [' + ', '.join(
        '/- %s -/ ⟨%d, %d, %s⟩' % (names_by_idx[e], e, k, _bool(b0)) for e, k, b0 in snap['arg_convs']) + ']')
    out.append('')
    h = snap['handlers']
    out.append('/-- the printing handlers -/')
    out.append('def handlers : HandlerShape := {\n  linkNoneGuard := %s\n  idStringGuard := %s\n  entityGuard := %s\n'
               '  stateNoneGuard := %s\n  convCatch := [%s] }' % (
                   _bool(h['link']), _bool(h['idstring']), _bool(h['entity']), _bool(h['state']),
                   ', '.join('(%s, [%s])' % (_lean_str(n), ', '.join(_lean_str(x) for x in l)) for n, l in h['catch'])))
    out.append('')
    out.append('/-- `SdrCommon.from_data`: record type ↦ (class sets `device_id_string`, class sets `entity_id`) -/')
    out.append('def sdrClasses : List (Nat × Bool × Bool) := [' + ', '.join(
        '/- %s -/ (0x%02x, %s, %s)' % (c, t, _bool(a), _bool(b)) for t, c, a, b in snap['sdr_classes']) + ']')
    out.append('/-- every other record type: %s -/' % snap['sdr_default'][0])
    out.append('def sdrDefault : Bool × Bool := (%s, %s)' % (_bool(snap['sdr_default'][1]), _bool(snap['sdr_default'][2])))
    out.append('')
    if 'sensor_reads' in snap:
        out.append('/-- every `ipmi.get_sensor_reading(<rec>.number[, <lun>])` a table entry reaches: entry, record-type branch, LUN argument -/')
        out.append('def sensorReads : List SensorRead := [' + ', '.join(
            '⟨%s, 0x%02x, %s⟩' % (_lean_str(c), t, a) for c, t, a in snap['sensor_reads']) + ']')
        out.append('/-- default of the `lun` parameter of `Ipmi.get_sensor_reading` -/')
        out.append('def sensorReadDefaultLun : Nat := %d' % snap['sensor_lun_default'])
        out.append('')
    out.append('/-- `NAME` of every class in `pyipmi.interfaces.INTERFACES` -/')
    out.append('def interfaces : List Str := [' + ', '.join('/- %s -/ %s' % (n, _codes(n)) for n in snap['interfaces']) + ']')
    out.append('')
    # names last: interning is complete now
    out.append('/-- interned identifiers: id ↦ name -/')
    out.append('def names : List String := [\n  ' + ',\n  '.join(
        ', '.join(_lean_str(n) for n in intern.names[i:i + 6]) for i in range(0, len(intern.names), 6)) + ']')
    out.append('')
    out.append('end %s' % namespace)
    return '\n'.join(out) + '\n'


def generate():
    snap = snapshot()
    lean.write_if_changed(OUT, render(snap))
    return snap


def freeze(path, namespace):
    """One-off: write the current tree's table as a frozen snapshot (used for the as-shipped
    counter-example theorems)."""
    snap = snapshot()
    hdr = ('/- FROZEN copy of Gen/Cli.lean as generated from the pinned tree (commit 816fdee, before any C20\n'
           '   fix) by `harness/translate/cli.py:freeze`.  Not regenerated: it is what was shipped, the subject\n'
           '   of the counter-example theorems of Props/C20.lean. -/')
    lean.write_if_changed(path, render(snap, namespace, hdr))
    return snap
