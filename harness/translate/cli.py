"""T: pyipmi/ipmitool.py + pyipmi.Ipmi + pyipmi/chassis.py  ->  lean/PyIpmi/Gen/Cli.lean

AST + import, regenerated on every run:

* COMMANDS: name -> handler; for every handler (lambda or module-level function, and the
  module-level helpers it hands `ipmi` to) the `ipmi.<method>` references in source order with
  the call arity (positional count, keyword names); aliases `f = ipmi.m` ... `f()` are followed;
* `dir(pyipmi.Ipmi)`: every public attribute with `inspect.signature` (self dropped);
* main(): the getopt option string, the `for o, a in opts` chain (option -> variable, conversion),
  the defaults, every `sys.exit(n)` with its context, the `except` clauses of the final `try`
  (exception -> message format, exit status), which variable feeds which call;
* chassis.py: `chassis_control_*` method -> option constant (value from msgs/chassis.py);
* the interface names `create_interface` knows.

Fails closed: any shape outside this grammar raises TieBroken.
"""
import ast
import inspect
import os

from ..lib import lean, repo
from ..lib.lean import TieBroken

OUT = os.path.join(lean.LEAN_DIR, 'PyIpmi', 'Gen', 'Cli.lean')


# ------------------------------------------------------------------------------------ helpers
def _codes(s):
    return '[' + ', '.join(str(ord(c)) for c in s) + ']'


def _lean_str(s):
    out = []
    for c in s:
        if c == '\\':
            out.append('\\\\')
        elif c == '"':
            out.append('\\"')
        elif c == '\n':
            out.append('\\n')
        elif ord(c) < 32 or ord(c) > 126:
            out.append('\\u{%x}' % ord(c))
        else:
            out.append(c)
    return '"' + ''.join(out) + '"'


def _nats(l):
    return '[' + ', '.join(str(int(x)) for x in l) + ']'


def _bool(b):
    return 'true' if b else 'false'


class Interner(object):
    def __init__(self):
        self.names = []
        self.ids = {}

    def __call__(self, s):
        if s not in self.ids:
            self.ids[s] = len(self.names)
            self.names.append(s)
        return self.ids[s]


def _parents(root):
    par = {}
    for node in ast.walk(root):
        for ch in ast.iter_child_nodes(node):
            par[ch] = node
    return par


# --------------------------------------------------------------------------- handler analysis
def _analyze(fn, pname, module_funcs, seen, where):
    """`ipmi.<m>` references of function/lambda `fn` whose parameter `pname` is the Ipmi
    object -> list of (lineno, col, name, called, npos, kws)."""
    par = _parents(fn)
    refs = []
    aliases = {}
    body_nodes = list(ast.walk(fn))
    # a parameter re-bound inside the handler would invalidate the analysis
    for n in body_nodes:
        if isinstance(n, ast.Name) and n.id == pname and isinstance(n.ctx, (ast.Store, ast.Del)):
            raise TieBroken('%s: parameter %s is re-bound' % (where, pname))
    for n in body_nodes:
        if not (isinstance(n, ast.Name) and n.id == pname and isinstance(n.ctx, ast.Load)):
            continue
        p = par.get(n)
        if isinstance(p, ast.Attribute) and p.value is n:
            if not isinstance(p.ctx, ast.Load):
                raise TieBroken('%s: %s.%s is assigned/deleted' % (where, pname, p.attr))
            pp = par.get(p)
            if isinstance(pp, ast.Call) and pp.func is p:
                refs.append((p.lineno, p.col_offset, p.attr, True) + _arity(pp, where))
            elif isinstance(pp, ast.Assign) and pp.value is p and len(pp.targets) == 1 \
                    and isinstance(pp.targets[0], ast.Name):
                aliases.setdefault(pp.targets[0].id, []).append(p.attr)
                refs.append((p.lineno, p.col_offset, p.attr, False, 0, ()))
            else:
                raise TieBroken('%s: %s.%s used in an unsupported position (%s)' % (
                    where, pname, p.attr, type(pp).__name__))
        elif isinstance(p, ast.Call) and n in p.args:
            # ipmi handed on to a module-level helper
            if not (isinstance(p.func, ast.Name) and p.func.id in module_funcs):
                raise TieBroken('%s: %s passed to something that is not a module-level function' % (where, pname))
            helper = module_funcs[p.func.id]
            idx = p.args.index(n)
            hp = helper.args.args
            if idx >= len(hp) or any(isinstance(a, ast.Starred) for a in p.args):
                raise TieBroken('%s: cannot map %s into helper %s' % (where, pname, p.func.id))
            key = (p.func.id, hp[idx].arg)
            if key not in seen:
                seen.add(key)
                refs.extend(_analyze(helper, hp[idx].arg, module_funcs, seen, where + '>' + p.func.id))
        else:
            raise TieBroken('%s: bare use of %s in %s' % (where, pname, type(p).__name__))
    # calls through aliases
    for n in body_nodes:
        if isinstance(n, ast.Call) and isinstance(n.func, ast.Name) and n.func.id in aliases:
            for m in aliases[n.func.id]:
                refs.append((n.lineno, n.col_offset, m, True) + _arity(n, where))
    for n in body_nodes:
        if isinstance(n, ast.Name) and n.id in aliases and isinstance(n.ctx, ast.Load):
            p = par.get(n)
            if not (isinstance(p, ast.Call) and p.func is n):
                raise TieBroken('%s: alias %s escapes' % (where, n.id))
    return refs


def _arity(call, where):
    if any(isinstance(a, ast.Starred) for a in call.args):
        raise TieBroken('%s: *args in a call' % where)
    kws = []
    for k in call.keywords:
        if k.arg is None:
            raise TieBroken('%s: **kwargs in a call' % where)
        kws.append(k.arg)
    return (len(call.args), tuple(kws))


def _commands(tree, module_funcs):
    node = None
    for st in tree.body:
        if isinstance(st, ast.Assign) and len(st.targets) == 1 and isinstance(st.targets[0], ast.Name) \
                and st.targets[0].id == 'COMMANDS':
            node = st.value
    if not isinstance(node, ast.Tuple):
        raise TieBroken('COMMANDS is not a module-level tuple')
    out = []
    for el in node.elts:
        if not (isinstance(el, ast.Call) and isinstance(el.func, ast.Name) and el.func.id == 'Command'
                and len(el.args) == 2 and not el.keywords
                and isinstance(el.args[0], ast.Constant) and isinstance(el.args[0].value, str)):
            raise TieBroken('COMMANDS element is not Command(<str>, <fn>)')
        name = el.args[0].value
        fn = el.args[1]
        if isinstance(fn, ast.Lambda):
            hname, fnode = '<lambda>', fn
        elif isinstance(fn, ast.Name) and fn.id in module_funcs:
            hname, fnode = fn.id, module_funcs[fn.id]
        else:
            raise TieBroken('handler of %r is neither a lambda nor a module-level function' % name)
        a = fnode.args
        if len(a.args) != 2 or a.vararg or a.kwarg or a.kwonlyargs or getattr(a, 'posonlyargs', []):
            raise TieBroken('handler of %r does not take exactly (ipmi, args)' % name)
        refs = _analyze(fnode, a.args[0].arg, module_funcs, set(), name)
        refs.sort(key=lambda r: (r[0], r[1]))
        out.append({'name': name, 'handler': hname, 'refs': [r[2:] for r in refs], 'line': el.lineno})
    return out


# --------------------------------------------------------------------------------------- main
def _is_name(n, s):
    return isinstance(n, ast.Name) and n.id == s


def _is_call(n, dotted):
    if not isinstance(n, ast.Call):
        return False
    f = n.func
    parts = []
    while isinstance(f, ast.Attribute):
        parts.append(f.attr)
        f = f.value
    if isinstance(f, ast.Name):
        parts.append(f.id)
    else:
        return False
    return '.'.join(reversed(parts)) == dotted


def _sys_exit_code(st):
    """`sys.exit()` / `sys.exit(<int>)` statement -> status (None -> 0), else raise."""
    if isinstance(st, ast.Expr) and _is_call(st.value, 'sys.exit') and not st.value.keywords:
        if not st.value.args:
            return 0
        if len(st.value.args) == 1 and isinstance(st.value.args[0], ast.Constant) \
                and isinstance(st.value.args[0].value, int):
            return st.value.args[0].value
    raise TieBroken('main: expected sys.exit(<int>) at line %d' % getattr(st, 'lineno', 0))


def _conv(value, aname):
    """right-hand side of an option assignment -> Conv"""
    if isinstance(value, ast.Constant) and value.value is True:
        return 'Conv.constTrue'
    if _is_name(value, aname):
        return 'Conv.str'
    if _is_call(value, 'int') and not value.keywords and value.args and _is_name(value.args[0], aname):
        if len(value.args) == 1:
            return 'Conv.int10'
        if len(value.args) == 2 and isinstance(value.args[1], ast.Constant) and value.args[1].value == 0:
            return 'Conv.int0'
    if isinstance(value, ast.List) and len(value.elts) == 1 and isinstance(value.elts[0], ast.Tuple):
        t = value.elts[0].elts
        if len(t) == 3 and isinstance(t[0], ast.Constant) and isinstance(t[2], ast.Constant) \
                and isinstance(t[0].value, int) and isinstance(t[2].value, int) \
                and t[0].value >= 0 and t[2].value >= 0 \
                and _is_call(t[1], 'int') and len(t[1].args) == 1 and _is_name(t[1].args[0], aname):
            return '(Conv.routeChannel %d %d)' % (t[0].value, t[2].value)
    raise TieBroken('main: unsupported option conversion at line %d' % value.lineno)


def _default(value):
    if isinstance(value, ast.Constant):
        v = value.value
        if v is None:
            return 'Val.none'
        if isinstance(v, bool):
            return '(Val.bool %s)' % _bool(v)
        if isinstance(v, int):
            return '(Val.int %d)' % v
        if isinstance(v, str):
            return '(Val.str %s)' % _codes(v)
    if _is_call(value, 'list') and not value.args:
        return 'Val.emptyList'
    raise TieBroken('main: unsupported default at line %d' % value.lineno)


def _main(tree, intern):
    fn = None
    for st in tree.body:
        if isinstance(st, ast.FunctionDef) and st.name == 'main':
            fn = st
    if fn is None:
        raise TieBroken('no main()')
    body = fn.body
    # --- try: opts, args = getopt.getopt(sys.argv[1:], '<s>') except getopt.GetoptError: ... sys.exit(n)
    t0 = body[0]
    if not (isinstance(t0, ast.Try) and len(t0.body) == 1 and isinstance(t0.body[0], ast.Assign)
            and _is_call(t0.body[0].value, 'getopt.getopt')):
        raise TieBroken('main does not start with try: getopt.getopt(...)')
    g = t0.body[0].value
    if len(g.args) != 2 or g.keywords or not (isinstance(g.args[1], ast.Constant) and isinstance(g.args[1].value, str)):
        raise TieBroken('getopt.getopt is not called with (argv, <literal short options>)')
    optstring = g.args[1].value
    if len(t0.handlers) != 1:
        raise TieBroken('getopt try has not exactly one handler')
    getopt_exit = _sys_exit_code(t0.handlers[0].body[-1])
    # --- defaults, then the for loop
    i = 1
    var_names, defaults = [], []
    while i < len(body) and isinstance(body[i], ast.Assign):
        a = body[i]
        if len(a.targets) != 1 or not isinstance(a.targets[0], ast.Name):
            raise TieBroken('main: unsupported default assignment')
        var_names.append(a.targets[0].id)
        defaults.append(_default(a.value))
        i += 1
    loop = body[i]
    if not (isinstance(loop, ast.For) and isinstance(loop.target, ast.Tuple) and len(loop.target.elts) == 2
            and _is_name(loop.iter, 'opts') and len(loop.body) == 1 and isinstance(loop.body[0], ast.If)):
        raise TieBroken('main: option loop has an unexpected shape')
    oname, aname = loop.target.elts[0].id, loop.target.elts[1].id
    rules = []
    node = loop.body[0]
    module_globals = set()
    while True:
        t = node.test
        if not (isinstance(t, ast.Compare) and _is_name(t.left, oname) and len(t.ops) == 1
                and isinstance(t.ops[0], ast.Eq) and isinstance(t.comparators[0], ast.Constant)
                and isinstance(t.comparators[0].value, str) and len(t.comparators[0].value) == 2
                and t.comparators[0].value[0] == '-'):
            raise TieBroken('main: option test has an unexpected shape at line %d' % node.lineno)
        opt = t.comparators[0].value[1]
        b = [s for s in node.body if not isinstance(s, ast.Global)]
        for s in node.body:
            if isinstance(s, ast.Global):
                module_globals.update(s.names)
        if len(b) == 1 and isinstance(b[0], ast.Assign) and len(b[0].targets) == 1 \
                and isinstance(b[0].targets[0], ast.Name):
            v = b[0].targets[0].id
            if v not in var_names:
                if v in module_globals:
                    var_names.append(v)
                    defaults.append('(Val.bool false)')
                else:
                    raise TieBroken('main: option %s assigns an undeclared variable %s' % (opt, v))
            rules.append((opt, '(OptAct.assign %d %s)' % (var_names.index(v), _conv(b[0].value, aname)), v))
        elif len(b) == 2 and isinstance(b[0], ast.Expr) and isinstance(b[0].value, ast.Call) \
                and isinstance(b[0].value.func, ast.Name) and b[0].value.func.id in ('usage', 'version') \
                and _sys_exit_code(b[1]) == 0:
            rules.append((opt, 'OptAct.exitOk', None))
        else:
            raise TieBroken('main: body of option %s is outside the grammar' % opt)
        if len(node.orelse) == 1 and isinstance(node.orelse[0], ast.If):
            node = node.orelse[0]
            continue
        if not (len(node.orelse) == 1 and isinstance(node.orelse[0], ast.Assert)):
            raise TieBroken('main: option chain does not end in assert False')
        break
    rest = body[i + 1:]
    # --- remaining statements: locate by shape
    facts = {'getoptExit': getopt_exit}
    sinks = {}

    def names_of(call):
        out = []
        for a in call.args:
            if not isinstance(a, ast.Name):
                raise TieBroken('main: argument of %s is not a plain variable' % ast.dump(call.func)[:60])
            out.append(a.id)
        return out

    final_try = None
    for st in rest:
        if isinstance(st, ast.If) and isinstance(st.test, ast.Compare) and _is_call(st.test.left, 'len') \
                and isinstance(st.test.ops[0], ast.Eq) and isinstance(st.test.comparators[0], ast.Constant) \
                and st.test.comparators[0].value == 0 and _is_name(st.test.left.args[0], 'args'):
            facts['noArgsExit'] = _sys_exit_code(st.body[-1])
        elif isinstance(st, ast.For) and st.orelse:
            facts['noCmdExit'] = _sys_exit_code(st.orelse[-1])
            ok = (isinstance(st.iter, ast.Call) and _is_call(st.iter, 'range'))
            src = ast.unparse(st)
            if not ok or "_get_command_function(' '.join(args[0:i + 1]))" not in src \
                    or 'args = args[i + 1:]' not in src or 'break' not in src:
                raise TieBroken('main: the command lookup loop changed shape')
        elif isinstance(st, ast.Assign) and _is_call(st.value, 'parse_interface_options'):
            sinks['parse_interface_options'] = names_of(st.value)
        elif isinstance(st, ast.Try) and not st.finalbody and len(st.body) == 1 \
                and isinstance(st.body[0], ast.Assign) and _is_call(st.body[0].value, 'pyipmi.interfaces.create_interface'):
            c = st.body[0].value
            kw = [k for k in c.keywords]
            if len(c.args) != 1 or len(kw) != 1 or kw[0].arg is not None or not isinstance(kw[0].value, ast.Name):
                raise TieBroken('main: create_interface call changed shape')
            sinks['create_interface'] = names_of(c) + [kw[0].value.id]
            if len(st.handlers) != 1 or ast.unparse(st.handlers[0].type) != 'RuntimeError':
                raise TieBroken('main: create_interface handler changed')
            facts['ifaceErrExit'] = _sys_exit_code(st.handlers[0].body[-1])
        elif isinstance(st, ast.Assign) and _is_call(st.value, 'pyipmi.Target') \
                and ast.unparse(st.targets[0]) == 'ipmi.target':
            sinks['Target'] = names_of(st.value)
        elif isinstance(st, ast.If) and isinstance(st.test, ast.Compare) and isinstance(st.test.ops[0], ast.IsNot) \
                and isinstance(st.test.left, ast.Name):
            guard = st.test.left.id
            for s in st.body:
                if isinstance(s, ast.Expr) and isinstance(s.value, ast.Call):
                    fname = ast.unparse(s.value.func)
                    sinks[fname] = [guard] + names_of(s.value)
                elif isinstance(s, ast.If) and isinstance(s.test, ast.Compare) and isinstance(s.test.ops[0], ast.IsNot) \
                        and isinstance(s.test.left, ast.Name) and len(s.body) == 1 and isinstance(s.body[0], ast.Expr):
                    fname = ast.unparse(s.body[0].value.func)
                    sinks[fname] = [s.test.left.id] + names_of(s.body[0].value)
                else:
                    raise TieBroken('main: statement under "if %s is not None" is outside the grammar' % guard)
        elif isinstance(st, ast.Try) and st.finalbody:
            final_try = st
    for k in ('noArgsExit', 'noCmdExit', 'ifaceErrExit'):
        if k not in facts:
            raise TieBroken('main: could not locate %s' % k)
    want = {
        'parse_interface_options': 2, 'create_interface': 2, 'Target': 1,
        'ipmi.target.set_routing': 2, 'ipmi.session.set_session_type_rmcp': 3,
        'ipmi.session.set_auth_type_user': 3, 'ipmi.session.set_priv_level': 2,
    }
    for k, n in want.items():
        if k not in sinks or len(sinks[k]) != n:
            raise TieBroken('main: call %s not found with %d variable arguments' % (k, n))
        for v in sinks[k]:
            if v not in var_names and v != 'interface_options':
                raise TieBroken('main: %s uses unknown variable %s' % (k, v))
    if sinks['parse_interface_options'] != [sinks['create_interface'][0], sinks['create_interface'][1]] and \
            sinks['parse_interface_options'][0] != sinks['create_interface'][0]:
        raise TieBroken('main: interface name differs between parse_interface_options and create_interface')
    if sinks['ipmi.target.set_routing'][0] != sinks['ipmi.target.set_routing'][1]:
        raise TieBroken('main: routing guard and argument differ')
    if sinks['ipmi.session.set_session_type_rmcp'][0] != sinks['ipmi.session.set_session_type_rmcp'][1]:
        raise TieBroken('main: host guard and argument differ')
    if sinks['ipmi.session.set_auth_type_user'][0] != sinks['ipmi.session.set_session_type_rmcp'][0]:
        raise TieBroken('main: auth is not under the host guard')
    if sinks['ipmi.session.set_priv_level'][0] != sinks['ipmi.session.set_priv_level'][1]:
        raise TieBroken('main: priv guard and argument differ')
    # --- final try: ipmi.open(); cmd(ipmi, args)  / except ... / finally: ipmi.close()
    if final_try is None:
        raise TieBroken('main: no try/finally around the handler call')
    tb = [ast.unparse(s) for s in final_try.body]
    if tb != ['ipmi.open()', 'cmd(ipmi, args)'] or [ast.unparse(s) for s in final_try.finalbody] != ['ipmi.close()']:
        raise TieBroken('main: body/finally of the handler try changed: %s' % tb)
    main_refs = [('open', True, 0, ()), ('close', True, 0, ())]
    clauses = []
    for h in final_try.handlers:
        tname = ast.unparse(h.type) if h.type is not None else 'BaseException'
        short = tname.split('.')[-1]
        kind = {'CompletionCodeError': 'ExcKind.completionCode', 'IpmiTimeoutError': 'ExcKind.timeout',
                'KeyboardInterrupt': 'ExcKind.keyboardInterrupt'}.get(short, '(ExcKind.other %d)' % intern(short))
        msg = 'none'
        status = None
        for s in h.body:
            if isinstance(s, ast.Expr) and _is_call(s.value, 'print') and len(s.value.args) == 1:
                a = s.value.args[0]
                if isinstance(a, ast.Constant) and isinstance(a.value, str):
                    msg = '(some (MsgFmt.lit %s))' % _codes(a.value)
                elif isinstance(a, ast.BinOp) and isinstance(a.op, ast.Mod) and isinstance(a.left, ast.Constant) \
                        and isinstance(a.left.value, str) and a.left.value.endswith('%02x') \
                        and a.left.value.count('%') == 1 and h.name and ast.unparse(a.right) == h.name + '.cc':
                    msg = '(some (MsgFmt.hex2cc %s))' % _codes(a.left.value[:-4])
                else:
                    raise TieBroken('main: message of except %s is outside the grammar' % short)
            elif isinstance(s, ast.If) and _is_name(s.test, 'verbose') and \
                    [ast.unparse(x) for x in s.body] == ['traceback.print_exc()'] and not s.orelse:
                pass
            elif isinstance(s, ast.Expr) and _is_call(s.value, 'sys.exit'):
                status = _sys_exit_code(s)
            else:
                raise TieBroken('main: statement in except %s is outside the grammar' % short)
        if status is None:
            raise TieBroken('main: except %s does not end the tool with sys.exit' % short)
        clauses.append((kind, msg, status, short))
    return {'optstring': optstring, 'vars': var_names, 'defaults': defaults, 'rules': rules,
            'facts': facts, 'sinks': sinks, 'clauses': clauses, 'main_refs': main_refs}


# ---------------------------------------------------------------------------------------- API
def _api(intern):
    import pyipmi
    cls = pyipmi.Ipmi
    out = []
    for n in sorted(dir(cls)):
        if n.startswith('_'):
            continue
        static = inspect.getattr_static(cls, n)
        obj = getattr(cls, n)
        callable_ = callable(obj) and not isinstance(static, property)
        ent = {'name': n, 'callable': callable_, 'params': [], 'nreq': 0, 'varpos': False, 'varkw': False,
               'kwreq': [], 'kwopt': []}
        if callable_:
            try:
                sig = inspect.signature(obj)
            except (TypeError, ValueError):
                raise TieBroken('no signature for Ipmi.%s' % n)
            ps = list(sig.parameters.values())
            if inspect.isfunction(static):
                if not ps:
                    raise TieBroken('Ipmi.%s is a function without self' % n)
                ps = ps[1:]
            elif isinstance(static, (staticmethod, classmethod)):
                pass    # staticmethod: as is; classmethod: getattr already bound cls
            elif inspect.isclass(static):
                pass
            else:
                raise TieBroken('Ipmi.%s has an unsupported kind %s' % (n, type(static).__name__))
            seen_default = False
            for p in ps:
                if p.kind == p.POSITIONAL_ONLY:
                    raise TieBroken('Ipmi.%s has positional-only parameters' % n)
                if p.kind == p.POSITIONAL_OR_KEYWORD:
                    ent['params'].append(p.name)
                    if p.default is p.empty:
                        if seen_default:
                            raise TieBroken('Ipmi.%s: required after default' % n)
                        ent['nreq'] += 1
                    else:
                        seen_default = True
                elif p.kind == p.VAR_POSITIONAL:
                    ent['varpos'] = True
                elif p.kind == p.VAR_KEYWORD:
                    ent['varkw'] = True
                else:
                    (ent['kwreq'] if p.default is p.empty else ent['kwopt']).append(p.name)
        out.append(ent)
    return out


# ------------------------------------------------------------------------------------ chassis
def _chassis(intern):
    """chassis_control_* method -> option constant (AST of chassis.py, values by import)."""
    import pyipmi.msgs.chassis as mc
    tree = ast.parse(repo.read('pyipmi/chassis.py'))
    cls = None
    for st in tree.body:
        if isinstance(st, ast.ClassDef) and st.name == 'Chassis':
            cls = st
    if cls is None:
        raise TieBroken('no class Chassis')
    out = []
    generic = False
    for st in cls.body:
        if not isinstance(st, ast.FunctionDef):
            continue
        if st.name == 'chassis_control':
            src = [ast.unparse(s) for s in st.body]
            if [a.arg for a in st.args.args] != ['self', 'option'] or \
                    src[:3] != ["req = create_request_by_name('ChassisControl')", 'req.control.option = option',
                                'rsp = self.send_message(req)']:
                raise TieBroken('Chassis.chassis_control changed shape')
            generic = True
        elif st.name.startswith('chassis_control_'):
            b = [s for s in st.body if not (isinstance(s, ast.Expr) and isinstance(s.value, ast.Constant))]
            if not (len(b) == 1 and isinstance(b[0], ast.Expr) and _is_call(b[0].value, 'self.chassis_control')
                    and len(b[0].value.args) == 1 and not b[0].value.keywords):
                raise TieBroken('Chassis.%s is not a single self.chassis_control(<const>) call' % st.name)
            a = b[0].value.args[0]
            if isinstance(a, ast.Name) and isinstance(getattr(mc, a.id, None), int):
                val = getattr(mc, a.id)
            elif isinstance(a, ast.Constant) and isinstance(a.value, int):
                val = a.value
            else:
                raise TieBroken('Chassis.%s: option is not a constant' % st.name)
            out.append((st.name, val))
    if not generic:
        raise TieBroken('no Chassis.chassis_control')
    return out


# ----------------------------------------------------------------------------------- generate
def snapshot():
    tree = ast.parse(repo.read('pyipmi/ipmitool.py'))
    module_funcs = dict((st.name, st) for st in tree.body if isinstance(st, ast.FunctionDef))
    intern = Interner()
    api = _api(intern)
    for e in api:
        intern(e['name'])
    cmds = _commands(tree, module_funcs)
    main = _main(tree, intern)
    chassis = _chassis(intern)
    import pyipmi.interfaces
    ifaces = [i.NAME for i in pyipmi.interfaces.INTERFACES]
    return {'api': api, 'commands': cmds, 'main': main, 'chassis': chassis, 'interfaces': ifaces,
            'intern': intern}


def render(snap, namespace='PyIpmi.Gen.Cli', header=None):
    intern = snap['intern']
    out = [header or ('/- GENERATED by harness/translate/cli.py from pyipmi/ipmitool.py, pyipmi.Ipmi and\n'
                      '   pyipmi/chassis.py of the working tree.  Do not edit: rewritten on every check run. -/'),
           'import PyIpmi.Model.Cli',
           'namespace %s' % namespace,
           'open PyIpmi.Cli',
           '']
    api_lines = []
    for e in snap['api']:
        api_lines.append('  /- %s -/ ⟨%d, %s, %s, %d, %s, %s, %s, %s⟩' % (
            e['name'], intern(e['name']), _bool(e['callable']), _nats(intern(p) for p in e['params']), e['nreq'],
            _bool(e['varpos']), _bool(e['varkw']), _nats(intern(p) for p in e['kwreq']),
            _nats(intern(p) for p in e['kwopt'])))
    cmd_lines = []
    for c in snap['commands']:
        refs = ', '.join('⟨/- %s -/ %d, %s, %d, %s⟩' % (r[0], intern(r[0]), _bool(r[1]), r[2],
                                                         _nats(intern(k) for k in r[3])) for r in c['refs'])
        cmd_lines.append('  /- %s -/ ⟨%s, [%s], %d, [%s]⟩' % (
            c['name'], _codes(c['name']), ', '.join(_codes(t) for t in c['name'].split(' ')),
            intern(c['handler']), refs))
    m = snap['main']
    main_refs = ', '.join('⟨/- %s -/ %d, %s, %d, %s⟩' % (r[0], intern(r[0]), _bool(r[1]), r[2], _nats([]))
                          for r in m['main_refs'])
    chassis = ', '.join('(/- %s -/ %d, %d)' % (n, intern(n), v) for n, v in snap['chassis'])
    out.append('/-- `dir(pyipmi.Ipmi)` (public), with `inspect.signature` -/')
    out.append('def api : List ApiSig := [\n' + ',\n'.join(api_lines) + ']')
    out.append('')
    out.append('/-- `COMMANDS` -/')
    out.append('def commands : List Command := [\n' + ',\n'.join(cmd_lines) + ']')
    out.append('')
    out.append('/-- `ipmi.<m>()` calls of `main` itself -/')
    out.append('def mainRefs : List MethodRef := [' + main_refs + ']')
    out.append('')
    out.append('/-- `chassis_control_*` method ↦ option it passes to `chassis_control` -/')
    out.append('def chassisControl : List (Nat × Nat) := [' + chassis + ']')
    out.append('')
    v = m['vars']
    s = m['sinks']
    out.append('/-- variables of `main`: %s -/' % ', '.join('%d=%s' % (i, n) for i, n in enumerate(v)))
    out.append('def vars : List String := [' + ', '.join(_lean_str(n) for n in v) + ']')
    out.append('')
    rules = ',\n'.join('  /- -%s%s -/ ⟨%d, %s⟩' % (o, (' → ' + var) if var else '', ord(o), act)
                       for o, act, var in m['rules'])
    out.append('def shape : MainShape := {\n'
               '  optString := %s  /- %s -/\n'
               '  rules := [\n%s]\n'
               '  defaults := [%s]\n'
               '  getoptExit := %d\n  noArgsExit := %d\n  noCmdExit := %d\n  ifaceErrExit := %d\n'
               '  vIface := %d\n  vIfaceOpts := %d\n  vTarget := %d\n  vRouting := %d\n'
               '  vHost := %d\n  vPort := %d\n  vUser := %d\n  vPassword := %d\n  vPriv := %d }' % (
                   _codes(m['optstring']), m['optstring'], rules, ', '.join(m['defaults']),
                   m['facts']['getoptExit'], m['facts']['noArgsExit'], m['facts']['noCmdExit'],
                   m['facts']['ifaceErrExit'],
                   v.index(s['create_interface'][0]), v.index(s['parse_interface_options'][1]),
                   v.index(s['Target'][0]), v.index(s['ipmi.target.set_routing'][1]),
                   v.index(s['ipmi.session.set_session_type_rmcp'][1]),
                   v.index(s['ipmi.session.set_session_type_rmcp'][2]),
                   v.index(s['ipmi.session.set_auth_type_user'][1]),
                   v.index(s['ipmi.session.set_auth_type_user'][2]),
                   v.index(s['ipmi.session.set_priv_level'][1])))
    out.append('')
    out.append('/-- `except` clauses around `ipmi.open(); cmd(ipmi, args)` -/')
    out.append('def exits : List ExitClause := [\n' + ',\n'.join(
        '  /- %s -/ ⟨%s, %s, %d⟩' % (short, kind, msg, status) for kind, msg, status, short in m['clauses']) + ']')
    out.append('')
    out.append('/-- `NAME` of every class in `pyipmi.interfaces.INTERFACES` -/')
    out.append('def interfaces : List Str := [' + ', '.join('/- %s -/ %s' % (n, _codes(n)) for n in snap['interfaces']) + ']')
    out.append('')
    # names last: interning is complete now
    out.append('/-- interned identifiers: id ↦ name -/')
    out.append('def names : List String := [\n  ' + ',\n  '.join(
        ', '.join(_lean_str(n) for n in intern.names[i:i + 6]) for i in range(0, len(intern.names), 6)) + ']')
    out.append('')
    out.append('end %s' % namespace)
    return '\n'.join(out) + '\n'


def generate():
    snap = snapshot()
    lean.write_if_changed(OUT, render(snap))
    return snap


def freeze(path, namespace):
    """One-off: write the current tree's table as a frozen snapshot (used for the as-shipped
    counter-example theorems)."""
    snap = snapshot()
    hdr = ('/- FROZEN copy of Gen/Cli.lean as generated from the pinned tree (commit 816fdee, before any C20\n'
           '   fix) by `harness/translate/cli.py:freeze`.  Not regenerated: it is what was shipped, the subject\n'
           '   of the counter-example theorems of Props/C20.lean. -/')
    lean.write_if_changed(path, render(snap, namespace, hdr))
    return snap
