"""T: pyipmi/interfaces/rmcp.py, messaging.py, session.py, msgs/device_messaging.py
      ->  lean/PyIpmi/Gen/RmcpFormats.lean

What is a table / constant / format in the LAN code is not modelled by hand: every `struct`
format string, the RMCP / ASF constants, the authentication-type ids, which struct argument
is which value (`!BII` <- auth, seq, sid; the MD5 pre-image order), which authentication
types `IpmiMsg.pack` implements, the padding of the password, the preference tuple of
`get_max_auth_type`, the capability bits and the field widths / ids of the session commands.

Fails closed: a struct call, format character or statement shape outside the small grammar
below raises TieBroken.
"""
import ast
import inspect
import os
import textwrap

from ..lib import lean
from ..lib.lean import TieBroken

OUT = os.path.join(lean.LEAN_DIR, 'PyIpmi', 'Gen', 'RmcpFormats.lean')


# ---------------------------------------------------------------- struct format strings
def parse_format(s, var_ok=False):
    """'!BxBB' -> (big, [items]); items: 'u8' 'u16' 'u32' 'pad' ('bytes', n) 'bytesVar'."""
    if not isinstance(s, str) or not s:
        raise TieBroken('struct format is not a string literal: %r' % (s,))
    if s[0] in '!>':
        big = True
    elif s[0] == '<':
        big = False
    else:
        raise TieBroken('struct format %r uses native byte order / alignment' % s)
    items, i = [], 1
    while i < len(s):
        c = s[i]
        if c.isspace():
            i += 1
            continue
        if c == '%':
            if var_ok and s[i:i + 3] == '%ds':
                items.append('bytesVar')
                i += 3
                continue
            raise TieBroken('struct format %r: unexpected %%-substitution' % s)
        n = None
        j = i
        while j < len(s) and s[j].isdigit():
            j += 1
        if j > i:
            n = int(s[i:j])
            i = j
            if i >= len(s):
                raise TieBroken('struct format %r ends in a count' % s)
            c = s[i]
        if c == 's':
            items.append(('bytes', 1 if n is None else n))
        elif c in 'BHIx':
            one = {'B': 'u8', 'H': 'u16', 'I': 'u32', 'x': 'pad'}[c]
            items.extend([one] * (1 if n is None else n))
        else:
            raise TieBroken('struct format %r: character %r is outside the translator grammar' % (s, c))
        i += 1
    return big, items


def _lean_item(it):
    if isinstance(it, tuple):
        return '.bytes %d' % it[1]
    return '.' + it


def _lean_format(f):
    big, items = f
    return '⟨%s, [%s]⟩' % ('true' if big else 'false', ', '.join(_lean_item(i) for i in items))


# ---------------------------------------------------------------- AST helpers
def _func(cls, name):
    try:
        fn = cls.__dict__[name]
    except KeyError:
        raise TieBroken('%s.%s no longer exists' % (cls.__name__, name))
    if isinstance(fn, staticmethod):
        fn = fn.__func__
    try:
        src = textwrap.dedent(inspect.getsource(fn))
    except (OSError, TypeError) as e:
        raise TieBroken('no source for %s.%s: %s' % (cls.__name__, name, e))
    tree = ast.parse(src)
    node = tree.body[0]
    if not isinstance(node, ast.FunctionDef):
        raise TieBroken('%s.%s is not a plain function' % (cls.__name__, name))
    return node


def _struct_calls(node):
    """All `struct.<fn>(...)` calls below `node`, outermost first, in source order."""
    out = []
    for n in ast.walk(node):
        if isinstance(n, ast.Call) and isinstance(n.func, ast.Attribute) \
                and isinstance(n.func.value, ast.Name) and n.func.value.id == 'struct':
            out.append(n)
    out.sort(key=lambda c: (c.lineno, c.col_offset))
    return out


def _const_str(node, what):
    if isinstance(node, ast.Constant) and isinstance(node.value, str):
        return node.value
    raise TieBroken('%s: format is not a string literal (%s)' % (what, ast.dump(node)[:120]))


ARG_NAMES = {
    'auth_type': 'auth',
    'self._pack_sequence_number()': 'seq',
    'self._pack_session_id()': 'sid',
    'self._pack_auth_code_straight()': 'pw',
    'sdu': 'sdu',
}


def _args(nodes, what):
    out = []
    for a in nodes:
        s = ast.unparse(a)
        if s not in ARG_NAMES:
            raise TieBroken('%s: struct argument %r is outside the translator vocabulary' % (what, s))
        out.append(ARG_NAMES[s])
    return out


def _swap_formats(cls, name):
    """`return struct.unpack(FU, struct.pack(FP, <value>))[0]` -> (FP, FU)."""
    fn = _func(cls, name)
    calls = _struct_calls(fn)
    kinds = sorted(c.func.attr for c in calls)
    if kinds != ['pack', 'unpack']:
        raise TieBroken('%s.%s: expected one struct.pack inside one struct.unpack, found %s' % (
            cls.__name__, name, kinds))
    un = [c for c in calls if c.func.attr == 'unpack'][0]
    pk = [c for c in calls if c.func.attr == 'pack'][0]
    if len(un.args) != 2 or un.args[1] is not pk or len(pk.args) != 2 or not isinstance(pk.args[1], ast.Name):
        raise TieBroken('%s.%s: struct calls have an unexpected shape' % (cls.__name__, name))
    ret = [n for n in ast.walk(fn) if isinstance(n, ast.Return)]
    if len(ret) != 1 or not (isinstance(ret[0].value, ast.Subscript) and ret[0].value.value is un
                             and ast.unparse(ret[0].value.slice) == '0'):
        raise TieBroken('%s.%s: does not return element 0 of the unpacked tuple' % (cls.__name__, name))
    return (parse_format(_const_str(pk.args[0], name)), parse_format(_const_str(un.args[0], name)))


def _pack_info(IpmiMsg, Session):
    fn = _func(IpmiMsg, 'pack')
    calls = _struct_calls(fn)
    if len(calls) != 1 or calls[0].func.attr != 'pack':
        raise TieBroken('IpmiMsg.pack: expected exactly one struct.pack call')
    hdr_fmt = parse_format(_const_str(calls[0].args[0], 'IpmiMsg.pack'))
    hdr_args = _args(calls[0].args[1:], 'IpmiMsg.pack')
    # the if / elif chain selecting the authentication code
    chain = None
    for n in ast.walk(fn):
        if isinstance(n, ast.If) and isinstance(n.test, ast.Compare) and isinstance(n.test.left, ast.Name) \
                and n.test.left.id == 'auth_type' and isinstance(n.test.ops[0], ast.Eq):
            if chain is None or (n.lineno, n.col_offset) < (chain.lineno, chain.col_offset):
                chain = n
    if chain is None:
        raise TieBroken('IpmiMsg.pack: authentication-type dispatch not found')
    table = []
    node = chain
    while True:
        cmp_ = node.test
        if not (isinstance(cmp_, ast.Compare) and len(cmp_.ops) == 1 and isinstance(cmp_.ops[0], ast.Eq)
                and isinstance(cmp_.left, ast.Name) and cmp_.left.id == 'auth_type'):
            raise TieBroken('IpmiMsg.pack: unexpected test in the authentication dispatch')
        rhs = ast.unparse(cmp_.comparators[0])
        if not rhs.startswith('Session.AUTH_TYPE_') or not hasattr(Session, rhs.split('.', 1)[1]):
            raise TieBroken('IpmiMsg.pack: dispatch compares with %s' % rhs)
        val = int(getattr(Session, rhs.split('.', 1)[1]))
        if len(node.body) != 1:
            raise TieBroken('IpmiMsg.pack: dispatch branch for %s has %d statements' % (rhs, len(node.body)))
        b = ast.unparse(node.body[0])
        if b == 'pass':
            code = 'none'
        elif b == 'pdu += self._pack_auth_code_straight()':
            code = 'straight'
        elif b == 'pdu += self._pack_auth_code_md5(sdu)':
            code = 'md5'
        else:
            raise TieBroken('IpmiMsg.pack: dispatch branch for %s does %r' % (rhs, b))
        table.append((val, code))
        if len(node.orelse) == 1 and isinstance(node.orelse[0], ast.If):
            node = node.orelse[0]
            continue
        if len(node.orelse) != 1 or not (isinstance(node.orelse[0], ast.Raise)
                                        and ast.unparse(node.orelse[0]).startswith('raise NotSupportedError(')):
            raise TieBroken('IpmiMsg.pack: dispatch does not end in raise NotSupportedError')
        break
    return hdr_fmt, hdr_args, table


def _md5_info(IpmiMsg):
    fn = _func(IpmiMsg, '_pack_auth_code_md5')
    calls = _struct_calls(fn)
    if len(calls) != 1 or calls[0].func.attr != 'pack':
        raise TieBroken('_pack_auth_code_md5: expected exactly one struct.pack call')
    f = calls[0].args[0]
    if not (isinstance(f, ast.BinOp) and isinstance(f.op, ast.Mod) and ast.unparse(f.right) == 'len(sdu)'):
        raise TieBroken('_pack_auth_code_md5: format is not "<literal>" %% len(sdu)')
    fmt = parse_format(_const_str(f.left, '_pack_auth_code_md5'), var_ok=True)
    args = _args(calls[0].args[1:], '_pack_auth_code_md5')
    if 'hashlib.md5(auth_code).digest()' not in ast.unparse(fn):
        raise TieBroken('_pack_auth_code_md5: does not return hashlib.md5(auth_code).digest()')
    return fmt, args


def _pad_info(IpmiMsg):
    fn = _func(IpmiMsg, '_padd_password')
    found = []
    for n in ast.walk(fn):
        if isinstance(n, ast.Call) and isinstance(n.func, ast.Attribute) and n.func.attr == 'ljust':
            found.append(n)
    if len(found) != 1 or len(found[0].args) != 2:
        raise TieBroken('_padd_password: expected one password.ljust(width, fill)')
    w, fill = found[0].args
    if not (isinstance(w, ast.Constant) and isinstance(w.value, int) and isinstance(fill, ast.Constant)
            and isinstance(fill.value, bytes) and len(fill.value) == 1):
        raise TieBroken('_padd_password: ljust arguments are not literals')
    return int(w.value), fill.value[0]


def _unpack_info(IpmiMsg):
    """The slices `struct.unpack(F, pdu[a:b])` and byte indices `array('B', pdu)[k]` of IpmiMsg.unpack."""
    fn = _func(IpmiMsg, 'unpack')
    slices = []
    for c in _struct_calls(fn):
        if c.func.attr == 'calcsize':
            continue
        if c.func.attr != 'unpack' or len(c.args) != 2:
            raise TieBroken('IpmiMsg.unpack: unexpected struct call %s' % ast.unparse(c)[:60])
        a = c.args[1]
        if isinstance(a, ast.Subscript) and isinstance(a.slice, ast.Slice) and ast.unparse(a.value) == 'pdu':
            lo, hi = a.slice.lower, a.slice.upper
            if not (isinstance(lo, ast.Constant) and isinstance(hi, ast.Constant)):
                raise TieBroken('IpmiMsg.unpack: slice bounds are not literals')
            slices.append((int(lo.value), int(hi.value), parse_format(_const_str(c.args[0], 'IpmiMsg.unpack'))))
        elif ast.unparse(a) == 'header' and ast.unparse(c.args[0]) == 'self.HEADER_FORMAT_NO_AUTH':
            continue
        else:
            raise TieBroken('IpmiMsg.unpack: struct.unpack over %s' % ast.unparse(a)[:60])
    idx = []
    for n in ast.walk(fn):
        if isinstance(n, ast.Subscript) and ast.unparse(n.value) == "array('B', pdu)":
            if not isinstance(n.slice, ast.Constant):
                raise TieBroken('IpmiMsg.unpack: array index is not a literal')
            idx.append((n.lineno, int(n.slice.value)))
    idx = [k for _, k in sorted(idx)]
    return slices, idx


def _preference(Caps):
    fn = _func(Caps, 'get_max_auth_type')
    loops = [n for n in ast.walk(fn) if isinstance(n, ast.For)]
    if len(loops) != 1 or not isinstance(loops[0].iter, ast.Tuple):
        raise TieBroken('get_max_auth_type: expected one loop over a literal tuple')
    names = []
    for e in loops[0].iter.elts:
        if not (isinstance(e, ast.Constant) and isinstance(e.value, str)):
            raise TieBroken('get_max_auth_type: tuple element is not a string literal')
        names.append(e.value)
    body = ' ; '.join(ast.unparse(s) for s in loops[0].body)
    if body.replace('\n', ' ').split() != 'if auth_type in self.auth_types: return self._functions[auth_type]'.split():
        raise TieBroken('get_max_auth_type: loop body is %r' % body)
    fns = Caps._functions
    for n in names:
        if n not in fns:
            raise TieBroken('get_max_auth_type: %r is not a key of _functions' % n)
    return [int(fns[n]) for n in names], dict((k, int(v)) for k, v in fns.items())


def _bit_positions(cls, field):
    """name -> (offset, width) of the members of Bitfield `field` of message class `cls`."""
    for f in cls.__fields__:
        if getattr(f, 'name', None) == field:
            out, off = {}, 0
            for b in f._bits:
                out[b.name] = (off, b._width)
                off += b._width
            return out
    raise TieBroken('%s has no field %s' % (cls.__name__, field))


def _widths(cls):
    out = []
    for f in cls.__fields__:
        n = getattr(f, 'length', None)
        if not isinstance(n, int):
            raise TieBroken('%s.%s has no fixed width' % (cls.__name__, getattr(f, 'name', '?')))
        out.append(n)
    return out


def facts():
    """Everything the translator reads, as a Python dict (also used by the check modules)."""
    try:
        from pyipmi.interfaces import rmcp
        from pyipmi.session import Session
        from pyipmi.messaging import ChannelAuthenticationCapabilities as Caps
        from pyipmi.msgs import device_messaging as dm
        from pyipmi.msgs import constants
        from pyipmi.msgs import bmc as bmcmsgs
    except Exception as e:  # noqa
        raise TieBroken('cannot import the LAN modules: %s: %s' % (type(e).__name__, e))
    d = {}
    try:
        d['rmcpVersion'] = int(rmcp.RmcpMsg.ASF_RMCP_V_1_0)
        d['rmcpHeader'] = parse_format(rmcp.RmcpMsg.RMCP_HEADER_FORMAT)
        d['rmcpInitialSeq'] = int(rmcp.Rmcp().seq_number)
        d['classAsf'] = int(rmcp.RMCP_CLASS_ASF)
        d['classIpmi'] = int(rmcp.RMCP_CLASS_IPMI)
        d['asfHeader'] = parse_format(rmcp.AsfMsg.ASF_HEADER_FORMAT)
        d['asfIana'] = int(rmcp.AsfMsg().iana_enterprise_number)
        d['asfPing'] = int(rmcp.AsfMsg.ASF_TYPE_PRESENCE_PING)
        d['asfPong'] = int(rmcp.AsfMsg.ASF_TYPE_PRESENCE_PONG)
        d['pingType'] = int(rmcp.AsfPing().asf_type)
        d['pingTag'] = int(rmcp.AsfPing().tag)
        d['pongData'] = parse_format(rmcp.AsfPong.DATA_FORMAT)
        d['hdrNoAuth'] = parse_format(rmcp.IpmiMsg.HEADER_FORMAT_NO_AUTH)
        d['hdrAuth'] = parse_format(rmcp.IpmiMsg.HEADER_FORMAT_AUTH)
        for k in ('NONE', 'MD2', 'MD5', 'PASSWORD', 'OEM'):
            d['auth' + k.capitalize()] = int(getattr(Session, 'AUTH_TYPE_' + k))
    except TieBroken:
        raise
    except Exception as e:  # noqa
        raise TieBroken('constant missing or of unexpected type: %s: %s' % (type(e).__name__, e))
    d['sidPack'], d['sidUnpack'] = _swap_formats(rmcp.IpmiMsg, '_pack_session_id')
    d['seqPack'], d['seqUnpack'] = _swap_formats(rmcp.IpmiMsg, '_pack_sequence_number')
    d['packHeader'], d['packHeaderArgs'], d['packAuth'] = _pack_info(rmcp.IpmiMsg, Session)
    d['md5Fmt'], d['md5Args'] = _md5_info(rmcp.IpmiMsg)
    d['padWidth'], d['padFill'] = _pad_info(rmcp.IpmiMsg)
    d['unpackSlices'], d['unpackIdx'] = _unpack_info(rmcp.IpmiMsg)
    d['authPreference'], fns = _preference(Caps)
    try:
        bits = _bit_positions(dm.GetChannelAuthenticationCapabilitiesRsp, 'support')
        caps = []
        for name, val in fns.items():
            if name not in bits or bits[name][1] != 1:
                raise TieBroken('capability %s is not a 1-bit member of support' % name)
            caps.append((val, bits[name][0]))
        d['capsBits'] = sorted(caps)
        d['authCapRspWidths'] = _widths(dm.GetChannelAuthenticationCapabilitiesRsp)
        d['challengeRspWidths'] = _widths(dm.GetSessionChallengeRsp)
        d['activateRspWidths'] = _widths(dm.ActivateSessionRsp)
        d['setPrivRspWidths'] = _widths(dm.SetSessionPrivilegeLevelRsp)
        d['closeRspWidths'] = _widths(dm.CloseSessionRsp)
        d['authCapReqWidths'] = _widths(dm.GetChannelAuthenticationCapabilitiesReq)
        d['challengeReqWidths'] = _widths(dm.GetSessionChallengeReq)
        d['activateReqWidths'] = _widths(dm.ActivateSessionReq)
        d['setPrivReqWidths'] = _widths(dm.SetSessionPrivilegeLevelReq)
        d['closeReqWidths'] = _widths(dm.CloseSessionReq)
        d['netfnApp'] = int(dm.GetSessionChallengeReq.__netfn__)
        d['cmdGetAuthCap'] = int(dm.GetChannelAuthenticationCapabilitiesReq.__cmdid__)
        d['cmdGetChallenge'] = int(dm.GetSessionChallengeReq.__cmdid__)
        d['cmdActivate'] = int(dm.ActivateSessionReq.__cmdid__)
        d['cmdSetPriv'] = int(dm.SetSessionPrivilegeLevelReq.__cmdid__)
        d['cmdClose'] = int(dm.CloseSessionReq.__cmdid__)
        d['cmdGetDeviceId'] = int(bmcmsgs.GetDeviceIdReq.__cmdid__)
        d['cmdSendMessage'] = int(constants.CMDID_SEND_MESSAGE)
        d['ccOk'] = int(constants.CC_OK)
    except TieBroken:
        raise
    except Exception as e:  # noqa
        raise TieBroken('session message classes have an unexpected shape: %s: %s' % (type(e).__name__, e))
    return d


def _nat_list(l):
    return '[' + ', '.join(str(int(x)) for x in l) + ']'


def generate():
    d = facts()
    o = []
    w = o.append
    w('/- GENERATED by harness/translate/rmcp.py from pyipmi/interfaces/rmcp.py, messaging.py, session.py and')
    w('   msgs/device_messaging.py of the working tree.  Do not edit: rewritten on every check run. -/')
    w('namespace PyIpmi.Gen.RmcpFormats')
    w('')
    w('/-- one item of a `struct` format string (`B H I x <n>s`, and `%ds` filled with the payload length) -/')
    w('inductive Fmt where')
    w('  | u8 | u16 | u32 | pad | bytes (n : Nat) | bytesVar')
    w('  deriving Repr, DecidableEq')
    w('')
    w('/-- a `struct` format: byte order (`!`/`>` = big, `<` = little) and items -/')
    w('structure Format where')
    w('  big : Bool')
    w('  items : List Fmt')
    w('  deriving Repr, DecidableEq')
    w('')
    w('/-- which value a `struct.pack` argument is -/')
    w('inductive Arg where')
    w('  | auth | seq | sid | pw | sdu')
    w('  deriving Repr, DecidableEq')
    w('')
    w('/-- which authentication code `IpmiMsg.pack` appends for an authentication type -/')
    w('inductive Code where')
    w('  | none | straight | md5')
    w('  deriving Repr, DecidableEq')
    w('')
    for k in ('rmcpVersion', 'rmcpInitialSeq', 'classAsf', 'classIpmi', 'asfIana', 'asfPing', 'asfPong',
              'pingType', 'pingTag', 'authNone', 'authMd2', 'authMd5', 'authPassword', 'authOem',
              'padWidth', 'padFill', 'netfnApp', 'cmdGetAuthCap', 'cmdGetChallenge', 'cmdActivate',
              'cmdSetPriv', 'cmdClose', 'cmdGetDeviceId', 'cmdSendMessage', 'ccOk'):
        w('def %s : Nat := %d' % (k, d[k]))
    w('')
    for k in ('rmcpHeader', 'asfHeader', 'pongData', 'hdrNoAuth', 'hdrAuth', 'sidPack', 'sidUnpack',
              'seqPack', 'seqUnpack', 'packHeader', 'md5Fmt'):
        w('def %s : Format := %s' % (k, _lean_format(d[k])))
    w('')
    w('def packHeaderArgs : List Arg := [%s]' % ', '.join('.' + a for a in d['packHeaderArgs']))
    w('def md5Args : List Arg := [%s]' % ', '.join('.' + a for a in d['md5Args']))
    w('def packAuth : List (Nat × Code) := [%s]' % ', '.join('(%d, .%s)' % (v, c) for v, c in d['packAuth']))
    w('/-- `struct.unpack(F, pdu[a:b])` calls of `IpmiMsg.unpack` (authenticated header) -/')
    w('def unpackSlices : List (Nat × Nat × Format) := [%s]' % ', '.join(
        '(%d, %d, %s)' % (a, b, _lean_format(f)) for a, b, f in d['unpackSlices']))
    w("/-- `array('B', pdu)[k]` indices of `IpmiMsg.unpack`, in source order -/")
    w('def unpackIdx : List Nat := %s' % _nat_list(d['unpackIdx']))
    w('/-- preference tuple of `get_max_auth_type`, as authentication-type ids -/')
    w('def authPreference : List Nat := %s' % _nat_list(d['authPreference']))
    w('/-- (authentication type id, bit of the `support` byte of Get Channel Authentication Capabilities) -/')
    w('def capsBits : List (Nat × Nat) := [%s]' % ', '.join('(%d, %d)' % p for p in d['capsBits']))
    for k in ('authCapReqWidths', 'authCapRspWidths', 'challengeReqWidths', 'challengeRspWidths',
              'activateReqWidths', 'activateRspWidths', 'setPrivReqWidths', 'setPrivRspWidths',
              'closeReqWidths', 'closeRspWidths'):
        w('def %s : List Nat := %s' % (k, _nat_list(d[k])))
    w('')
    w('end PyIpmi.Gen.RmcpFormats')
    lean.write_if_changed(OUT, '\n'.join(o) + '\n')
    return d
