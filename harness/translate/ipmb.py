"""T: pyipmi/interfaces/ipmb.py  ->  lean/PyIpmi/Gen/IpmbFilter.lean

AST extraction (the working tree's source text, not the imported module) of

  * `checksum`                       -> `cksum : CksumDef`
  * `IpmbHeaderReq.encode`           -> `reqHeaderBytes : List Term`
  * `IpmbHeaderRsp.encode`           -> `rspHeaderBytes : List Term`
  * `IpmbHeaderRsp.from_req_header`  -> `rspFromReq : List (Fld × Expr)` (response attribute := expression over the
                                        REQUEST header's attributes)
  * `IpmbHeaderRsp.decode`           -> `rspHeaderFields : List (Fld × Expr)`, `rspIgnored`
  * `rx_filter`                      -> `rxChecks : List Check`, `rxDefaults : Flags`
  * call sites of `rx_filter` in pyipmi/interfaces/*.py -> which keyword flags transports pass
  * loop test of `decode_bridged_message` (+ `is_send_message_response`) -> `recogNetfn`, `recogVerify`

and, by importing the package, the constants of the Send Message command that the bridging
model (C09) uses: netfn, command id, and the bit positions of `channel.number` /
`channel.tracking` in `SendMessageReq`.

The grammar is deliberately small and fails closed: any statement or expression shape that is
not listed here raises TieBroken (handled by the runner as a broken tie, followed by the
failing-input search on the real code).
"""
import ast
import glob
import os

from ..lib import lean, repo
from ..lib.lean import TieBroken

OUT = os.path.join(lean.LEAN_DIR, 'PyIpmi', 'Gen', 'IpmbFilter.lean')
SRC = 'pyipmi/interfaces/ipmb.py'

FLD = {'rs_sa': 'rsSa', 'rs_lun': 'rsLun', 'netfn': 'netfn', 'rq_sa': 'rqSa',
       'rq_lun': 'rqLun', 'rq_seq': 'seq', 'cmdid': 'cmd'}
FLAG = {'rq_sa': 'rqSa', 'rs_sa': 'rsSa', 'rq_lun': 'rqLun', 'rs_lun': 'rsLun', 'rq_seq': 'rqSeq'}
BINOPS = {ast.Add: 'add', ast.LShift: 'shl', ast.RShift: 'shr', ast.BitOr: 'bor', ast.BitAnd: 'band'}


def _bad(what, node=None):
    where = ' (line %d)' % node.lineno if node is not None and hasattr(node, 'lineno') else ''
    raise TieBroken('ipmb.py outside the translator grammar: %s%s' % (what, where))


def _const_nat(node):
    if isinstance(node, ast.Constant) and type(node.value) is int and node.value >= 0:
        return node.value
    return None


class Ctx(object):
    """Where names resolve: `attrs` maps an object name to the Expr constructor for its header
    attributes; `data` is the name subscripted as bytes; `locals_` maps local names to var ids;
    `limit` bounds `data[k]` (header encode: only bytes already appended)."""

    def __init__(self, attrs=None, data=None, locals_=None, limit=None):
        self.attrs = attrs or {}
        self.data = data
        self.locals = locals_ or {}
        self.limit = limit


def expr(node, cx):
    n = _const_nat(node)
    if n is not None:
        return '(.const %d)' % n
    if isinstance(node, ast.Name):
        if node.id in cx.locals:
            return '(.var %d)' % cx.locals[node.id]
        _bad('unknown name %s' % node.id, node)
    if isinstance(node, ast.Attribute) and isinstance(node.value, ast.Name) and node.value.id in cx.attrs:
        if node.attr not in FLD:
            _bad('unknown header attribute %s' % node.attr, node)
        return '(.%s .%s)' % (cx.attrs[node.value.id], FLD[node.attr])
    if isinstance(node, ast.Subscript) and isinstance(node.value, ast.Name) and node.value.id == cx.data:
        k = _const_nat(node.slice)
        if k is None:
            _bad('non-literal byte index', node)
        if cx.limit is not None and k >= cx.limit:
            _bad('data[%d] read before it is appended' % k, node)
        return '(.byte %d)' % k
    if isinstance(node, ast.BinOp):
        if isinstance(node.op, ast.Mod):
            m = _const_nat(node.right)
            if m is None or m == 0:
                _bad('modulus is not a positive literal', node)
            if isinstance(node.left, ast.UnaryOp) and isinstance(node.left.op, ast.USub):
                return '(.negMod %s %d)' % (expr(node.left.operand, cx), m)
            return '(.mod %s %d)' % (expr(node.left, cx), m)
        op = BINOPS.get(type(node.op))
        if op is None:
            _bad('operator %s' % type(node.op).__name__, node)
        return '(.%s %s %s)' % (op, expr(node.left, cx), expr(node.right, cx))
    _bad('expression %s' % ast.dump(node)[:120], node)


def term(node, cx):
    if isinstance(node, ast.Call) and isinstance(node.func, ast.Name) and node.func.id == 'checksum':
        if len(node.args) != 1 or node.keywords:
            _bad('checksum call arity', node)
        a = node.args[0]
        if isinstance(a, (ast.Tuple, ast.List)):
            return '(.cksumTuple [%s])' % ', '.join(expr(e, cx) for e in a.elts)
        if isinstance(a, ast.Subscript) and isinstance(a.value, ast.Name) and a.value.id == cx.data \
                and isinstance(a.slice, ast.Slice) and a.slice.step is None:
            lo = 0 if a.slice.lower is None else _const_nat(a.slice.lower)
            hi = None if a.slice.upper is None else _const_nat(a.slice.upper)
            if lo is None or (a.slice.upper is not None and hi is None):
                _bad('slice bounds are not non-negative literals', node)
            return '(.cksumSlice %d %s)' % (lo, 'none' if hi is None else '(some %d)' % hi)
        _bad('checksum argument', node)
    return '(.e %s)' % expr(node, cx)


def _body(fn):
    b = list(fn.body)
    if b and isinstance(b[0], ast.Expr) and isinstance(b[0].value, ast.Constant) and isinstance(b[0].value.value, str):
        b = b[1:]
    return b


def _args(fn):
    a = fn.args
    if a.vararg or a.kwarg or a.kwonlyargs or a.posonlyargs:
        _bad('signature of %s' % fn.name, fn)
    return [x.arg for x in a.args], a.defaults


def _is_call(node, fname, nargs=None):
    return isinstance(node, ast.Call) and isinstance(node.func, ast.Name) and node.func.id == fname \
        and (nargs is None or len(node.args) == nargs)


def _array_b(node, arg=None):
    """`array('B')` or `array('B', <arg>)`"""
    if not (_is_call(node, 'array') and node.args and isinstance(node.args[0], ast.Constant)
            and node.args[0].value == 'B' and not node.keywords):
        return False
    if arg is None:
        return len(node.args) == 1
    return len(node.args) == 2 and isinstance(node.args[1], ast.Name) and node.args[1].id == arg


def t_checksum(fn):
    names, dfl = _args(fn)
    if len(names) != 1 or dfl:
        _bad('checksum signature', fn)
    data = names[0]
    b = _body(fn)
    if len(b) != 3:
        _bad('checksum body has %d statements' % len(b), fn)
    s0, s1, s2 = b
    if not (isinstance(s0, ast.Assign) and len(s0.targets) == 1 and isinstance(s0.targets[0], ast.Name)
            and _const_nat(s0.value) is not None):
        _bad('checksum: accumulator initialisation', s0)
    acc = s0.targets[0].id
    init = _const_nat(s0.value)
    if not (isinstance(s1, ast.For) and isinstance(s1.target, ast.Name) and isinstance(s1.iter, ast.Name)
            and s1.iter.id == data and not s1.orelse and len(s1.body) == 1):
        _bad('checksum: loop', s1)
    el = s1.target.id
    cx = Ctx(locals_={acc: 0, el: 1})
    st = s1.body[0]
    if isinstance(st, ast.AugAssign) and isinstance(st.target, ast.Name) and st.target.id == acc:
        op = BINOPS.get(type(st.op))
        if op is None:
            _bad('checksum: accumulation operator', st)
        step = '(.%s (.var 0) %s)' % (op, expr(st.value, cx))
    elif isinstance(st, ast.Assign) and len(st.targets) == 1 and isinstance(st.targets[0], ast.Name) \
            and st.targets[0].id == acc:
        step = expr(st.value, cx)
    else:
        _bad('checksum: loop body', st)
    if not isinstance(s2, ast.Return) or s2.value is None:
        _bad('checksum: return', s2)
    ret = expr(s2.value, Ctx(locals_={acc: 0}))
    return init, step, ret


def t_req_encode(fn, cls='IpmbHeaderReq'):
    """`encode` of IpmbHeaderReq / IpmbHeaderRsp: data = array('B'); data.append(x)...; return py3_array_tobytes(data)"""
    names, dfl = _args(fn)
    if names != ['self'] or dfl:
        _bad('%s.encode signature' % cls, fn)
    b = _body(fn)
    if len(b) < 3:
        _bad('%s.encode body' % cls, fn)
    s0 = b[0]
    if not (isinstance(s0, ast.Assign) and len(s0.targets) == 1 and isinstance(s0.targets[0], ast.Name)
            and _array_b(s0.value)):
        _bad("%s.encode: data = array('B')" % cls, s0)
    data = s0.targets[0].id
    out = []
    for st in b[1:-1]:
        if not (isinstance(st, ast.Expr) and isinstance(st.value, ast.Call)
                and isinstance(st.value.func, ast.Attribute) and st.value.func.attr == 'append'
                and isinstance(st.value.func.value, ast.Name) and st.value.func.value.id == data
                and len(st.value.args) == 1 and not st.value.keywords):
            _bad('%s.encode: statement other than data.append(x)' % cls, st)
        cx = Ctx(attrs={'self': 'self'}, data=data, limit=len(out))
        out.append(term(st.value.args[0], cx))
    r = b[-1]
    if not (isinstance(r, ast.Return) and _is_call(r.value, 'py3_array_tobytes', 1)
            and isinstance(r.value.args[0], ast.Name) and r.value.args[0].id == data):
        _bad('%s.encode: return' % cls, r)
    return out


def t_from_req_header(fn):
    """`IpmbHeaderRsp.from_req_header(self, req_header)`: a sequence of `self.<attr> = <expression over
    req_header.<attr> and literals>`, every header attribute assigned exactly once.  The right-hand sides read
    the REQUEST header only (never `self`), so the order of the assignments does not matter."""
    names, dfl = _args(fn)
    if len(names) != 2 or names[0] != 'self' or dfl:
        _bad('IpmbHeaderRsp.from_req_header signature', fn)
    cx = Ctx(attrs={names[1]: 'self'})
    fields = []
    for st in _body(fn):
        if not (isinstance(st, ast.Assign) and len(st.targets) == 1 and isinstance(st.targets[0], ast.Attribute)
                and isinstance(st.targets[0].value, ast.Name) and st.targets[0].value.id == 'self'):
            _bad('IpmbHeaderRsp.from_req_header: statement other than self.x = expr', st)
        attr = st.targets[0].attr
        if attr not in FLD:
            _bad('IpmbHeaderRsp.from_req_header: unknown attribute %s' % attr, st)
        if FLD[attr] in [f for f, _ in fields]:
            _bad('IpmbHeaderRsp.from_req_header assigns %s twice' % attr, st)
        fields.append((FLD[attr], expr(st.value, cx)))
    missing = sorted(set(FLD.values()) - set(f for f, _ in fields))
    if missing:
        _bad('IpmbHeaderRsp.from_req_header leaves %s unset' % missing, fn)
    return fields


def t_rsp_decode(fn):
    names, dfl = _args(fn)
    if names != ['self', 'data'] or dfl:
        _bad('IpmbHeaderRsp.decode signature', fn)
    b = _body(fn)
    s0 = b[0] if b else None
    if not (isinstance(s0, ast.Assign) and len(s0.targets) == 1 and isinstance(s0.targets[0], ast.Name)
            and s0.targets[0].id == 'data' and _array_b(s0.value, 'data')):
        _bad("IpmbHeaderRsp.decode: data = array('B', data)", s0 or fn)
    cx = Ctx(data='data')
    fields, ignored = [], []
    for st in b[1:]:
        if not (isinstance(st, ast.Assign) and len(st.targets) == 1 and isinstance(st.targets[0], ast.Attribute)
                and isinstance(st.targets[0].value, ast.Name) and st.targets[0].value.id == 'self'):
            _bad('IpmbHeaderRsp.decode: statement other than self.x = expr', st)
        attr = st.targets[0].attr
        e = expr(st.value, cx)
        if attr == 'checksum':
            ignored.append(e)
        elif attr in FLD:
            if FLD[attr] in [f for f, _ in fields]:
                _bad('IpmbHeaderRsp.decode assigns %s twice' % attr, st)
            fields.append((FLD[attr], e))
        else:
            _bad('IpmbHeaderRsp.decode: unknown attribute %s' % attr, st)
    missing = sorted(set(FLD.values()) - set(f for f, _ in fields))
    if missing:
        _bad('IpmbHeaderRsp.decode leaves %s unset' % missing, fn)
    return fields, ignored


def t_header_init(fn):
    """IpmbHeader.__init__(self, data=None): if data: self.decode(data)"""
    names, dfl = _args(fn)
    ok = names == ['self', 'data'] and len(dfl) == 1 and isinstance(dfl[0], ast.Constant) and dfl[0].value is None
    b = _body(fn)
    ok = ok and len(b) == 1 and isinstance(b[0], ast.If) and isinstance(b[0].test, ast.Name) \
        and b[0].test.id == 'data' and not b[0].orelse and len(b[0].body) == 1
    if ok:
        c = b[0].body[0]
        ok = isinstance(c, ast.Expr) and isinstance(c.value, ast.Call) and isinstance(c.value.func, ast.Attribute) \
            and c.value.func.attr == 'decode' and isinstance(c.value.func.value, ast.Name) \
            and c.value.func.value.id == 'self' and len(c.value.args) == 1 \
            and isinstance(c.value.args[0], ast.Name) and c.value.args[0].id == 'data'
    if not ok:
        _bad('IpmbHeader.__init__ is not `if data: self.decode(data)`', fn)


def _check_tuple(node, cx):
    if not (isinstance(node, ast.Tuple) and len(node.elts) == 3):
        _bad('check is not a (lhs, rhs, message) tuple', node)
    return term(node.elts[0], cx), term(node.elts[1], cx)


def t_rx_filter(fn):
    names, dfl = _args(fn)
    if names[:2] != ['header', 'data']:
        _bad('rx_filter signature', fn)
    flags = names[2:]
    if len(dfl) != len(flags) or sorted(flags) != sorted(FLAG):
        _bad('rx_filter keyword flags are %s' % flags, fn)
    defaults = {}
    for n, d in zip(flags, dfl):
        if not (isinstance(d, ast.Constant) and type(d.value) is bool):
            _bad('default of %s is not a bool literal' % n, fn)
        defaults[n] = d.value
    b = _body(fn)
    if len(b) < 6:
        _bad('rx_filter body', fn)
    s0, s1, s2 = b[0], b[1], b[2]
    # rsp_header = IpmbHeaderRsp(data=data)
    ok = isinstance(s0, ast.Assign) and len(s0.targets) == 1 and isinstance(s0.targets[0], ast.Name) \
        and _is_call(s0.value, 'IpmbHeaderRsp', 0) and len(s0.value.keywords) == 1 \
        and s0.value.keywords[0].arg == 'data' and isinstance(s0.value.keywords[0].value, ast.Name) \
        and s0.value.keywords[0].value.id == 'data'
    if not ok:
        _bad('rx_filter: rsp_header = IpmbHeaderRsp(data=data)', s0)
    rsp = s0.targets[0].id
    if not (isinstance(s1, ast.Assign) and len(s1.targets) == 1 and isinstance(s1.targets[0], ast.Name)
            and s1.targets[0].id == 'data' and _array_b(s1.value, 'data')):
        _bad("rx_filter: data = array('B', data)", s1)
    if not (isinstance(s2, ast.Assign) and len(s2.targets) == 1 and isinstance(s2.targets[0], ast.Name)
            and isinstance(s2.value, ast.List)):
        _bad('rx_filter: checks = [...]', s2)
    checks_name = s2.targets[0].id
    cx = Ctx(attrs={'header': 'self', rsp: 'rsp'}, data='data')
    checks = [(None,) + _check_tuple(e, cx) for e in s2.value.elts]
    i = 3
    while i < len(b) and isinstance(b[i], ast.If):
        st = b[i]
        if not (isinstance(st.test, ast.Name) and st.test.id in FLAG and not st.orelse and len(st.body) == 1):
            _bad('rx_filter: optional check guard', st)
        c = st.body[0]
        if not (isinstance(c, ast.Expr) and isinstance(c.value, ast.Call) and isinstance(c.value.func, ast.Attribute)
                and c.value.func.attr == 'append' and isinstance(c.value.func.value, ast.Name)
                and c.value.func.value.id == checks_name and len(c.value.args) == 1):
            _bad('rx_filter: optional check body', st)
        checks.append((FLAG[st.test.id],) + _check_tuple(c.value.args[0], cx))
        i += 1
    rest = b[i:]
    # match = True ; for left, right, msg in checks: if left != right: (log) ; match = False ; return match
    ok = len(rest) == 3
    if ok:
        m0, loop, ret = rest
        ok = isinstance(m0, ast.Assign) and len(m0.targets) == 1 and isinstance(m0.targets[0], ast.Name) \
            and isinstance(m0.value, ast.Constant) and m0.value.value is True
    if ok:
        mname = m0.targets[0].id
        ok = isinstance(loop, ast.For) and isinstance(loop.iter, ast.Name) and loop.iter.id == checks_name \
            and isinstance(loop.target, ast.Tuple) and len(loop.target.elts) == 3 \
            and all(isinstance(e, ast.Name) for e in loop.target.elts) and not loop.orelse and len(loop.body) == 1 \
            and isinstance(loop.body[0], ast.If) and not loop.body[0].orelse
    if ok:
        l, r = loop.target.elts[0].id, loop.target.elts[1].id
        t = loop.body[0].test
        ok = isinstance(t, ast.Compare) and len(t.ops) == 1 and isinstance(t.ops[0], ast.NotEq) \
            and isinstance(t.left, ast.Name) and isinstance(t.comparators[0], ast.Name) \
            and sorted([t.left.id, t.comparators[0].id]) == sorted([l, r])
    if ok:
        sets_false = 0
        for st in loop.body[0].body:
            if isinstance(st, ast.Assign) and len(st.targets) == 1 and isinstance(st.targets[0], ast.Name) \
                    and st.targets[0].id == mname and isinstance(st.value, ast.Constant) and st.value.value is False:
                sets_false += 1
            elif isinstance(st, ast.Expr) and isinstance(st.value, ast.Call) \
                    and isinstance(st.value.func, ast.Attribute) and st.value.func.attr == 'debug':
                pass
            else:
                ok = False
        ok = ok and sets_false == 1
    if ok:
        ok = isinstance(ret, ast.Return) and isinstance(ret.value, ast.Name) and ret.value.id == mname
    if not ok:
        _bad('rx_filter: the tail is not `match = True; for l, r, m in checks: if l != r: match = False; return match`', fn)
    return checks, defaults


def _is_const_attr(node, name):
    """`constants.<name>`"""
    return isinstance(node, ast.Attribute) and node.attr == name and isinstance(node.value, ast.Name) \
        and node.value.id == 'constants'


def _byte5_is_send_message(node, data_expr):
    """`<data>[5] == constants.CMDID_SEND_MESSAGE` / `!=`; -> 'eq' | 'ne' | None.  `data_expr(n)` says whether
    n is the byte array looked at"""
    if not (isinstance(node, ast.Compare) and len(node.ops) == 1 and len(node.comparators) == 1):
        return None
    l, r = node.left, node.comparators[0]
    if not (isinstance(l, ast.Subscript) and data_expr(l.value) and _const_nat(l.slice) == 5
            and _is_const_attr(r, 'CMDID_SEND_MESSAGE')):
        return None
    return 'eq' if isinstance(node.ops[0], ast.Eq) else 'ne' if isinstance(node.ops[0], ast.NotEq) else None


def _netfn_is_app_rsp(node, data):
    """`data[1] >> 2 != constants.NETFN_APP + 1`"""
    if not (isinstance(node, ast.Compare) and len(node.ops) == 1 and isinstance(node.ops[0], ast.NotEq)):
        return False
    l, r = node.left, node.comparators[0]
    ok = isinstance(l, ast.BinOp) and isinstance(l.op, ast.RShift) and _const_nat(l.right) == 2 \
        and isinstance(l.left, ast.Subscript) and isinstance(l.left.value, ast.Name) and l.left.value.id == data \
        and _const_nat(l.left.slice) == 1
    ok = ok and isinstance(r, ast.BinOp) and isinstance(r.op, ast.Add) and _is_const_attr(r.left, 'NETFN_APP') \
        and _const_nat(r.right) == 1
    return ok


def _returns(st, value):
    return isinstance(st, ast.Return) and isinstance(st.value, ast.Constant) and st.value.value is value


def t_recognition(funcs):
    """How a Send Message response is recognised by `decode_bridged_message` (C09, C03):

      as shipped   while array('B', rx_data)[5] == constants.CMDID_SEND_MESSAGE:          -> (False, False)
      repaired     while is_send_message_response(rx_data, verify):  with
                   def is_send_message_response(rx_data, verify=False):
                       data = array('B', rx_data)
                       if data[1] >> 2 != constants.NETFN_APP + 1 or data[5] != constants.CMDID_SEND_MESSAGE:
                           return False
                       if verify and (checksum(data[0:3]) != 0 or checksum(data[3:]) != 0):
                           return False
                       return True                                                        -> (True, True)

    -> (netFn compared, both checksums verified on request).  Any other shape leaves the grammar."""
    fn = funcs.get('decode_bridged_message')
    if fn is None:
        _bad('function decode_bridged_message missing')
    names, dfl = _args(fn)
    loops = [st for st in _body(fn) if isinstance(st, ast.While)]
    if len(loops) != 1 or loops[0].orelse:
        _bad('decode_bridged_message: not exactly one while loop', fn)
    test = loops[0].test
    if names == ['rx_data'] and not dfl:
        if _byte5_is_send_message(test, lambda n: _array_b(n, 'rx_data')) == 'eq':
            return False, False
        _bad('decode_bridged_message: loop test', test)
    ok = names == ['rx_data', 'verify'] and len(dfl) == 1 and isinstance(dfl[0], ast.Constant) and dfl[0].value is False
    ok = ok and _is_call(test, 'is_send_message_response', 2) and not test.keywords \
        and all(isinstance(a, ast.Name) for a in test.args) and [a.id for a in test.args] == ['rx_data', 'verify']
    if not ok:
        _bad('decode_bridged_message: signature / loop test', fn)
    rec = funcs.get('is_send_message_response')
    if rec is None:
        _bad('function is_send_message_response missing')
    rn, rd = _args(rec)
    if not (rn == ['rx_data', 'verify'] and len(rd) == 1 and isinstance(rd[0], ast.Constant) and rd[0].value is False):
        _bad('is_send_message_response signature', rec)
    b = _body(rec)
    if len(b) != 4:
        _bad('is_send_message_response body has %d statements' % len(b), rec)
    s0, s1, s2, s3 = b
    if not (isinstance(s0, ast.Assign) and len(s0.targets) == 1 and isinstance(s0.targets[0], ast.Name)
            and _array_b(s0.value, 'rx_data')):
        _bad("is_send_message_response: data = array('B', rx_data)", s0)
    data = s0.targets[0].id
    ok = isinstance(s1, ast.If) and not s1.orelse and len(s1.body) == 1 and _returns(s1.body[0], False) \
        and isinstance(s1.test, ast.BoolOp) and isinstance(s1.test.op, ast.Or) and len(s1.test.values) == 2 \
        and _netfn_is_app_rsp(s1.test.values[0], data) \
        and _byte5_is_send_message(s1.test.values[1], lambda n: isinstance(n, ast.Name) and n.id == data) == 'ne'
    if not ok:
        _bad('is_send_message_response: netFn / command test', s1)
    ok = isinstance(s2, ast.If) and not s2.orelse and len(s2.body) == 1 and _returns(s2.body[0], False) \
        and isinstance(s2.test, ast.BoolOp) and isinstance(s2.test.op, ast.And) and len(s2.test.values) == 2 \
        and isinstance(s2.test.values[0], ast.Name) and s2.test.values[0].id == 'verify'
    if ok:
        o = s2.test.values[1]
        ok = isinstance(o, ast.BoolOp) and isinstance(o.op, ast.Or) and len(o.values) == 2
    if ok:
        cx = Ctx(data=data)
        sums = []
        for c in o.values:
            if not (isinstance(c, ast.Compare) and len(c.ops) == 1 and isinstance(c.ops[0], ast.NotEq)
                    and _const_nat(c.comparators[0]) == 0):
                ok = False
                break
            sums.append(term(c.left, cx))
        ok = ok and sums == ['(.cksumSlice 0 (some 3))', '(.cksumSlice 3 none)']
    if not ok:
        _bad('is_send_message_response: checksum test', s2)
    if not _returns(s3, True):
        _bad('is_send_message_response: final return', s3)
    return True, True


def t_call_sites():
    """Every call of rx_filter in pyipmi/interfaces: which keyword flags are passed.  The
    property makes the responder-LUN comparison mandatory: a transport that passes `rs_lun=`
    leaves the grammar."""
    sites = []
    for path in sorted(glob.glob(os.path.join(repo.REPO, 'pyipmi', 'interfaces', '*.py'))):
        with open(path, encoding='utf-8') as f:
            tree = ast.parse(f.read())
        for node in ast.walk(tree):
            if isinstance(node, ast.Call) and ((isinstance(node.func, ast.Name) and node.func.id == 'rx_filter') or
                                               (isinstance(node.func, ast.Attribute) and node.func.attr == 'rx_filter')):
                kws = [k.arg for k in node.keywords]
                if None in kws or len(node.args) != 2:
                    _bad('rx_filter call with *args/**kwargs in %s' % os.path.basename(path), node)
                for k in kws:
                    if k not in FLAG:
                        _bad('rx_filter call passes unknown flag %s' % k, node)
                sites.append((os.path.basename(path), node.lineno, kws))
    return sites


def t_send_message():
    from pyipmi.msgs import create_request_by_name, create_message
    from pyipmi.msgs import message as M
    req = create_request_by_name('SendMessage')
    fields = getattr(type(req), '__fields__', None)
    if not (isinstance(fields, tuple) and len(fields) == 2 and type(fields[0]) is M.Bitfield
            and fields[0].name == 'channel' and fields[0].length == 1 and type(fields[1]) is M.RemainingBytes):
        raise TieBroken('SendMessageReq is not (Bitfield channel[1], RemainingBytes)')
    pos = {}
    other = 0
    for b in fields[0]._bits:
        if b.name in ('number', 'tracking'):
            pos[b.name] = (b.offset, b._width)
        else:
            other |= ((b.default or 0) & (2 ** b._width - 1)) << b.offset
    if sorted(pos) != ['number', 'tracking']:
        raise TieBroken('SendMessageReq.channel has no number/tracking bits')
    rsp = create_message(req.netfn + 1, req.cmdid, None)
    rf = getattr(type(rsp), '__fields__', None)
    if not (isinstance(rf, tuple) and len(rf) == 2 and type(rf[0]) is M.CompletionCode
            and type(rf[1]) is M.RemainingBytes):
        raise TieBroken('SendMessageRsp is not (CompletionCode, RemainingBytes)')
    from pyipmi.msgs import constants
    return {'netfn': int(req.netfn), 'cmd': int(req.cmdid), 'number': pos['number'],
            'tracking': pos['tracking'], 'other': other,
            'const_cmd': int(constants.CMDID_SEND_MESSAGE), 'const_netfn': int(constants.NETFN_APP)}


def extract():
    try:
        tree = ast.parse(repo.read(SRC))
    except (IOError, SyntaxError) as e:
        raise TieBroken('cannot parse %s: %s' % (SRC, e))
    funcs = dict((n.name, n) for n in tree.body if isinstance(n, ast.FunctionDef))
    classes = dict((n.name, n) for n in tree.body if isinstance(n, ast.ClassDef))

    def method(cls, name):
        if cls not in classes:
            _bad('class %s missing' % cls)
        for n in classes[cls].body:
            if isinstance(n, ast.FunctionDef) and n.name == name:
                return n
        return None

    for f in ('checksum', 'rx_filter'):
        if f not in funcs:
            _bad('function %s missing' % f)
    init = method('IpmbHeader', '__init__')
    enc = method('IpmbHeaderReq', 'encode')
    dec = method('IpmbHeaderRsp', 'decode')
    rsp_enc = method('IpmbHeaderRsp', 'encode')
    from_req = method('IpmbHeaderRsp', 'from_req_header')
    if init is None or enc is None or dec is None or rsp_enc is None or from_req is None:
        _bad('IpmbHeader.__init__ / IpmbHeaderReq.encode / IpmbHeaderRsp.encode / .decode / .from_req_header missing')
    if method('IpmbHeaderRsp', '__init__') is not None:
        _bad('IpmbHeaderRsp overrides __init__')
    bases = [b.id for b in classes['IpmbHeaderRsp'].bases if isinstance(b, ast.Name)]
    if bases != ['IpmbHeader']:
        _bad('IpmbHeaderRsp bases %s' % bases)
    t_header_init(init)
    init_, step, ret = t_checksum(funcs['checksum'])
    req_bytes = t_req_encode(enc)
    rsp_bytes = t_req_encode(rsp_enc, 'IpmbHeaderRsp')
    rsp_from_req = t_from_req_header(from_req)
    rsp_fields, rsp_ignored = t_rsp_decode(dec)
    checks, defaults = t_rx_filter(funcs['rx_filter'])
    sites = t_call_sites()
    for fname, line, kws in sites:
        if 'rs_lun' in kws:
            raise TieBroken('%s:%d passes rs_lun= to rx_filter (the responder-LUN check is mandatory)' % (fname, line))
    return {'cksum': (init_, step, ret), 'req_bytes': req_bytes, 'rsp_bytes': rsp_bytes, 'rsp_from_req': rsp_from_req,
            'rsp_fields': rsp_fields,
            'rsp_ignored': rsp_ignored, 'checks': checks, 'defaults': defaults, 'sites': sites,
            'send': t_send_message(), 'recognition': t_recognition(funcs)}


def render(x):
    L = []
    L.append('/- GENERATED by harness/translate/ipmb.py from pyipmi/interfaces/ipmb.py (AST) and the live\n'
             '   SendMessage message classes of the working tree.  Do not edit: rewritten on every check run. -/')
    L.append('import PyIpmi.Model.IpmbExpr')
    L.append('namespace PyIpmi.Gen.IpmbFilter')
    L.append('open PyIpmi.Ipmb PyIpmi.Spec.Wire')
    L.append('')
    L.append('/-- `checksum(data)` -/')
    L.append('def cksum : CksumDef := ⟨%d, %s, %s⟩' % x['cksum'])
    L.append('')
    L.append('/-- `IpmbHeaderReq.encode`: the appended bytes, in order -/')
    L.append('def reqHeaderBytes : List Term := [\n  %s\n]' % ',\n  '.join(x['req_bytes']))
    L.append('')
    L.append('/-- `IpmbHeaderRsp.encode`: the appended bytes, in order -/')
    L.append('def rspHeaderBytes : List Term := [\n  %s\n]' % ',\n  '.join(x['rsp_bytes']))
    L.append('')
    L.append('/-- `IpmbHeaderRsp.from_req_header(req_header)`: attribute of the response header := expression over the\n'
             'REQUEST header (`.self f` stands for `req_header.<f>`) -/')
    L.append('def rspFromReq : List (Fld × Expr) := [\n  %s\n]' % ',\n  '.join(
        '(.%s, %s)' % fe for fe in x['rsp_from_req']))
    L.append('')
    L.append('/-- `IpmbHeaderRsp.decode`: attribute := expression over the received bytes -/')
    L.append('def rspHeaderFields : List (Fld × Expr) := [\n  %s\n]' % ',\n  '.join(
        '(.%s, %s)' % fe for fe in x['rsp_fields']))
    L.append('/-- bytes read by `IpmbHeaderRsp.decode` into attributes no check uses (`self.checksum`) -/')
    L.append('def rspIgnored : List Expr := [%s]' % ', '.join(x['rsp_ignored']))
    L.append('')
    L.append('/-- `rx_filter`: the `checks` list; `none` = always present, `some flag` = appended under `if flag:` -/')
    L.append('def rxChecks : List Check := [\n  %s\n]' % ',\n  '.join(
        '⟨%s, %s, %s⟩' % ('none' if g is None else '(some .%s)' % g, l, r) for g, l, r in x['checks']))
    d = x['defaults']
    L.append('/-- keyword defaults of `rx_filter` -/')
    L.append('def rxDefaults : Flags := { %s }' % ', '.join(
        '%s := %s' % (FLAG[k], 'true' if d[k] else 'false') for k in ('rq_sa', 'rs_sa', 'rq_lun', 'rs_lun', 'rq_seq')))
    L.append('/-- call sites of `rx_filter` in pyipmi/interfaces: %s -/' % '; '.join(
        '%s(%s)' % (f, ','.join(k)) for f, ln, k in x['sites']))
    L.append('def rxCallSites : Nat := %d' % len(x['sites']))
    s = x['send']
    L.append('')
    L.append('/-! Send Message (bridging, C09): ids and the channel byte of `SendMessageReq` -/')
    L.append('def sendMsgNetfn : Nat := %d' % s['netfn'])
    L.append('def sendMsgCmd : Nat := %d' % s['cmd'])
    L.append('/-- `constants.CMDID_SEND_MESSAGE`, `constants.NETFN_APP` (used by decode_bridged_message) -/')
    L.append('def constSendMsgCmd : Nat := %d' % s['const_cmd'])
    L.append('def constNetfnApp : Nat := %d' % s['const_netfn'])
    rn, rv = x['recognition']
    L.append('/-- how `decode_bridged_message` recognises a Send Message response (AST of its loop test and of\n'
             '`is_send_message_response`): the netFn (App + 1) is compared as well as the command id / both checksums\n'
             'are verified when the caller asks for it (`verify=True`, as Rmcp._send_and_receive does) -/')
    L.append('def recogNetfn : Bool := %s' % ('true' if rn else 'false'))
    L.append('def recogVerify : Bool := %s' % ('true' if rv else 'false'))
    L.append('/-- (offset, width) of `channel.number` and `channel.tracking`; OR of the other bits\' defaults -/')
    L.append('def chanNumber : Nat × Nat := (%d, %d)' % s['number'])
    L.append('def chanTracking : Nat × Nat := (%d, %d)' % s['tracking'])
    L.append('def chanOther : Nat := %d' % s['other'])
    L.append('')
    L.append('end PyIpmi.Gen.IpmbFilter')
    return '\n'.join(L) + '\n'


def generate():
    """Extract, write Gen/IpmbFilter.lean if changed, return the extracted description."""
    x = extract()
    lean.write_if_changed(OUT, render(x))
    return x
