"""T: the EXPRESSIONS of pyipmi/sdr.py (+ fields.TypeLengthString, fields._unpack6bitascii)
   ->  lean/PyIpmi/Gen/SdrExpr.lean      (C16: the parser)       generate('C16')
   ->  lean/PyIpmi/Gen/SensorExpr.lean   (C17: the conversion)   generate('C17')

The two outputs are independent (each contains its own translation of `_convert_complement`), so
a change of the conversion functions that leaves the grammar cannot break the tie of the parser
check and vice versa.

Every arithmetic / bit-manipulation expression of the SDR parser and of the sensor reading
conversion is re-translated from the AST of the working tree on every run: one Lean definition
per source statement that computes something, named `<function prefix>_<assigned name>` (with
`_<k>` appended when the name is assigned more than once in the function: k-th assignment).
Props/C16.lean and Props/C17.lean prove each of them equal to the expression the hand-written
model (Model/SdrParse.lean, Model/Sensor.lean, `Variant.intended`) uses at that place, so a
change of a mask, a shift, an operator, a constant, a precedence or of the variable an `if`
tests makes a theorem fail to build.

Expression grammar (anything else raises TieBroken - fail closed):

  e ::= <int literal, decimal or hex, >= 0>
      | <local name> | self.<attr> | <NAME of a module / class constant>   (inlined as literal)
      | <bytes>[<int>] | <bytes>[<name>]                  one byte of a declared byte sequence
      | <buffer>.pop_unsigned_int(<int>)                  a fresh input (the popped bytes)
      | e & e | e | e | e ^ e | e << e | e >> e | e + e | e - e | e * e | e / e
      | 10 ** e | - e | float(e) | self._convert_complement(e, e)
      | e <cmp> e        cmp in  < <= > >= == != is is-not   (is / is-not on ints read == / !=)
  `int(round(x))` is accepted only as the whole statement `x = int(round(x))`: an opaque cut,
  `x` becomes a fresh `Int` input of the statements that follow.

Statement grammar of a translated function body:

  t = e                       t a local or self.<attr>; a bare pop / alias / [] / {} emits nothing
  self.<attr>['k'] = <pop>    (layout only)
  if c: t = e  [elif c: ...]  conditional assignment chain, nested; merged into if-then-else
  if c: raise Exc(...)        guard  -> `<prefix>_guard_<n> : Bool`  (+ `_exc : String`)
  if <x> is None: return None
  if <name> & <lit>: self.<attr>.append('<str>')        -> `<prefix>_<attr>_flags`
  buffer = ByteBuffer(data[<int>:])                     -> `<prefix>_body_offset`
  self.<helper>(<buffer>.pop_slice(<int>)) | self.<helper>(<pop>) | self.<helper>(<buffer>)
  field = SdrTypeLengthString(data=<bytes>[lo:hi])      -> `<prefix>_field_lo/_hi`
  (TypeLengthString._from_data only) the final `if self.field_type == C [and self.<sdr flag>]: self.string = <decoder>
  elif … else …` with <decoder> one of: bytes(bytearray(self.raw)).decode('bcd+') | _unpack6bitascii(self.raw) |
  ''.join([chr(c) for c in self.raw]) | ''.join(self.<TABLE>[e] + self.<TABLE>[e] for b in self.raw)
                                                        -> `tls_decoders`, `tls_decoders_fru`, `tls_sdr_bcd_hi/_lo/_table`
  self.<attr> = <bytes>[lo:hi]                          -> `<prefix>_<attr>_lo/_hi`
  return <name> | return self.lin(e) -> `<prefix>_lin_arg` | return e -> `<prefix>_return`

Besides the definitions each output file carries: `<prefix>_layout` (what the function takes from
the buffer, in order, with sizes), `<prefix>_<attr>_flags` (mask, name), `inputs` (for every
definition the inputs it reads AS THE SOURCE WRITES THEM - `buffer[0]`, `m_tol = pop(1)`, `self.k2`,
`int(round(raw))`; binder names are invisible to theorems about the definitions, this table is
pinned by `gen_inputs`).  Module / class constants read off the AST are cross-checked against the
imported module (`check_live`).

Typing (Python ints are unbounded and signed; the Lean types say which range an expression can
take): literals, popped bytes and bytes are `Nat`; `&,|,^,<<,>>` of two `Nat`s are the `Nat`
operators; `+,*` keep the larger of the operand types (Nat < Int < Rat); `-` and unary `-` give
at least `Int`; `/` (true division, `from __future__ import division` is checked) and `10**e`
give `Rat` (`Sensor.pow10`, exact: the reciprocal for a negative exponent); `float(e)` is the
cast to `Rat`; an `Int` left operand of `& | ^` uses `PyInt.pyAnd/pyOr/pyXor` (two's-complement
semantics of Python); a shift count of type `Int` is `.toNat` (Python raises ValueError for a
negative count: outside the domain).  The types of the inputs of the two conversion functions
(`raw : Nat` a reading byte, `value : Rat`, `self.m/b/k1/k2 : Int`, `self.analog_data_format`,
`self.linearization : Nat`) are declared in FUNCS below: they are the domain the model covers.
"""
import ast
import os
import re

from ..lib import lean, repo
from ..lib.lean import TieBroken

RANK = {'N': 0, 'Z': 1, 'Q': 2}
LEAN_T = {'N': 'Nat', 'Z': 'Int', 'Q': 'Rat', 'B': 'Bool'}
LEAN_KW = {'fun', 'end', 'open', 'at', 'from', 'in', 'do', 'then', 'else', 'if', 'let', 'have', 'show', 'by',
           'match', 'with', 'where', 'structure', 'instance', 'theorem', 'def', 'example', 'import', 'namespace',
           'section', 'variable', 'universe', 'Type', 'Prop', 'Sort', 'return', 'for', 'class', 'deriving',
           'pow10', 'pyXor', 'pyOr', 'pyAnd', 'convertComplement'}
BITOP = {ast.BitAnd: '&', ast.BitOr: '|', ast.BitXor: '^', ast.LShift: '<<', ast.RShift: '>>'}
ARITH = {ast.Add: '+', ast.Sub: '-', ast.Mult: '*', ast.Div: '/'}
LEAN_OP = {'&': '&&&', '|': '|||', '^': '^^^', '<<': '<<<', '>>': '>>>', '+': '+', '-': '-', '*': '*', '/': '/'}
PY_INT_OP = {'&': 'pyAnd', '|': 'pyOr', '^': 'pyXor'}
CMP = {ast.Lt: '<', ast.LtE: '≤', ast.Gt: '>', ast.GtE: '≥', ast.Eq: '=', ast.NotEq: '≠', ast.Is: '=', ast.IsNot: '≠'}


def _join(a, b):
    return a if RANK[a] >= RANK[b] else b


class X(object):
    """Typed expression node."""
    __slots__ = ('k', 't', 'a', 'v')

    def __init__(self, k, t, a=(), v=None):
        self.k, self.t, self.a, self.v = k, t, list(a), v


class Def(object):
    def __init__(self, target, body, t, doc, params=None, kind='value'):
        self.target = target      # assigned name (without prefix)
        self.body = body          # X | str (already rendered Lean term)
        self.t = t
        self.doc = doc
        self.kind = kind
        self.params = params      # [(name, type)]
        self.name = None
        self.ver = None


# ---------------------------------------------------------------------------------------------
# rendering

def _free(node, acc):
    if node.k == 'var':
        if (node.v, node.t) not in acc:
            for n, t in acc:
                if n == node.v and t != node.t:
                    raise TieBroken('sdrexpr: input %s is used at two types (%s, %s)' % (n, t, node.t))
            acc.append((node.v, node.t))
    elif node.k == 'app':
        for n, t in node.v.params:
            _free(X('var', t, v=n), acc)
    for c in node.a:
        _free(c, acc)
    return acc


def _ident(n):
    return '«%s»' % n if n in LEAN_KW else n


def _ann(s, t):
    return '(%s : %s)' % (s, LEAN_T[t])


def render(n, want=None):
    """Lean term of type `want` (>= the node's own type) for node n."""
    want = want or n.t
    if n.t == 'B' or want == 'B':
        if n.t != 'B' or want != 'B':
            raise TieBroken('sdrexpr: a comparison is used as a number (or the reverse)')
        return 'decide (%s)' % prop(n)
    if RANK[want] < RANK[n.t]:
        raise TieBroken('sdrexpr: internal: %s wanted at the smaller type %s' % (n.k, want))
    if n.k == 'lit':
        return n.v
    if n.k == 'neg' and n.a[0].k == 'lit':
        return '(-%s)' % n.a[0].v
    if want != n.t:
        if n.k == 'var':
            return _ann(_ident(n.v), want)
        if n.k == 'cast':
            return render(n.a[0], want) if RANK[n.a[0].t] <= RANK[want] else _ann(render(n), want)
        return _ann(_ann(_strip(render(n)), n.t), want)
    if n.k == 'var':
        return _ident(n.v)
    if n.k == 'app':
        return '(%s)' % ' '.join([n.v.name] + [_ident(p) for p, _ in n.v.params]) if n.v.params else n.v.name
    if n.k == 'call':
        return '(%s %s)' % (n.v.name, ' '.join(_atom(render(a, pt)) for a, (_, pt) in zip(n.a, n.v.params)))
    if n.k == 'cast':
        return render(n.a[0], n.t)
    if n.k == 'neg':
        return '(-%s)' % _atom(render(n.a[0], n.t))
    if n.k == 'pow10':
        return '(pow10 %s)' % _atom(render(n.a[0], 'Z'))
    if n.k == 'ite':
        return '(if %s then %s else %s)' % (prop(n.a[0]), render(n.a[1], n.t), render(n.a[2], n.t))
    if n.k == 'bin':
        op, (l, r) = n.v, n.a
        if op in PY_INT_OP and n.t == 'Z':
            return '(%s %s %s)' % (PY_INT_OP[op], _atom(render(l, 'Z')), _atom(render(r, 'N')))
        if op in ('<<', '>>'):
            cnt = render(r, 'N') if r.t == 'N' else '(%s).toNat' % _strip(render(r, 'Z'))
            return '(%s %s %s)' % (render(l, 'N'), LEAN_OP[op], cnt)
        if op in BITOP.values():
            return '(%s %s %s)' % (render(l, 'N'), LEAN_OP[op], render(r, 'N'))
        return '(%s %s %s)' % (render(l, n.t), LEAN_OP[op], render(r, n.t))
    raise TieBroken('sdrexpr: internal: cannot render %s' % n.k)


def _enclosed(s):
    """s is one parenthesised term."""
    if not (s.startswith('(') and s.endswith(')')):
        return False
    d = 0
    for i, c in enumerate(s):
        d += c == '('
        d -= c == ')'
        if d == 0 and i < len(s) - 1:
            return False
    return True


def _strip(s):
    """Drop one pair of outer parentheses if they enclose the whole term (and are not needed by a
    type ascription)."""
    if not _enclosed(s):
        return s
    d = 0
    for i, c in enumerate(s[1:-1]):
        d += c == '('
        d -= c == ')'
        if d == 0 and s[1:-1][i:i + 3] == ' : ':
            return s
    return s[1:-1]


def _atom(s):
    return s if re.match(r'^[\w«».]+$', s) or _enclosed(s) else '(%s)' % s


def prop(n):
    """Lean proposition (decidable) for a condition node."""
    if n.k == 'cmp':
        l, r = n.a
        t = _join(l.t, r.t)
        return '%s %s %s' % (render(l, t), n.v, render(r, t))
    if n.k == 'truthy':
        return '%s ≠ 0' % render(n.a[0])
    raise TieBroken('sdrexpr: internal: not a condition: %s' % n.k)


# ---------------------------------------------------------------------------------------------
# one function body

class Exec(object):
    def __init__(self, mod, cls, fn, cfg, calls):
        self.mod = mod              # Module (source text, module constants)
        self.cls = cls              # ast.ClassDef | None
        self.fn = fn
        self.cfg = cfg
        self.prefix = cfg['prefix']
        self.calls = calls          # python method name -> callable Def
        self.env = {}
        self.defs = []
        self.layout = []            # (target, bytes | None, what)
        self.flags = {}             # attr -> (tested input, [(mask text, string)])
        self.containers = set()
        self.buffers = set(cfg.get('buffers', ()))
        self.bytes_ = set(cfg.get('bytes', ()))
        self.guards = 0
        self.ret = None
        self.none_guard = False
        self.cuts = []
        self._pop_target = None
        self._pop_count = 0
        self._in_cond = False
        self.origin = {}            # binder name of an input -> how the source writes it
        args = [a.arg for a in fn.args.args]
        self.args = args
        for a in args:
            if a == 'self':
                continue
            t = cfg.get('params', {}).get(a)
            if t:
                self.env[a] = self.input(a, t, a)

    # ---- helpers
    def input(self, name, t, origin):
        """An input of the function: binder `name`, written `origin` in the source."""
        if self.origin.setdefault(name, origin) != origin:
            raise TieBroken('%s %s: inputs %s and %s would share the binder name %s' % (
                self.mod.rel, self.fn.name, self.origin[name], origin, name))
        return X('var', t, v=name)

    def bad(self, what, node=None):
        raise TieBroken('%s %s (line %s): %s%s' % (
            self.mod.rel, self.fn.name, getattr(node, 'lineno', '?'), what,
            (': ' + ast.dump(node)[:160]) if node is not None else ''))

    def src(self, node):
        s = ast.get_source_segment(self.mod.text, node) or ''
        return ' '.join(s.split())

    def key(self, node):
        if isinstance(node, ast.Name):
            return node.id
        if isinstance(node, ast.Attribute) and isinstance(node.value, ast.Name) and node.value.id == 'self':
            return 'self.' + node.attr
        return None

    def is_pop(self, node):
        """buffer.pop_unsigned_int(<int>) -> n | None"""
        if isinstance(node, ast.Call) and isinstance(node.func, ast.Attribute) and \
                node.func.attr == 'pop_unsigned_int' and isinstance(node.func.value, ast.Name) and \
                node.func.value.id in self.buffers and len(node.args) == 1 and not node.keywords and \
                isinstance(node.args[0], ast.Constant) and isinstance(node.args[0].value, int):
            return node.args[0].value
        return None

    def lit(self, node, value):
        s = self.src(node)
        if not re.match(r'^(0[xX][0-9a-fA-F]+|[0-9]+)$', s) or int(s, 0) != value:
            s = str(value)
        return X('lit', 'N', v=s)

    # ---- expressions
    def tr(self, node):
        if isinstance(node, ast.Constant):
            if isinstance(node.value, bool) or not isinstance(node.value, int) or node.value < 0:
                self.bad('constant outside the grammar', node)
            return self.lit(node, node.value)
        k = self.key(node)
        if k is not None:
            if k in self.env:
                v = self.env[k]
                if v.k == 'container':
                    self.bad('a container is used in an expression', node)
                return v
            if k.startswith('self.'):
                a = k[5:]
                t = self.cfg.get('attrs', {}).get(a)
                if t:
                    self.env[k] = self.input(a, t, k)
                    return self.env[k]
                c = self.mod.class_const(self.cls, a)
                if c is not None:
                    self.mod.check_live(self.cls.name, a, c)
                    return X('lit', 'N', v=str(c))
                self.bad('attribute read before it is assigned (and not a declared input)', node)
            c = self.mod.consts.get(k)
            if c is not None:
                self.mod.check_live(None, k, c)
                return X('lit', 'N', v=str(c))
            self.bad('unknown name', node)
        if isinstance(node, ast.Subscript):
            if isinstance(node.value, ast.Name) and node.value.id in self.bytes_:
                ix = node.slice
                if isinstance(ix, ast.Constant) and isinstance(ix.value, int) and not isinstance(ix.value, bool) \
                        and ix.value >= 0:
                    return self.input('%s%d' % (node.value.id, ix.value), 'N', '%s[%d]' % (node.value.id, ix.value))
                if isinstance(ix, ast.Name) and ix.id in self.env and self.env[ix.id].k == 'var':
                    return self.input('%s_at_%s' % (node.value.id, ix.id), 'N', '%s[%s]' % (node.value.id, ix.id))
            self.bad('subscript outside the grammar', node)
        if isinstance(node, ast.UnaryOp) and isinstance(node.op, ast.USub):
            x = self.tr(node.operand)
            if x.t == 'B':
                self.bad('minus of a comparison', node)
            return X('neg', _join(x.t, 'Z'), [x])
        if isinstance(node, ast.BinOp):
            return self.binop(node)
        if isinstance(node, ast.Compare):
            return self.cmp(node)
        if isinstance(node, ast.Call):
            n = self.is_pop(node)
            if n is not None:
                if self._in_cond:
                    self.bad('pop inside a conditional', node)
                self._pop_count += 1
                base = (self._pop_target or 'anon') + '_raw'
                name = base if self._pop_count == 1 else '%s%d' % (base, self._pop_count)
                self.layout.append((self._pop_target or 'anon', n, 'pop'))
                return self.input(name, 'N', 'pop(%d)' % n)
            f = node.func
            if isinstance(f, ast.Name) and f.id == 'float' and len(node.args) == 1 and not node.keywords:
                x = self.tr(node.args[0])
                if x.t == 'B':
                    self.bad('float() of a comparison', node)
                return X('cast', 'Q', [x])
            if isinstance(f, ast.Attribute) and isinstance(f.value, ast.Name) and f.value.id == 'self' and \
                    f.attr in self.calls and not node.keywords:
                d = self.calls[f.attr]
                if len(node.args) != len(d.params):
                    self.bad('call of %s with an unexpected number of arguments' % f.attr, node)
                args = [self.tr(a) for a in node.args]
                for a, (pn, pt) in zip(args, d.params):
                    if a.t == 'B' or RANK[a.t] > RANK[pt]:
                        self.bad('argument %s of %s is outside the declared domain %s' % (pn, f.attr, LEAN_T[pt]), node)
                return X('call', d.t, args, d)
            self.bad('call outside the grammar', node)
        self.bad('expression outside the grammar', node)

    def binop(self, node):
        l, r = self.tr(node.left), self.tr(node.right)
        if l.t == 'B' or r.t == 'B':
            self.bad('arithmetic on a comparison', node)
        ty = type(node.op)
        if ty in BITOP:
            op = BITOP[ty]
            if op in ('<<', '>>'):
                if l.t != 'N' or r.t == 'Q':
                    self.bad('shift of a possibly negative / non-integer value', node)
                return X('bin', 'N', [l, r], op)
            if l.t == 'N' and r.t == 'N':
                return X('bin', 'N', [l, r], op)
            if l.t == 'N' and r.t == 'Z':
                l, r = r, l
            if l.t == 'Z' and r.t == 'N':
                return X('bin', 'Z', [l, r], op)
            self.bad('bit operator on operands outside the grammar (%s %s %s)' % (l.t, op, r.t), node)
        if ty in ARITH:
            op = ARITH[ty]
            t = _join(l.t, r.t)
            if op == '-':
                t = _join(t, 'Z')
            if op == '/':
                t = 'Q'
            return X('bin', t, [l, r], op)
        if ty is ast.Pow:
            if not (l.k == 'lit' and int(l.v, 0) == 10) or r.t == 'Q':
                self.bad('power other than 10 ** <integer expression>', node)
            return X('pow10', 'Q', [r])
        self.bad('operator outside the grammar', node)

    def cmp(self, node):
        if len(node.ops) != 1 or type(node.ops[0]) not in CMP:
            self.bad('comparison outside the grammar', node)
        l, r = self.tr(node.left), self.tr(node.comparators[0])
        if l.t == 'B' or r.t == 'B':
            self.bad('comparison of comparisons', node)
        if type(node.ops[0]) in (ast.Is, ast.IsNot) and not (l.t == 'N' and r.t == 'N'):
            self.bad('is / is not on something that is not a small non-negative int', node)
        return X('cmp', 'B', [l, r], CMP[type(node.ops[0])])

    def cond(self, node):
        x = self.tr(node)
        if x.t == 'B':
            return x
        if x.t == 'Q':
            self.bad('truth value of a non-integer', node)
        return X('truthy', 'B', [x])

    # ---- definitions
    def emit(self, target, body, node, kind='value', t=None, doc=None):
        t = t or body.t
        d = Def(target, body, t, doc or ('`%s`  (%s:%d)' % (self.src(node), self.mod.rel, node.lineno)), kind=kind)
        d.params = _free(body, []) if isinstance(body, X) else []
        names = [p for p, _ in d.params]
        if len(set(names)) != len(names):
            self.bad('two inputs of one definition share a name', node)
        self.defs.append(d)
        return d

    def bind(self, key, d):
        self.env[key] = X('app', d.t, v=d)

    def tname(self, key):
        return key[5:] if key.startswith('self.') else key

    # ---- statements
    def run(self, body=None):
        body = list(self.fn.body if body is None else body)
        if body and isinstance(body[0], ast.Expr) and isinstance(body[0].value, ast.Constant) and \
                isinstance(body[0].value.value, str):
            body = body[1:]
        for i, s in enumerate(body):
            if self.ret is not None:
                self.bad('statement after return', s)
            self.stmt(s)
        return self

    def stmt(self, s):
        self._pop_target, self._pop_count = None, 0
        if isinstance(s, ast.Assign):
            return self.assign(s)
        if isinstance(s, ast.If):
            return self.if_(s)
        if isinstance(s, ast.Expr):
            return self.expr_stmt(s)
        if isinstance(s, ast.Return):
            return self.return_(s)
        self.bad('statement outside the grammar', s)

    def slice_defs(self, name, sub, node):
        """<bytes>[lo:hi] -> definitions <prefix>_<name>_lo / _hi"""
        if not (isinstance(sub, ast.Subscript) and isinstance(sub.value, ast.Name) and
                (sub.value.id in self.bytes_ or sub.value.id in self.buffers) and isinstance(sub.slice, ast.Slice)
                and sub.slice.step is None and sub.slice.upper is not None):
            self.bad('slice outside the grammar', node)
        lo = self.tr(sub.slice.lower) if sub.slice.lower is not None else X('lit', 'N', v='0')
        hi = self.tr(sub.slice.upper)
        if lo.t != 'N' or hi.t != 'N':
            self.bad('slice bound that may be negative', node)
        self.emit(name + '_lo', lo, node)
        self.emit(name + '_hi', hi, node)

    def assign(self, s):
        if len(s.targets) != 1:
            self.bad('multiple assignment', s)
        tg = s.targets[0]
        # self.threshold['unr'] = buffer.pop_unsigned_int(1)
        if isinstance(tg, ast.Subscript):
            k = self.key(tg.value)
            n = self.is_pop(s.value)
            if k and k in self.env and self.env[k].k == 'container' and n is not None and \
                    isinstance(tg.slice, ast.Constant) and isinstance(tg.slice.value, str):
                self.layout.append(('%s.%s' % (self.tname(k), tg.slice.value), n, 'pop'))
                return
            self.bad('subscript assignment outside the grammar', s)
        k = self.key(tg)
        if k is None:
            self.bad('assignment target outside the grammar', s)
        name = self.tname(k)
        v = s.value
        # buffer = ByteBuffer(data[5:])
        if isinstance(v, ast.Call) and isinstance(v.func, ast.Name) and v.func.id == 'ByteBuffer':
            ok = isinstance(tg, ast.Name) and len(v.args) == 1 and not v.keywords and \
                isinstance(v.args[0], ast.Subscript) and isinstance(v.args[0].value, ast.Name) and \
                v.args[0].value.id in self.args and isinstance(v.args[0].slice, ast.Slice) and \
                v.args[0].slice.upper is None and v.args[0].slice.step is None and \
                isinstance(v.args[0].slice.lower, ast.Constant) and isinstance(v.args[0].slice.lower.value, int)
            if not ok:
                self.bad('ByteBuffer(...) outside the grammar', s)
            self.buffers.add(tg.id)
            self.emit('body_offset', self.lit(v.args[0].slice.lower, v.args[0].slice.lower.value), s)
            return
        # field = SdrTypeLengthString(data=buffer[0:1+self.device_id_string_length])
        if isinstance(v, ast.Call) and isinstance(v.func, ast.Name) and v.func.id == 'SdrTypeLengthString':
            if not (isinstance(tg, ast.Name) and not v.args and len(v.keywords) == 1 and v.keywords[0].arg == 'data'):
                self.bad('SdrTypeLengthString(...) outside the grammar', s)
            self.slice_defs(tg.id, v.keywords[0].value, s)
            self.env[tg.id] = X('container', 'N', v='field')
            return
        # self.device_id_string = field.string
        if isinstance(v, ast.Attribute) and isinstance(v.value, ast.Name) and v.value.id in self.env and \
                self.env[v.value.id].k == 'container' and self.env[v.value.id].v == 'field' and v.attr == 'string':
            self.layout.append((name, None, 'field.string'))
            return
        # self.raw = data[offset+1:offset+1+self.length]
        if isinstance(v, ast.Subscript) and isinstance(v.slice, ast.Slice):
            self.slice_defs(name, v, s)
            self.env[k] = X('container', 'N', v='slice')
            return
        # containers
        if (isinstance(v, ast.List) and not v.elts) or (isinstance(v, ast.Dict) and not v.keys):
            self.env[k] = X('container', 'N', v='list' if isinstance(v, ast.List) else 'dict')
            self.containers.add(name)
            return
        # x = int(round(x)) : opaque cut
        if isinstance(v, ast.Call) and isinstance(v.func, ast.Name) and v.func.id == 'int':
            ok = len(v.args) == 1 and not v.keywords and isinstance(v.args[0], ast.Call) and \
                isinstance(v.args[0].func, ast.Name) and v.args[0].func.id == 'round' and \
                len(v.args[0].args) == 1 and not v.args[0].keywords and self.key(v.args[0].args[0]) == k and \
                k in self.env and self.env[k].k == 'app' and self.env[k].t == 'Q'
            if not ok:
                self.bad('int(...) other than `x = int(round(x))` on a computed non-integer x', s)
            self.cuts.append((name, self.env[k].v, s.lineno))
            self.env[k] = self.input(name, 'Z', 'int(round(%s))' % k)
            return
        # a bare pop: the target is an input from here on
        n = self.is_pop(v)
        if n is not None:
            self.layout.append((name, n, 'pop'))
            self.env[k] = self.input(name, 'N', '%s = pop(%d)' % (k, n))
            return
        self._pop_target = name
        x = self.tr(v)
        if x.k in ('var', 'app'):           # alias
            self.env[k] = x
            return
        self.bind(k, self.emit(name, x, s))

    def assigned_in(self, stmts, env):
        """Conditional assignment block: only `t = e` and nested `if`; updates env in place."""
        for s in stmts:
            if isinstance(s, ast.Assign) and len(s.targets) == 1 and self.key(s.targets[0]) is not None:
                if self.is_pop(s.value) is not None:
                    self.bad('pop inside a conditional', s)
                saved, self.env = self.env, env
                try:
                    env[self.key(s.targets[0])] = self.tr(s.value)
                finally:
                    self.env = saved
            elif isinstance(s, ast.If):
                self.merge_if(s, env)
            else:
                self.bad('statement outside the grammar inside a conditional assignment', s)

    def merge_if(self, s, env):
        saved, self.env = self.env, env
        try:
            c = self.cond(s.test)
        finally:
            self.env = saved
        et, ef = dict(env), dict(env)
        self.assigned_in(s.body, et)
        self.assigned_in(s.orelse, ef)
        for k in list(et) + [k for k in ef if k not in et]:
            a, b, old = et.get(k), ef.get(k), env.get(k)
            if a is old and b is old:
                continue
            if a is None or b is None:
                self.bad('%s is assigned on one branch only and has no value before' % k, s)
            if a.t == 'B' or b.t == 'B' or a.k == 'container' or b.k == 'container':
                self.bad('conditional assignment of a non-number', s)
            env[k] = X('ite', _join(a.t, b.t), [c, a, b])

    def if_(self, s):
        # if x is None: return None
        t = s.test
        if isinstance(t, ast.Compare) and len(t.ops) == 1 and isinstance(t.ops[0], ast.Is) and \
                isinstance(t.comparators[0], ast.Constant) and t.comparators[0].value is None:
            ok = len(s.body) == 1 and isinstance(s.body[0], ast.Return) and not s.orelse and \
                isinstance(s.body[0].value, ast.Constant) and s.body[0].value.value is None and \
                isinstance(t.left, ast.Name) and t.left.id in self.args
            if not ok:
                self.bad('`is None` test other than `if <arg> is None: return None`', s)
            self.none_guard = True
            return
        # if c: raise Exc(...)
        if len(s.body) == 1 and isinstance(s.body[0], ast.Raise) and not s.orelse:
            e = s.body[0].exc
            f = e.func if isinstance(e, ast.Call) else e
            exc = f.id if isinstance(f, ast.Name) else f.attr if isinstance(f, ast.Attribute) else None
            if exc is None:
                self.bad('raise outside the grammar', s)
            self.guards += 1
            self.emit('guard_%d' % self.guards, self.cond(t), s, kind='guard', t='B',
                      doc='`if %s: raise %s`  (%s:%d)' % (self.src(t), exc, self.mod.rel, s.lineno))
            self.emit('guard_%d_exc' % self.guards, '"%s"' % exc, s, kind='const', t='S')
            return
        # if name & lit: self.attr.append('str')
        if len(s.body) == 1 and isinstance(s.body[0], ast.Expr) and not s.orelse:
            c = s.body[0].value
            ok = isinstance(c, ast.Call) and isinstance(c.func, ast.Attribute) and c.func.attr == 'append' and \
                self.key(c.func.value) in self.env and self.env[self.key(c.func.value)].k == 'container' and \
                len(c.args) == 1 and isinstance(c.args[0], ast.Constant) and isinstance(c.args[0].value, str) and \
                isinstance(t, ast.BinOp) and isinstance(t.op, ast.BitAnd) and isinstance(t.left, ast.Name) and \
                isinstance(t.right, ast.Constant) and isinstance(t.right.value, int)
            if ok:
                x = self.tr(t.left)
                if x.k != 'var':
                    self.bad('flag test on something that is not a popped byte', s)
                attr = self.tname(self.key(c.func.value))
                cur = self.flags.setdefault(attr, (x.v, []))
                if cur[0] != x.v:
                    self.bad('flags of %s test two different bytes' % attr, s)
                cur[1].append((self.lit(t.right, t.right.value).v, c.args[0].value))
                return
        # conditional assignment chain
        env = dict(self.env)
        self._in_cond = True
        try:
            self.merge_if(s, env)
        finally:
            self._in_cond = False
        changed = [k for k in env if env[k] is not self.env.get(k)]
        if not changed:
            self.bad('if statement that assigns nothing', s)
        for k in changed:
            d = self.emit(self.tname(k), env[k], s,
                          doc='`if %s: … %s = …`  (%s:%d-%d)' % (self.src(t), k, self.mod.rel, s.lineno,
                                                                 getattr(s, 'end_lineno', s.lineno)))
            self.bind(k, d)

    def expr_stmt(self, s):
        c = s.value
        ok = isinstance(c, ast.Call) and isinstance(c.func, ast.Attribute) and isinstance(c.func.value, ast.Name) and \
            c.func.value.id == 'self' and c.func.attr in self.cfg.get('helpers', ()) and len(c.args) == 1 and \
            not c.keywords
        if not ok:
            self.bad('expression statement outside the grammar', s)
        a = c.args[0]
        n = self.is_pop(a)
        if n is not None:
            self.layout.append((c.func.attr, n, 'helper(pop)'))
            return
        if isinstance(a, ast.Call) and isinstance(a.func, ast.Attribute) and a.func.attr == 'pop_slice' and \
                isinstance(a.func.value, ast.Name) and a.func.value.id in self.buffers and len(a.args) == 1 and \
                isinstance(a.args[0], ast.Constant) and isinstance(a.args[0].value, int) and not a.keywords:
            self.layout.append((c.func.attr, a.args[0].value, 'helper(slice)'))
            return
        if isinstance(a, ast.Name) and a.id in self.buffers:
            self.layout.append((c.func.attr, None, 'helper(rest)'))
            return
        self.bad('helper call outside the grammar', s)

    def return_(self, s):
        v = s.value
        if v is None:
            self.bad('bare return', s)
        if isinstance(v, ast.Call) and isinstance(v.func, ast.Attribute) and self.key(v.func) == 'self.lin' and \
                len(v.args) == 1 and not v.keywords:
            d = self.emit('lin_arg', self.tr(v.args[0]), s)
            self.ret = X('app', d.t, v=d)
            return
        x = self.tr(v)
        if x.k not in ('var', 'app'):
            d = self.emit('return', x, s)
            x = X('app', d.t, v=d)
        self.ret = x


# ---------------------------------------------------------------------------------------------
# _unpack6bitascii: for i in range(0, len(data), 3): d = data[i:i+3]; string += chr(e) [if len(d) > k: ...]

def _sixbit(mod, fn):
    ex = Exec(mod, None, fn, {'prefix': 'sixbit', 'bytes': ['d']}, {})
    body = [s for s in fn.body if not (isinstance(s, ast.Expr) and isinstance(s.value, ast.Constant))]
    ok = len(body) == 3 and isinstance(body[0], ast.Assign) and isinstance(body[1], ast.For) and \
        isinstance(body[2], ast.Return) and isinstance(body[2].value, ast.Name)
    if not ok:
        ex.bad('function body is not `string = ""; for …; return string`')
    acc = body[2].value.id
    loop = body[1]
    it = loop.iter
    ok = isinstance(loop.target, ast.Name) and not loop.orelse and isinstance(it, ast.Call) and \
        isinstance(it.func, ast.Name) and it.func.id == 'range' and len(it.args) == 3 and \
        isinstance(it.args[0], ast.Constant) and it.args[0].value == 0 and \
        isinstance(it.args[2], ast.Constant) and isinstance(it.args[2].value, int) and \
        isinstance(it.args[1], ast.Call) and isinstance(it.args[1].func, ast.Name) and it.args[1].func.id == 'len'
    if not ok:
        ex.bad('loop is not `for i in range(0, len(data), <step>)`', loop)
    step = it.args[2].value
    i = loop.target.id
    stmts = list(loop.body)
    d0 = stmts[0] if stmts else None
    ok = isinstance(d0, ast.Assign) and isinstance(d0.targets[0], ast.Name) and d0.targets[0].id == 'd' and \
        isinstance(d0.value, ast.Subscript) and isinstance(d0.value.slice, ast.Slice) and \
        isinstance(d0.value.slice.lower, ast.Name) and d0.value.slice.lower.id == i and \
        isinstance(d0.value.slice.upper, ast.BinOp) and isinstance(d0.value.slice.upper.op, ast.Add) and \
        isinstance(d0.value.slice.upper.left, ast.Name) and d0.value.slice.upper.left.id == i and \
        isinstance(d0.value.slice.upper.right, ast.Constant) and d0.value.slice.upper.right.value == step
    if not ok:
        ex.bad('group is not `d = data[i:i+<step>]`', d0 or loop)
    chars = []          # (minimal group length, Def)

    def walk(block, need):
        for s in block:
            if isinstance(s, ast.AugAssign) and isinstance(s.op, ast.Add) and isinstance(s.target, ast.Name) and \
                    s.target.id == acc and isinstance(s.value, ast.Call) and isinstance(s.value.func, ast.Name) and \
                    s.value.func.id == 'chr' and len(s.value.args) == 1:
                x = ex.tr(s.value.args[0])
                if x.t != 'N':
                    ex.bad('character code that may be negative', s)
                used = [int(n[1:]) for n, _ in _free(x, [])]
                if any(u >= need for u in used):
                    ex.bad('character %d reads d[%d] without a length test' % (len(chars), max(used)), s)
                chars.append((need, ex.emit('char_%d' % len(chars), x, s)))
            elif isinstance(s, ast.If) and not s.orelse and isinstance(s.test, ast.Compare) and \
                    len(s.test.ops) == 1 and isinstance(s.test.ops[0], ast.Gt) and \
                    isinstance(s.test.left, ast.Call) and isinstance(s.test.left.func, ast.Name) and \
                    s.test.left.func.id == 'len' and isinstance(s.test.left.args[0], ast.Name) and \
                    s.test.left.args[0].id == 'd' and isinstance(s.test.comparators[0], ast.Constant) and \
                    isinstance(s.test.comparators[0].value, int):
                walk(s.body, s.test.comparators[0].value + 1)
            else:
                ex.bad('statement outside the grammar in the 6-bit loop', s)
    walk(stmts[1:], 1)
    ex.emit('group', X('lit', 'N', v=str(step)), loop, doc='bytes per group: `range(0, len(data), %d)`' % step)
    ex.emit('chars_need', '[%s]' % ', '.join(str(n) for n, _ in chars), loop, kind='const', t='LN',
            doc='character k of a group is produced when the group has at least this many bytes')
    return ex


def _sdr_flag(ex):
    """The attribute that carries the `sdr` argument of TypeLengthString.__init__ into _from_data, or None.
    Accepted only in this form (anything else: TieBroken when a decoder branch tests an attribute):
      TypeLengthString.__init__(self, …, sdr=False): first statement `self.<flag> = sdr`, before _from_data is called;
      SdrTypeLengthString.__init__: `super(SdrTypeLengthString, self).__init__(data, sdr=True)` and nothing else."""
    init = ex.mod.fn(ex.cls.body, '__init__', ex.cls.name)
    names = [a.arg for a in init.args.args]
    if 'sdr' not in names:
        return None
    dflt = dict(zip(names[len(names) - len(init.args.defaults):], init.args.defaults)).get('sdr')
    if not (isinstance(dflt, ast.Constant) and dflt.value is False):
        ex.bad('TypeLengthString.__init__: parameter sdr does not default to False', init)
    body = [b for b in init.body if not (isinstance(b, ast.Expr) and isinstance(b.value, ast.Constant))]
    s0 = body[0] if body else None
    if not (isinstance(s0, ast.Assign) and len(s0.targets) == 1 and (ex.key(s0.targets[0]) or '').startswith('self.') and
            isinstance(s0.value, ast.Name) and s0.value.id == 'sdr'):
        return None
    flag = ex.key(s0.targets[0])[5:]
    sub = ex.mod.cls('SdrTypeLengthString')
    sinit = ex.mod.fn(sub.body, '__init__', 'SdrTypeLengthString')
    sbody = [b for b in sinit.body if not (isinstance(b, ast.Expr) and isinstance(b.value, ast.Constant))]
    src = ' '.join(ex.src(b) for b in sbody)
    if not re.match(r'^super\(SdrTypeLengthString, self\)\.__init__\(data, sdr=True\)$', src):
        ex.bad('SdrTypeLengthString.__init__ does not pass sdr=True (and only that): %s' % src[:120], sinit)
    if [getattr(b, 'id', None) for b in sub.bases] != [ex.cls.name]:
        ex.bad('SdrTypeLengthString is not derived from TypeLengthString alone', sub)
    return flag


def _tls_dispatch(ex, s):
    """if self.field_type == C [and self.<sdr flag>]: self.string = <decoder> elif … else: chr
    Emits the decoder table of the SDR path (`sdr=True`: a test of the flag is true) and of the FRU path
    (`sdr=False`: branches that test the flag are skipped); first match wins (List.lookup)."""
    flag = _sdr_flag(ex)
    table, table_fru, node = [], [], s
    while True:
        t = node.test
        sdr_only = False
        if isinstance(t, ast.BoolOp) and isinstance(t.op, ast.And) and len(t.values) == 2 and flag is not None and \
                ex.key(t.values[1]) == 'self.' + flag:
            sdr_only = True
            t = t.values[0]
        ok = isinstance(t, ast.Compare) and len(t.ops) == 1 and isinstance(t.ops[0], ast.Eq) and \
            ex.key(t.left) == 'self.field_type'
        if not ok:
            ex.bad('string decoding is not selected by `self.field_type == <constant> [and self.<sdr flag>]`', node)
        c = ex.tr(t.comparators[0])
        if c.k != 'lit':
            ex.bad('field type compared with a non-constant', node)
        kind = _tls_kind(ex, node.body)
        table.append((int(c.v, 0), kind))
        if not sdr_only:
            table_fru.append((int(c.v, 0), kind))
        if len(node.orelse) == 1 and isinstance(node.orelse[0], ast.If):
            node = node.orelse[0]
            continue
        dflt = _tls_kind(ex, node.orelse)
        break
    ex.emit('decoders', '[%s]' % ', '.join('(%d, %d)' % p for p in table), s, kind='const', t='LNN',
            doc='`if self.field_type == …`, first match wins, on the SDR path (`SdrTypeLengthString`: sdr=True): field type ↦ '
                'decoder (0 chr of every byte, 1 the bcd+ codec = utils.BCD_MAP, 2 6-bit packed, 3 the BCD plus table '
                'of the class indexed by the two nibbles)')
    ex.emit('decoders_fru', '[%s]' % ', '.join('(%d, %d)' % p for p in table_fru), s, kind='const', t='LNN',
            doc='the same on the FRU path (sdr=False: branches that also test the sdr flag are skipped)')
    ex.emit('decoder_default', X('lit', 'N', v=str(dflt)), s, doc='the `else` branch')
    ex.emit('sdr_flag', '"%s"' % (flag or ''), s, kind='const', t='S',
            doc='the attribute that carries `sdr` of `__init__` into `_from_data` ("" = none); '
                '`SdrTypeLengthString.__init__` passes `sdr=True`')


def _tls_sdr_bcd(ex, block):
    """self.string = ''.join(self.<TABLE>[e1] + self.<TABLE>[e2] for b in self.raw) -> defs sdr_bcd_hi / _lo / _table"""
    if len(block) != 1 or not isinstance(block[0], ast.Assign) or ex.key(block[0].targets[0]) != 'self.string':
        return False
    v = block[0].value
    ok = isinstance(v, ast.Call) and isinstance(v.func, ast.Attribute) and v.func.attr == 'join' and \
        isinstance(v.func.value, ast.Constant) and v.func.value.value == '' and len(v.args) == 1 and not v.keywords and \
        isinstance(v.args[0], ast.GeneratorExp) and len(v.args[0].generators) == 1
    if not ok:
        return False
    g = v.args[0].generators[0]
    e = v.args[0].elt
    ok = isinstance(g.target, ast.Name) and not g.ifs and not g.is_async and ex.key(g.iter) == 'self.raw' and \
        isinstance(e, ast.BinOp) and isinstance(e.op, ast.Add) and \
        all(isinstance(x, ast.Subscript) and (ex.key(x.value) or '').startswith('self.') for x in (e.left, e.right))
    if not ok or ex.key(e.left.value) != ex.key(e.right.value):
        return False
    tname = ex.key(e.left.value)[5:]
    tabs = [n.value.value for n in ex.cls.body
            if isinstance(n, ast.Assign) and len(n.targets) == 1 and isinstance(n.targets[0], ast.Name) and
            n.targets[0].id == tname and isinstance(n.value, ast.Constant) and isinstance(n.value.value, str)]
    if len(tabs) != 1:
        ex.bad('BCD plus table %s is not a class-level string constant' % tname, block[0])
    if ex.mod.live:
        import importlib
        try:
            live = getattr(getattr(importlib.import_module(ex.mod.rel[:-3].replace('/', '.')), ex.cls.name), tname)
        except Exception as err:  # noqa
            raise TieBroken('%s: cannot read %s.%s from the imported module: %s' % (ex.mod.rel, ex.cls.name, tname, err))
        if live != tabs[0]:
            raise TieBroken('%s: %s.%s is %r in the imported module, %r in the source text' % (
                ex.mod.rel, ex.cls.name, tname, live, tabs[0]))
    b = g.target.id
    if b in ex.env:
        ex.bad('the loop variable of the BCD plus decoder shadows %s' % b, block[0])
    ex.env[b] = ex.input(b, 'N', '%s in self.raw' % b)
    try:
        hi, lo = ex.tr(e.left.slice), ex.tr(e.right.slice)
    finally:
        del ex.env[b]
    if hi.t != 'N' or lo.t != 'N':
        ex.bad('BCD plus table index that may be negative', block[0])
    ex.emit('sdr_bcd_hi', hi, block[0])
    ex.emit('sdr_bcd_lo', lo, block[0])
    ex.emit('sdr_bcd_table', '[%s]' % ', '.join(str(ord(c)) for c in tabs[0]), block[0], kind='const', t='LN',
            doc='`%s.%s = %r` as character codes: the table decoder 3 indexes' % (ex.cls.name, tname, tabs[0]))
    return True


def _tls_kind(ex, block):
    src = ' '.join(ex.src(b) for b in block)
    if len(block) == 1 and re.match(r"^self\.string = bytes\(bytearray\(self\.raw\)\)\.decode\('bcd\+'\)$", src):
        return 1
    if len(block) == 1 and re.match(r'^self\.string = _unpack6bitascii\(self\.raw\)$', src):
        return 2
    if re.match(r"^chr_data = ''\.join\(\[chr\(c\) for c in self\.raw\]\) self\.string = chr_data$", src):
        return 0
    if _tls_sdr_bcd(ex, block):
        return 3
    ex.bad('string decoder outside the grammar: %s' % src[:120], block[0] if block else None)


# ---------------------------------------------------------------------------------------------
# what is translated

HELPERS = ('_common_record_key', '_entity', '_decode_capabilities', '_device_id_string')

# (file, class, function, config)
CC = ('pyipmi/sdr.py', 'SdrFullSensorRecord', '_convert_complement',
      {'prefix': 'cc', 'params': {'value': 'N', 'size': 'N'}, 'callable': 'convertComplement'})
FUNCS_C17 = [
    CC,
    ('pyipmi/sdr.py', 'SdrFullSensorRecord', 'convert_sensor_raw_to_value',
     {'prefix': 'fwd', 'params': {'raw': 'N'},
      'attrs': {'analog_data_format': 'N', 'm': 'Z', 'b': 'Z', 'k1': 'Z', 'k2': 'Z'}}),
    ('pyipmi/sdr.py', 'SdrFullSensorRecord', 'convert_sensor_value_to_raw',
     {'prefix': 'inv', 'params': {'value': 'Q'},
      'attrs': {'analog_data_format': 'N', 'linearization': 'N', 'm': 'Z', 'b': 'Z', 'k1': 'Z', 'k2': 'Z'}}),
]
FUNCS_C16 = [
    CC,
    ('pyipmi/sdr.py', 'SdrCommon', '_common_record_key', {'prefix': 'key', 'buffers': ['buffer']}),
    ('pyipmi/sdr.py', 'SdrCommon', '_entity', {'prefix': 'entity', 'buffers': ['buffer']}),
    ('pyipmi/sdr.py', 'SdrCommon', '_device_id_string', {'prefix': 'id', 'bytes': ['buffer']}),
    ('pyipmi/sdr.py', 'SdrFullSensorRecord', '_from_data', {'prefix': 'full', 'helpers': HELPERS}),
    ('pyipmi/sdr.py', 'SdrCompactSensorRecord', '_from_data', {'prefix': 'compact', 'helpers': HELPERS}),
    ('pyipmi/sdr.py', 'SdrEventOnlySensorRecord', '_from_data', {'prefix': 'event', 'helpers': HELPERS}),
    ('pyipmi/sdr.py', 'SdrFruDeviceLocator', '_from_data', {'prefix': 'fru', 'helpers': HELPERS}),
    ('pyipmi/sdr.py', 'SdrManagementControllerDeviceLocator', '_from_data', {'prefix': 'mc', 'helpers': HELPERS}),
    ('pyipmi/sdr.py', 'SdrManagementControllerConfirmationRecord', '_from_data',
     {'prefix': 'conf', 'helpers': HELPERS}),
    ('pyipmi/sdr.py', 'SdrOEMSensorRecord', '_from_data', {'prefix': 'oem', 'helpers': HELPERS}),
    ('pyipmi/fields.py', 'TypeLengthString', '_from_data',
     {'prefix': 'tls', 'params': {'offset': 'N'}, 'bytes': ['data'], 'tls': True}),
]


class Module(object):
    def __init__(self, rel, text=None):
        self.rel = rel
        self.live = text is None      # the working tree itself (not a substituted text)
        try:
            self.text = repo.read(rel) if text is None else text
            self.tree = ast.parse(self.text)
        except (IOError, SyntaxError) as e:
            raise TieBroken('%s does not parse: %s' % (rel, e))
        self.consts = {}
        for n in self.tree.body:
            if isinstance(n, ast.Assign) and len(n.targets) == 1 and isinstance(n.targets[0], ast.Name) and \
                    isinstance(n.value, ast.Constant) and isinstance(n.value.value, int) and \
                    not isinstance(n.value.value, bool) and n.value.value >= 0:
                if n.targets[0].id in self.consts:
                    raise TieBroken('%s: module constant %s is assigned twice' % (rel, n.targets[0].id))
                self.consts[n.targets[0].id] = n.value.value
        self.true_division = any(isinstance(n, ast.ImportFrom) and n.module == '__future__' and
                                 any(a.name == 'division' for a in n.names) for n in self.tree.body)

    def check_live(self, cname, name, value):
        """A constant read off the AST must be the value the imported module holds (nothing rebinds it
        later in the file or from another module at import time)."""
        if not self.live:
            return
        import importlib
        try:
            m = importlib.import_module(self.rel[:-3].replace('/', '.'))
            got = getattr(getattr(m, cname), name) if cname else getattr(m, name)
        except Exception as e:  # noqa
            raise TieBroken('%s: cannot read constant %s from the imported module: %s' % (self.rel, name, e))
        if got is not value and got != value or isinstance(got, bool):
            raise TieBroken('%s: constant %s%s is %r in the imported module, %r in the source text' % (
                self.rel, (cname + '.') if cname else '', name, got, value))

    def cls(self, name):
        for n in self.tree.body:
            if isinstance(n, ast.ClassDef) and n.name == name:
                return n
        raise TieBroken('%s: class %s not found' % (self.rel, name))

    def fn(self, body, name, where):
        hits = [n for n in body if isinstance(n, ast.FunctionDef) and n.name == name]
        if len(hits) != 1:
            raise TieBroken('%s: %s.%s not found (or defined twice)' % (self.rel, where, name))
        return hits[0]

    def class_const(self, cls, name):
        if cls is None:
            return None
        vals = [n.value.value for n in cls.body
                if isinstance(n, ast.Assign) and len(n.targets) == 1 and isinstance(n.targets[0], ast.Name) and
                n.targets[0].id == name and isinstance(n.value, ast.Constant) and isinstance(n.value.value, int) and
                not isinstance(n.value.value, bool) and n.value.value >= 0]
        return vals[0] if len(vals) == 1 else None


OUTPUT = {
    'C16': (FUNCS_C16, True, 'SdrExpr', 'Props/C16.lean'),
    'C17': (FUNCS_C17, False, 'SensorExpr', 'Props/C17.lean'),
}


def extract(which, sources=None):
    """[(class, function, Exec)] for every translated function, names of the definitions resolved.
    `sources` (rel -> text) replaces files of the working tree (used by mutation campaigns only)."""
    funcs, sixbit, _, _ = OUTPUT[which]
    mods = {}
    calls = {}
    out = []
    for rel, cname, fname, cfg in funcs:
        mod = mods.get(rel) or mods.setdefault(rel, Module(rel, (sources or {}).get(rel)))
        cls = mod.cls(cname)
        fn = mod.fn(cls.body, fname, cname)
        ex = Exec(mod, cls, fn, cfg, calls)
        if cfg.get('tls'):
            body = list(fn.body)
            if not (body and isinstance(body[-1], ast.If)):
                ex.bad('last statement is not the decoder selection')
            ex.run(body[:-1])
            _tls_dispatch(ex, body[-1])
        else:
            ex.run()
        _name(ex)
        if cfg.get('callable'):
            if ex.ret is None or ex.ret.k != 'app':
                ex.bad('callable helper does not return a computed value')
            params = [(a, cfg['params'][a]) for a in ex.args if a != 'self']
            if sorted(params) != sorted(ex.ret.v.params):
                ex.bad('callable helper: the value does not depend on exactly its parameters')
            d = Def(cfg['callable'], ex.ret, ex.ret.t,
                    '`%s.%s(%s)`: what it returns' % (cname, fname, ', '.join(p for p, _ in params)), params=params)
            d.name = cfg['callable']
            ex.defs.append(d)
            calls[fname] = d
        out.append((cname, fname, ex))
    if sixbit:
        mod = mods['pyipmi/fields.py']
        ex = _sixbit(mod, mod.fn(mod.tree.body, '_unpack6bitascii', 'module'))
        _name(ex)
        out.append(('', '_unpack6bitascii', ex))
    if not mods['pyipmi/sdr.py'].true_division:
        raise TieBroken('pyipmi/sdr.py: `from __future__ import division` is gone: `/` would not be true division on Python 2')
    return out


def _name(ex):
    count = {}
    for d in ex.defs:
        if d.name is None:
            count[d.target] = count.get(d.target, 0) + 1
    seen = {}
    for d in ex.defs:
        if d.name is not None:
            continue
        seen[d.target] = seen.get(d.target, 0) + 1
        d.ver = seen[d.target]
        d.name = '%s_%s' % (ex.prefix, d.target) + ('_%d' % d.ver if count[d.target] > 1 else '')


def _params(ps):
    out, i = [], 0
    while i < len(ps):
        j = i
        while j + 1 < len(ps) and ps[j + 1][1] == ps[i][1]:
            j += 1
        out.append('(%s : %s)' % (' '.join(_ident(p) for p, _ in ps[i:j + 1]), LEAN_T[ps[i][1]]))
        i = j + 1
    return ' '.join(out)


def render_all(which, items):
    ns, props = OUTPUT[which][2], OUTPUT[which][3]
    L = ['/- GENERATED by harness/translate/sdrexpr.py from the AST of %s of the' %
         ' and '.join(sorted(set(ex.mod.rel for _, _, ex in items))),
         '   working tree: one definition per source statement that computes something.  Do not edit:',
         '   rewritten on every check run.  %s proves every definition equal to the expression the' % props,
         '   hand-written model uses at that place (theorems `gen_*`). -/',
         'import PyIpmi.Model.Sensor',
         'import PyIpmi.Model.PyInt',
         'namespace PyIpmi.Gen.%s' % ns,
         'open PyIpmi.Sensor (pow10)',
         'open PyIpmi.PyInt',
         '']
    names = set()
    for cname, fname, ex in items:
        L.append('/-! ### `%s%s`  (%s:%d) -/' % (cname + '.' if cname else '', fname, ex.mod.rel, ex.fn.lineno))
        L.append('')
        for d in ex.defs:
            if d.name in names:
                raise TieBroken('sdrexpr: two definitions are called %s' % d.name)
            names.add(d.name)
            L.append('/-- %s -/' % d.doc.replace('-/', '- /'))
            if d.t == 'S':
                L.append('def %s : String := %s' % (d.name, d.body))
            elif d.t == 'LN':
                L.append('def %s : List Nat := %s' % (d.name, d.body))
            elif d.t == 'LNN':
                L.append('def %s : List (Nat × Nat) := %s' % (d.name, d.body))
            else:
                ps = _params(d.params)
                L.append('def %s%s : %s :=' % (d.name, (' ' + ps) if ps else '', LEAN_T[d.t]))
                L.append('  ' + _strip(render(d.body, d.t)))
            L.append('')
        for name, src_def, line in ex.cuts:
            L.append('/-- `%s = int(round(%s))` (%s:%d): opaque cut; from here on `%s : Int` is an input and stands for' %
                     (name, name, ex.mod.rel, line, name))
            L.append('the rounded value of `%s`. -/' % src_def.name)
            L.append('def %s_%s_round_of : String := "%s"' % (ex.prefix, name, src_def.name))
            L.append('')
        for attr, (byte, fl) in sorted(ex.flags.items()):
            L.append('/-- `if %s & <mask>: self.%s.append(<name>)`, in source order -/' % (byte, attr))
            L.append('def %s_%s_flags : List (Nat × String) := [%s]' % (
                ex.prefix, attr, ', '.join('(%s, "%s")' % (m, s) for m, s in fl)))
            L.append('')
        if ex.layout:
            L.append('/-- what `%s` takes from the buffer, in order: (name, number of bytes; 0 = the rest) -/' % fname)
            L.append('def %s_layout : List (String × Nat) := [%s]' % (
                ex.prefix, ', '.join('("%s", %d)' % (n, b or 0) for n, b, _ in ex.layout)))
            L.append('')
        if ex.none_guard:
            L.append('/-- `if <arg> is None: return None` is the first statement -/')
            L.append('def %s_none_guard : Bool := true' % ex.prefix)
            L.append('')
    L.append('/-- the inputs of every definition above as the source writes them (`x = pop(n)`: the local / attribute that')
    L.append('received `buffer.pop_unsigned_int(n)`; `pop(n)`: a pop used inside the expression; `self.x`: an attribute')
    L.append('declared as input; `int(round(x))`: the opaque cut): binder names are invisible to the theorems about the')
    L.append('definitions, this table is not (`gen_inputs`) -/')
    L.append('def inputs : List (String × List String) := [')
    rows = []
    for cname, fname, ex in items:
        for d in ex.defs:
            if d.params:
                rows.append('  ("%s", [%s])' % (d.name, ', '.join('"%s"' % ex.origin.get(p, p) for p, _ in d.params)))
    L.append(',\n'.join(rows))
    L.append(']')
    L.append('')
    L.append('end PyIpmi.Gen.%s' % ns)
    return '\n'.join(L) + '\n'


def generate(which):
    try:
        items = extract(which)
    except TieBroken:
        raise
    except RecursionError as e:
        raise TieBroken('sdrexpr: source too deeply nested for the translator: %s' % e)
    except Exception as e:  # noqa - an AST shape the translator did not foresee: fail closed
        raise TieBroken('sdrexpr: translator failed on the current source (%s: %s)' % (type(e).__name__, e))
    out = os.path.join(lean.LEAN_DIR, 'PyIpmi', 'Gen', OUTPUT[which][2] + '.lean')
    lean.write_if_changed(out, render_all(which, items))
    return dict(('%s.%s' % (c, f) if c else f, [d.name for d in ex.defs]) for c, f, ex in items)
