"""T (C04): shape and constants of the three receive loops  ->  lean/PyIpmi/Gen/Loops04.lean

AST extraction from pyipmi/interfaces/{rmcp,ipmbdev,aardvark}.py of the working tree.

1. SHAPE.  The five functions that make up the loops (`Rmcp._send_and_receive`,
   `IpmbDev._send_and_receive`, `IpmbDev._receive_raw`, `Aardvark._send_and_receive`,
   `Aardvark._receive_raw`) are written out statement by statement in the tiny abstract syntax of
   lean/PyIpmi/Model/LoopAst.lean (class `Shape` below): order and nesting of the statements, every
   test / assignment / call with its arguments, break / continue / raise / return / assert, the except
   clauses.  Local variables are numbered (parameters, then first assignment in source order), so
   renaming one is invisible; docstrings, comments, exception messages and the text of log().debug(...)
   calls are dropped (the subscripts and calls a log call evaluates are kept).  Nothing is recognised or
   interpreted here: the translation is syntax-directed, and whatever is outside the grammar becomes
   `.other <crc32 of ast.dump>`.  `Props.C04.source_shape_{rmcp,ipmbdev,aardvark}` compare the result
   with the values the hand-written step functions document (`Loops.Shape.*`): where the sequence number
   is advanced relative to building the header and to the retry loop, retry loop > send > receive loop,
   what each exit does, what is assigned to the returned variable and when, `_q.get` before the socket
   and no `_q.put`.  This part never raises: a changed loop yields a different value and the theorem
   stops building.

2. CONSTANTS, as before:

  * `_inc_sequence_number`:  self.next_sequence_number = (self.next_sequence_number + I) % M
  * initial `next_sequence_number`, default / fixed `max_retries`, `timeout` (as 1/64 s ticks)
  * the comparison operator of every retry loop (`<=` -> budget max_retries + 1, `<` -> max_retries)
  * the Send Message command id (`constants.CMDID_SEND_MESSAGE`) and network function (`constants.NETFN_APP`)
  * the bounds of the returned slice `rx_data[a:-b]`

Fails closed: a constant that cannot be read keeps the value of the pinned source (so that the models still
build and the correspondence run shows where the changed code differs), `notExtracted` counts them
(`Props.C04.gen_loop_shape` demands 0) and TieBroken is raised AFTER the file has been written, so the shape
part is fresh in any case.  Counters and the received-frame variable are found by position, not by name.
"""
import ast
import os
import zlib
from fractions import Fraction

from ..lib import lean, repo
from ..lib.lean import TieBroken

OUT = os.path.join(lean.LEAN_DIR, 'PyIpmi', 'Gen', 'Loops04.lean')
OUT_STATE = os.path.join(lean.LEAN_DIR, 'PyIpmi', 'Gen', 'IfaceState04.lean')
TICKS = 64


def _cls(tree, name, rel):
    for n in tree.body:
        if isinstance(n, ast.ClassDef) and n.name == name:
            return n
    raise TieBroken('%s: class %s not found' % (rel, name))


def _fn(cls, name, rel):
    for n in cls.body:
        if isinstance(n, ast.FunctionDef) and n.name == name:
            return n
    raise TieBroken('%s: %s.%s not found' % (rel, cls.name, name))


def _is_self_attr(n, attr):
    return (isinstance(n, ast.Attribute) and n.attr == attr and isinstance(n.value, ast.Name)
            and n.value.id == 'self')


def _const(n, what):
    if isinstance(n, ast.Constant) and isinstance(n.value, (int, float)) and not isinstance(n.value, bool):
        return n.value
    raise TieBroken('%s: expected a numeric literal, got %s' % (what, ast.dump(n)[:80]))


def _seq_rule(cls, rel):
    f = _fn(cls, '_inc_sequence_number', rel)
    body = [s for s in f.body if not (isinstance(s, ast.Expr) and isinstance(s.value, ast.Constant))]
    what = '%s:%s._inc_sequence_number' % (rel, cls.name)
    if len(body) != 1 or not isinstance(body[0], ast.Assign) or len(body[0].targets) != 1:
        raise TieBroken(what + ': body is not a single assignment')
    a = body[0]
    if not _is_self_attr(a.targets[0], 'next_sequence_number'):
        raise TieBroken(what + ': does not assign self.next_sequence_number')
    v = a.value
    if not (isinstance(v, ast.BinOp) and isinstance(v.op, ast.Mod) and isinstance(v.left, ast.BinOp)
            and isinstance(v.left.op, ast.Add) and _is_self_attr(v.left.left, 'next_sequence_number')):
        raise TieBroken(what + ': not of the form (self.next_sequence_number + I) % M')
    inc, mod = _const(v.left.right, what), _const(v.right, what)
    if not (isinstance(inc, int) and isinstance(mod, int) and inc >= 0 and mod >= 1):
        raise TieBroken(what + ': increment/modulus out of range')
    return inc, mod


def _init_assign(cls, attr, rel):
    f = _fn(cls, '__init__', rel)
    hits = [n for n in ast.walk(f) if isinstance(n, ast.Assign) and len(n.targets) == 1
            and _is_self_attr(n.targets[0], attr)]
    if len(hits) != 1:
        raise TieBroken('%s:%s.__init__: %d assignments to self.%s' % (rel, cls.name, len(hits), attr))
    return hits[0].value


def _init_default(cls, arg, rel):
    f = _fn(cls, '__init__', rel)
    names = [a.arg for a in f.args.args]
    if arg not in names:
        raise TieBroken('%s:%s.__init__ has no parameter %s' % (rel, cls.name, arg))
    i = names.index(arg) - (len(names) - len(f.args.defaults))
    if i < 0:
        raise TieBroken('%s:%s.__init__: %s has no default' % (rel, cls.name, arg))
    return _const(f.args.defaults[i], '%s default' % arg)


def _loop_extras(fn, want, rel):
    """The `while <counter> OP self.max_retries` loops of fn (possibly `and`-ed with other tests), outermost
    first, whatever the counter is called: 1 for `<=` (budget max_retries + 1), 0 for `<` (max_retries).
    Exactly `want` of them, each nested in the one before."""
    def bound(n):
        tests = n.test.values if isinstance(n.test, ast.BoolOp) and isinstance(n.test.op, ast.And) else [n.test]
        hits = []
        for t in tests:
            if (isinstance(t, ast.Compare) and isinstance(t.left, ast.Name) and len(t.ops) == 1
                    and _is_self_attr(t.comparators[0], 'max_retries')):
                if isinstance(t.ops[0], ast.LtE):
                    hits.append(1)
                elif isinstance(t.ops[0], ast.Lt):
                    hits.append(0)
                else:
                    raise TieBroken('%s:%s: a loop bounded by self.max_retries uses an unexpected comparison'
                                    % (rel, fn.name))
        if len(hits) > 1:
            raise TieBroken('%s:%s: a loop tests self.max_retries twice' % (rel, fn.name))
        return hits[0] if hits else None

    found, scope = [], fn
    while True:
        loops = [n for n in ast.walk(scope) if isinstance(n, ast.While) and n is not scope and bound(n) is not None]
        top = [n for n in loops if not any(n is not m and n in ast.walk(m) for m in loops)]
        if not top:
            break
        if len(top) != 1:
            raise TieBroken('%s:%s: %d loops bounded by self.max_retries side by side' % (rel, fn.name, len(top)))
        found.append(bound(top[0]))
        scope = top[0]
    if len(found) != want:
        raise TieBroken('%s:%s: expected %d nested `while <counter> <(=) self.max_retries`, found %d'
                        % (rel, fn.name, want, len(found)))
    return tuple(found)


def _ticks(v, what):
    fr = Fraction(v).limit_denominator(1 << 20) * TICKS
    if fr.denominator != 1 or fr <= 0:
        raise TieBroken('%s = %r s is not a positive multiple of 1/%d s' % (what, v, TICKS))
    return int(fr)


def _rmcp_slice_and_index(fn, rel):
    """`return <name>[a:-b]`.  (The pinned source also had the test `array('B', rx_data)[5] == constants.
    CMDID_SEND_MESSAGE` in the loop; since fixes/C09-1.diff a Send Message response is recognised by rx_filter
    against the outstanding Send Message request - the statement itself is part of the SHAPE.)"""
    rets = [n for n in ast.walk(fn) if isinstance(n, ast.Return) and n.value is not None]
    if len(rets) != 1:
        raise TieBroken('%s:%s: %d return statements' % (rel, fn.name, len(rets)))
    v = rets[0].value
    ok = (isinstance(v, ast.Subscript) and isinstance(v.value, ast.Name)
          and isinstance(v.slice, ast.Slice) and v.slice.step is None
          and isinstance(v.slice.lower, ast.Constant)
          and isinstance(v.slice.upper, ast.UnaryOp) and isinstance(v.slice.upper.op, ast.USub)
          and isinstance(v.slice.upper.operand, ast.Constant))
    if not ok:
        raise TieBroken('%s:%s: return value is not <name>[a:-b]' % (rel, fn.name))
    lo, hi = int(v.slice.lower.value), int(v.slice.upper.operand.value)
    return lo, hi


# ======================================================================== shape (tiny loop AST)
# must list the constructors of `Sym` in lean/PyIpmi/Model/LoopAst.lean
SYMS = {'CMDID_SEND_MESSAGE', 'NETFN_APP', 'IOError', 'OSError', 'IpmbHeaderReq', 'IpmiTimeoutError', 'RetryError',
        'NotSupportedError',
        '_dev', '_sock', '_inc_sequence_number', '_drain_socket', '_q', '_receive_ipmi_msg', '_receive_raw',
        '_send_ipmi_msg', '_send_raw', 'gettimeout', 'settimeout', 'recvfrom', 'verify', 'array',
        'cmdid', 'constants', 'decode_bridged_message', 'empty', 'encode_bridged_message', 'encode_ipmb_msg', 'get',
        'put', 'i2c_slave_read', 'ignore_rq_seq', 'ignore_sdu_length', 'int', 'ipmb_address', 'len', 'max_retries',
        'netfn', 'next_sequence_number', 'os', 'poll', 'py3_array_tobytes', 'read', 'routing', 'range', 'rq_lun',
        'rq_sa', 'rq_seq', 'rs_lun', 'rs_sa', 'rx_filter', 'select', 'slave_address', 'sleep', 'socket', 'time',
        'timeout', 'transaction_lock'}
_CMP = {ast.LtE: 'le', ast.Lt: 'lt', ast.GtE: 'ge', ast.Gt: 'gt', ast.Eq: 'eq', ast.NotEq: 'ne', ast.Is: 'is_',
        ast.IsNot: 'isNot', ast.In: 'in_', ast.NotIn: 'notIn'}
_BIN = {ast.Add: 'add', ast.Sub: 'sub', ast.Mult: 'mul', ast.Mod: 'mod', ast.LShift: 'shl', ast.RShift: 'shr',
        ast.BitOr: 'bor', ast.BitAnd: 'band', ast.Div: 'div', ast.FloorDiv: 'fdiv'}
_SCOPES = (ast.ListComp, ast.GeneratorExp, ast.SetComp, ast.DictComp, ast.Lambda, ast.FunctionDef,
           ast.AsyncFunctionDef, ast.ClassDef)


def _crc(n):
    return zlib.crc32(ast.dump(n).encode('utf-8'))


def _sym(name):
    if name in SYMS:
        return '.' + (('u' + name) if name.startswith('_') else name)
    return '(.other %d)' % zlib.crc32(name.encode('utf-8'))


def _walk_own(n):
    """nodes below n that belong to the function's own scope"""
    yield n
    for c in ast.iter_child_nodes(n):
        if not isinstance(c, _SCOPES):
            for x in _walk_own(c):
                yield x


class Shape(object):
    """One FunctionDef -> Lean term of type PyIpmi.LoopAst.Fun (syntax-directed, total)."""

    def __init__(self, fn):
        self.fn = fn
        a = fn.args
        self.odd = bool(fn.decorator_list or a.vararg or a.kwarg or a.defaults or a.kwonlyargs
                        or getattr(a, 'posonlyargs', None))
        names = [x.arg for x in a.args]
        self.has_self = bool(names and names[0] == 'self')
        params = names[1:] if self.has_self else names
        self.idx = {}
        for p in params:
            self.idx.setdefault(p, len(self.idx))
        self.nparams = len(params)
        stores = [c for s in fn.body for c in _walk_own(s)
                  if isinstance(c, ast.Name) and isinstance(c.ctx, (ast.Store, ast.Del))]
        for n in sorted(stores, key=lambda n: (n.lineno, n.col_offset)):
            self.idx.setdefault(n.id, len(self.idx))

    # ---- expressions
    def es(self, l):
        return 'args[' + ', '.join(self._e(x) for x in l) + ']'

    def e(self, n):
        s = self._e(n)
        return s if ' ' not in s else '(' + s + ')'

    def _e(self, n):
        if isinstance(n, ast.Constant):
            v = n.value
            if v is None:
                return '.none'
            if v is True:
                return '.tt'
            if v is False:
                return '.ff'
            if isinstance(v, int) and v >= 0:
                return '.num %d' % v
            if isinstance(v, float) and v >= 0:
                f = Fraction(v).limit_denominator(1 << 20)
                return '.frac %d %d' % (f.numerator, f.denominator)
            if isinstance(v, str) and len(v) == 1:
                return '.chr %d' % ord(v)
            return '.other %d' % _crc(n)
        if isinstance(n, ast.Name):
            if n.id == 'self' and self.has_self:
                return '.self_'
            if n.id in self.idx:
                return '.var %d' % self.idx[n.id]
            return '.glob ' + _sym(n.id)
        if isinstance(n, ast.Attribute):
            return '.attr %s %s' % (self.e(n.value), _sym(n.attr))
        if isinstance(n, ast.Call):
            if any(isinstance(a, ast.Starred) for a in n.args) or any(k.arg is None for k in n.keywords):
                return '.other %d' % _crc(n)
            args = [self._e(a) for a in n.args] + ['.kw %s %s' % (_sym(k.arg), self.e(k.value)) for k in n.keywords]
            return '.call %s args[%s]' % (self.e(n.func), ', '.join(args))
        if isinstance(n, ast.Compare) and len(n.ops) == 1 and type(n.ops[0]) in _CMP:
            return '.cmp .%s %s %s' % (_CMP[type(n.ops[0])], self.e(n.left), self.e(n.comparators[0]))
        if isinstance(n, ast.BoolOp) and isinstance(n.op, (ast.And, ast.Or)):
            k = '.and_' if isinstance(n.op, ast.And) else '.or_'
            s = self._e(n.values[-1])
            for v in reversed(n.values[:-1]):
                s = '%s %s %s' % (k, self.e(v), s if ' ' not in s else '(' + s + ')')
            return s
        if isinstance(n, ast.UnaryOp):
            if isinstance(n.op, ast.Not):
                return '.not_ ' + self.e(n.operand)
            if isinstance(n.op, ast.USub) and isinstance(n.operand, ast.Constant) and isinstance(n.operand.value, int) \
                    and not isinstance(n.operand.value, bool) and n.operand.value >= 0:
                return '.neg %d' % n.operand.value
            return '.other %d' % _crc(n)
        if isinstance(n, ast.BinOp) and type(n.op) in _BIN:
            return '.bin .%s %s %s' % (_BIN[type(n.op)], self.e(n.left), self.e(n.right))
        if isinstance(n, ast.Subscript):
            if isinstance(n.slice, ast.Slice):
                if n.slice.step is not None:
                    return '.other %d' % _crc(n)
                lo = self.e(n.slice.lower) if n.slice.lower is not None else '.none'
                hi = self.e(n.slice.upper) if n.slice.upper is not None else '.none'
                return '.slice %s %s %s' % (self.e(n.value), lo, hi)
            return '.index %s %s' % (self.e(n.value), self.e(n.slice))
        if isinstance(n, ast.Tuple):
            return '.tuple ' + self.es(n.elts)
        if isinstance(n, ast.List):
            return '.list ' + self.es(n.elts)
        return '.other %d' % _crc(n)

    # ---- statements
    def block(self, body, ind):
        items = [self.s(s, ind + 2) for s in body
                 if not (isinstance(s, ast.Expr) and isinstance(s.value, ast.Constant) and isinstance(s.value.value, str))]
        if not items:
            return 'py[]'
        pad = ' ' * (ind + 2)
        return 'py[\n' + ',\n'.join(pad + i for i in items) + ']'

    def _effects(self, n):
        """What evaluating n can do besides producing a value that is thrown away: the outermost subscripts
        (IndexError) and calls below n, in source order.  `'<sep>'.join(…)` is pure and looked through."""
        if isinstance(n, ast.Subscript):
            return [n]
        if isinstance(n, ast.Call):
            f = n.func
            if not (isinstance(f, ast.Attribute) and f.attr == 'join' and isinstance(f.value, ast.Constant)
                    and isinstance(f.value.value, str)):
                return [n]
        if isinstance(n, (ast.Lambda, ast.FunctionDef, ast.AsyncFunctionDef, ast.ClassDef, ast.NamedExpr, ast.Await,
                          ast.Yield, ast.YieldFrom)):
            return [n]
        return [x for c in ast.iter_child_nodes(n) for x in self._effects(c)]

    def s(self, n, ind):
        if isinstance(n, ast.Expr):
            v = n.value
            if isinstance(v, ast.Call) and isinstance(v.func, ast.Attribute) and isinstance(v.func.value, ast.Call) \
                    and isinstance(v.func.value.func, ast.Name) and v.func.value.func.id == 'log' \
                    and not v.func.value.args and not v.func.value.keywords:
                return '.log ' + self.es([c for a in list(v.args) + [k.value for k in v.keywords] for c in self._effects(a)])
            return '.expr ' + self.e(v)
        if isinstance(n, ast.Assign) and len(n.targets) == 1:
            return '.assign %s %s' % (self.e(n.targets[0]), self.e(n.value))
        if isinstance(n, ast.AugAssign) and type(n.op) in _BIN:
            return '.aug .%s %s %s' % (_BIN[type(n.op)], self.e(n.target), self.e(n.value))
        if isinstance(n, ast.If):
            return '.ite %s %s %s' % (self.e(n.test), self.block(n.body, ind), self.block(n.orelse, ind))
        if isinstance(n, ast.While):
            return '.while_ %s %s %s' % (self.e(n.test), self.block(n.body, ind), self.block(n.orelse, ind))
        if isinstance(n, ast.For):
            return '.for_ %s %s %s %s' % (self.e(n.target), self.e(n.iter), self.block(n.body, ind),
                                         self.block(n.orelse, ind))
        if isinstance(n, ast.Try) and not n.orelse and all(h.name is None for h in n.handlers):
            hs = '.nil'
            for h in reversed(n.handlers):
                hs = '(.cons %s %s %s)' % (self.e(h.type) if h.type is not None else '.none', self.block(h.body, ind), hs)
            if n.finalbody:
                return '.tryf %s %s %s' % (self.block(n.body, ind), hs, self.block(n.finalbody, ind))
            return '.try_ %s %s' % (self.block(n.body, ind), hs)
        if isinstance(n, ast.With) and len(n.items) == 1 and n.items[0].optional_vars is None:
            return '.with_ %s %s' % (self.e(n.items[0].context_expr), self.block(n.body, ind))
        if isinstance(n, ast.Break):
            return '.brk'
        if isinstance(n, ast.Continue):
            return '.cont'
        if isinstance(n, ast.Pass):
            return '.pass_'
        if isinstance(n, ast.Raise) and n.cause is None:
            x = n.exc
            if x is None:
                return '.raise .none'
            if isinstance(x, ast.Call) and not any(self._effects(a) for a in list(x.args) + [k.value for k in x.keywords]):
                x = x.func                     # the message is not part of the shape
            if isinstance(x, (ast.Name, ast.Attribute)):
                return '.raise ' + self.e(x)
        if isinstance(n, ast.Return):
            return '.ret ' + (self.e(n.value) if n.value is not None else '.none')
        if isinstance(n, ast.Assert) and n.msg is None:
            return '.assert_ ' + self.e(n.test)
        return '.other %d' % _crc(n)

    def term(self):
        body = self.block(self.fn.body, 2)
        if self.odd:
            body = 'py[\n    .other %d,%s' % (_crc(self.fn.args), body[3:]) if body != 'py[]' else 'py[.other %d]' % _crc(self.fn.args)
        return '{ params := %d, body := %s }' % (self.nparams, body)

    def legend(self):
        return ', '.join('%d=%s' % (i, k) for k, i in sorted(self.idx.items(), key=lambda kv: kv[1]))


SHAPES = [('rmcpSendAndReceive', 'pyipmi/interfaces/rmcp.py', 'Rmcp', '_send_and_receive'),
          ('rmcpDrainSocket', 'pyipmi/interfaces/rmcp.py', 'Rmcp', '_drain_socket'),
          ('ipmbdevSendAndReceive', 'pyipmi/interfaces/ipmbdev.py', 'IpmbDev', '_send_and_receive'),
          ('ipmbdevReceiveRaw', 'pyipmi/interfaces/ipmbdev.py', 'IpmbDev', '_receive_raw'),
          ('ipmbdevIsIpmcAccessible', 'pyipmi/interfaces/ipmbdev.py', 'IpmbDev', 'is_ipmc_accessible'),
          ('aardvarkSendAndReceive', 'pyipmi/interfaces/aardvark.py', 'Aardvark', '_send_and_receive'),
          ('aardvarkReceiveRaw', 'pyipmi/interfaces/aardvark.py', 'Aardvark', '_receive_raw'),
          ('aardvarkIsIpmcAccessible', 'pyipmi/interfaces/aardvark.py', 'Aardvark', 'is_ipmc_accessible')]


def shapes():
    """-> [(lean name, source description, variable legend, Lean term)]; never raises on a changed function"""
    out = []
    for name, rel, cname, fname in SHAPES:
        what = '%s.%s (%s)' % (cname, fname, rel)
        try:
            tree = ast.parse(repo.read(rel))
            fn = _fn(_cls(tree, cname, rel), fname, rel)
        except (TieBroken, SyntaxError, IOError) as e:
            # (as shipped there is no Rmcp._drain_socket: the value then differs from Loops.Shape.rmcpDrainSocket)
            out.append((name, what, 'NOT FOUND: %s' % e, '{ params := 0, body := py[.other 0] }'))
            continue
        sh = Shape(fn)
        out.append((name, what, sh.legend(), sh.term()))
    return out


# ======================================================================== constants
# values of the pinned source: written for a constant that cannot be read any more, so that the models and
# their lemmas keep building and the correspondence run still shows where the changed code differs from the
# verified loop; `notExtracted` counts them and `Props.C04.gen_loop_shape` demands 0
PINNED = {'cmdSendMessage': 52, 'netfnApp': 6, 'rmcpSeqInc': 1, 'rmcpSeqMod': 64, 'rmcpSeqInit': 0, 'rmcpDefaultMaxRetries': 0,
          'rmcpOuterExtra': 1, 'rmcpInnerExtra': 1, 'rmcpDataLo': 6, 'rmcpDataHi': 1,
          'ipmbdevSeqInc': 1, 'ipmbdevSeqMod': 64, 'ipmbdevSeqInit': 0, 'ipmbdevMaxRetries': 3,
          'ipmbdevTimeoutTicks': 16, 'ipmbdevAttemptsExtra': 0,
          'aardvarkSeqInc': 1, 'aardvarkSeqMod': 64, 'aardvarkSeqInit': 0, 'aardvarkMaxRetries': 3,
          'aardvarkTimeoutTicks': 16, 'aardvarkAttemptsExtra': 0}


def extract():
    """-> (vals, problems, missing): every constant of ORDER; one that cannot be read keeps its PINNED value,
    is listed in `missing` and explained in `problems`"""
    vals, problems, missing = {}, [], []

    def put(keys, thunk):
        keys = keys if isinstance(keys, tuple) else (keys,)
        try:
            v = thunk()
            v = v if isinstance(v, tuple) else (v,)
            for k, x in zip(keys, v):
                vals[k] = int(x)
        except TieBroken as e:
            problems.append(str(e))
            for k in keys:
                vals[k] = PINNED[k]
                missing.append(k)
        except Exception as e:  # noqa  (source that does not even parse / import)
            problems.append('%s: %s: %s' % ('/'.join(keys), type(e).__name__, e))
            for k in keys:
                vals[k] = PINNED[k]
                missing.append(k)

    def const_send_message():
        from pyipmi.msgs import constants
        return int(constants.CMDID_SEND_MESSAGE)

    # ---- rmcp
    rel = 'pyipmi/interfaces/rmcp.py'

    def rmcp_cls():
        return _cls(ast.parse(repo.read(rel)), 'Rmcp', rel)

    put(('rmcpSeqInc', 'rmcpSeqMod'), lambda: _seq_rule(rmcp_cls(), rel))
    put('rmcpSeqInit', lambda: int(_const(_init_assign(rmcp_cls(), 'next_sequence_number', rel),
                                          'rmcp next_sequence_number')))
    put('rmcpDefaultMaxRetries', lambda: int(_init_default(rmcp_cls(), 'max_retries', rel)))
    put(('rmcpOuterExtra', 'rmcpInnerExtra'), lambda: _loop_extras(_fn(rmcp_cls(), '_send_and_receive', rel), 2, rel))
    put(('rmcpDataLo', 'rmcpDataHi'),
        lambda: _rmcp_slice_and_index(_fn(rmcp_cls(), '_send_and_receive', rel), rel))
    put('cmdSendMessage', const_send_message)

    def const_netfn_app():
        from pyipmi.msgs import constants
        return int(constants.NETFN_APP)
    put('netfnApp', const_netfn_app)
    # ---- ipmb-dev, aardvark
    for key, rel2, cname in (('ipmbdev', 'pyipmi/interfaces/ipmbdev.py', 'IpmbDev'),
                             ('aardvark', 'pyipmi/interfaces/aardvark.py', 'Aardvark')):
        def c(rel2=rel2, cname=cname):
            return _cls(ast.parse(repo.read(rel2)), cname, rel2)
        put((key + 'SeqInc', key + 'SeqMod'), lambda: _seq_rule(c(), rel2))
        put(key + 'SeqInit', lambda: int(_const(_init_assign(c(), 'next_sequence_number', rel2), key + ' seq init')))
        put(key + 'MaxRetries', lambda: int(_const(_init_assign(c(), 'max_retries', rel2), key + ' max_retries')))
        put(key + 'TimeoutTicks', lambda: _ticks(_const(_init_assign(c(), 'timeout', rel2), key + ' timeout'),
                                                 key + ' timeout'))
        put(key + 'AttemptsExtra', lambda: _loop_extras(_fn(c(), '_send_and_receive', rel2), 1, rel2))
    return vals, problems, missing


ORDER = ['cmdSendMessage', 'netfnApp', 'rmcpSeqInc', 'rmcpSeqMod', 'rmcpSeqInit', 'rmcpDefaultMaxRetries',
         'rmcpOuterExtra', 'rmcpInnerExtra', 'rmcpDataLo', 'rmcpDataHi',
         'ipmbdevSeqInc', 'ipmbdevSeqMod', 'ipmbdevSeqInit', 'ipmbdevMaxRetries', 'ipmbdevTimeoutTicks',
         'ipmbdevAttemptsExtra',
         'aardvarkSeqInc', 'aardvarkSeqMod', 'aardvarkSeqInit', 'aardvarkMaxRetries', 'aardvarkTimeoutTicks',
         'aardvarkAttemptsExtra']


# ======================================================================== who touches the state the requests share
# 3. STATE.  `next_sequence_number` (and, RMCP, `_q`) is what one request hands to the next.  For each of the three
#    modules: every function (Class.method, or <module>) that STORES an attribute of that name on any object (assignment,
#    augmented / annotated assignment, tuple target, del, setattr / delattr with the literal name), every function that
#    calls `_inc_sequence_number`, every function that mentions `_q` at all, every function that calls
#    `_send_and_receive`, and every use of the attribute dictionary (`__dict__`, vars(), setattr / getattr / delattr with a
#    name that is not a literal) - written to Gen/IfaceState04.lean, where Props.C04.source_state_writers compares the lists
#    with what the operation alphabet of Model/RmcpOps.lean assumes: the counter is written by __init__ and
#    _inc_sequence_number only, _inc_sequence_number is called by the request functions only - establish_session,
#    close_session, ping, open ... reach both through the requests they make and in no other way.
STATE_MODULES = [('rmcp', 'pyipmi/interfaces/rmcp.py'), ('ipmbdev', 'pyipmi/interfaces/ipmbdev.py'),
                 ('aardvark', 'pyipmi/interfaces/aardvark.py')]


def _scopes(tree):
    """-> [(qualified name, node)] for the module body and every function, nested ones under their own name"""
    out = [('<module>', tree)]

    def walk(node, prefix):
        for c in ast.iter_child_nodes(node):
            if isinstance(c, ast.ClassDef):
                walk(c, prefix + c.name + '.')
            elif isinstance(c, (ast.FunctionDef, ast.AsyncFunctionDef, ast.Lambda)):
                name = prefix + (c.name if not isinstance(c, ast.Lambda) else '<lambda>')
                out.append((name, c))
                walk(c, name + '.')
            else:
                walk(c, prefix)
    walk(tree, '')
    return out


def _own_nodes(node):
    """nodes that belong to this scope (not to a function / class nested in it)"""
    for c in ast.iter_child_nodes(node):
        if isinstance(c, (ast.FunctionDef, ast.AsyncFunctionDef, ast.Lambda)):
            continue
        if isinstance(c, ast.ClassDef):
            # the class body itself runs at import time in the enclosing scope; its methods are scopes of their own
            for x in _own_nodes(c):
                yield x
            continue
        yield c
        for x in _own_nodes(c):
            yield x


def _lit_name(call, pos=1):
    if len(call.args) > pos and isinstance(call.args[pos], ast.Constant) and isinstance(call.args[pos].value, str):
        return call.args[pos].value
    return None


def state_facts(rel):
    tree = ast.parse(repo.read(rel))
    f = {'seqWriters': [], 'queueWriters': [], 'queueUsers': [], 'incCallers': [], 'requestCallers': [], 'dynamic': []}

    def add(key, name):
        if name not in f[key]:
            f[key].append(name)
    for name, node in _scopes(tree):
        for n in _own_nodes(node):
            if isinstance(n, ast.Attribute):
                if isinstance(n.ctx, (ast.Store, ast.Del)):
                    if n.attr == 'next_sequence_number':
                        add('seqWriters', name)
                    if n.attr == '_q':
                        add('queueWriters', name)
                if n.attr == '_q':
                    add('queueUsers', name)
                if n.attr == '__dict__':
                    add('dynamic', name)
            if isinstance(n, ast.Call):
                fn = n.func
                if isinstance(fn, ast.Attribute) and fn.attr == '_inc_sequence_number':
                    add('incCallers', name)
                if isinstance(fn, ast.Attribute) and fn.attr == '_send_and_receive':
                    add('requestCallers', name)
                if isinstance(fn, ast.Name) and fn.id in ('setattr', 'delattr', 'getattr', 'vars', 'globals', 'locals',
                                                          'exec', 'eval'):
                    lit = _lit_name(n) if fn.id in ('setattr', 'delattr', 'getattr') else None
                    if lit is None:
                        add('dynamic', name)
                    elif fn.id != 'getattr':
                        if lit == 'next_sequence_number':
                            add('seqWriters', name)
                        if lit == '_q':
                            add('queueWriters', name)
                            add('queueUsers', name)
            if isinstance(n, ast.Attribute) and n.attr in ('_inc_sequence_number', '_send_and_receive') \
                    and isinstance(n.ctx, (ast.Store, ast.Del)):
                add('dynamic', name)          # the method itself is replaced
    return f


def generate_state():
    """-> {module: facts}; never raises on a changed source (a module that does not parse yields ['<unreadable>'])"""
    res = {}
    out = ['/- GENERATED by harness/translate/loops04.py (part 3, STATE) from pyipmi/interfaces/{rmcp,ipmbdev,aardvark}.py',
           '   of the working tree.  Do not edit: rewritten on every check run.',
           '   For each module, in source order, the functions (Class.method) that', 
           '     …SeqWriters      store an attribute named next_sequence_number (=, +=, del, setattr)',
           '     …QueueWriters    store an attribute named _q;   …QueueUsers  mention _q at all',
           '     …IncCallers      call _inc_sequence_number;     …RequestCallers  call _send_and_receive',
           '     …Dynamic         reach attributes by computed name (__dict__, vars, setattr / getattr with a non-literal) -/',
           'namespace PyIpmi.Gen.IfaceState04', '']
    for key, rel in STATE_MODULES:
        try:
            f = state_facts(rel)
        except (SyntaxError, IOError, OSError) as e:  # noqa
            f = dict((k, ['<unreadable>']) for k in ('seqWriters', 'queueWriters', 'queueUsers', 'incCallers',
                                                     'requestCallers', 'dynamic'))
        res[key] = f
        for k in ('seqWriters', 'queueWriters', 'queueUsers', 'incCallers', 'requestCallers', 'dynamic'):
            out.append('def %s%s : List String := [%s]' % (key, k[0].upper() + k[1:],
                                                          ', '.join('"%s"' % x.replace('"', '') for x in f[k])))
        out.append('')
    out.append('end PyIpmi.Gen.IfaceState04')
    lean.write_if_changed(OUT_STATE, '\n'.join(out) + '\n')
    return res


def generate():
    generate_state()
    vals, problems, missing = extract()
    out = ['/- GENERATED by harness/translate/loops04.py from pyipmi/interfaces/{rmcp,ipmbdev,aardvark}.py',
           '   of the working tree.  Do not edit: rewritten on every check run. -/',
           'import PyIpmi.Model.LoopAst',
           'namespace PyIpmi.Gen.Loops04',
           'open PyIpmi.LoopAst',
           '',
           '/-! ## constants -/',
           '',
           '/-- virtual-clock resolution used for the ipmb-dev / Aardvark timeouts -/',
           'def ticksPerSecond : Nat := %d' % TICKS]
    for k in ORDER:
        out.append('def %s : Nat := %d%s' % (k, vals[k], '   -- NOT EXTRACTED: value of the pinned source'
                                             if k in missing else ''))
    out += ['/-- constants above that could not be read from the working tree -/',
            'def notExtracted : Nat := %d' % len(missing)]
    out += ['', '/-! ## shape: the functions themselves, in the syntax of Model/LoopAst.lean -/']
    for name, what, legend, term in shapes():
        out += ['', '/-- %s;  variables: %s -/' % (what, legend), 'def %s : Fun :=' % name, '  ' + term]
    out += ['', 'end PyIpmi.Gen.Loops04']
    lean.write_if_changed(OUT, '\n'.join(out) + '\n')
    if problems:
        raise TieBroken('; '.join(problems))
    return vals
