"""T (C04): constants of the three receive loops  ->  lean/PyIpmi/Gen/Loops04.lean

AST extraction from pyipmi/interfaces/{rmcp,ipmbdev,aardvark}.py of the working tree:

  * `_inc_sequence_number`:  self.next_sequence_number = (self.next_sequence_number + I) % M
  * initial `next_sequence_number`, default / fixed `max_retries`, `timeout` (as 1/64 s ticks)
  * the comparison operator of every retry loop (`<=` -> budget max_retries + 1, `<` -> max_retries)
  * the Send Message command id the bridged branch tests for (`constants.CMDID_SEND_MESSAGE`)
  * the byte index tested against it and the bounds of the returned slice `rx_data[a:-b]`

Fails closed: any other shape raises TieBroken.
"""
import ast
import os
from fractions import Fraction

from ..lib import lean, repo
from ..lib.lean import TieBroken

OUT = os.path.join(lean.LEAN_DIR, 'PyIpmi', 'Gen', 'Loops04.lean')
TICKS = 64


def _cls(tree, name, rel):
    for n in tree.body:
        if isinstance(n, ast.ClassDef) and n.name == name:
            return n
    raise TieBroken('%s: class %s not found' % (rel, name))


def _fn(cls, name, rel):
    for n in cls.body:
        if isinstance(n, ast.FunctionDef) and n.name == name:
            return n
    raise TieBroken('%s: %s.%s not found' % (rel, cls.name, name))


def _is_self_attr(n, attr):
    return (isinstance(n, ast.Attribute) and n.attr == attr and isinstance(n.value, ast.Name)
            and n.value.id == 'self')


def _const(n, what):
    if isinstance(n, ast.Constant) and isinstance(n.value, (int, float)) and not isinstance(n.value, bool):
        return n.value
    raise TieBroken('%s: expected a numeric literal, got %s' % (what, ast.dump(n)[:80]))


def _seq_rule(cls, rel):
    f = _fn(cls, '_inc_sequence_number', rel)
    body = [s for s in f.body if not (isinstance(s, ast.Expr) and isinstance(s.value, ast.Constant))]
    what = '%s:%s._inc_sequence_number' % (rel, cls.name)
    if len(body) != 1 or not isinstance(body[0], ast.Assign) or len(body[0].targets) != 1:
        raise TieBroken(what + ': body is not a single assignment')
    a = body[0]
    if not _is_self_attr(a.targets[0], 'next_sequence_number'):
        raise TieBroken(what + ': does not assign self.next_sequence_number')
    v = a.value
    if not (isinstance(v, ast.BinOp) and isinstance(v.op, ast.Mod) and isinstance(v.left, ast.BinOp)
            and isinstance(v.left.op, ast.Add) and _is_self_attr(v.left.left, 'next_sequence_number')):
        raise TieBroken(what + ': not of the form (self.next_sequence_number + I) % M')
    inc, mod = _const(v.left.right, what), _const(v.right, what)
    if not (isinstance(inc, int) and isinstance(mod, int) and inc >= 0 and mod >= 1):
        raise TieBroken(what + ': increment/modulus out of range')
    return inc, mod


def _uses_seq(cls, rel):
    """`_send_and_receive` must call self._inc_sequence_number() and put
    self.next_sequence_number into header.rq_seq."""
    f = _fn(cls, '_send_and_receive', rel)
    calls = [n for n in ast.walk(f) if isinstance(n, ast.Call) and _is_self_attr(n.func, '_inc_sequence_number')]
    assigns = [n for n in ast.walk(f) if isinstance(n, ast.Assign) and len(n.targets) == 1
               and isinstance(n.targets[0], ast.Attribute) and n.targets[0].attr == 'rq_seq'
               and _is_self_attr(n.value, 'next_sequence_number')]
    if len(calls) != 1 or len(assigns) != 1:
        raise TieBroken('%s:%s._send_and_receive: sequence number is not incremented once and used as rq_seq'
                        % (rel, cls.name))
    if f.body.index(next(s for s in f.body if calls[0] in ast.walk(s))) > \
            f.body.index(next(s for s in f.body if assigns[0] in ast.walk(s))):
        raise TieBroken('%s:%s._send_and_receive: rq_seq is read before the increment' % (rel, cls.name))


def _init_assign(cls, attr, rel):
    f = _fn(cls, '__init__', rel)
    hits = [n for n in ast.walk(f) if isinstance(n, ast.Assign) and len(n.targets) == 1
            and _is_self_attr(n.targets[0], attr)]
    if len(hits) != 1:
        raise TieBroken('%s:%s.__init__: %d assignments to self.%s' % (rel, cls.name, len(hits), attr))
    return hits[0].value


def _init_default(cls, arg, rel):
    f = _fn(cls, '__init__', rel)
    names = [a.arg for a in f.args.args]
    if arg not in names:
        raise TieBroken('%s:%s.__init__ has no parameter %s' % (rel, cls.name, arg))
    i = names.index(arg) - (len(names) - len(f.args.defaults))
    if i < 0:
        raise TieBroken('%s:%s.__init__: %s has no default' % (rel, cls.name, arg))
    return _const(f.args.defaults[i], '%s default' % arg)


def _loop_extra(fn, var, rel):
    """`while <var> OP self.max_retries` (possibly `and`-ed with other tests): 1 for <=, 0 for <."""
    found = []
    for n in ast.walk(fn):
        if not isinstance(n, ast.While):
            continue
        tests = n.test.values if isinstance(n.test, ast.BoolOp) and isinstance(n.test.op, ast.And) else [n.test]
        for t in tests:
            if (isinstance(t, ast.Compare) and isinstance(t.left, ast.Name) and t.left.id == var
                    and len(t.ops) == 1 and _is_self_attr(t.comparators[0], 'max_retries')):
                if isinstance(t.ops[0], ast.LtE):
                    found.append(1)
                elif isinstance(t.ops[0], ast.Lt):
                    found.append(0)
                else:
                    raise TieBroken('%s:%s: loop on %s uses an unexpected comparison' % (rel, fn.name, var))
    if len(found) != 1:
        raise TieBroken('%s:%s: expected exactly one `while %s <(=) self.max_retries`, found %d'
                        % (rel, fn.name, var, len(found)))
    return found[0]


def _ticks(v, what):
    fr = Fraction(v).limit_denominator(1 << 20) * TICKS
    if fr.denominator != 1 or fr <= 0:
        raise TieBroken('%s = %r s is not a positive multiple of 1/%d s' % (what, v, TICKS))
    return int(fr)


def _rmcp_slice_and_index(fn, rel):
    """`return rx_data[a:-b]` and `array('B', rx_data)[i] == constants.CMDID_SEND_MESSAGE`."""
    rets = [n for n in ast.walk(fn) if isinstance(n, ast.Return) and n.value is not None]
    if len(rets) != 1:
        raise TieBroken('%s:%s: %d return statements' % (rel, fn.name, len(rets)))
    v = rets[0].value
    ok = (isinstance(v, ast.Subscript) and isinstance(v.value, ast.Name) and v.value.id == 'rx_data'
          and isinstance(v.slice, ast.Slice) and v.slice.step is None
          and isinstance(v.slice.lower, ast.Constant)
          and isinstance(v.slice.upper, ast.UnaryOp) and isinstance(v.slice.upper.op, ast.USub)
          and isinstance(v.slice.upper.operand, ast.Constant))
    if not ok:
        raise TieBroken('%s:%s: return value is not rx_data[a:-b]' % (rel, fn.name))
    lo, hi = int(v.slice.lower.value), int(v.slice.upper.operand.value)
    idx = []
    for n in ast.walk(fn):
        if (isinstance(n, ast.Compare) and len(n.ops) == 1 and isinstance(n.ops[0], ast.Eq)
                and isinstance(n.comparators[0], ast.Attribute)
                and n.comparators[0].attr == 'CMDID_SEND_MESSAGE'
                and isinstance(n.left, ast.Subscript) and isinstance(n.left.slice, ast.Constant)):
            idx.append(int(n.left.slice.value))
    if len(idx) != 1:
        raise TieBroken('%s:%s: expected one test `…[i] == constants.CMDID_SEND_MESSAGE`' % (rel, fn.name))
    return lo, hi, idx[0]


def extract():
    vals = {}
    # ---- rmcp
    rel = 'pyipmi/interfaces/rmcp.py'
    tree = ast.parse(repo.read(rel))
    c = _cls(tree, 'Rmcp', rel)
    vals['rmcpSeqInc'], vals['rmcpSeqMod'] = _seq_rule(c, rel)
    _uses_seq(c, rel)
    vals['rmcpSeqInit'] = int(_const(_init_assign(c, 'next_sequence_number', rel), 'rmcp next_sequence_number'))
    vals['rmcpDefaultMaxRetries'] = int(_init_default(c, 'max_retries', rel))
    f = _fn(c, '_send_and_receive', rel)
    vals['rmcpOuterExtra'] = _loop_extra(f, 'retry', rel)
    vals['rmcpInnerExtra'] = _loop_extra(f, 'received_retry', rel)
    vals['rmcpDataLo'], vals['rmcpDataHi'], vals['rmcpBridgeIdx'] = _rmcp_slice_and_index(f, rel)
    try:
        from pyipmi.msgs import constants
        vals['cmdSendMessage'] = int(constants.CMDID_SEND_MESSAGE)
    except Exception as e:  # noqa
        raise TieBroken('constants.CMDID_SEND_MESSAGE: %s' % e)
    # ---- ipmb-dev, aardvark
    for key, rel, cname in (('ipmbdev', 'pyipmi/interfaces/ipmbdev.py', 'IpmbDev'),
                            ('aardvark', 'pyipmi/interfaces/aardvark.py', 'Aardvark')):
        tree = ast.parse(repo.read(rel))
        c = _cls(tree, cname, rel)
        vals[key + 'SeqInc'], vals[key + 'SeqMod'] = _seq_rule(c, rel)
        _uses_seq(c, rel)
        vals[key + 'SeqInit'] = int(_const(_init_assign(c, 'next_sequence_number', rel), key + ' seq init'))
        vals[key + 'MaxRetries'] = int(_const(_init_assign(c, 'max_retries', rel), key + ' max_retries'))
        vals[key + 'TimeoutTicks'] = _ticks(_const(_init_assign(c, 'timeout', rel), key + ' timeout'),
                                            key + ' timeout')
        vals[key + 'AttemptsExtra'] = _loop_extra(_fn(c, '_send_and_receive', rel), 'retries', rel)
    return vals


ORDER = ['cmdSendMessage', 'rmcpSeqInc', 'rmcpSeqMod', 'rmcpSeqInit', 'rmcpDefaultMaxRetries',
         'rmcpOuterExtra', 'rmcpInnerExtra', 'rmcpDataLo', 'rmcpDataHi', 'rmcpBridgeIdx',
         'ipmbdevSeqInc', 'ipmbdevSeqMod', 'ipmbdevSeqInit', 'ipmbdevMaxRetries', 'ipmbdevTimeoutTicks',
         'ipmbdevAttemptsExtra',
         'aardvarkSeqInc', 'aardvarkSeqMod', 'aardvarkSeqInit', 'aardvarkMaxRetries', 'aardvarkTimeoutTicks',
         'aardvarkAttemptsExtra']


def generate():
    vals = extract()
    out = ['/- GENERATED by harness/translate/loops04.py from pyipmi/interfaces/{rmcp,ipmbdev,aardvark}.py',
           '   of the working tree.  Do not edit: rewritten on every check run. -/',
           'namespace PyIpmi.Gen.Loops04',
           '',
           '/-- virtual-clock resolution used for the ipmb-dev / Aardvark timeouts -/',
           'def ticksPerSecond : Nat := %d' % TICKS]
    for k in ORDER:
        out.append('def %s : Nat := %d' % (k, vals[k]))
    out += ['', 'end PyIpmi.Gen.Loops04']
    lean.write_if_changed(OUT, '\n'.join(out) + '\n')
    return vals
