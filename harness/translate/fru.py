"""T: tables and constants of the FRU parser  ->  lean/PyIpmi/Gen/FruTables.lean

  pyipmi/utils.py   BCD_MAP (import) and the nibble expressions of bcd_decode (AST)
  pyipmi/fields.py  _unpack6bitascii: base, per-character (index, mask, shift) terms (AST);
                    TypeLengthString._from_data: type shift/mask, length mask (AST);
                    TYPE_BCD_PLUS / TYPE_6BIT_ASCII (import)
  pyipmi/fru.py     CUSTOM_FIELD_END, TYPE_OEM_PICMG, PICMG_RECORD_ID_MTCA_POWER_MODULE_CAPABILITY
                    (import); the `len(data) < N` guards of the record classes and the header
                    length (AST)

Fails closed: any shape outside this small grammar raises TieBroken.
`shape()` additionally reports which of the two known forms `_unpack6bitascii` has
('strict' = every group must have 3 bytes, as shipped; 'partial' = guarded by len(d))
and whether the BCD+ branch converts `self.raw` before `.decode`.
"""
import ast
import os

from ..lib import lean, repo
from ..lib.lean import TieBroken

OUT = os.path.join(lean.LEAN_DIR, 'PyIpmi', 'Gen', 'FruTables.lean')


def _parse(rel):
    return ast.parse(repo.read(rel))


def _func(tree, name, cls=None):
    body = tree.body
    if cls is not None:
        for n in body:
            if isinstance(n, ast.ClassDef) and n.name == cls:
                body = n.body
                break
        else:
            raise TieBroken('class %s not found' % cls)
    for n in body:
        if isinstance(n, ast.FunctionDef) and n.name == name:
            return n
    raise TieBroken('function %s%s not found' % ((cls + '.') if cls else '', name))


def _int(node):
    if isinstance(node, ast.Constant) and isinstance(node.value, int) and not isinstance(node.value, bool):
        return node.value
    raise TieBroken('integer literal expected, got %s' % ast.dump(node)[:80])


def _sub_index(node, var):
    """`var[k]` -> k"""
    if isinstance(node, ast.Subscript) and isinstance(node.value, ast.Name) and node.value.id == var:
        return _int(node.slice)
    raise TieBroken('expected %s[k], got %s' % (var, ast.dump(node)[:80]))


def _term(node, var):
    """(d[i] & M) | ((d[i] & M) >> S) | ((d[i] & M) << S)  ->  (i, M, shr, shl)"""
    shr = shl = 0
    if isinstance(node, ast.BinOp) and isinstance(node.op, (ast.RShift, ast.LShift)):
        s = _int(node.right)
        if isinstance(node.op, ast.RShift):
            shr = s
        else:
            shl = s
        node = node.left
    if isinstance(node, ast.BinOp) and isinstance(node.op, ast.BitAnd):
        return (_sub_index(node.left, var), _int(node.right), shr, shl)
    raise TieBroken('6-bit term outside the grammar: %s' % ast.dump(node)[:120])


def _six_char(stmt, var):
    """string += chr(BASE + expr)  ->  (base, termA, termB|None)"""
    if not (isinstance(stmt, ast.AugAssign) and isinstance(stmt.op, ast.Add)
            and isinstance(stmt.value, ast.Call) and isinstance(stmt.value.func, ast.Name)
            and stmt.value.func.id == 'chr' and len(stmt.value.args) == 1):
        raise TieBroken('_unpack6bitascii: statement is not `string += chr(...)`')
    e = stmt.value.args[0]
    if not (isinstance(e, ast.BinOp) and isinstance(e.op, ast.Add)):
        raise TieBroken('_unpack6bitascii: chr argument is not BASE + expr')
    base = _int(e.left)
    x = e.right
    if isinstance(x, ast.BinOp) and isinstance(x.op, ast.BitOr):
        a = _term(x.left, var)
        b = _term(x.right, var)
        if a[3] != 0 or b[2] != 0:
            raise TieBroken('_unpack6bitascii: expected (.. >> s) | (.. << s)')
        return base, (a[0], a[1], a[2]), (b[0], b[1], b[3])
    a = _term(x, var)
    if a[3] != 0:
        raise TieBroken('_unpack6bitascii: single term must not shift left')
    return base, (a[0], a[1], a[2]), None


def _six(tree):
    fn = _func(tree, '_unpack6bitascii')
    loops = [n for n in fn.body if isinstance(n, ast.For)]
    if len(loops) != 1:
        raise TieBroken('_unpack6bitascii: expected exactly one for loop')
    loop = loops[0]
    it = loop.iter
    if not (isinstance(it, ast.Call) and isinstance(it.func, ast.Name) and it.func.id == 'range'
            and len(it.args) == 3 and _int(it.args[0]) == 0):
        raise TieBroken('_unpack6bitascii: loop is not range(0, len(data), step)')
    step = _int(it.args[2])
    chars, guards, var = [], [], None
    for st in loop.body:
        if isinstance(st, ast.Assign) and len(st.targets) == 1 and isinstance(st.targets[0], ast.Name) \
                and isinstance(st.value, ast.Subscript) and isinstance(st.value.slice, ast.Slice):
            var = st.targets[0].id      # d = data[i:i+step]
            up = st.value.slice.upper
            if not (isinstance(up, ast.BinOp) and isinstance(up.op, ast.Add) and _int(up.right) == step):
                raise TieBroken('_unpack6bitascii: group slice is not data[i:i+%d]' % step)
            continue
        if var is None:
            raise TieBroken('_unpack6bitascii: group variable not assigned first')
        if isinstance(st, ast.If):
            t = st.test
            if not (isinstance(t, ast.Compare) and len(t.ops) == 1 and isinstance(t.ops[0], ast.Gt)
                    and isinstance(t.left, ast.Call) and isinstance(t.left.func, ast.Name)
                    and t.left.func.id == 'len' and isinstance(t.left.args[0], ast.Name)
                    and t.left.args[0].id == var and not st.orelse):
                raise TieBroken('_unpack6bitascii: guard is not `if len(%s) > k:`' % var)
            g = _int(t.comparators[0])
            for s2 in st.body:
                chars.append(_six_char(s2, var))
                guards.append(g)
            continue
        chars.append(_six_char(st, var))
        guards.append(0)
    if step != 3 or len(chars) != 4:
        raise TieBroken('_unpack6bitascii: expected 4 characters per 3-byte group, got %d per %d' % (len(chars), step))
    bases = set(c[0] for c in chars)
    if len(bases) != 1:
        raise TieBroken('_unpack6bitascii: different bases')
    need = [max(c[1][0], c[2][0] if c[2] else 0) for c in chars]   # highest index a character reads
    if guards == [0, 0, 0, 0]:
        form = 'strict'
    elif guards == need:
        form = 'partial'
    else:
        raise TieBroken('_unpack6bitascii: guards %s match neither the shipped nor the repaired form' % guards)
    return bases.pop(), chars, form


def _type_length(tree):
    fn = _func(tree, '_from_data', 'TypeLengthString')
    tshift = tmask = lmask = None
    bcd_conv = None
    for n in ast.walk(fn):
        if isinstance(n, ast.Assign) and len(n.targets) == 1 and isinstance(n.targets[0], ast.Attribute):
            name = n.targets[0].attr
            v = n.value
            if name == 'field_type':
                # data[offset] >> S & M
                if not (isinstance(v, ast.BinOp) and isinstance(v.op, ast.BitAnd)
                        and isinstance(v.left, ast.BinOp) and isinstance(v.left.op, ast.RShift)):
                    raise TieBroken('TypeLengthString.field_type is not data[offset] >> s & m')
                tshift, tmask = _int(v.left.right), _int(v.right)
            elif name == 'length':
                if not (isinstance(v, ast.BinOp) and isinstance(v.op, ast.BitAnd)):
                    raise TieBroken('TypeLengthString.length is not data[offset] & m')
                lmask = _int(v.right)
            elif name == 'string' and isinstance(v, ast.Call) and isinstance(v.func, ast.Attribute) \
                    and v.func.attr == 'decode':
                # self.raw.decode('bcd+')  |  bytes(bytearray(self.raw)).decode('bcd+')
                recv = v.func.value
                if isinstance(recv, ast.Attribute) and recv.attr == 'raw':
                    bcd_conv = False
                elif isinstance(recv, ast.Call):
                    bcd_conv = True
                else:
                    raise TieBroken('TypeLengthString BCD+ branch has an unknown receiver')
    if None in (tshift, tmask, lmask) or bcd_conv is None:
        raise TieBroken('TypeLengthString._from_data: type/length expressions not found')
    return tshift, tmask, lmask, bcd_conv


def _bcd(tree):
    fn = _func(tree, 'bcd_decode')
    for n in ast.walk(fn):
        if isinstance(n, ast.BinOp) and isinstance(n.op, ast.Add) \
                and isinstance(n.left, ast.Subscript) and isinstance(n.right, ast.Subscript):
            hi, lo = n.left.slice, n.right.slice
            if not (isinstance(hi, ast.BinOp) and isinstance(hi.op, ast.BitAnd)
                    and isinstance(hi.left, ast.BinOp) and isinstance(hi.left.op, ast.RShift)
                    and isinstance(lo, ast.BinOp) and isinstance(lo.op, ast.BitAnd)):
                break
            return _int(hi.left.right), _int(hi.right), _int(lo.right)
    raise TieBroken('bcd_decode: BCD_MAP[data >> s & m] + BCD_MAP[data & m] not found')


def _min_len(tree, cls):
    fn = _func(tree, '_from_data', cls)
    for n in fn.body:
        if isinstance(n, ast.If) and isinstance(n.test, ast.Compare) and len(n.test.ops) == 1 \
                and isinstance(n.test.left, ast.Call) and getattr(n.test.left.func, 'id', '') == 'len' \
                and n.body and isinstance(n.body[0], ast.Raise):
            k = _int(n.test.comparators[0])
            if isinstance(n.test.ops[0], ast.Lt):
                return k
            if isinstance(n.test.ops[0], ast.NotEq):
                return k
    raise TieBroken('%s._from_data: length guard not found' % cls)


def extract():
    import pyipmi.utils as utils
    import pyipmi.fields as fields
    import pyipmi.fru as fru
    m = utils.BCD_MAP
    if not (isinstance(m, list) and all(isinstance(c, str) and len(c) == 1 for c in m)):
        raise TieBroken('BCD_MAP is not a list of single characters')
    t_fields = _parse('pyipmi/fields.py')
    t_utils = _parse('pyipmi/utils.py')
    t_fru = _parse('pyipmi/fru.py')
    base, chars, form = _six(t_fields)
    tshift, tmask, lmask, bcd_conv = _type_length(t_fields)
    consts = {
        'bcdMap': [ord(c) for c in m],
        'bcd': _bcd(t_utils),
        'sixBase': base,
        'sixChars': chars,
        'sixForm': form,
        'bcdConverts': bcd_conv,
        'typeShift': tshift, 'typeMask': tmask, 'lenMask': lmask,
        'typeBcd': int(fields.TypeLengthString.TYPE_BCD_PLUS),
        'typeSix': int(fields.TypeLengthString.TYPE_6BIT_ASCII),
        'customFieldEnd': int(fru.CUSTOM_FIELD_END),
        'picmgRecordType': int(fru.FruDataMultiRecord.TYPE_OEM_PICMG),
        'powerModuleId': int(fru.FruPicmgRecord.PICMG_RECORD_ID_MTCA_POWER_MODULE_CAPABILITY),
        'headerLen': _min_len(t_fru, 'InventoryCommonHeader'),
        'minRecord': _min_len(t_fru, 'FruDataMultiRecord'),
        'minPicmg': _min_len(t_fru, 'FruPicmgRecord'),
        'minPower': _min_len(t_fru, 'FruPicmgPowerModuleCapabilityRecord'),
    }
    return consts


def render(c):
    def term(t):
        return '(%d, 0x%x, %d)' % t if t else '(0, 0, 0)'
    lines = [
        '/- GENERATED by harness/translate/fru.py from pyipmi/utils.py, fields.py, fru.py. Do not edit. -/',
        'namespace PyIpmi.Gen.FruTables',
        '',
        '/-- utils.BCD_MAP as code points -/',
        'def bcdMap : List Nat := [%s]' % ', '.join(str(x) for x in c['bcdMap']),
        '/-- bcd_decode: BCD_MAP[data >> s & m] + BCD_MAP[data & m] -/',
        'def bcdHiShift : Nat := %d' % c['bcd'][0],
        'def bcdHiMask : Nat := 0x%x' % c['bcd'][1],
        'def bcdLoMask : Nat := 0x%x' % c['bcd'][2],
        '',
        '/-- _unpack6bitascii: chr(base + ((d[i] & m) >> s | (d[j] & n) << t)); one entry per',
        'character of a 3-byte group: ((i, m, s), (j, n, t)); n = 0: no second term -/',
        'def sixBase : Nat := 0x%x' % c['sixBase'],
        'def sixChars : List ((Nat × Nat × Nat) × (Nat × Nat × Nat)) := [%s]' % ', '.join(
            '(%s, %s)' % (term(ch[1]), term(ch[2])) for ch in c['sixChars']),
        '',
        '/-- TypeLengthString._from_data: type = b >> s & m, length = b & n; type codes -/',
        'def typeShift : Nat := %d' % c['typeShift'],
        'def typeMask : Nat := 0x%x' % c['typeMask'],
        'def lenMask : Nat := 0x%x' % c['lenMask'],
        'def typeBcd : Nat := %d' % c['typeBcd'],
        'def typeSix : Nat := %d' % c['typeSix'],
        '',
        '/-- fru.py constants and length guards -/',
        'def customFieldEnd : Nat := 0x%x' % c['customFieldEnd'],
        'def picmgRecordType : Nat := 0x%x' % c['picmgRecordType'],
        'def powerModuleId : Nat := 0x%x' % c['powerModuleId'],
        'def headerLen : Nat := %d' % c['headerLen'],
        'def minRecord : Nat := %d' % c['minRecord'],
        'def minPicmg : Nat := %d' % c['minPicmg'],
        'def minPower : Nat := %d' % c['minPower'],
        '',
        'end PyIpmi.Gen.FruTables',
        '',
    ]
    return '\n'.join(lines)


def generate():
    c = extract()
    lean.write_if_changed(OUT, render(c))
    return c
