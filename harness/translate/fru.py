"""T: tables and constants of the FRU parser  ->  lean/PyIpmi/Gen/FruTables.lean

  pyipmi/utils.py   BCD_MAP (import) and the nibble expressions of bcd_decode (AST)
  pyipmi/fields.py  _unpack6bitascii: base, per-character (index, mask, shift) terms (AST);
                    TypeLengthString._from_data: type shift/mask, length mask (AST);
                    TYPE_BCD_PLUS / TYPE_6BIT_ASCII (import)
  pyipmi/fru.py     CUSTOM_FIELD_END, TYPE_OEM_PICMG, PICMG_RECORD_ID_MTCA_POWER_MODULE_CAPABILITY
                    (import); the `len(data) < N` guards of the record classes and the header
                    length (AST); the test of FruDataMultiRecord.create_from_record_id, the
                    `self.length < N` guards of the PICMG record classes, the validation of the
                    info-area length byte in CommonInfoArea._from_data and Fru._read_fru_area (AST)

Fails closed: any shape outside this small grammar raises TieBroken.
`extract()` additionally reports which of the two known forms `_unpack6bitascii` has
('strict' = every group must have 3 bytes, as shipped; 'partial' = guarded by len(d)),
whether the BCD+ branch converts `self.raw` before `.decode`, and for fru.py
  'dispatchForm'  'type-only' (as shipped: `data[0] == TYPE_OEM_PICMG`) | 'mfg-id' (`... and len(data) >= N
                  and data[2] >= M and (data[5] | data[6] << 8 | data[7] << 16) == PICMG_MANUFACTURER_ID`)
  'areaLenForm'   'lax' (as shipped: checksum over data[:length] straight away) | 'checked'
                  (`if self.length == 0 or len(data) < self.length: raise DecodingError`)
  'devLenForm'    'lax' (as shipped) | 'checked' (`if count == 0: raise DecodingError` in _read_fru_area)
  'fieldsForm'    'lax' (as shipped: the info-area classes decode from everything they were handed) | 'confined'
                  (CommonInfoArea._from_data returns `data[:self.length - 1]`, the three sub-classes decode from
                  that, FruTypeLengthString.__init__ and _decode_custom_fields raise DecodingError outside the data)
  'layoutForm'    'none' (as shipped) | 'checked' (`_check_area_layout(self.common_header, self)` ends
                  FruInventory._from_data)
  'devLayoutForm' 'none' (as shipped) | 'checked' (`_check_area_layout(header, fru)` before `return fru` in
                  Fru.get_fru_inventory)
each of them is compared with a probe of the running code by props/c15.py.
"""
import ast
import os

from ..lib import lean, repo
from ..lib.lean import TieBroken

OUT = os.path.join(lean.LEAN_DIR, 'PyIpmi', 'Gen', 'FruTables.lean')


def _parse(rel):
    return ast.parse(repo.read(rel))


def _func(tree, name, cls=None):
    body = tree.body
    if cls is not None:
        for n in body:
            if isinstance(n, ast.ClassDef) and n.name == cls:
                body = n.body
                break
        else:
            raise TieBroken('class %s not found' % cls)
    for n in body:
        if isinstance(n, ast.FunctionDef) and n.name == name:
            return n
    raise TieBroken('function %s%s not found' % ((cls + '.') if cls else '', name))


def _int(node):
    if isinstance(node, ast.Constant) and isinstance(node.value, int) and not isinstance(node.value, bool):
        return node.value
    raise TieBroken('integer literal expected, got %s' % ast.dump(node)[:80])


def _sub_index(node, var):
    """`var[k]` -> k"""
    if isinstance(node, ast.Subscript) and isinstance(node.value, ast.Name) and node.value.id == var:
        return _int(node.slice)
    raise TieBroken('expected %s[k], got %s' % (var, ast.dump(node)[:80]))


def _term(node, var):
    """(d[i] & M) | ((d[i] & M) >> S) | ((d[i] & M) << S)  ->  (i, M, shr, shl)"""
    shr = shl = 0
    if isinstance(node, ast.BinOp) and isinstance(node.op, (ast.RShift, ast.LShift)):
        s = _int(node.right)
        if isinstance(node.op, ast.RShift):
            shr = s
        else:
            shl = s
        node = node.left
    if isinstance(node, ast.BinOp) and isinstance(node.op, ast.BitAnd):
        return (_sub_index(node.left, var), _int(node.right), shr, shl)
    raise TieBroken('6-bit term outside the grammar: %s' % ast.dump(node)[:120])


def _six_char(stmt, var):
    """string += chr(BASE + expr)  ->  (base, termA, termB|None)"""
    if not (isinstance(stmt, ast.AugAssign) and isinstance(stmt.op, ast.Add)
            and isinstance(stmt.value, ast.Call) and isinstance(stmt.value.func, ast.Name)
            and stmt.value.func.id == 'chr' and len(stmt.value.args) == 1):
        raise TieBroken('_unpack6bitascii: statement is not `string += chr(...)`')
    e = stmt.value.args[0]
    if not (isinstance(e, ast.BinOp) and isinstance(e.op, ast.Add)):
        raise TieBroken('_unpack6bitascii: chr argument is not BASE + expr')
    base = _int(e.left)
    x = e.right
    if isinstance(x, ast.BinOp) and isinstance(x.op, ast.BitOr):
        a = _term(x.left, var)
        b = _term(x.right, var)
        if a[3] != 0 or b[2] != 0:
            raise TieBroken('_unpack6bitascii: expected (.. >> s) | (.. << s)')
        return base, (a[0], a[1], a[2]), (b[0], b[1], b[3])
    a = _term(x, var)
    if a[3] != 0:
        raise TieBroken('_unpack6bitascii: single term must not shift left')
    return base, (a[0], a[1], a[2]), None


def _six(tree):
    fn = _func(tree, '_unpack6bitascii')
    loops = [n for n in fn.body if isinstance(n, ast.For)]
    if len(loops) != 1:
        raise TieBroken('_unpack6bitascii: expected exactly one for loop')
    loop = loops[0]
    it = loop.iter
    if not (isinstance(it, ast.Call) and isinstance(it.func, ast.Name) and it.func.id == 'range'
            and len(it.args) == 3 and _int(it.args[0]) == 0):
        raise TieBroken('_unpack6bitascii: loop is not range(0, len(data), step)')
    step = _int(it.args[2])
    chars, guards, var = [], [], None
    for st in loop.body:
        if isinstance(st, ast.Assign) and len(st.targets) == 1 and isinstance(st.targets[0], ast.Name) \
                and isinstance(st.value, ast.Subscript) and isinstance(st.value.slice, ast.Slice):
            var = st.targets[0].id      # d = data[i:i+step]
            up = st.value.slice.upper
            if not (isinstance(up, ast.BinOp) and isinstance(up.op, ast.Add) and _int(up.right) == step):
                raise TieBroken('_unpack6bitascii: group slice is not data[i:i+%d]' % step)
            continue
        if var is None:
            raise TieBroken('_unpack6bitascii: group variable not assigned first')
        if isinstance(st, ast.If):
            t = st.test
            if not (isinstance(t, ast.Compare) and len(t.ops) == 1 and isinstance(t.ops[0], ast.Gt)
                    and isinstance(t.left, ast.Call) and isinstance(t.left.func, ast.Name)
                    and t.left.func.id == 'len' and isinstance(t.left.args[0], ast.Name)
                    and t.left.args[0].id == var and not st.orelse):
                raise TieBroken('_unpack6bitascii: guard is not `if len(%s) > k:`' % var)
            g = _int(t.comparators[0])
            for s2 in st.body:
                chars.append(_six_char(s2, var))
                guards.append(g)
            continue
        chars.append(_six_char(st, var))
        guards.append(0)
    if step != 3 or len(chars) != 4:
        raise TieBroken('_unpack6bitascii: expected 4 characters per 3-byte group, got %d per %d' % (len(chars), step))
    bases = set(c[0] for c in chars)
    if len(bases) != 1:
        raise TieBroken('_unpack6bitascii: different bases')
    need = [max(c[1][0], c[2][0] if c[2] else 0) for c in chars]   # highest index a character reads
    if guards == [0, 0, 0, 0]:
        form = 'strict'
    elif guards == need:
        form = 'partial'
    else:
        raise TieBroken('_unpack6bitascii: guards %s match neither the shipped nor the repaired form' % guards)
    return bases.pop(), chars, form


def _type_length(tree):
    fn = _func(tree, '_from_data', 'TypeLengthString')
    tshift = tmask = lmask = None
    bcd_conv = None
    for n in ast.walk(fn):
        if isinstance(n, ast.Assign) and len(n.targets) == 1 and isinstance(n.targets[0], ast.Attribute):
            name = n.targets[0].attr
            v = n.value
            if name == 'field_type':
                # data[offset] >> S & M
                if not (isinstance(v, ast.BinOp) and isinstance(v.op, ast.BitAnd)
                        and isinstance(v.left, ast.BinOp) and isinstance(v.left.op, ast.RShift)):
                    raise TieBroken('TypeLengthString.field_type is not data[offset] >> s & m')
                tshift, tmask = _int(v.left.right), _int(v.right)
            elif name == 'length':
                if not (isinstance(v, ast.BinOp) and isinstance(v.op, ast.BitAnd)):
                    raise TieBroken('TypeLengthString.length is not data[offset] & m')
                lmask = _int(v.right)
            elif name == 'string' and isinstance(v, ast.Call) and isinstance(v.func, ast.Attribute) \
                    and v.func.attr == 'decode':
                # self.raw.decode('bcd+')  |  bytes(bytearray(self.raw)).decode('bcd+')
                recv = v.func.value
                if isinstance(recv, ast.Attribute) and recv.attr == 'raw':
                    bcd_conv = False
                elif isinstance(recv, ast.Call):
                    bcd_conv = True
                else:
                    raise TieBroken('TypeLengthString BCD+ branch has an unknown receiver')
    if None in (tshift, tmask, lmask) or bcd_conv is None:
        raise TieBroken('TypeLengthString._from_data: type/length expressions not found')
    return tshift, tmask, lmask, bcd_conv


def _bcd(tree):
    fn = _func(tree, 'bcd_decode')
    for n in ast.walk(fn):
        if isinstance(n, ast.BinOp) and isinstance(n.op, ast.Add) \
                and isinstance(n.left, ast.Subscript) and isinstance(n.right, ast.Subscript):
            hi, lo = n.left.slice, n.right.slice
            if not (isinstance(hi, ast.BinOp) and isinstance(hi.op, ast.BitAnd)
                    and isinstance(hi.left, ast.BinOp) and isinstance(hi.left.op, ast.RShift)
                    and isinstance(lo, ast.BinOp) and isinstance(lo.op, ast.BitAnd)):
                break
            return _int(hi.left.right), _int(hi.right), _int(lo.right)
    raise TieBroken('bcd_decode: BCD_MAP[data >> s & m] + BCD_MAP[data & m] not found')


def _min_len(tree, cls):
    fn = _func(tree, '_from_data', cls)
    for n in fn.body:
        if isinstance(n, ast.If) and isinstance(n.test, ast.Compare) and len(n.test.ops) == 1 \
                and isinstance(n.test.left, ast.Call) and getattr(n.test.left.func, 'id', '') == 'len' \
                and n.body and isinstance(n.body[0], ast.Raise):
            k = _int(n.test.comparators[0])
            if isinstance(n.test.ops[0], ast.Lt):
                return k
            if isinstance(n.test.ops[0], ast.NotEq):
                return k
    raise TieBroken('%s._from_data: length guard not found' % cls)


def _is_name(node, name):
    return isinstance(node, ast.Name) and node.id == name


def _data_at(node, k):
    """`data[k]`"""
    return isinstance(node, ast.Subscript) and _is_name(node.value, 'data') \
        and isinstance(node.slice, ast.Constant) and node.slice.value == k


def _len_data(node):
    return isinstance(node, ast.Call) and _is_name(node.func, 'len') and len(node.args) == 1 \
        and _is_name(node.args[0], 'data')


def _self_attr(node, attr):
    return isinstance(node, ast.Attribute) and _is_name(node.value, 'self') and node.attr == attr


def _raises_decoding_error(body):
    if len(body) != 1 or not isinstance(body[0], ast.Raise):
        return False
    e = body[0].exc
    return isinstance(e, ast.Call) and _is_name(e.func, 'DecodingError')


def _cmp(node, op):
    return isinstance(node, ast.Compare) and len(node.ops) == 1 and isinstance(node.ops[0], op)


def _dispatch(tree):
    """FruDataMultiRecord.create_from_record_id -> ('type-only', None, None) | ('mfg-id', N, M)"""
    fn = _func(tree, 'create_from_record_id', 'FruDataMultiRecord')
    body = [n for n in fn.body if not (isinstance(n, ast.Expr) and isinstance(n.value, ast.Constant))]
    if len(body) != 1 or not isinstance(body[0], ast.If) or len(body[0].orelse) != 1:
        raise TieBroken('create_from_record_id is not a single if/else')
    st = body[0]

    def ret_call(stmts, cls, fn_name=None):
        if len(stmts) != 1 or not isinstance(stmts[0], ast.Return) or not isinstance(stmts[0].value, ast.Call):
            return False
        f = stmts[0].value.func
        args = stmts[0].value.args
        if len(args) != 1 or not _is_name(args[0], 'data'):
            return False
        if fn_name is None:
            return _is_name(f, cls)
        return isinstance(f, ast.Attribute) and f.attr == fn_name and _is_name(f.value, cls)
    if not ret_call(st.body, 'FruPicmgRecord', 'create_from_record_id') or not ret_call(st.orelse, 'FruDataUnknown'):
        raise TieBroken('create_from_record_id: branches are not FruPicmgRecord.create_from_record_id(data) / '
                        'FruDataUnknown(data)')

    def is_type_test(t):
        return _cmp(t, ast.Eq) and _data_at(t.left, 0) and isinstance(t.comparators[0], ast.Attribute) \
            and t.comparators[0].attr == 'TYPE_OEM_PICMG'
    t = st.test
    if is_type_test(t):
        return 'type-only', None, None
    if isinstance(t, ast.BoolOp) and isinstance(t.op, ast.And) and len(t.values) == 4 and is_type_test(t.values[0]):
        a, b, c = t.values[1:]
        if _cmp(a, ast.GtE) and _len_data(a.left) and _cmp(b, ast.GtE) and _data_at(b.left, 2) and _cmp(c, ast.Eq):
            m = c.left      # data[5] | data[6] << 8 | data[7] << 16
            ok = (isinstance(m, ast.BinOp) and isinstance(m.op, ast.BitOr)
                  and isinstance(m.left, ast.BinOp) and isinstance(m.left.op, ast.BitOr)
                  and _data_at(m.left.left, 5)
                  and isinstance(m.left.right, ast.BinOp) and isinstance(m.left.right.op, ast.LShift)
                  and _data_at(m.left.right.left, 6) and _int(m.left.right.right) == 8
                  and isinstance(m.right, ast.BinOp) and isinstance(m.right.op, ast.LShift)
                  and _data_at(m.right.left, 7) and _int(m.right.right) == 16)
            rhs = c.comparators[0]
            if ok and isinstance(rhs, ast.Attribute) and rhs.attr == 'PICMG_MANUFACTURER_ID':
                return 'mfg-id', _int(a.comparators[0]), _int(b.comparators[0])
    raise TieBroken('create_from_record_id: test is neither `data[0] == TYPE_OEM_PICMG` nor the repaired '
                    '`... and len(data) >= N and data[2] >= M and (data[5] | data[6] << 8 | data[7] << 16) == '
                    'PICMG_MANUFACTURER_ID`')


def _own_len_guard(tree, cls):
    """`if self.length < K: raise DecodingError(...)` directly in cls._from_data -> K | None; it has to
    stand right behind the call of the base class's _from_data"""
    fn = _func(tree, '_from_data', cls)
    found = None
    for i, n in enumerate(fn.body):
        if isinstance(n, ast.If) and _cmp(n.test, ast.Lt) and _self_attr(n.test.left, 'length'):
            if found is not None or n.orelse or not _raises_decoding_error(n.body):
                raise TieBroken('%s._from_data: unexpected `self.length` guard' % cls)
            prev = fn.body[i - 1] if i else None
            if not (isinstance(prev, ast.Expr) and isinstance(prev.value, ast.Call)
                    and isinstance(prev.value.func, ast.Attribute) and prev.value.func.attr == '_from_data'):
                raise TieBroken('%s._from_data: the `self.length` guard does not follow the base _from_data call' % cls)
            found = _int(n.test.comparators[0])
        elif isinstance(n, ast.If) and any(_self_attr(x, 'length') for x in ast.walk(n.test)):
            raise TieBroken('%s._from_data: `self.length` test outside the grammar' % cls)
    return found


def _area_len_form(tree):
    """CommonInfoArea._from_data: what stands between `self.length = data[1] * 8` and the checksum test"""
    fn = _func(tree, '_from_data', 'CommonInfoArea')
    idx = None
    for i, n in enumerate(fn.body):
        if isinstance(n, ast.Assign) and len(n.targets) == 1 and _self_attr(n.targets[0], 'length'):
            v = n.value
            if not (isinstance(v, ast.BinOp) and isinstance(v.op, ast.Mult) and _data_at(v.left, 1) and _int(v.right) == 8):
                raise TieBroken('CommonInfoArea.length is not data[1] * 8')
            idx = i
    if idx is None:
        raise TieBroken('CommonInfoArea._from_data: `self.length = data[1] * 8` not found')
    rest = fn.body[idx + 1:]
    if rest and isinstance(rest[-1], ast.Return):
        # fixes/C15-4.diff: `return data[:self.length - 1]` (read by _fields_form)
        rest = rest[:-1]

    def is_sum_test(n):
        # if sum(data[:self.length]) % 256 != 0: raise DecodingError
        if not (isinstance(n, ast.If) and _cmp(n.test, ast.NotEq) and not n.orelse and _raises_decoding_error(n.body)):
            return False
        l = n.test.left
        if not (isinstance(l, ast.BinOp) and isinstance(l.op, ast.Mod) and _int(l.right) == 256 and _int(n.test.comparators[0]) == 0):
            return False
        c = l.left
        if not (isinstance(c, ast.Call) and _is_name(c.func, 'sum') and len(c.args) == 1):
            return False
        sl = c.args[0]
        return isinstance(sl, ast.Subscript) and _is_name(sl.value, 'data') and isinstance(sl.slice, ast.Slice) \
            and sl.slice.lower is None and _self_attr(sl.slice.upper, 'length')
    if len(rest) == 1 and is_sum_test(rest[0]):
        return 'lax'
    if len(rest) == 2 and is_sum_test(rest[1]):
        g = rest[0]
        if isinstance(g, ast.If) and not g.orelse and _raises_decoding_error(g.body) \
                and isinstance(g.test, ast.BoolOp) and isinstance(g.test.op, ast.Or) and len(g.test.values) == 2:
            a, b = g.test.values
            if _cmp(a, ast.Eq) and _self_attr(a.left, 'length') and _int(a.comparators[0]) == 0 \
                    and _cmp(b, ast.Lt) and _len_data(b.left) and _self_attr(b.comparators[0], 'length'):
                return 'checked'
    raise TieBroken('CommonInfoArea._from_data: the statements behind `self.length = data[1] * 8` are neither the '
                    'shipped checksum test nor `if self.length == 0 or len(data) < self.length: raise` + checksum test')


def _dev_len_form(tree):
    """Fru._read_fru_area: `count = data[1] * 8` [+ `if count == 0: raise DecodingError`] + return read"""
    fn = _func(tree, '_read_fru_area', 'Fru')
    body = [n for n in fn.body if not (isinstance(n, ast.Expr) and isinstance(n.value, ast.Constant))]
    idx = None
    for i, n in enumerate(body):
        if isinstance(n, ast.Assign) and len(n.targets) == 1 and _is_name(n.targets[0], 'count'):
            v = n.value
            if not (isinstance(v, ast.BinOp) and isinstance(v.op, ast.Mult) and _data_at(v.left, 1) and _int(v.right) == 8):
                raise TieBroken('_read_fru_area: count is not data[1] * 8')
            idx = i
    if idx is None:
        raise TieBroken('_read_fru_area: `count = data[1] * 8` not found')
    rest = body[idx + 1:]
    if len(rest) == 1 and isinstance(rest[0], ast.Return):
        return 'lax'
    if len(rest) == 2 and isinstance(rest[1], ast.Return):
        g = rest[0]
        if isinstance(g, ast.If) and not g.orelse and _raises_decoding_error(g.body) and _cmp(g.test, ast.Eq) \
                and _is_name(g.test.left, 'count') and _int(g.test.comparators[0]) == 0:
            return 'checked'
    raise TieBroken('_read_fru_area: the statements behind `count = data[1] * 8` are neither `return read` nor '
                    '`if count == 0: raise DecodingError` + `return read`')


def _is_confined_slice(node):
    """`data[:self.length - 1]`"""
    return isinstance(node, ast.Subscript) and _is_name(node.value, 'data') and isinstance(node.slice, ast.Slice) \
        and node.slice.lower is None and node.slice.step is None and isinstance(node.slice.upper, ast.BinOp) \
        and isinstance(node.slice.upper.op, ast.Sub) and _self_attr(node.slice.upper.left, 'length') \
        and _int(node.slice.upper.right) == 1


def _no_doc(body):
    return [n for n in body if not (isinstance(n, ast.Expr) and isinstance(n.value, ast.Constant))]


def _fields_form(t_fields, t_fru):
    """-> ('lax', None) | ('confined', mask of the FruTypeLengthString guard)"""
    votes = []
    # 1. FruTypeLengthString.__init__: [guard +] super().__init__(...)
    fn = _func(t_fields, '__init__', 'FruTypeLengthString')
    body = _no_doc(fn.body)
    mask = None
    if len(body) == 1 and isinstance(body[0], ast.Expr) and isinstance(body[0].value, ast.Call):
        votes.append(False)
    elif len(body) == 2 and isinstance(body[0], ast.If) and isinstance(body[1], ast.Expr):
        g = body[0]
        ok = not g.orelse and _raises_decoding_error(g.body) and isinstance(g.test, ast.BoolOp) \
            and isinstance(g.test.op, ast.And) and len(g.test.values) == 2
        if ok:
            a, b = g.test.values
            ok = _cmp(a, ast.IsNot) and _is_name(a.left, 'data') and isinstance(a.comparators[0], ast.Constant) \
                and a.comparators[0].value is None and isinstance(b, ast.BoolOp) and isinstance(b.op, ast.Or) \
                and len(b.values) == 2
        if ok:
            c, d = b.values
            ok = _cmp(c, ast.GtE) and _is_name(c.left, 'offset') and _len_data(c.comparators[0]) \
                and _cmp(d, ast.Gt) and _len_data(d.comparators[0])
        if ok:
            e = d.left      # offset + 1 + (data[offset] & M)
            ok = isinstance(e, ast.BinOp) and isinstance(e.op, ast.Add) and isinstance(e.left, ast.BinOp) \
                and isinstance(e.left.op, ast.Add) and _is_name(e.left.left, 'offset') and _int(e.left.right) == 1 \
                and isinstance(e.right, ast.BinOp) and isinstance(e.right.op, ast.BitAnd) \
                and isinstance(e.right.left, ast.Subscript) and _is_name(e.right.left.value, 'data') \
                and _is_name(e.right.left.slice, 'offset')
        if not ok:
            raise TieBroken('FruTypeLengthString.__init__: the guard is not `if data is not None and (offset >= len(data) '
                            'or offset + 1 + (data[offset] & M) > len(data)): raise DecodingError`')
        mask = _int(e.right.right)
        votes.append(True)
    else:
        raise TieBroken('FruTypeLengthString.__init__ is neither the bare super().__init__ call nor guard + call')
    # 2. _decode_custom_fields: `while data[offset] != CUSTOM_FIELD_END:` | `while True: if offset >= len(data): raise; if
    #    data[offset] == CUSTOM_FIELD_END: break; ...`
    fn = _func(t_fru, '_decode_custom_fields')
    loops = [n for n in fn.body if isinstance(n, ast.While)]
    if len(loops) != 1:
        raise TieBroken('_decode_custom_fields: expected exactly one while loop')
    w = loops[0]

    def at_offset(n):
        return isinstance(n, ast.Subscript) and _is_name(n.value, 'data') and _is_name(n.slice, 'offset')
    if _cmp(w.test, ast.NotEq) and at_offset(w.test.left) and _is_name(w.test.comparators[0], 'CUSTOM_FIELD_END'):
        if len(w.body) != 3:
            raise TieBroken('_decode_custom_fields: loop body outside the grammar')
        votes.append(False)
    elif isinstance(w.test, ast.Constant) and w.test.value is True and len(w.body) == 5:
        g1, g2 = w.body[0], w.body[1]
        ok = isinstance(g1, ast.If) and not g1.orelse and _raises_decoding_error(g1.body) and _cmp(g1.test, ast.GtE) \
            and _is_name(g1.test.left, 'offset') and _len_data(g1.test.comparators[0]) \
            and isinstance(g2, ast.If) and not g2.orelse and len(g2.body) == 1 and isinstance(g2.body[0], ast.Break) \
            and _cmp(g2.test, ast.Eq) and at_offset(g2.test.left) and _is_name(g2.test.comparators[0], 'CUSTOM_FIELD_END')
        if not ok:
            raise TieBroken('_decode_custom_fields: `while True` loop without the two known guards')
        votes.append(True)
    else:
        raise TieBroken('_decode_custom_fields: loop is neither `while data[offset] != CUSTOM_FIELD_END` nor the guarded '
                        '`while True`')
    # 3. CommonInfoArea._from_data ends with `return data[:self.length - 1]` (or returns nothing)
    fn = _func(t_fru, '_from_data', 'CommonInfoArea')
    rets = [n for n in ast.walk(fn) if isinstance(n, ast.Return)]
    if not rets:
        votes.append(False)
    elif len(rets) == 1 and fn.body[-1] is rets[0] and _is_confined_slice(rets[0].value):
        votes.append(True)
    else:
        raise TieBroken('CommonInfoArea._from_data: return statement other than a final `return data[:self.length - 1]`')
    # 4. the three sub-classes: `CommonInfoArea._from_data(self, data)` as a statement | `data = ...`
    for cls in ('InventoryChassisInfoArea', 'InventoryBoardInfoArea', 'InventoryProductInfoArea'):
        fn = _func(t_fru, '_from_data', cls)
        st = _no_doc(fn.body)[0]

        def base_call(v):
            return isinstance(v, ast.Call) and isinstance(v.func, ast.Attribute) and v.func.attr == '_from_data' \
                and _is_name(v.func.value, 'CommonInfoArea') and len(v.args) == 2 and _is_name(v.args[0], 'self') \
                and _is_name(v.args[1], 'data')
        if isinstance(st, ast.Expr) and base_call(st.value):
            votes.append(False)
        elif isinstance(st, ast.Assign) and len(st.targets) == 1 and _is_name(st.targets[0], 'data') and base_call(st.value):
            votes.append(True)
        else:
            raise TieBroken('%s._from_data does not start with [data =] CommonInfoArea._from_data(self, data)' % cls)
    if all(votes):
        return 'confined', mask
    if not any(votes):
        return 'lax', None
    raise TieBroken('info-area fields: a mixture of the shipped and the confined form (FruTypeLengthString guard, '
                    '_decode_custom_fields, CommonInfoArea return, three sub-classes: %s)' % votes)


_LAYOUT_SRC = '''
def _check_area_layout(header, fru):
    starts = (header.internal_use_area_offset,
              header.chassis_info_area_offset,
              header.board_info_area_offset,
              header.product_info_area_offset,
              header.multirecord_area_offset)
    records = getattr(fru.multirecord_area, 'records', ())
    lengths = (0,
               getattr(fru.chassis_info_area, 'length', 0),
               getattr(fru.board_info_area, 'length', 0),
               getattr(fru.product_info_area, 'length', 0),
               sum(record.length + 5 for record in records))
    for i, start in enumerate(starts):
        for j, other in enumerate(starts):
            if (i != j and start and other
                    and start <= other < start + lengths[i]):
                raise DecodingError('FRU areas overlap')
'''


def _layout_forms(t_fru):
    """-> (layoutForm, devLayoutForm): 'none' | 'checked'"""
    def is_call(n, a0, a1):
        if not (isinstance(n, ast.Expr) and isinstance(n.value, ast.Call) and _is_name(n.value.func, '_check_area_layout')
                and len(n.value.args) == 2 and not n.value.keywords):
            return False
        x, y = n.value.args
        return a0(x) and a1(y)

    def calls(fn):
        return [n for n in ast.walk(fn) if isinstance(n, ast.Call) and _is_name(n.func, '_check_area_layout')]
    fn = _func(t_fru, '_from_data', 'FruInventory')
    if not calls(fn):
        file_form = 'none'
    elif len(calls(fn)) == 1 and is_call(fn.body[-1], lambda x: _self_attr(x, 'common_header'), lambda y: _is_name(y, 'self')):
        file_form = 'checked'
    else:
        raise TieBroken('FruInventory._from_data: _check_area_layout is not called as its last statement with '
                        '(self.common_header, self)')
    fn = _func(t_fru, 'get_fru_inventory', 'Fru')
    if not calls(fn):
        dev_form = 'none'
    elif len(calls(fn)) == 1 and len(fn.body) >= 2 and isinstance(fn.body[-1], ast.Return) and _is_name(fn.body[-1].value, 'fru') \
            and is_call(fn.body[-2], lambda x: _is_name(x, 'header'), lambda y: _is_name(y, 'fru')):
        dev_form = 'checked'
    else:
        raise TieBroken('Fru.get_fru_inventory: _check_area_layout(header, fru) does not stand right before `return fru`')
    if 'checked' in (file_form, dev_form):
        fn = _func(t_fru, '_check_area_layout')
        got = ast.dump(ast.Module(body=_no_doc(fn.body), type_ignores=[]))
        ref = ast.dump(ast.Module(body=ast.parse(_LAYOUT_SRC).body[0].body, type_ignores=[]))
        args = [a.arg for a in fn.args.args]
        if got != ref or args != ['header', 'fru']:
            raise TieBroken('_check_area_layout differs from the known form (five header offsets; lengths 0 / area.length / '
                            'sum(record.length + 5); `i != j and start and other and start <= other < start + lengths[i]`)')
    return file_form, dev_form


def extract():
    import pyipmi.utils as utils
    import pyipmi.fields as fields
    import pyipmi.fru as fru
    m = utils.BCD_MAP
    if not (isinstance(m, list) and all(isinstance(c, str) and len(c) == 1 for c in m)):
        raise TieBroken('BCD_MAP is not a list of single characters')
    t_fields = _parse('pyipmi/fields.py')
    t_utils = _parse('pyipmi/utils.py')
    t_fru = _parse('pyipmi/fru.py')
    base, chars, form = _six(t_fields)
    tshift, tmask, lmask, bcd_conv = _type_length(t_fields)
    dform, dmin_data, dmin_len = _dispatch(t_fru)
    picmg_len = _own_len_guard(t_fru, 'FruPicmgRecord')
    power_len = _own_len_guard(t_fru, 'FruPicmgPowerModuleCapabilityRecord')
    mfg = getattr(fru.FruPicmgRecord, 'PICMG_MANUFACTURER_ID', None)
    fields_form, field_mask = _fields_form(t_fields, t_fru)
    layout_form, dev_layout_form = _layout_forms(t_fru)
    if dform == 'mfg-id':
        if not isinstance(mfg, int) or isinstance(mfg, bool) or picmg_len is None or power_len is None:
            raise TieBroken('create_from_record_id compares the manufacturer id but PICMG_MANUFACTURER_ID or the '
                            '`self.length` guards of the PICMG record classes are missing')
    elif picmg_len is not None or power_len is not None:
        raise TieBroken('a PICMG record class tests self.length but create_from_record_id dispatches on the type only')
    else:
        mfg = None
    consts = {
        'bcdMap': [ord(c) for c in m],
        'bcd': _bcd(t_utils),
        'sixBase': base,
        'sixChars': chars,
        'sixForm': form,
        'bcdConverts': bcd_conv,
        'typeShift': tshift, 'typeMask': tmask, 'lenMask': lmask,
        'typeBcd': int(fields.TypeLengthString.TYPE_BCD_PLUS),
        'typeSix': int(fields.TypeLengthString.TYPE_6BIT_ASCII),
        'customFieldEnd': int(fru.CUSTOM_FIELD_END),
        'picmgRecordType': int(fru.FruDataMultiRecord.TYPE_OEM_PICMG),
        'powerModuleId': int(fru.FruPicmgRecord.PICMG_RECORD_ID_MTCA_POWER_MODULE_CAPABILITY),
        'headerLen': _min_len(t_fru, 'InventoryCommonHeader'),
        'minRecord': _min_len(t_fru, 'FruDataMultiRecord'),
        'minPicmg': _min_len(t_fru, 'FruPicmgRecord'),
        'minPower': _min_len(t_fru, 'FruPicmgPowerModuleCapabilityRecord'),
        'dispatchForm': dform,
        'picmgMfgId': mfg, 'dispatchMinData': dmin_data, 'dispatchMinLen': dmin_len,
        'picmgMinLen': picmg_len, 'powerMinLen': power_len,
        'areaLenForm': _area_len_form(t_fru),
        'devLenForm': _dev_len_form(t_fru),
        'fieldsForm': fields_form, 'fieldLenMask': field_mask,
        'layoutForm': layout_form, 'devLayoutForm': dev_layout_form,
    }
    return consts


def render(c):
    def term(t):
        return '(%d, 0x%x, %d)' % t if t else '(0, 0, 0)'

    def opt(v, fmt='%d'):
        return 'none' if v is None else 'some ' + fmt % v
    lines = [
        '/- GENERATED by harness/translate/fru.py from pyipmi/utils.py, fields.py, fru.py. Do not edit. -/',
        'namespace PyIpmi.Gen.FruTables',
        '',
        '/-- utils.BCD_MAP as code points -/',
        'def bcdMap : List Nat := [%s]' % ', '.join(str(x) for x in c['bcdMap']),
        '/-- bcd_decode: BCD_MAP[data >> s & m] + BCD_MAP[data & m] -/',
        'def bcdHiShift : Nat := %d' % c['bcd'][0],
        'def bcdHiMask : Nat := 0x%x' % c['bcd'][1],
        'def bcdLoMask : Nat := 0x%x' % c['bcd'][2],
        '',
        '/-- _unpack6bitascii: chr(base + ((d[i] & m) >> s | (d[j] & n) << t)); one entry per',
        'character of a 3-byte group: ((i, m, s), (j, n, t)); n = 0: no second term -/',
        'def sixBase : Nat := 0x%x' % c['sixBase'],
        'def sixChars : List ((Nat × Nat × Nat) × (Nat × Nat × Nat)) := [%s]' % ', '.join(
            '(%s, %s)' % (term(ch[1]), term(ch[2])) for ch in c['sixChars']),
        '',
        '/-- TypeLengthString._from_data: type = b >> s & m, length = b & n; type codes -/',
        'def typeShift : Nat := %d' % c['typeShift'],
        'def typeMask : Nat := 0x%x' % c['typeMask'],
        'def lenMask : Nat := 0x%x' % c['lenMask'],
        'def typeBcd : Nat := %d' % c['typeBcd'],
        'def typeSix : Nat := %d' % c['typeSix'],
        '',
        '/-- fru.py constants and length guards -/',
        'def customFieldEnd : Nat := 0x%x' % c['customFieldEnd'],
        'def picmgRecordType : Nat := 0x%x' % c['picmgRecordType'],
        'def powerModuleId : Nat := 0x%x' % c['powerModuleId'],
        'def headerLen : Nat := %d' % c['headerLen'],
        'def minRecord : Nat := %d' % c['minRecord'],
        'def minPicmg : Nat := %d' % c['minPicmg'],
        'def minPower : Nat := %d' % c['minPower'],
        '',
        '/-- create_from_record_id `... and len(data) >= N and data[2] >= M and (data[5] | data[6] << 8 | data[7] << 16)',
        '== PICMG_MANUFACTURER_ID`; `if self.length < K: raise` of FruPicmgRecord / ...PowerModuleCapabilityRecord',
        '(none: this tree dispatches on the record type only and has no such guard) -/',
        'def picmgMfgId : Option Nat := %s' % opt(c['picmgMfgId'], '0x%x'),
        'def dispatchMinData : Option Nat := %s' % opt(c['dispatchMinData']),
        'def dispatchMinLen : Option Nat := %s' % opt(c['dispatchMinLen']),
        'def picmgMinLen : Option Nat := %s' % opt(c['picmgMinLen']),
        'def powerMinLen : Option Nat := %s' % opt(c['powerMinLen']),
        '/-- FruTypeLengthString.__init__ `offset + 1 + (data[offset] & M) > len(data)` (none: no such guard) -/',
        'def fieldLenMask : Option Nat := %s' % opt(c['fieldLenMask'], '0x%x'),
        '',
        '/-- which of the two known FORMS each of the eight repaired places has in this tree, as read from the AST',
        '(true = the form of the pinned tree): TypeLengthString BCD+ branch decodes `self.raw` without converting it to',
        'bytes; _unpack6bitascii indexes d[1], d[2] unguarded; CommonInfoArea._from_data sums data[:length] without',
        'checking the length byte; Fru._read_fru_area returns the read without checking count; create_from_record_id',
        'tests `data[0] == TYPE_OEM_PICMG` only; the info-area classes decode their fields from everything they were',
        'handed (no `return data[:self.length - 1]`, no DecodingError for a field outside the data); FruInventory._from_data',
        '/ Fru.get_fru_inventory do not call _check_area_layout.  (Fields of Model/FruParse.Variant, in its order.) -/',
        'def bcdBytesOnly : Bool := %s' % ('false' if c['bcdConverts'] else 'true'),
        'def sixStrict : Bool := %s' % ('true' if c['sixForm'] == 'strict' else 'false'),
        'def areaLenLax : Bool := %s' % ('true' if c['areaLenForm'] == 'lax' else 'false'),
        'def devLenLax : Bool := %s' % ('true' if c['devLenForm'] == 'lax' else 'false'),
        'def picmgTypeOnly : Bool := %s' % ('true' if c['dispatchForm'] == 'type-only' else 'false'),
        'def fieldsLax : Bool := %s' % ('true' if c['fieldsForm'] == 'lax' else 'false'),
        'def overlapLax : Bool := %s' % ('true' if c['layoutForm'] == 'none' else 'false'),
        'def devOverlapLax : Bool := %s' % ('true' if c['devLayoutForm'] == 'none' else 'false'),
        '',
        'end PyIpmi.Gen.FruTables',
        '',
    ]
    return '\n'.join(lines)


def generate():
    c = extract()
    lean.write_if_changed(OUT, render(c))
    return c
