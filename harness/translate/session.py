"""Translator for C06: the ORDER of the session handshake and what each step assigns, read from the AST
of pyipmi/interfaces/rmcp.py (`Rmcp.establish_session`, `close_session`, `_get_session_challenge`,
`_activate_session`, `_set_session_privilege_level`) and written to lean/PyIpmi/Gen/SessionShape.lean.

Every statement of the anchored methods that is a call of `self.<method>(…)` or an assignment becomes
one event string, in source order:

    call:<method>                      self.<method>(...) as a statement or on the right of `x = …`
    set:<target>=<source>              assignment; both sides printed as dotted paths / call names / constants

(`log().debug(...)` lines and comments are not events; an `if` contributes `if:<test>` followed by the
events of its body and `end`; `a or b` / `a and b` tests are printed with their operands in source order;
`raise E(...)` is `raise:E`.)  The Lean side states the list the model of `establish` / `close` mirrors
(`Session.Shape.expected…`) and `Props.C06.handshake_shape` proves the generated lists equal to it, so a
re-ordering of the handshake, a value taken from another place (temporary vs. granted id, where
`activated` is set, which sequence number is stored) or a dropped step regenerates this file and the
theorem stops building.  Fail closed: statements outside the grammar are printed as `other:<ast class>`.
"""
import ast
import os

from ..lib import lean, repo

OUT = os.path.join(lean.LEAN_DIR, 'PyIpmi', 'Gen', 'SessionShape.lean')
METHODS = ['establish_session', 'close_session', '_get_channel_auth_cap', '_get_session_challenge',
           '_activate_session', '_set_session_privilege_level', '_get_device_id']


def _path(n):
    if isinstance(n, ast.Name):
        return n.id
    if isinstance(n, ast.Attribute):
        return _path(n.value) + '.' + n.attr
    if isinstance(n, ast.Constant):
        return repr(n.value)
    if isinstance(n, ast.Call):
        return _path(n.func) + '(' + ','.join(_path(a) for a in n.args) + \
            ''.join(',%s=%s' % (k.arg, _path(k.value)) for k in n.keywords) + ')'
    if isinstance(n, ast.Compare) and len(n.ops) == 1:
        op = {ast.Is: ' is ', ast.IsNot: ' is not ', ast.Eq: '==', ast.NotEq: '!='}.get(type(n.ops[0]), '?')
        return _path(n.left) + op + _path(n.comparators[0])
    if isinstance(n, ast.UnaryOp) and isinstance(n.op, ast.Not):
        return 'not ' + _path(n.operand)
    if isinstance(n, ast.BoolOp):
        return (' or ' if isinstance(n.op, ast.Or) else ' and ').join(_path(v) for v in n.values)
    return '<%s>' % type(n).__name__


def _is_log(stmt):
    return (isinstance(stmt, ast.Expr) and isinstance(stmt.value, ast.Call)
            and isinstance(stmt.value.func, ast.Attribute) and isinstance(stmt.value.func.value, ast.Call)
            and isinstance(stmt.value.func.value.func, ast.Name) and stmt.value.func.value.func.id == 'log')


def _self_call(n):
    return (isinstance(n, ast.Call) and isinstance(n.func, ast.Attribute) and isinstance(n.func.value, ast.Name)
            and n.func.value.id == 'self')


def events(body):
    out = []
    for s in body:
        if _is_log(s) or (isinstance(s, ast.Expr) and isinstance(s.value, ast.Constant)):
            continue
        if isinstance(s, ast.Expr) and isinstance(s.value, ast.Call):
            out.append(('call:' + s.value.func.attr) if _self_call(s.value) else 'expr:' + _path(s.value))
        elif isinstance(s, ast.Assign) and len(s.targets) == 1:
            if _self_call(s.value):
                out.append('call:' + s.value.func.attr)
                if not isinstance(s.targets[0], ast.Name):
                    out.append('set:%s=<result>' % _path(s.targets[0]))
            else:
                out.append('set:%s=%s' % (_path(s.targets[0]), _path(s.value)))
        elif isinstance(s, ast.If):
            out.append('if:' + _path(s.test))
            out.extend(events(s.body))
            if s.orelse:
                out.append('else')
                out.extend(events(s.orelse))
            out.append('end')
        elif isinstance(s, ast.Return):
            out.append('return' + ('' if s.value is None else ':' + _path(s.value)))
        elif isinstance(s, ast.Raise) and s.exc is not None and s.cause is None:
            exc = s.exc.func if isinstance(s.exc, ast.Call) else s.exc
            out.append('raise:' + _path(exc))
        else:
            out.append('other:' + type(s).__name__)
    return out


def analyse():
    tree = ast.parse(repo.read('pyipmi/interfaces/rmcp.py'))
    rmcp = next((n for n in tree.body if isinstance(n, ast.ClassDef) and n.name == 'Rmcp'), None)
    if rmcp is None:
        raise lean.TieBroken('class Rmcp not found')
    res = {}
    for m in METHODS:
        fn = next((n for n in rmcp.body if isinstance(n, ast.FunctionDef) and n.name == m), None)
        res[m] = ['missing'] if fn is None else events(fn.body)
    return res


def _lean_str(s):
    return '"' + s.replace('\\', '\\\\').replace('"', '\\"') + '"'


def generate():
    res = analyse()
    lines = ['/- GENERATED by harness/translate/session.py from pyipmi/interfaces/rmcp.py on every run of ./check C06',
             '   — do not edit.  One event per statement of the anchored methods, in source order. -/',
             'namespace PyIpmi.Gen.SessionShape', '']
    for m in METHODS:
        name = m.strip('_')
        parts = [x.capitalize() if i else x for i, x in enumerate(name.split('_'))]
        lines.append('def %s : List String :=\n  [%s]\n' % (''.join(parts), ',\n   '.join(_lean_str(e) for e in res[m])))
    lines.append('end PyIpmi.Gen.SessionShape')
    lean.write_if_changed(OUT, '\n'.join(lines) + '\n')
    return res
