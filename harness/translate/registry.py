"""T: pyipmi.msgs.registry.DEFAULT_REGISTRY  ->  lean/PyIpmi/Gen/Registry.lean

Live introspection of the working tree: every registered class, its ids and its
`__fields__` walked object by object.  Fails closed: a field class or user function that is
outside the translator's vocabulary raises TieBroken; a class that cannot be instantiated
or whose `__fields__` is not a tuple of fields is emitted as `malformed` (which makes
`registry_wf` false).
"""
import ast
import inspect
import os
import textwrap

from ..lib import lean
from ..lib.lean import TieBroken

OUT = os.path.join(lean.LEAN_DIR, 'PyIpmi', 'Gen', 'Registry.lean')


def _lean_str(s):
    return '"' + s.replace('\\', '\\\\').replace('"', '\\"') + '"'


def _nat_list(l):
    return '[' + ', '.join(str(int(x)) for x in l) + ']'


def _to_bytes(v):
    if v is None:
        return []
    if isinstance(v, str):
        return list(v.encode())
    return list(bytearray(v))


class FieldInfo(object):
    """Python-side view of one field (shared by translator and correspondence harness)."""

    def __init__(self, name, wrap, prim, dflt, cond=None, extra=None):
        self.name = name
        self.wrap = wrap      # 'plain' | 'optional' | 'cond'
        self.prim = prim      # ('uint', n) ('cc',) ('bytes', n) ('str', n) ('varBytes', idx) ('remaining',) ('bits', n, [w], [names], [defaults])
        self.dflt = dflt      # ('int', v) ('arr', [..]) ('bits', [..]) ('none',)
        self.cond = cond      # nested tuple
        self.extra = extra


def _cond_expr(node, names, bitnames):
    if isinstance(node, ast.BoolOp):
        op = 'or' if isinstance(node.op, ast.Or) else 'and' if isinstance(node.op, ast.And) else None
        if op is None:
            raise TieBroken('unsupported boolean operator in Conditional predicate')
        parts = [_cond_expr(v, names, bitnames) for v in node.values]
        acc = parts[-1]
        for p in reversed(parts[:-1]):
            acc = (op, p, acc)
        return acc
    if isinstance(node, ast.Compare) and len(node.ops) == 1 and isinstance(node.ops[0], ast.Eq) \
            and isinstance(node.comparators[0], ast.Constant) and isinstance(node.comparators[0].value, int):
        val = node.comparators[0].value
        lhs = node.left
        if isinstance(lhs, ast.Attribute) and isinstance(lhs.value, ast.Attribute) \
                and isinstance(lhs.value.value, ast.Name):
            fld, bit = lhs.value.attr, lhs.attr
            if fld not in names:
                raise TieBroken('Conditional predicate refers to unknown field %s' % fld)
            i = names.index(fld)
            if fld not in bitnames or bit not in bitnames[fld]:
                raise TieBroken('Conditional predicate refers to unknown bit %s.%s' % (fld, bit))
            return ('bitEq', i, bitnames[fld].index(bit), val)
        if isinstance(lhs, ast.Attribute) and isinstance(lhs.value, ast.Name):
            if lhs.attr not in names:
                raise TieBroken('Conditional predicate refers to unknown field %s' % lhs.attr)
            return ('intEq', names.index(lhs.attr), val)
    raise TieBroken('Conditional predicate outside the translator grammar: %s' % ast.dump(node)[:200])


def _user_fn_body(fn):
    try:
        src = textwrap.dedent(inspect.getsource(fn))
    except (OSError, TypeError) as e:
        raise TieBroken('no source for user function %r: %s' % (fn, e))
    tree = ast.parse(src)
    node = tree.body[0]
    if isinstance(node, ast.FunctionDef):
        body = [b for b in node.body if not (isinstance(b, ast.Expr) and isinstance(b.value, ast.Constant))]
        if len(body) == 1 and isinstance(body[0], ast.Return):
            return body[0].value
    if isinstance(node, (ast.Assign, ast.Expr)):
        v = node.value
        if isinstance(v, ast.Lambda):
            return v.body
    raise TieBroken('user function %s is not a single return expression' % getattr(fn, '__name__', fn))


def _prim(msgmod, f, names, bitnames):
    t = type(f)
    M = msgmod
    uint_like = (M.UnsignedInt, M.Timestamp, M.UnsignedIntMask, M.GroupExtensionIdentifier,
                 M.EventMessageRevision)
    # the behaviour of a field is its class's encode/decode/create: they must be the known ones
    def same(meth, base):
        return getattr(t, meth) is getattr(base, meth)
    if t is M.CompletionCode:
        return ('cc',), ('int', 0 if f.default is None else int(f.default))
    if t in uint_like:
        if not (same('encode', M.UnsignedInt) and same('decode', M.UnsignedInt) and same('create', M.UnsignedInt)):
            raise TieBroken('%s overrides UnsignedInt behaviour' % t.__name__)
        return ('uint', int(f.length)), ('int', 0 if f.default is None else int(f.default))
    if t is M.ByteArray:
        d = _to_bytes(f.default) if f.default is not None else [0] * f.length
        return ('bytes', int(f.length)), ('arr', d)
    if t is M.VariableByteArray:
        body = _user_fn_body(f._length_func)
        if isinstance(body, ast.Attribute) and isinstance(body.value, ast.Name) and body.attr in names:
            return ('varBytes', names.index(body.attr)), ('none',)
        raise TieBroken('VariableByteArray length function outside the grammar `obj.<field>`')
    if t is M.String:
        return ('str', int(f.length)), ('arr', _to_bytes(f.default if f.default is not None else ''))
    if t is M.RemainingBytes:
        return ('remaining',), ('arr', [])
    if t is M.Bitfield:
        ws = [int(b._width) for b in f._bits]
        ds = [0 if b.default is None else int(b.default) for b in f._bits]
        return ('bits', int(f.length), ws, [b.name for b in f._bits], ds), ('bits', ds)
    raise TieBroken('field class %s is outside the translator vocabulary' % t.__name__)


def class_fields(cls):
    """[FieldInfo] for a class, or None if it has no __fields__; raises TieBroken / ValueError('malformed')."""
    from pyipmi.msgs import message as M
    if not hasattr(cls, '__fields__'):
        return None
    fields = cls.__fields__
    if not isinstance(fields, tuple):
        raise ValueError('malformed: __fields__ is %s, not a tuple' % type(fields).__name__)
    names, bitnames = [], {}
    for f in fields:
        try:
            names.append(f.name)
        except AttributeError:
            raise ValueError('malformed: element without a name')
        inner = f._field if type(f) in (M.Optional, M.Conditional) else f
        if type(inner) is M.Bitfield:
            bitnames[inner.name] = [b.name for b in inner._bits]
    out = []
    for i, f in enumerate(fields):
        if type(f) is M.Optional:
            prim, _ = _prim(M, f._field, names[:i], bitnames)
            out.append(FieldInfo(names[i], 'optional', prim, ('none',)))
        elif type(f) is M.Conditional:
            prim, dflt = _prim(M, f._field, names[:i], bitnames)
            cond = _cond_expr(_user_fn_body(f._condition_fn), names[:i], bitnames)
            out.append(FieldInfo(names[i], 'cond', prim, dflt, cond=cond))
        else:
            prim, dflt = _prim(M, f, names[:i], bitnames)
            out.append(FieldInfo(names[i], 'plain', prim, dflt))
    return out


def observe(obj, fields):
    """Canonical values currently held by a real message object, field by field."""
    out = []
    for f in fields:
        x = getattr(obj, f.name)
        if x is None:
            out.append(('none',))
        elif f.prim[0] == 'bits':
            out.append(('bits', [int(getattr(x, bn)) for bn in f.prim[3]]))
        elif isinstance(x, int):
            out.append(('int', int(x)))
        elif isinstance(x, str):
            out.append(('arr', x.encode()))
        else:
            out.append(('arr', bytes(bytearray(x))))
    return out


def _val(v):
    if v[0] == 'int':
        return '.int %d' % v[1]
    if v[0] == 'arr':
        return '.arr ' + _nat_list(v[1])
    if v[0] == 'bits':
        return '.bits ' + _nat_list(v[1])
    return '.none'


def _cond(c):
    if c[0] == 'bitEq':
        return '(.bitEq %d %d %d)' % c[1:]
    if c[0] == 'intEq':
        return '(.intEq %d %d)' % c[1:]
    return '(.%s %s %s)' % (c[0], _cond(c[1]), _cond(c[2]))


def _field(fi):
    p = fi.prim
    if p[0] == 'uint':
        prim = '.uint %d' % p[1]
    elif p[0] == 'cc':
        prim = '.cc'
    elif p[0] == 'bytes':
        prim = '.bytes %d' % p[1]
    elif p[0] == 'str':
        prim = '.str %d' % p[1]
    elif p[0] == 'varBytes':
        prim = '.varBytes %d' % p[1]
    elif p[0] == 'remaining':
        prim = '.remaining'
    else:
        prim = '.bits %d %s' % (p[1], _nat_list(p[2]))
    wrap = {'plain': '.plain', 'optional': '.optional'}.get(fi.wrap) or '.cond ' + _cond(fi.cond)
    return '⟨%s, %s, %s, %s⟩' % (_lean_str(fi.name), wrap, prim, _val(fi.dflt))


def snapshot():
    """[(cls, info dict)] for every registered class, in registration order."""
    import pyipmi.msgs  # noqa: F401
    from pyipmi.msgs.registry import DEFAULT_REGISTRY
    res = []
    for key, cls in DEFAULT_REGISTRY.registry.items():
        if not isinstance(key, str):
            continue
        info = {'name': cls.__name__, 'netfn': int(cls.__netfn__), 'cmd': int(cls.__cmdid__),
                'group': cls.__group_extension__, 'lun': int(cls.__default_lun__),
                'has_fields': hasattr(cls, '__fields__'), 'malformed': None, 'fields': []}
        try:
            fs = class_fields(cls)
            info['fields'] = fs or []
        except ValueError as e:
            info['malformed'] = str(e)
        if info['malformed'] is None:
            try:
                obj = cls()
                # creation defaults are what a fresh object actually holds (e.g. a field
                # called `data` is overwritten with '' by Message.__init__)
                for f, d in zip(info['fields'], observe(obj, info['fields'])):
                    f.dflt = ('arr', list(d[1])) if d[0] == 'arr' else d
            except Exception as e:  # "can be constructed"
                info['malformed'] = 'cannot be constructed: %s: %s' % (type(e).__name__, e)
        res.append((cls, info))
    # id order: request and response of one command become neighbours (Props/C01.registry_paired)
    res.sort(key=lambda ci: (ci[1]['netfn'] // 2, ci[1]['cmd'], -1 if ci[1]['group'] is None else int(ci[1]['group']),
                             ci[1]['netfn'] % 2, ci[1]['name']))
    return res


def generate():
    snap = snapshot()
    out = ['/- GENERATED by harness/translate/registry.py from the live message registry of the',
           '   working tree.  Do not edit: rewritten on every check run. -/',
           'import PyIpmi.Model.Codec',
           'namespace PyIpmi.Gen.Registry',
           'open PyIpmi.Codec',
           '']
    names = []
    for i, (cls, info) in enumerate(snap):
        nm = 'm%d' % i
        names.append(nm)
        grp = 'none' if info['group'] is None else 'some %d' % int(info['group'])
        fields = [] if info['malformed'] else info['fields']
        out.append('/-- %s%s -/' % (info['name'], (' — ' + info['malformed']) if info['malformed'] else ''))
        out.append('def %s : MsgSpec := ⟨%s, %s, %d, %d, %s, %d, %s, %s, [' % (
            nm, _lean_str(info['name']), 'true' if info['name'].endswith('Req') else 'false', info['netfn'], info['cmd'], grp, info['lun'],
            'true' if info['has_fields'] else 'false', 'true' if info['malformed'] else 'false'))
        out.append(',\n'.join('  ' + _field(f) for f in fields))
        out.append(']⟩')
    out.append('')
    out.append('def all : List MsgSpec := [' + ', '.join(names) + ']')
    out.append('')
    out.append('end PyIpmi.Gen.Registry')
    lean.write_if_changed(OUT, '\n'.join(out) + '\n')
    return snap
