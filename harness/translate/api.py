"""T (C08): every operation of `pyipmi.Ipmi`  ->  lean/PyIpmi/Gen/ApiShapes.lean

For every method reachable from the public surface of `pyipmi.Ipmi` (and every helper
function it hands its bound methods to) the AST of its body is abstracted into

  * a *shape class*
      checked    only `send_message_with_name`, `send_message` immediately followed by
                 `check_completion_code(rsp.completion_code)` / `check_rsp_completion_code(rsp)`,
                 and calls of other checked operations; no handler for CompletionCodeError
      nosend     issues no request at all
      loop       as `checked`, plus handlers of the whitelisted form, in a whitelisted place
                   except CompletionCodeError as e:
                       if e.cc == K | e.cc in (K, ...):  <adapt>      # ends in continue/return/raise,
                       else:  raise | raise X(...) | check_completion_code(e.cc)   # or nothing bound in the
                                                                       # try body is read afterwards
                 or the inline form `rsp = send(req); if rsp.completion_code == K: ...; continue
                 ... else: check_completion_code(rsp.completion_code)`
      primitive  `send_message` / `send_message_with_name` / `raw_command` themselves (bodies are
                 matched against the expected statements; a deviation aborts generation)
      transport  uses `self.interface` / `self.session` only through open / close /
                 is_ipmc_accessible / establish (no request-response exchange at message level,
                 hence no completion code reaches it) and issues no request
      other      anything else -- fail closed, with the reason
  * `own`: the handler kinds found in the operation's own body (`kinds` also has the ones
    inherited from callees): an operation with own handlers is a *leaf* that needs a model,
    one without is a composition of its callees
  * a skeleton `Sk` (skip / send m / call op / seq / alt / rep / stop) over-approximating the
    requests it can issue (validated against the real request traces by the C08 run).

Nothing here is executed: it is `inspect.getsource` + `ast`; constants in handler tests are
resolved in the defining module's namespace.
"""
import ast
import inspect
import os
import sys
import textwrap
import types
import zlib

from ..lib import lean
from ..lib.lean import TieBroken
from . import registry as _registry

OUT = os.path.join(lean.LEAN_DIR, 'PyIpmi', 'Gen', 'ApiShapes.lean')

NON_CC_EXC = {'IpmiTimeoutError', 'IOError', 'OSError', 'socket.timeout', 'timeout'}

# where a well-formed handler is allowed to live, and what it is called
HANDLER_PLACES = {
    'pyipmi.fru.Fru.read_fru_data': 'fruBackoff',
    'pyipmi.hpm.Hpm.initiate_upgrade_action_and_wait': 'hpmWait',
    'pyipmi.hpm.Hpm.finish_upload_and_wait': 'hpmWait',
    'pyipmi.hpm.Hpm.activate_firmware_and_wait': 'hpmWait',
    'pyipmi.hpm.Hpm.initiate_manual_rollback_and_wait': 'hpmWait',
    'pyipmi.hpm.Hpm.upload_binary': 'hpmWait',
    'pyipmi.hpm.Hpm.get_component_properties': 'skipInvalidSelector',
    'pyipmi.sel.Sel.get_and_clear_sel_entry': 'restartOnCancel',
    'pyipmi.sel.Sel.get_sel_entry': 'selBackoff',
    'pyipmi.helper.get_sdr_chunk_helper': 'sdrChunk',
    'pyipmi.helper.get_sdr_data_helper': 'sdrBackoff',
    'pyipmi.helper._clear_repository': 'clearRenew',
}
HANDLER_KINDS = ['fruBackoff', 'hpmWait', 'skipInvalidSelector', 'restartOnCancel', 'selBackoff',
                 'sdrChunk', 'sdrBackoff', 'clearRenew']

SHAPES = ['checked', 'nosend', 'loop', 'primitive', 'transport', 'other']

# what may be done with self.interface / self.session without exchanging an IPMI message
TRANSPORT_CALLS = {'interface': ('open', 'close', 'is_ipmc_accessible'), 'session': ('establish', 'close')}


def key_of(name):
    """Stable numeric identity of an operation name (names are compared as numbers in Lean)."""
    return zlib.crc32(name.encode()) & 0xffffffff


class Other(Exception):
    """The function left the grammar: classified `other` with this reason."""


class Fn(object):
    def __init__(self, qual, node, module, owner):
        self.qual, self.node, self.module, self.owner = qual, node, module, owner


def _fn_ast(fn):
    try:
        src = textwrap.dedent(inspect.getsource(fn))
    except (OSError, TypeError) as e:
        raise TieBroken('no source for %r: %s' % (fn, e))
    tree = ast.parse(src)
    node = tree.body[0]
    if not isinstance(node, ast.FunctionDef):
        raise TieBroken('%r is not a plain function definition' % (fn,))
    return node


def _dotted(node):
    if isinstance(node, ast.Name):
        return node.id
    if isinstance(node, ast.Attribute):
        b = _dotted(node.value)
        return None if b is None else b + '.' + node.attr
    return None


def _const_value(node, module):
    """Value of a constant expression (Name / Attribute / literal / tuple of those)."""
    for sub in ast.walk(node):
        if not isinstance(sub, (ast.Name, ast.Attribute, ast.Constant, ast.Tuple, ast.List, ast.Load)):
            raise Other('handler test compares against a non-constant expression')
    try:
        return eval(compile(ast.Expression(node), '<const>', 'eval'), dict(vars(module)))  # noqa: S307
    except Exception as e:
        raise Other('cannot resolve constant %s: %s' % (ast.dump(node)[:60], e))


class Analyzer(object):
    def __init__(self):
        import pyipmi
        self.ipmi = pyipmi.Ipmi
        self.msg_index = {}
        for i, (cls, info) in enumerate(_registry.snapshot()):
            self.msg_index[info['name']] = i
        self.entries = {}          # key -> dict(name, public, shape, reason, sk, kinds, consts)
        self.order = []
        self.in_progress = set()

    # ---- lookup ---------------------------------------------------------------------
    def method(self, name):
        for k in self.ipmi.__mro__:
            if name in k.__dict__:
                a = k.__dict__[name]
                if isinstance(a, staticmethod):
                    a = a.__func__
                if isinstance(a, types.FunctionType):
                    return Fn('%s.%s.%s' % (k.__module__, k.__name__, name), _fn_ast(a),
                              sys.modules[k.__module__], k)
                return None
        return None

    def helper(self, module, name):
        f = getattr(module, name, None)
        if isinstance(f, types.FunctionType) and (f.__module__ or '').startswith('pyipmi'):
            return Fn('%s.%s' % (f.__module__, f.__name__), _fn_ast(f), sys.modules[f.__module__], None)
        return None

    # ---- entries -----------------------------------------------------------------------
    def entry_for_method(self, name):
        key = ('m', name, ())
        if key in self.entries:
            return self.entries[key]
        fn = self.method(name)
        if fn is None:
            return None
        return self._analyze(key, name, fn, {}, public=not name.startswith('_'))

    def entry_for_helper(self, fn, binding):
        bkey = tuple(sorted(binding.items()))
        key = ('h', fn.qual, bkey)
        if key in self.entries:
            return self.entries[key]
        label = '%s<%s>' % (fn.qual.split('.', 1)[1], ','.join('%s=%s' % (k, v[1]) for k, v in bkey))
        return self._analyze(key, label, fn, dict(binding), public=False)

    def _analyze(self, key, label, fn, binding, public):
        if key in self.in_progress:
            raise Other('recursive call of %s' % label)
        self.in_progress.add(key)
        a = fn.node.args
        arity = len(a.args) + len(a.kwonlyargs) - (1 if a.args and a.args[0].arg == 'self' else 0)
        callees = set()
        for sub in ast.walk(fn.node):
            if isinstance(sub, ast.Attribute) and isinstance(sub.value, ast.Name) and sub.value.id == 'self':
                callees.add(sub.attr)
        e = {'name': label, 'public': public, 'qual': fn.qual, 'shape': 'other', 'reason': '',
             'sk': ('skip',), 'kinds': [], 'own': [], 'consts': {}, 'key': key, 'arity': arity,
             'varargs': bool(a.vararg or a.kwarg), 'callees': sorted(callees)}
        try:
            if fn.qual in ('pyipmi.Ipmi.send_message', 'pyipmi.Ipmi.send_message_with_name',
                           'pyipmi.Ipmi.raw_command'):
                self._check_primitive(fn)
                e['shape'] = 'primitive'
                e['sk'] = ('skip',)
            else:
                fa = FnAnalysis(self, fn, binding)
                sk = fa.block(fn.node.body)
                e['sk'] = sk
                e['kinds'] = sorted(set(fa.kinds))
                e['own'] = sorted(set(fa.own))
                e['consts'] = fa.consts
                if fa.transport:
                    if fa.kinds or fa.sends or fa.calls_sending:
                        raise Other('direct use of self.interface / self.session next to message exchanges')
                    e['shape'] = 'transport'
                elif fa.kinds:
                    e['shape'] = 'loop'
                elif fa.sends == 0 and not fa.calls_sending:
                    e['shape'] = 'nosend'
                else:
                    e['shape'] = 'checked'
        except Other as o:
            e['shape'], e['reason'] = 'other', str(o)
            e['sk'] = ('skip',)
        finally:
            self.in_progress.discard(key)
        e['sk'] = norm(e['sk'])
        e['index'] = len(self.order)
        self.entries[key] = e
        self.order.append(e)
        return e

    # ---- the two primitives: everything rests on them ---------------------------------------
    def _check_primitive(self, fn):
        body = [s for s in fn.node.body if not (isinstance(s, ast.Expr) and isinstance(s.value, ast.Constant))]
        dump = [ast.dump(s) for s in body]
        if fn.qual.endswith('raw_command'):
            want = ["return self.interface.send_and_receive_raw(self.target, lun, netfn, raw_bytes)"]
            if dump != [ast.dump(ast.parse(w).body[0]) for w in want]:
                raise TieBroken('%s no longer hands the raw response to its caller' % fn.qual)
            return
        if fn.qual.endswith('send_message_with_name'):
            want = [
                "req = create_request_by_name(name)",
                "for (key, value) in kwargs.items():\n    setattr(req, key, value)",
                "rsp = self.send_message(req)",
                "check_rsp_completion_code(rsp)",
                "return rsp",
            ]
        else:
            want = [
                "req.target = self.target",
                "req.requester = self.requester",
                "rsp = None",
                "while retry > 0:\n    retry -= 1\n    try:\n        rsp = self.interface.send_and_receive(req)\n"
                "        break\n    except CompletionCodeError as e:\n        if e.cc == msgs.constants.CC_NODE_BUSY:\n"
                "            continue\nelse:\n    raise RetryError()",
                "return rsp",
            ]
        wd = [ast.dump(ast.parse(w).body[0]) for w in want]
        # the C13 fix adds `else: raise` to the busy handler: accepted as the same primitive
        alt = list(wd)
        if not fn.qual.endswith('send_message_with_name'):
            alt[3] = ast.dump(ast.parse(want[3].replace(
                "            continue\nelse:", "            continue\n        else:\n            raise\nelse:")).body[0])
            alt2 = list(wd)
            alt2[3] = ast.dump(ast.parse(want[3].replace(
                "            continue\nelse:", "            continue\n        raise\nelse:")).body[0])
        else:
            alt2 = wd
        if dump not in (wd, alt, alt2):
            raise TieBroken('%s no longer has the statements every C08 model rests on' % fn.qual)


class FnAnalysis(object):
    def __init__(self, an, fn, binding):
        self.an, self.fn = an, fn
        self.binding = binding          # param name -> ('method', name) | ('req', class)
        self.reqvars = {}               # local var -> request class name
        self.sends = 0
        self.calls_sending = False
        self.kinds = []
        self.own = []                   # handler kinds in this body (not inherited)
        self.transport = False          # uses self.interface / self.session without exchanging messages
        self.consts = {}
        self.params = [a.arg for a in fn.node.args.args]
        for k, v in binding.items():
            if v[0] == 'req':
                self.reqvars[k] = v[1]

    # ---- helpers --------------------------------------------------------------------
    def seq(self, parts):
        parts = [p for p in parts if p != ('skip',)]
        if not parts:
            return ('skip',)
        acc = parts[-1]
        for p in reversed(parts[:-1]):
            acc = ('seq', p, acc)
        return acc

    def msg(self, name):
        idx = self.an.msg_index.get(name + 'Req')
        if idx is None:
            raise Other('request class %sReq is not registered' % name)
        return idx

    # ---- expressions -----------------------------------------------------------------
    def expr(self, node):
        """Skeleton of the requests issued while evaluating `node` (evaluation order)."""
        if node is None:
            return ('skip',)
        out = []
        self._expr(node, out)
        return self.seq(out)

    def _expr(self, node, out):
        if isinstance(node, (ast.Lambda, ast.ListComp, ast.SetComp, ast.DictComp, ast.GeneratorExp)):
            for sub in ast.walk(node):
                if isinstance(sub, ast.Name) and sub.id == 'self':
                    raise Other('self used inside a lambda/comprehension')
                if isinstance(sub, ast.Call) and isinstance(sub.func, ast.Name) and sub.func.id in self.binding:
                    raise Other('bound function used inside a lambda/comprehension')
            return
        if isinstance(node, ast.Call):
            self._call(node, out)
            return
        if isinstance(node, ast.Compare) and len(node.ops) == 1 and isinstance(node.ops[0], (ast.Is, ast.IsNot)) \
                and _dotted(node.left) in ('self.session', 'self.interface') \
                and isinstance(node.comparators[0], ast.Constant) and node.comparators[0].value is None:
            # `if self.session is not None:` exchanges nothing
            self.transport = True
            return
        if isinstance(node, ast.Name) and node.id == 'self' :
            raise Other('bare `self` escapes')
        if isinstance(node, ast.Attribute) and isinstance(node.value, ast.Name) and node.value.id == 'self':
            # attribute read: data attributes are fine, bound methods escaping are not
            if self.an.method(node.attr) is not None:
                raise Other('bound method self.%s escapes' % node.attr)
            if node.attr in ('interface', 'session'):
                raise Other('direct use of self.%s' % node.attr)
            return
        if isinstance(node, (ast.Yield, ast.YieldFrom)):
            if node.value is not None:
                self._expr(node.value, out)
            return
        for ch in ast.iter_child_nodes(node):
            if isinstance(ch, ast.expr):
                self._expr(ch, out)
            elif isinstance(ch, (ast.keyword,)):
                self._expr(ch.value, out)
            elif isinstance(ch, ast.comprehension):
                raise Other('comprehension')

    def _args(self, call, out, skip_fn_args=False):
        fnargs = []
        for a in call.args:
            if isinstance(a, ast.Attribute) and isinstance(a.value, ast.Name) and a.value.id == 'self' \
                    and self.an.method(a.attr) is not None:
                fnargs.append(('method', a.attr))
                if not skip_fn_args:
                    raise Other('bound method self.%s passed to a non-helper' % a.attr)
                continue
            if isinstance(a, ast.Name) and a.id in self.binding and self.binding[a.id][0] == 'method':
                fnargs.append(self.binding[a.id])
                if not skip_fn_args:
                    raise Other('bound function %s passed on' % a.id)
                continue
            fnargs.append(None)
            self._expr(a, out)
        for k in call.keywords:
            self._expr(k.value, out)
        return fnargs

    def _call(self, call, out):
        f = call.func
        # self.<something>(...)
        if isinstance(f, ast.Attribute) and isinstance(f.value, ast.Name) and f.value.id == 'self':
            name = f.attr
            if name == 'send_message_with_name':
                if not call.args or not (isinstance(call.args[0], ast.Constant) and isinstance(call.args[0].value, str)):
                    raise Other('send_message_with_name with a computed name')
                for a in call.args[1:]:
                    self._expr(a, out)
                for k in call.keywords:
                    self._expr(k.value, out)
                out.append(('send', self.msg(call.args[0].value)))
                self.sends += 1
                return
            if name == 'send_message':
                raise Other('send_message outside the form `rsp = self.send_message(req)` + check')
            self._args(call, out)
            ent = self.an.entry_for_method(name)
            if ent is None:
                raise Other('calls self.%s, which pyipmi.Ipmi does not define' % name)
            self._use(ent, out)
            return
        if isinstance(f, ast.Attribute) and _dotted(f) and _dotted(f).startswith('self.'):
            parts = _dotted(f).split('.')
            if len(parts) == 3 and parts[2] in TRANSPORT_CALLS.get(parts[1], ()):
                self.transport = True
                for a in call.args:
                    if not (isinstance(a, ast.Attribute) and _dotted(a) == 'self.target'):
                        self._expr(a, out)
                for k in call.keywords:
                    self._expr(k.value, out)
                return
            raise Other('direct use of %s' % _dotted(f))
        # a bound function parameter: reserve_fn(), get_fn(...), clear_fn(...), send_fn(req)
        if isinstance(f, ast.Name) and f.id in self.binding and self.binding[f.id][0] == 'method':
            target = self.binding[f.id][1]
            if target == 'send_message':
                raise Other('send_fn outside the form `rsp = send_fn(req)` + completion-code chain')
            self._args(call, out)
            ent = self.an.entry_for_method(target)
            if ent is None:
                raise Other('bound function %s is not a method' % target)
            self._use(ent, out)
            return
        # module-level helper of the package (may receive bound methods)
        if isinstance(f, ast.Name):
            h = self.an.helper(self.fn.module, f.id)
            if h is not None and self._helper_sends(h, call):
                pre = []
                fnargs = self._args(call, pre, skip_fn_args=True)
                out.extend(pre)
                params = [a.arg for a in h.node.args.args]
                binding = {}
                for p, a, node in zip(params, fnargs, call.args):
                    if a is not None:
                        binding[p] = a
                    elif isinstance(node, ast.Name) and node.id in self.reqvars:
                        binding[p] = ('req', self.reqvars[node.id])
                ent = self.an.entry_for_helper(h, binding)
                self._use(ent, out)
                return
        # anything else: a pure computation of its arguments
        self._expr(f, out) if not isinstance(f, ast.Name) else None
        self._args(call, out)

    def _helper_sends(self, h, call):
        """A package helper matters only if it is handed something that can send."""
        for a in call.args:
            if isinstance(a, ast.Attribute) and isinstance(a.value, ast.Name) and a.value.id == 'self':
                return True
            if isinstance(a, ast.Name) and a.id in self.binding:
                return True
        return False

    def _use(self, ent, out):
        if ent['shape'] == 'other':
            raise Other('calls %s, which is `other` (%s)' % (ent['name'], ent['reason']))
        if ent['shape'] == 'primitive':
            raise Other('calls the primitive %s in an unrecognised form' % ent['name'])
        if ent['shape'] == 'transport':
            self.transport = True
        if ent['shape'] == 'loop':
            self.kinds.extend(ent['kinds'])
            for k, v in ent['consts'].items():
                self.consts.setdefault(k, v)
        if ent['shape'] not in ('nosend', 'transport'):
            self.calls_sending = True
        out.append(('call', ent['index']))

    # ---- statements -----------------------------------------------------------------------
    def may_jump(self, stmt):
        """continue / break reachable in `stmt` without entering an inner loop."""
        if isinstance(stmt, (ast.Continue, ast.Break)):
            return True
        if isinstance(stmt, (ast.For, ast.While, ast.FunctionDef)):
            return False
        for ch in ast.iter_child_nodes(stmt):
            if isinstance(ch, ast.stmt) and self.may_jump(ch):
                return True
            if isinstance(ch, ast.ExceptHandler) and any(self.may_jump(s) for s in ch.body):
                return True
        return False

    def block(self, stmts):
        parts = []
        i = 0
        stmts = list(stmts)
        while i < len(stmts):
            s = stmts[i]
            nxt = stmts[i + 1] if i + 1 < len(stmts) else None
            sk, used = self.stmt(s, nxt, stmts[i + 1:])
            i += 1 + used
            if self.may_jump(s) and i < len(stmts):
                rest = self.block(stmts[i:])
                parts.append(sk)
                parts.append(('alt', ('skip',), rest))
                return self.seq(parts)
            parts.append(sk)
        return self.seq(parts)

    def _is_send_assign(self, s):
        """`v = self.send_message(r)` / `v = send_fn(r)` -> (v, r) or None."""
        if not (isinstance(s, ast.Assign) and len(s.targets) == 1 and isinstance(s.targets[0], ast.Name)
                and isinstance(s.value, ast.Call) and len(s.value.args) == 1 and not s.value.keywords
                and isinstance(s.value.args[0], ast.Name)):
            return None
        f = s.value.func
        ok = (isinstance(f, ast.Attribute) and isinstance(f.value, ast.Name) and f.value.id == 'self'
              and f.attr == 'send_message') or \
             (isinstance(f, ast.Name) and self.binding.get(f.id) == ('method', 'send_message'))
        return (s.targets[0].id, s.value.args[0].id) if ok else None

    def _is_check(self, s, v):
        if not (isinstance(s, ast.Expr) and isinstance(s.value, ast.Call) and isinstance(s.value.func, ast.Name)
                and len(s.value.args) == 1 and not s.value.keywords):
            return False
        a = s.value.args[0]
        if s.value.func.id == 'check_completion_code':
            return isinstance(a, ast.Attribute) and a.attr == 'completion_code' \
                and isinstance(a.value, ast.Name) and a.value.id == v
        if s.value.func.id == 'check_rsp_completion_code':
            return isinstance(a, ast.Name) and a.id == v
        return False

    def _cc_test(self, test, var, attr):
        """`<var>.<attr> == K` or `<var>.<attr> in (K, ...)` -> [codes] or None."""
        if not (isinstance(test, ast.Compare) and len(test.ops) == 1 and isinstance(test.left, ast.Attribute)
                and test.left.attr == attr and isinstance(test.left.value, ast.Name) and test.left.value.id == var):
            return None
        v = _const_value(test.comparators[0], self.fn.module)
        if isinstance(test.ops[0], ast.Eq) and isinstance(v, int):
            return [v]
        if isinstance(test.ops[0], ast.In) and isinstance(v, (tuple, list)) and all(isinstance(x, int) for x in v):
            return list(v)
        return None

    def _ends_in_jump(self, body):
        return bool(body) and isinstance(body[-1], (ast.Continue, ast.Return, ast.Raise, ast.Break))

    def _place(self):
        kind = HANDLER_PLACES.get(self.fn.qual)
        if kind is None:
            raise Other('completion-code handler in a place that is not whitelisted (%s)' % self.fn.qual)
        return kind

    def stmt(self, s, nxt, rest):
        """-> (skeleton, number of following statements consumed)."""
        sa = self._is_send_assign(s)
        if sa is not None:
            v, r = sa
            cls = self.reqvars.get(r)
            if cls is None:
                raise Other('request variable %s has no statically known class' % r)
            if nxt is not None and self._is_check(nxt, v):
                self.sends += 1
                return ('send', self.msg(cls)), 1
            if isinstance(nxt, ast.If):
                sk = self._inline_chain(nxt, v)
                self.sends += 1
                return self.seq([('send', self.msg(cls)), sk]), 1
            raise Other('response of send_message is used before its completion code is checked')
        if isinstance(s, ast.Assign):
            # req = create_request_by_name('X')
            if len(s.targets) == 1 and isinstance(s.targets[0], ast.Name) and isinstance(s.value, ast.Call) \
                    and isinstance(s.value.func, ast.Name) and s.value.func.id == 'create_request_by_name':
                a = s.value.args
                if len(a) == 1 and isinstance(a[0], ast.Constant) and isinstance(a[0].value, str):
                    self.reqvars[s.targets[0].id] = a[0].value
                    return ('skip',), 0
                raise Other('create_request_by_name with a computed name')
            # req = <obj>.to_request(req): the filled-in request comes back (same class; the class
            # of what is really sent is in the request trace the skeleton is validated against)
            if len(s.targets) == 1 and isinstance(s.targets[0], ast.Name) and s.targets[0].id in self.reqvars \
                    and isinstance(s.value, ast.Call) and isinstance(s.value.func, ast.Attribute) \
                    and s.value.func.attr == 'to_request' and not s.value.keywords \
                    and len(s.value.args) == 1 and isinstance(s.value.args[0], ast.Name) \
                    and s.value.args[0].id == s.targets[0].id \
                    and not (isinstance(s.value.func.value, ast.Name) and s.value.func.value.id == 'self'):
                return self.expr(s.value.func.value), 0
            for t in s.targets:
                for sub in ast.walk(t):
                    if isinstance(sub, ast.Name) and sub.id in self.reqvars and isinstance(sub.ctx, ast.Store):
                        raise Other('request variable %s is re-bound' % sub.id)
            tg = [self.expr(t) for t in s.targets if not isinstance(t, ast.Name)]
            return self.seq([self.expr(s.value)] + tg), 0
        if isinstance(s, (ast.AugAssign, ast.AnnAssign)):
            return self.expr(s.value), 0
        if isinstance(s, ast.Expr):
            return self.expr(s.value), 0
        if isinstance(s, ast.Return):
            return self.seq([self.expr(s.value), ('stop',)]), 0
        if isinstance(s, ast.Raise):
            return self.seq([self.expr(s.exc), ('stop',)]), 0
        if isinstance(s, (ast.Pass, ast.Continue, ast.Break, ast.Import, ast.ImportFrom, ast.Global)):
            return ('skip',), 0
        if isinstance(s, ast.Assert):
            return self.expr(s.test), 0
        if isinstance(s, ast.If):
            return self.seq([self.expr(s.test), ('alt', self.block(s.body), self.block(s.orelse))]), 0
        if isinstance(s, ast.For):
            return self.seq([self.expr(s.iter), ('rep', self.block(s.body)), self.block(s.orelse)]), 0
        if isinstance(s, ast.While):
            return self.seq([('rep', self.seq([self.expr(s.test), self.block(s.body)])),
                             self.expr(s.test), self.block(s.orelse)]), 0
        if isinstance(s, ast.Try):
            return self._try(s, rest), 0
        raise Other('statement %s is outside the grammar' % type(s).__name__)

    # `rsp = send(req)` followed by an if-chain on rsp.completion_code
    def _inline_chain(self, node, v):
        kind = self._place()
        codes = []
        branches = []
        cur = node
        while True:
            cs = self._cc_test(cur.test, v, 'completion_code')
            if cs is None:
                raise Other('response is used before its completion code is checked')
            if cs != [0]:
                codes += cs
                if not self._ends_in_jump(cur.body):
                    raise Other('branch for code %s falls through to code that uses the response' % cs)
            branches.append(self.block(cur.body))
            if len(cur.orelse) == 1 and isinstance(cur.orelse[0], ast.If):
                cur = cur.orelse[0]
                continue
            if not (len(cur.orelse) == 1 and self._is_check(cur.orelse[0], v)):
                raise Other('completion-code chain does not end in check_completion_code')
            break
        self.kinds.append(kind)
        self.own.append(kind)
        self.consts.setdefault(kind, sorted(codes))
        acc = ('skip',)
        for b in reversed(branches):
            acc = ('alt', b, acc)
        return acc

    def _try(self, s, rest):
        if s.finalbody:
            raise Other('try/finally')
        body = self.block(s.body)
        alts = []
        for h in s.handlers:
            names = set()
            if h.type is None:
                raise Other('bare except')
            for t in (h.type.elts if isinstance(h.type, ast.Tuple) else [h.type]):
                names.add(_dotted(t) or '?')
            if names <= NON_CC_EXC:
                alts.append(self.block(h.body))
                continue
            if names != {'CompletionCodeError'} or not h.name:
                raise Other('handler for %s' % sorted(names))
            if self._annotates_and_reraises(h):
                # `except CompletionCodeError as e: e.<attr> = <call-free expression>; raise`: the same error object
                # with the same code propagates - no code is handled here, nothing continues after it
                # (the SDR chunk readers attach the reservation id their request ended up with, fixes/C13-2)
                continue
            if not (len(h.body) == 1 and isinstance(h.body[0], ast.If)):
                raise Other('CompletionCodeError handler is not a single if/else on the code')
            test = h.body[0]
            codes = self._cc_test(test.test, h.name, 'cc')
            if codes is None:
                raise Other('CompletionCodeError handler does not test e.cc against constants')
            if not self._reraises(test.orelse, h.name):
                raise Other('CompletionCodeError handler drops the codes it does not name (no else: raise)')
            if not self._ends_in_jump(test.body):
                bound = set()
                for st in s.body:
                    for sub in ast.walk(st):
                        if isinstance(sub, ast.Name) and isinstance(sub.ctx, ast.Store):
                            bound.add(sub.id)
                read = set()
                for st in rest:
                    for sub in ast.walk(st):
                        if isinstance(sub, ast.Name) and isinstance(sub.ctx, ast.Load):
                            read.add(sub.id)
                    if isinstance(st, (ast.Continue, ast.Break, ast.Return, ast.Raise)):
                        break
                stale = sorted(bound & read)
                if stale:
                    raise Other('after the handled code, %s from the failed exchange is used again' % stale)
            kind = self._place()
            self.kinds.append(kind)
            self.own.append(kind)
            self.consts.setdefault(kind, sorted(codes))
            alts.append(self.block(test.body))
        acc = ('skip',)
        for a in reversed(alts):
            acc = ('alt', a, acc)
        return self.seq([body, acc, self.block(s.orelse)])

    def _annotates_and_reraises(self, h):
        b = h.body
        if not (b and isinstance(b[-1], ast.Raise) and b[-1].exc is None and b[-1].cause is None):
            return False
        for s in b[:-1]:
            if not (isinstance(s, ast.Assign) and len(s.targets) == 1 and isinstance(s.targets[0], ast.Attribute)
                    and isinstance(s.targets[0].value, ast.Name) and s.targets[0].value.id == h.name
                    and s.targets[0].attr not in ('cc', 'cc_desc', 'args')
                    and not any(isinstance(x, (ast.Call, ast.Await, ast.Yield, ast.YieldFrom)) for x in ast.walk(s.value))):
                return False
        return True

    def _reraises(self, orelse, evar):
        if len(orelse) != 1:
            return False
        s = orelse[0]
        if isinstance(s, ast.Raise):
            return True
        if isinstance(s, ast.Expr) and isinstance(s.value, ast.Call) and isinstance(s.value.func, ast.Name) \
                and s.value.func.id == 'check_completion_code' and len(s.value.args) == 1:
            a = s.value.args[0]
            return isinstance(a, ast.Attribute) and a.attr == 'cc' and isinstance(a.value, ast.Name) \
                and a.value.id == evar
        return False


# ------------------------------------------------------------------------------------------
# emission
# ------------------------------------------------------------------------------------------

def norm(t):
    """alt skip skip = skip; rep skip = skip; seq skip x = x (language-preserving)."""
    k = t[0]
    if k in ('skip', 'stop', 'send', 'call'):
        return t
    if k == 'rep':
        b = norm(t[1])
        return ('skip',) if b == ('skip',) else ('rep', b)
    a, b = norm(t[1]), norm(t[2])
    if k == 'alt':
        return a if a == b else ('alt', a, b)
    if a == ('skip',):
        return b
    if b == ('skip',):
        return a
    return ('seq', a, b)


def _sk(t):
    k = t[0]
    if k == 'skip':
        return '.skip'
    if k == 'stop':
        return '.stop'
    if k == 'send':
        return '(.send %d)' % t[1]
    if k == 'call':
        return '(.call %d)' % t[1]
    if k == 'rep':
        return '(.rep %s)' % _sk(t[1])
    return '(.%s %s %s)' % (k, _sk(t[1]), _sk(t[2]))


def sk_sends(t):
    if t[0] == 'send':
        return [t[1]]
    out = []
    for x in t[1:]:
        if isinstance(x, tuple):
            out += sk_sends(x)
    return out


def analyze():
    """-> (entries in table order, message index by request-class name)."""
    import pyipmi
    an = Analyzer()
    for n in sorted(dir(pyipmi.Ipmi)):
        if n.startswith('_'):
            continue
        a = inspect.getattr_static(pyipmi.Ipmi, n)
        if isinstance(a, (types.FunctionType, staticmethod)):
            an.entry_for_method(n)
    return an.order, an.msg_index


def generate():
    entries, msg_index = analyze()
    out = ['/- GENERATED by harness/translate/api.py from the AST of pyipmi.Ipmi and the helpers it',
           '   calls.  Do not edit: rewritten on every check run. -/',
           'import PyIpmi.Model.ProgMore',
           'namespace PyIpmi.Gen.ApiShapes',
           'open PyIpmi.Prog',
           '',
           'inductive Shape where',
           '  | checked | nosend | loop | primitive | transport | other',
           '  deriving DecidableEq, Repr, Inhabited',
           '',
           '/-- One operation: numeric name key (crc32), public?, number of parameters, shape class,',
           'skeleton, handler kinds used (indices into `handlerKinds`), handler kinds in its own body. -/',
           'structure Op where',
           '  key : Nat',
           '  pub : Bool',
           '  arity : Nat',
           '  shape : Shape',
           '  sk : Sk',
           '  kinds : List Nat',
           '  own : List Nat',
           '  deriving Repr, Inhabited',
           '',
           '/-- ' + ', '.join('%d = %s' % (i, k) for i, k in enumerate(HANDLER_KINDS)) + ' -/',
           'def handlerKinds : Nat := %d' % len(HANDLER_KINDS),
           '']
    names = []
    for e in entries:
        nm = 'o%d' % e['index']
        names.append(nm)
        fn_arity = e.get('arity', 0)
        out.append('/-- %s%s -/' % (e['name'], (' — ' + e['reason']) if e['reason'] else ''))
        out.append('def %s : Op := ⟨%d, %s, %d, .%s, %s, [%s], [%s]⟩' % (
            nm, key_of(e['name']), 'true' if e['public'] else 'false', fn_arity, e['shape'], _sk(e['sk']),
            ', '.join(str(HANDLER_KINDS.index(k)) for k in e['kinds']),
            ', '.join(str(HANDLER_KINDS.index(k)) for k in e['own'])))
    out.append('')
    out.append('def table : List Op := [' + ', '.join(names) + ']')
    out.append('')
    out.append('def skTable : List Sk := table.map (·.sk)')
    out.append('')
    # constants of the handlers, as the code has them now
    consts = {}
    for e in entries:
        for k, v in e['consts'].items():
            consts.setdefault(k, v)
    for k in HANDLER_KINDS:
        out.append('def codes_%s : List Nat := [%s]' % (k, ', '.join(str(c) for c in consts.get(k, []))))
    out.append('')
    lc = loop_consts()
    sel, sdr = lc['sel'], lc['sdr']
    out.append('/-- get_sel_entry: ENTIRE_RECORD, fall-back length, record length, decrement, shrink code, floor of '
               'max_req_len (none: lowered without end) -/')
    out.append('def selCfg : SelCfg := ⟨%d, %d, %d, %d, %d, %s⟩' % (
        sel['entire'], sel['full'], sel['recLen'], sel['step'], sel['ccShrink'],
        'none' if sel.get('floor') is None or sel['floor'] < 0 else 'some %d' % sel['floor']))
    out.append('/-- get_and_clear_sel_entry: the code that restarts; default of its retry budget (none: `while True`); '
               'sel_entries: START / END record id -/')
    out.append('def sel_cancel : Nat := %d' % sel['ccCancel'])
    out.append('def sel_budget : Option Nat := %s' % ('none' if sel.get('budget') is None else 'some %d' % sel['budget']))
    out.append('def sel_first : Nat := %d' % sel['first'])
    out.append('def sel_last : Nat := %d' % sel['last'])
    out.append('/-- get_sdr_data_helper: header length, max_req_len, its decrement, retry, shrink code -/')
    out.append('def sdrCfg : SdrCfg := ⟨%d, %d, %d, %d, %d⟩' % (
        sdr['hdrLen'], sdr['maxReqLen'], sdr['reqLenDec'], sdr['dataRetry'], sdr['cantReturn']))
    out.append('/-- get_sdr_chunk_helper: the code that renews the reservation, the two that just retry -/')
    out.append('def sdr_chunkCodes : ChunkCodes := ⟨%d, %d, %d⟩' % (sdr['chunkRenew'], sdr['chunkRetry1'], sdr['chunkRetry2']))
    out.append('/-- default retry of get_sdr_chunk_helper and of clear_repository_helper; first / END id of the SDR listings -/')
    out.append('def sdr_chunkRetry : Nat := %d' % sdr['chunkRetryDefault'])
    out.append('def clear_retry : Nat := %d' % sdr['clearRetryDefault'])
    out.append('def sdr_first : Nat := %d' % sdr['repoListStart'])
    out.append('def sdr_last : Nat := %d' % sdr['lastId'])
    out.append('')
    out.append('end PyIpmi.Gen.ApiShapes')
    lean.write_if_changed(OUT, '\n'.join(out) + '\n')
    return entries, msg_index


SDR_DEFAULTS = {'hdrLen': 5, 'maxReqLen': 20, 'reqLenDec': 4, 'dataRetry': 20, 'cantReturn': 0xCA,
                'chunkRetryDefault': 5, 'clearRetryDefault': 5, 'repoListStart': 0, 'lastId': 0xFFFF,
                'chunkRenew': 0xC5, 'chunkRetry1': 0xC3, 'chunkRetry2': 0xCE}
LOOP_CONST_NOTES = []


def loop_consts():
    """Numeric constants of the SEL / SDR transfer loops, re-read from the source by the extractors of
    C10-C13 (harness/translate/loops10.py, loops11.py).  Where the source has left THEIR grammar the
    pinned values are used and the fact is noted: the C08 correspondence run compares the models with
    the code on every fault script, so a changed constant shows up there."""
    from . import loops10, loops11
    del LOOP_CONST_NOTES[:]
    try:
        sel = loops10.extract(need=('sel',))['sel']
    except TieBroken as e:
        sel = dict(loops10.DEFAULTS['sel'])
        LOOP_CONST_NOTES.append('SEL loop constants not re-read (%s): pinned values used' % str(e)[:100])
    sdr = dict(SDR_DEFAULTS)
    try:
        d = loops11.extract()
        for k in sdr:
            if k in d:
                sdr[k] = d[k]
    except TieBroken as e:
        LOOP_CONST_NOTES.append('SDR loop constants not re-read (%s): pinned values used' % str(e)[:100])
    return {'sel': sel, 'sdr': sdr}
