/-
  C02 — Decoding arbitrary bytes is total and strict.

  * `decode_total`        — `decode` is a total structurally recursive function over the
                            Python loops (`for field in __fields__`, `for i in range(n)`):
                            its very definition is accepted by Lean's termination checker,
                            so "never hangs" holds of the model by construction; the theorem
                            records that every input has an outcome.
  * `decode_strict`       — ok ⇒ re-encoding the decoded values reproduces exactly the input
                            (nothing ignored, invented or left over), for ALL byte strings
  * `decode_error_kind`   — the only failure is the library's DecodingError
  * `cc_stops`            — a non-OK completion code: success, exactly that code reported,
                            every other field left at its creation default, whatever follows
  * `registry_*`          — the above for every class of today's registry
-/
import PyIpmi.Lemmas.CodecStrict
import PyIpmi.Gen.Registry
namespace PyIpmi.Props.C02
open PyIpmi PyIpmi.Codec

theorem decode_total (l : Layout) (data : List Nat) : ∃ o : Outcome (List Val), decode l data = o :=
  ⟨_, rfl⟩

/-- If decoding succeeds and no completion code stopped it, encoding the decoded values
gives back exactly the input bytes. -/
theorem decode_strict (l : Layout) (data : List Nat) (vs : List Val) (hwf : l.wfDecode = true)
    (hb : Bytes data) (h : decode l data = .ok vs) (hcc : hasCcStop l vs = false) :
    encode l vs = .ok data := by
  unfold Layout.wfDecode at hwf
  unfold decode at h
  obtain ⟨st, hst, h⟩ := bind_eq_ok h
  obtain ⟨h1, h2⟩ := strict_aux [] [] l data st hwf hb hst
  by_cases hr : (!st.stopped && decide (st.rest.length > 0)) = true
  · simp [hr] at h
  · simp only [hr] at h
    injection h with h
    subst h
    have hns : st.stopped = false := by rw [h1]; exact hcc
    obtain ⟨e, he1, he2⟩ := h2 hns
    have hrest : st.rest = [] := by
      simp [hns] at hr
      exact hr
    rw [hrest] at he1
    simp at he1
    subst he1
    exact he2

/-- Decoding either succeeds or fails with DecodingError — no other exception. -/
theorem decode_error_kind (l : Layout) (data : List Nat) (hwf : l.wfDecode = true) :
    decode l data = .decodingError ∨ ∃ vs, decode l data = .ok vs := by
  unfold Layout.wfDecode at hwf
  unfold decode
  rcases decAux_kind [] [] l data hwf EnvOk.nil with h | ⟨st, h⟩
  · exact Or.inl (by simp [h, Outcome.bind])
  · simp only [h, Outcome.bind_ok]
    by_cases hr : (!st.stopped && decide (st.rest.length > 0)) = true
    · exact Or.inl (by simp [hr])
    · exact Or.inr ⟨st.vals, by simp [hr]⟩

/-- A response whose first byte is a non-OK completion code decodes successfully to exactly
that code, with every other field at its creation default — none of the remaining bytes is
interpreted, whatever they are. -/
theorem cc_stops (nm : String) (d : Val) (rest : List Field) (c : Nat) (tail : List Nat)
    (hc : c ≠ 0) :
    decode (⟨nm, .plain, .cc, d⟩ :: rest) (c :: tail) = .ok (.int c :: rest.map (·.dflt)) := by
  have h1 : leVal [c] = c := by simp [leVal]
  simp [decode, decAux, decField, decPrim, popN, isCcStop, h1, hc]

/-- every response class with fields starts with the completion code (so `cc_stops` applies
to all of them) and every class is well-formed for decoding (`wfDecode`: references point
to earlier plain fields, bit widths add up — weaker than C01's `wf`, which `wfDecode_of_wf`
shows implies it) -/
def registryOk (all : List MsgSpec) : Bool :=
  all.all fun m =>
    !m.malformed && m.layout.wfDecode &&
    (m.isReq || match m.layout with
      | [] => true
      | f :: _ => decide (f.wrap = .plain) && decide (f.prim = .cc))

theorem registry_ok : registryOk PyIpmi.Gen.Registry.all = true := by decide +kernel

theorem registry_decode (m : MsgSpec) (hm : m ∈ PyIpmi.Gen.Registry.all) (data : List Nat)
    (hb : Bytes data) :
    decode m.layout data = .decodingError ∨
      ∃ vs, decode m.layout data = .ok vs ∧
        (hasCcStop m.layout vs = false → encode m.layout vs = .ok data) := by
  have h := registry_ok
  unfold registryOk at h
  rw [List.all_eq_true] at h
  have hm' := h m hm
  simp only [Bool.and_eq_true] at hm'
  rcases decode_error_kind m.layout data hm'.1.2 with h | ⟨vs, h⟩
  · exact Or.inl h
  · exact Or.inr ⟨vs, h, fun hcc => decode_strict m.layout data vs hm'.1.2 hb h hcc⟩

/-! ### non-vacuity -/

def demoLayout : Layout := [
  ⟨"completion_code", .plain, .cc, .int 0⟩,
  ⟨"flags", .plain, .bits 1 [1, 2, 5], .bits [0, 0, 0]⟩,
  ⟨"count", .plain, .uint 1, .int 0⟩,
  ⟨"data", .plain, .varBytes 2, .none⟩,
  ⟨"extra", .cond (.bitEq 1 0 1), .uint 2, .int 0⟩,
  ⟨"opt1", .optional, .uint 1, .none⟩]

example : demoLayout.wfDecode = true := by decide
example : decode demoLayout [0, 0xFF, 2, 7, 255, 0xEF, 0xBE] =
    .ok [.int 0, .bits [1, 3, 31], .int 2, .arr [7, 255], .int 0xBEEF, .none] := by decide
example : decode demoLayout [0, 0xFF, 2, 7] = .decodingError := by decide
example : decode demoLayout [0xC1, 1, 2, 3, 4, 5, 6, 7, 8, 9] =
    .ok [.int 0xC1, .bits [0, 0, 0], .int 0, .none, .int 0, .none] := by decide

end PyIpmi.Props.C02
