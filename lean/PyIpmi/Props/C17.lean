/-
  C17 — Sensor reading conversion implements the IPMI formula and its inverse.

  Property theorems only.  `Sensor.*` is the executable model that mirrors pyipmi/sdr.py (bit
  expressions of the source, linearisation dispatch through the table regenerated from the
  working tree on every run); `Spec.Sensor.*` is the formula of IPMI v2.0 §36.3 over exact
  rationals.  The transcendental functions are parameters (`F`): the theorems say *which*
  function is applied to *which* argument, nothing about `math.log` & co. themselves.

  Modelled, not verified: IEEE-754 rounding of the Python's double arithmetic and `round()`
  (the model computes exactly and rounds half-to-even on the exact value); the correspondence
  run compares with a tolerance and says so in the evidence.

  Reading guide
  * `signed_spec`         the sign handling for all 256 bytes and the three formats
  * `lin_table`           generated dispatch table (mask, keys, function tags) = table 43-1 byte 24;
    `gen_lin_table_intended`: it is the `lin` dictionary of `Variant.intended` (cube root = function tag 12)
  * `lin_functions`       each tag applies the specification's function (cube root: for a REAL cube root,
    `F.RealCubeRoot` — defined for every argument and odd; that is all the theorems assume of it)
  * `forward_formula`     convert = L[(M·x + B·10^K1)·10^K2] for every record and byte, all twelve L
  * `cubert_negative_counterexample`, `shipped_cubert_rejects_negatives`   the pinned source
    (`math.pow(x, 1.0/3)`, function tag 11) raises ValueError for EVERY negative argument of the cube
    root, where L[…] has a value (witness: 2's complement, M = 1, reading F8h = −8)
  * `absent_reading`      None ↦ None
  * `inverse_roundtrip`   intended inverse ∘ forward = id  for ALL M ≠ 0, B, K1, K2 (algebra over ℚ)
  * `negative_zero_not_recovered`    why 1's-complement 0xFF is excluded
  * `gen_*_eq`            the model's expressions ARE the expressions translated from today's source
    (`Gen.SensorExpr`): `gen_signedRaw_eq`, `gen_arg_eq`, `gen_convert_eq`, `gen_rawQ_eq`,
    `gen_encodeSigned_eq`, `gen_valueToRaw_eq`, `gen_convertComplement_eq`; `gen_inputs` (which variable each
    expression reads: the `if … < 0` of the negative encodings tests the rounded raw number), `gen_guards`
  * `gen_signed_spec`, `gen_forward_argument`, `gen_inverse_roundtrip`   the property theorems restated
    for the generated definitions
  * `inverse_asShipped_counterexample`, `inverse_formula_counterexample`,
    `inverse_sign_counterexample`    the ORIGINAL pinned code's inverse (Variant.asShipped, a frozen
    variant kept as documentation; /repo has been repaired since) violates the property
    (witness M=2, B=3: 10 ↦ 23 ↦ 8), and each of its two deviations does so on its own
-/
import PyIpmi.Lemmas.Sensor
import PyIpmi.Gen.SensorExpr
namespace PyIpmi.Props.C17
open PyIpmi PyIpmi.Sensor

/-- (helper) the forward conversion once the dispatch has produced tag `t`. -/
private theorem convert_of_tag (F : Spec.Sensor.Fns) (r : Rec) (raw t : Nat) (h : linTag r.lin = some t) :
    convert F r (some raw) = some (applyTag F t (arg r raw)) := by
  unfold linTag at h
  simp only [convert, convertIn, h]

/-- Reading the raw byte: unsigned as is; 1's complement `r ≥ 128 ↦ r − 255`; 2's complement
`r ≥ 128 ↦ r − 256`; "no analog reading" (code 3) as unsigned.  All 256 bytes. -/
theorem signed_spec (r : Nat) (h : r < 256) :
    signedRaw 0 r = (r : Int) ∧
    signedRaw 1 r = (if r < 128 then (r : Int) else (r : Int) - 255) ∧
    signedRaw 2 r = (if r < 128 then (r : Int) else (r : Int) - 256) ∧
    signedRaw 3 r = (r : Int) :=
  ⟨signedRaw_other 0 r (by decide) (by decide), signedRaw_ones r h, signedRaw_twos r h,
   signedRaw_other 3 r (by decide) (by decide)⟩

/-- The dispatch table extracted from today's `lin` property is table 43-1 byte 24: the mask
keeps bits [6:0], codes 0..11 select the twelve functions (tag = the function's *shape* in the
source; the cube root has the shape of `Variant.intended`: defined for negative arguments), every
other code is unknown. -/
def linTableOk : Bool :=
  Gen.SdrTables.linMask == 0x7f &&
  allLt 128 (fun c => decide (List.lookup c Gen.SdrTables.lin = (Spec.Sensor.linOfCode c).map Variant.intended.tagOf))

theorem lin_table_gen : linTableOk = true := by decide +kernel

theorem lin_table (lin : Nat) :
    linTag lin = (Spec.Sensor.linOfCode (lin % 128)).map Variant.intended.tagOf := by
  have h := lin_table_gen
  simp only [linTableOk, Bool.and_eq_true, beq_iff_eq] at h
  have hm : lin &&& 0x7f = lin % 128 := by
    have := Nat.and_two_pow_sub_one_eq_mod lin 7
    simpa using this
  unfold linTag linTagIn
  rw [h.1, hm]
  simpa using allLt_spec h.2 (lin % 128) (Nat.mod_lt _ (by decide))

/-- The generated `lin` dictionary is, entry by entry, the dictionary of `Variant.intended`
(in particular its cube root is `math.copysign(math.pow(abs(x), 1.0/3), x)`, function tag 12). -/
theorem gen_lin_table_intended : Gen.SdrTables.lin = Variant.intended.linTable := by decide +kernel

/-- (helper) the intended cube-root function is the specification's, for a real cube root. -/
private theorem cubert_intended (F : Spec.Sensor.Fns) (hF : F.RealCubeRoot) (x : Rat) :
    applyTag F 12 x = F.cubert x := by
  simp only [applyTag]
  split
  · rw [hF.odd x]
    cases F.cubert x <;> simp [Spec.Sensor.negO, Rat.neg_neg]
  · rfl

/-- Every tag applies the function the specification names — all twelve.  The only thing assumed of
the transcendental parameters is that `F.cubert` is a real cube root (`F.RealCubeRoot`: defined for
every argument, odd); the repaired source computes it as the cube root of `|x|` with the sign of `x`. -/
theorem lin_functions (F : Spec.Sensor.Fns) (hF : F.RealCubeRoot) (l : Spec.Sensor.Lin) (x : Rat) :
    applyTag F (Variant.intended.tagOf l) x = Spec.Sensor.applyLin F l x := by
  cases l
  case cubert => exact cubert_intended F hF x
  all_goals rfl

/-- The argument of the linearisation is `(M·x + B·10^K1)·10^K2` with `x` the reading byte
interpreted by the analog data format. -/
theorem forward_argument (r : Rec) (raw : Nat) (h : raw < 256) :
    arg r raw = Spec.Sensor.affine ⟨r.m, r.b, r.k1, r.k2⟩
      (Spec.Sensor.signed (Spec.Sensor.Fmt.ofCode r.fmt) raw : Int) := by
  simp only [arg, Spec.Sensor.affine, signedRaw_eq_spec r.fmt raw h, pow10_eq_spec]

/-- Forward conversion = `L[(M·x + B·10^K1)·10^K2]`, for every record (all M, B, K1, K2, format
and linearisation codes), every reading byte and every choice of the transcendental functions;
an unknown linearisation code is a DecodingError on both sides. -/
theorem forward_formula (F : Spec.Sensor.Fns) (hF : F.RealCubeRoot) (r : Rec) (raw : Nat) (h : raw < 256) :
    convert F r (some raw) = Spec.Sensor.convert F r.fmt r.lin ⟨r.m, r.b, r.k1, r.k2⟩ (some raw) := by
  have ht := lin_table r.lin
  unfold linTag at ht
  simp only [convert, convertIn, Spec.Sensor.convert, ht]
  cases hl : Spec.Sensor.linOfCode (r.lin % 128) with
  | none => rfl
  | some l => simp only [Option.map_some, lin_functions F hF, forward_argument r raw h]

/-- An absent reading converts to an absent value. -/
theorem absent_reading (F : Spec.Sensor.Fns) (r : Rec) :
    convert F r none = none ∧ Spec.Sensor.convert F r.fmt r.lin ⟨r.m, r.b, r.k1, r.k2⟩ none = none :=
  ⟨rfl, rfl⟩

/-- For a linear sensor with M ≠ 0 the (intended) inverse recovers every raw byte from the
converted value — for ALL M, B, K1, K2 (unbounded integers; algebra over ℚ, no sampling), all
formats, every byte except 1's-complement negative zero. -/
theorem inverse_roundtrip (F : Spec.Sensor.Fns) (r : Rec) (raw : Nat) (hraw : raw < 256)
    (hm : r.m ≠ 0) (hlin : r.lin % 128 = 0) (hz : ¬ (r.fmt = 1 ∧ raw = 0xFF)) :
    ∃ y, convert F r (some raw) = some (.ok y) ∧
      y = Spec.Sensor.affine ⟨r.m, r.b, r.k1, r.k2⟩
        (Spec.Sensor.signed (Spec.Sensor.Fmt.ofCode r.fmt) raw : Int) ∧
      valueToRaw Variant.intended r y = .ok (raw : Int) := by
  refine ⟨arg r raw, ?_, forward_argument r raw hraw, ?_⟩
  · have ht := lin_table r.lin
    unfold linTag at ht
    simp only [convert, convertIn, ht, hlin]
    rfl
  · have hl : r.lin &&& 0x7f = 0 := by
      have := Nat.and_two_pow_sub_one_eq_mod r.lin 7
      simp at this; omega
    have hle : ¬ ((raw : Int) > 0xff) := by omega
    have hs : Variant.intended.signShipped = false := rfl
    simp only [valueToRaw, hl, hm, ne_eq, not_true_eq_false, if_false,
      rawQ_intended_arg r raw hm, roundHalfEven_int, hs, Bool.false_eq_true,
      encodeSigned_signedRaw r.fmt raw hraw hz, hle]

/-- Why negative zero is excluded: 0xFF in 1's complement reads as 0 and comes back as 0x00. -/
theorem negative_zero_not_recovered :
    ∀ F, convert F ⟨1, 0, 1, 0, 0, 0⟩ (some 0xFF) = some (.ok 0) ∧
      valueToRaw Variant.intended ⟨1, 0, 1, 0, 0, 0⟩ 0 = .ok 0 := by
  intro F
  refine ⟨?_, by decide +kernel⟩
  rw [convert_of_tag F _ _ 0 (by decide +kernel)]
  simp only [applyTag]
  decide +kernel

/-! ### the generated expressions are the model's expressions

`Gen.SensorExpr` is re-translated from the AST of `convert_sensor_raw_to_value`,
`convert_sensor_value_to_raw` and `_convert_complement` of the working tree on every run
(harness/translate/sdrexpr.py).  The `gen_*_eq` theorems say that the model (`Variant.intended`)
is, statement by statement, the generated expression: the sign conversions, the argument of the
linearisation, the inverse formula (subtract, then divide), the two negative encodings and the
variable their `if … < 0` tests (the rounded raw number, not the value), the two guards.  The
remaining `gen_*` theorems restate the property theorems for the generated definitions. -/

theorem gen_convertComplement_eq (value size : Nat) :
    Gen.SensorExpr.convertComplement value size = convertComplement value size := by
  have h : ((size : Int) - 1).toNat = size - 1 := by omega
  simp only [Gen.SensorExpr.convertComplement, Gen.SensorExpr.cc_value, convertComplement, h]

theorem gen_signedRaw_eq (fmt raw : Nat) : Gen.SensorExpr.fwd_raw_1 fmt raw = signedRaw fmt raw := rfl

theorem gen_arg_eq (r : Rec) (raw : Nat) :
    Gen.SensorExpr.fwd_lin_arg r.m r.fmt raw r.b r.k1 r.k2 = arg r raw := rfl

theorem gen_rawQ_eq (r : Rec) (value : Rat) :
    Gen.SensorExpr.inv_raw_1 value r.k2 r.b r.k1 r.m = rawQ Variant.intended r value := rfl

theorem gen_encodeSigned_eq (fmt : Nat) (raw : Int) :
    Gen.SensorExpr.inv_raw_2 fmt raw = encodeSigned fmt (decide (raw < 0)) raw := by
  simp only [Gen.SensorExpr.inv_raw_2, encodeSigned, PyInt.pyXor_7f, PyInt.pyOr_80, decide_eq_true_eq]

theorem gen_valueToRaw_eq (r : Rec) (value : Rat) :
    valueToRaw Variant.intended r value =
      if Gen.SensorExpr.inv_guard_1 r.lin = true then .pyError Gen.SensorExpr.inv_guard_1_exc
      else if r.m = 0 then .pyError "ZeroDivisionError"
      else if Gen.SensorExpr.inv_guard_2 r.fmt (roundHalfEven (Gen.SensorExpr.inv_raw_1 value r.k2 r.b r.k1 r.m)) = true
        then .pyError Gen.SensorExpr.inv_guard_2_exc
      else .ok (Gen.SensorExpr.inv_raw_2 r.fmt (roundHalfEven (Gen.SensorExpr.inv_raw_1 value r.k2 r.b r.k1 r.m))) := by
  have hg1 : Gen.SensorExpr.inv_guard_1 r.lin = decide (r.lin &&& 0x7f ≠ 0) := rfl
  have hg2 : ∀ z, Gen.SensorExpr.inv_guard_2 r.fmt z = decide (encodeSigned r.fmt (decide (z < 0)) z > 0xff) := by
    intro z; simp only [Gen.SensorExpr.inv_guard_2, gen_encodeSigned_eq]
  simp only [valueToRaw, hg1, hg2, gen_rawQ_eq, gen_encodeSigned_eq, decide_eq_true_eq,
    Gen.SensorExpr.inv_guard_1_exc, Gen.SensorExpr.inv_guard_2_exc, Variant.intended, Bool.false_eq_true, if_false]
  rfl

theorem gen_convert_eq (F : Spec.Sensor.Fns) (r : Rec) (raw : Nat) :
    convert F r (some raw) =
      some (match linTag r.lin with
        | none => .decodingError
        | some t => applyTag F t (Gen.SensorExpr.fwd_lin_arg r.m r.fmt raw r.b r.k1 r.k2)) := by
  simp only [convert, convertIn, linTag, gen_arg_eq]
  rfl

theorem gen_signed_spec (r : Nat) (h : r < 256) :
    Gen.SensorExpr.fwd_raw_1 0 r = (r : Int) ∧
    Gen.SensorExpr.fwd_raw_1 1 r = (if r < 128 then (r : Int) else (r : Int) - 255) ∧
    Gen.SensorExpr.fwd_raw_1 2 r = (if r < 128 then (r : Int) else (r : Int) - 256) ∧
    Gen.SensorExpr.fwd_raw_1 3 r = (r : Int) := by
  simp only [gen_signedRaw_eq]; exact signed_spec r h

theorem gen_forward_argument (fmt raw : Nat) (m b k1 k2 : Int) (h : raw < 256) :
    Gen.SensorExpr.fwd_lin_arg m fmt raw b k1 k2 =
      Spec.Sensor.affine ⟨m, b, k1, k2⟩ (Spec.Sensor.signed (Spec.Sensor.Fmt.ofCode fmt) raw : Int) :=
  (gen_arg_eq ⟨fmt, 0, m, b, k1, k2⟩ raw).trans (forward_argument ⟨fmt, 0, m, b, k1, k2⟩ raw h)

theorem gen_inverse_roundtrip (fmt raw : Nat) (m b k1 k2 : Int) (hraw : raw < 256) (hm : m ≠ 0)
    (hz : ¬ (fmt = 1 ∧ raw = 0xFF)) :
    Gen.SensorExpr.inv_guard_2 fmt
      (roundHalfEven (Gen.SensorExpr.inv_raw_1 (Gen.SensorExpr.fwd_lin_arg m fmt raw b k1 k2) k2 b k1 m)) = false ∧
    Gen.SensorExpr.inv_raw_2 fmt
      (roundHalfEven (Gen.SensorExpr.inv_raw_1 (Gen.SensorExpr.fwd_lin_arg m fmt raw b k1 k2) k2 b k1 m)) = (raw : Int) := by
  have hr : roundHalfEven (Gen.SensorExpr.inv_raw_1 (Gen.SensorExpr.fwd_lin_arg m fmt raw b k1 k2) k2 b k1 m)
      = signedRaw fmt raw := by
    rw [gen_arg_eq ⟨fmt, 0, m, b, k1, k2⟩ raw, gen_rawQ_eq ⟨fmt, 0, m, b, k1, k2⟩,
      rawQ_intended_arg ⟨fmt, 0, m, b, k1, k2⟩ raw hm, roundHalfEven_int]
  have he : Gen.SensorExpr.inv_raw_2 fmt (signedRaw fmt raw) = (raw : Int) := by
    rw [gen_encodeSigned_eq, encodeSigned_signedRaw fmt raw hraw hz]
  refine ⟨?_, by rw [hr, he]⟩
  simp only [Gen.SensorExpr.inv_guard_2, hr, he, decide_eq_false_iff_not]
  omega

/-- Which variables every generated definition reads, as the source writes them.  In particular the
negative encodings and the `> 0xff` guard (`inv_raw_2`, `inv_guard_2`) test the ROUNDED RAW number
(`int(round(raw))`) and the analog data format — not `value` —, and the inverse formula reads
`value`, K2, B, K1, M.  (Binder names are invisible to the other `gen_*` theorems; this table is not.) -/
theorem gen_inputs :
    Gen.SensorExpr.inputs =
      [("cc_value", ["value", "size"]),
       ("convertComplement", ["value", "size"]),
       ("fwd_raw_1", ["self.analog_data_format", "raw"]),
       ("fwd_raw_2", ["self.analog_data_format", "raw"]),
       ("fwd_lin_arg", ["self.m", "self.analog_data_format", "raw", "self.b", "self.k1", "self.k2"]),
       ("inv_linearization", ["self.linearization"]),
       ("inv_guard_1", ["self.linearization"]),
       ("inv_raw_1", ["value", "self.k2", "self.b", "self.k1", "self.m"]),
       ("inv_raw_2", ["self.analog_data_format", "int(round(raw))"]),
       ("inv_guard_2", ["self.analog_data_format", "int(round(raw))"])] := rfl

/-- The forward conversion starts with `if raw is None: return None`; the two guards of the inverse
raise the exceptions the model raises. -/
theorem gen_guards :
    Gen.SensorExpr.fwd_none_guard = true ∧ Gen.SensorExpr.inv_guard_1_exc = "NotImplementedError" ∧
    Gen.SensorExpr.inv_guard_2_exc = "ValueError" ∧ Gen.SensorExpr.inv_raw_round_of = "inv_raw_1" :=
  ⟨rfl, rfl, rfl, rfl⟩

/-! ### the pinned code (as shipped) violates the property -/

/-- Witness M = 2, B = 3, K1 = K2 = 0, unsigned: raw 10 converts to 23 and the as-shipped
inverse returns 8 (23/2 − 3 = 8.5, rounded to even). -/
theorem inverse_asShipped_counterexample :
    (∀ F, convert F ⟨0, 0, 2, 3, 0, 0⟩ (some 10) = some (.ok 23)) ∧
    valueToRaw Variant.asShipped ⟨0, 0, 2, 3, 0, 0⟩ 23 = .ok 8 ∧
    valueToRaw Variant.intended ⟨0, 0, 2, 3, 0, 0⟩ 23 = .ok 10 := by
  refine ⟨fun F => ?_, by decide +kernel, by decide +kernel⟩
  rw [convert_of_tag F _ _ 0 (by decide +kernel)]
  simp only [applyTag]
  decide +kernel

/-- The formula alone (correct sign rule) is enough to break the round trip. -/
theorem inverse_formula_counterexample :
    valueToRaw ⟨true, false, false⟩ ⟨0, 0, 2, 3, 0, 0⟩ 23 ≠ .ok 10 := by decide +kernel

/-- The sign rule alone (correct formula) is enough: 2's complement, M = 1, B = −10: raw 5
converts to −5; the value is negative but the raw reading is not. -/
theorem inverse_sign_counterexample :
    (∀ F, convert F ⟨2, 0, 1, -10, 0, 0⟩ (some 5) = some (.ok (-5))) ∧
    valueToRaw ⟨false, true, false⟩ ⟨2, 0, 1, -10, 0, 0⟩ (-5) = .ok (-123) ∧
    valueToRaw Variant.intended ⟨2, 0, 1, -10, 0, 0⟩ (-5) = .ok 5 := by
  refine ⟨fun F => ?_, by decide +kernel, by decide +kernel⟩
  rw [convert_of_tag F _ _ 0 (by decide +kernel)]
  simp only [applyTag]
  decide +kernel

/-- The cube root as the pinned source writes it (`math.pow(x, 1.0/3)`, function tag 11) raises
ValueError for EVERY negative argument — whatever the transcendental parameters are —, while the
specification's `L` has a value there for every real cube root. -/
theorem shipped_cubert_rejects_negatives (F : Spec.Sensor.Fns) (x : Rat) (hx : x < 0) :
    applyTag F (Variant.asShipped.tagOf .cubert) x = .pyError "ValueError" ∧
    (F.RealCubeRoot → ∃ y, Spec.Sensor.applyLin F .cubert x = .ok y ∧
      applyTag F (Variant.intended.tagOf .cubert) x = .ok y) := by
  refine ⟨?_, fun hF => ?_⟩
  · show applyTag F 11 x = _
    simp only [applyTag, hx, if_true]
  · obtain ⟨y, hy⟩ := hF.defined x
    exact ⟨y, hy, by rw [lin_functions F hF .cubert x]; exact hy⟩

/-- Witness on a whole record: 2's complement, linearisation 0Bh, M = 1, B = 0, K1 = K2 = 0, reading
F8h (= −8).  The conversion of the pinned source (`Variant.asShipped.linTable`) raises ValueError;
the specification's value L[−8] exists for every real cube root; the intended conversion returns it. -/
theorem cubert_negative_counterexample (F : Spec.Sensor.Fns) (hF : F.RealCubeRoot) :
    convertIn Variant.asShipped.linTable F ⟨2, 11, 1, 0, 0, 0⟩ (some 0xF8) = some (.pyError "ValueError") ∧
    (∃ y, Spec.Sensor.convert F 2 11 ⟨1, 0, 0, 0⟩ (some 0xF8) = some (.ok y)) ∧
    convertIn Variant.intended.linTable F ⟨2, 11, 1, 0, 0, 0⟩ (some 0xF8) =
      Spec.Sensor.convert F 2 11 ⟨1, 0, 0, 0⟩ (some 0xF8) := by
  have ha : arg ⟨2, 11, 1, 0, 0, 0⟩ 0xF8 = -8 := by decide +kernel
  have hs : Spec.Sensor.affine ⟨1, 0, 0, 0⟩ (Spec.Sensor.signed (Spec.Sensor.Fmt.ofCode 2) 0xF8 : Int) = -8 := by
    decide +kernel
  have t1 : linTagIn Variant.asShipped.linTable 11 = some 11 := by decide +kernel
  have t2 : linTagIn Variant.intended.linTable 11 = some 12 := by decide +kernel
  have hl : Spec.Sensor.linOfCode (11 % 128) = some .cubert := by decide
  have hneg : ((-8 : Rat) < 0) := by decide +kernel
  obtain ⟨y, hy⟩ := hF.defined (-8)
  refine ⟨?_, ⟨y, ?_⟩, ?_⟩
  · simp only [convertIn, t1, ha, applyTag, hneg, if_true]
  · simp only [Spec.Sensor.convert, hl, hs, Spec.Sensor.applyLin, hy]
  · simp only [convertIn, t2, ha, Spec.Sensor.convert, hl, hs, Spec.Sensor.applyLin]
    exact congrArg some (cubert_intended F hF (-8))

/-! ### non-vacuity: the hypotheses are satisfiable by non-trivial records -/

/-- `F.RealCubeRoot` is satisfiable, and by a function that is a cube root where that is rational:
∛8 = 2, ∛(−8) = −2 (the identity elsewhere: the theorems never look at other values). -/
def exampleFns : Spec.Sensor.Fns :=
  let f : Rat → Outcome Rat := fun x => .ok x
  ⟨f, f, f, f, f, f, f, fun x => .ok (if x = 8 then 2 else if x = -8 then -2 else x)⟩

example : exampleFns.RealCubeRoot ∧ exampleFns.cubert (-8) = .ok (-2) := by
  refine ⟨⟨fun x => ⟨_, rfl⟩, fun x => ?_⟩, by decide +kernel⟩
  show Outcome.ok _ = Spec.Sensor.negO (Outcome.ok _)
  simp only [Spec.Sensor.negO]
  congr 1
  by_cases h8 : x = 8
  · subst h8; decide +kernel
  · by_cases h8' : x = -8
    · subst h8'; decide +kernel
    · have a : ¬ (-x = 8) := fun h => h8' (by rw [← h, Rat.neg_neg])
      have b : ¬ (-x = -8) := fun h => h8 (by have := congrArg Neg.neg h; simpa [Rat.neg_neg] using this)
      simp only [h8, h8', a, b, if_false]

/-- A record with negative M, B and both exponents, 2's complement, a negative reading:
hypotheses of `inverse_roundtrip` hold and the value is the expected rational. -/
example : (200 : Nat) < 256 ∧ (-5 : Int) ≠ 0 ∧ (0x80 % 128 = 0) ∧ ¬ ((2 : Nat) = 1 ∧ (200 : Nat) = 0xFF) ∧
    arg ⟨2, 0x80, -5, -3, -2, 1⟩ 200 = (27997 : Rat) / 10 ∧
    valueToRaw Variant.intended ⟨2, 0x80, -5, -3, -2, 1⟩ ((27997 : Rat) / 10) = .ok 200 := by
  refine ⟨by decide, by decide, by decide, by decide, by decide +kernel, by decide +kernel⟩

/-- 1's complement, a byte ≠ 0xFF with the top bit set. -/
example : valueToRaw Variant.intended ⟨1, 0, 7, 511, 3, -4⟩ (arg ⟨1, 0, 7, 511, 3, -4⟩ 0x80) = .ok 0x80 := by
  decide +kernel

/-- `forward_formula` on a non-linear, non-trivial instance (1/x). -/
example : ∀ F, convert F ⟨0, 7, 4, 0, 0, 0⟩ (some 2) = some (.ok ((1 : Rat) / 8)) := by
  intro F
  rw [convert_of_tag F _ _ 7 (by decide +kernel)]
  simp only [applyTag]
  decide +kernel

/-! ### histories on one record object (decoded / assembled, attributes reassigned, decoded again)

`runHistory` is the model of a long-lived record object; these theorems say that a conversion made at ANY point
of ANY history is the specification's conversion over the attributes the record has at that moment — nothing
from an earlier state of the object (a decode-time snapshot of B·10^K1 or 10^K2, say) can enter. -/

/-- A history splits at any step: the steps after a prefix see exactly the attributes that prefix leaves. -/
theorem history_split (F : Spec.Sensor.Fns) (v : Variant) (pre post : List Step) (r : Rec) :
    runHistory F v r (pre ++ post) = runHistory F v r pre ++ runHistory F v (stateAfter r pre) post := by
  induction pre generalizing r with
  | nil => rfl
  | cons s t ih =>
    cases s <;> simp only [List.cons_append, runHistory, stateAfter, ih]

/-- Forward clause along histories: whatever was done to the record before (assignments of any attribute,
re-decoding, earlier conversions), converting a reading byte gives `L[(M·x + B·10^K1)·10^K2]` of the record's
CURRENT factors, and the rest of the history goes on from the same attributes. -/
theorem history_forward_current (F : Spec.Sensor.Fns) (hF : F.RealCubeRoot) (v : Variant) (r : Rec)
    (pre post : List Step) (raw : Nat) (h : raw < 256) :
    runHistory F v r (pre ++ .forward (some raw) :: post) =
      runHistory F v r pre ++
        .value (Spec.Sensor.convert F (stateAfter r pre).fmt (stateAfter r pre).lin
          ⟨(stateAfter r pre).m, (stateAfter r pre).b, (stateAfter r pre).k1, (stateAfter r pre).k2⟩ (some raw)) ::
        runHistory F v (stateAfter r pre) post := by
  rw [history_split]
  simp only [runHistory, forward_formula F hF _ raw h]

/-- Round-trip clause along histories: after any history, converting a reading byte and handing the value
straight back to the same record recovers the byte (current factors linear with M ≠ 0, not 1's-complement
negative zero). -/
theorem history_roundtrip_current (F : Spec.Sensor.Fns) (r : Rec) (pre post : List Step) (raw : Nat)
    (hraw : raw < 256) (hm : (stateAfter r pre).m ≠ 0) (hlin : (stateAfter r pre).lin % 128 = 0)
    (hz : ¬ ((stateAfter r pre).fmt = 1 ∧ raw = 0xFF)) :
    ∃ y, y = Spec.Sensor.affine ⟨(stateAfter r pre).m, (stateAfter r pre).b, (stateAfter r pre).k1,
            (stateAfter r pre).k2⟩ (Spec.Sensor.signed (Spec.Sensor.Fmt.ofCode (stateAfter r pre).fmt) raw : Int) ∧
      runHistory F Variant.intended r (pre ++ .forward (some raw) :: .inverse y :: post) =
        runHistory F Variant.intended r pre ++ .value (some (.ok y)) :: .raw (.ok (raw : Int)) ::
          runHistory F Variant.intended (stateAfter r pre) post := by
  obtain ⟨y, hc, hy, hv⟩ := inverse_roundtrip F (stateAfter r pre) raw hraw hm hlin hz
  refine ⟨y, hy, ?_⟩
  rw [history_split]
  simp only [runHistory, hc, hv]

/-- Assigning an attribute the conversions do not read changes no result. -/
theorem history_other_irrelevant (F : Spec.Sensor.Fns) (v : Variant) (r : Rec) (pre post : List Step) :
    runHistory F v r (pre ++ .other :: post) = runHistory F v r (pre ++ post) := by
  rw [history_split, history_split]
  simp only [runHistory]


example : (runHistory exampleFns Variant.intended ⟨0, 0, 10, 0, 0, 0⟩
    [.forward (some 3), .set .b 25, .set .k2 (-1), .forward (some 3), .redecode ⟨2, 0, 1, -10, 0, 0⟩,
     .forward (some 0xFB)]).length = 3 ∧
    stateAfter ⟨0, 0, 10, 0, 0, 0⟩ [.forward (some 3), .set .b 25, .set .k2 (-1)] = ⟨0, 0, 10, 25, 0, -1⟩ :=
  ⟨rfl, rfl⟩

end PyIpmi.Props.C17
