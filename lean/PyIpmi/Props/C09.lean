/-
  C09 — Bridged requests traverse every hop; replies unwrap to the target's reply.

  Model : `PyIpmi.Bridge.encodeBridged`, `encodeSendMessage`, `decodeBridged`, `recvBridged`
          (on top of the C03 framing model, Send Message ids / channel bits from Gen/IpmbFilter).
  Spec  : `PyIpmi.Spec.Bridges.peel / peelN` (a chain of bridges that verify both checksums and
          the Send Message header before forwarding), `wrapLayer / wrapReply` (Send Message
          responses around the target's reply), `Spec.Wire.parseReq / isReplyTo`.

  * `send_message_layer` — one `encode_send_message` is peeled by one bridge to exactly
                           (bridge, source, channel, tracking = 1, seq) and the embedded bytes
  * `peel_all`           — ANY routing depth (induction on the routing list): the chain of
                           `routing.length - 1` bridges accepts every layer (valid checksums,
                           netFn App, cmd Send Message), sees hop i = routing[i] (rs_sa, rq_sa,
                           channel, tracking on), and what reaches the target parses to the
                           original request sent from the LAST hop's rq_sa to its rs_sa with
                           the payload unchanged
  * `reroute_last`       — ONE Target object re-routed any number of times (`set_routing` history,
                           longer / equal / SHORTER paths): the stored path is exactly the last one
  * `reroute_peel_all`   — … and the request sent after ANY such history traverses exactly the hops
                           of the path configured last (`peel_all` for that path): nothing of an
                           earlier path is on the wire
  * `direct_when_single_hop` — a one-entry routing sends the plain request (no Send Message)
  * `bridged_is_bytes`   — the transmitted nest is a byte string
  Replies (`Bridge.Variant`: `repaired` = the source with fixes/C09-1.diff, `asShipped` = the pinned source,
  which takes every frame whose command BYTE is 34h for a Send Message response):
  * `source_recognition` — the working tree compares the network function too and verifies both checksums
                           on request (AST of decode_bridged_message / is_send_message_response, Gen/IpmbFilter)
  * `unwrap_wrap`        — ANY number of successful Send Message responses around a reply that is not itself
                           a Send Message response (netFn 07h AND command 34h) unwrap to exactly that reply
  * `unwrap_wrap_any_command` — … i.e. the reply to EVERY inner command but App/34h: command 34h in any other
                           network function included (HPM.1 Get Upgrade Status = 2Ch/34h)
  * `unwrap_wrap_asShipped`, `unwrap_wrap_asShipped_counterexample`
                         — as shipped this holds only when the reply's command byte is not 34h; the reply to
                           2Ch/34h is unwrapped one layer too far (witness replayed by the check)
  * `unwrap_error`       — first failing layer (completion code c ≠ 0, whatever follows it): CompletionCodeError c
  * `bare_ack_empty`     — an acknowledgement without forwarded reply (any nesting depth) unwraps to the empty string
  * `damaged_wrapper_not_unwrapped`, `corrupted_wrapper_not_unwrapped`
                         — with verification (what the transport asks for) a frame one of whose checksums fails
                           is handed back untouched: any single corrupted byte of a wrapper keeps it from being
                           unwrapped (no completion code is read from it)
  Transport (`classifyRx` / `recvBridged`):
  * `bare_ack_not_returned`, `bare_ack_waits`
                         — acknowledgements of THIS transaction are skipped, any number of them; then the
                           (wrapped or plain) matching reply is returned, completion code and data exactly
  * `retransmission_reply_returned`, `retransmission_error_reported`, `retransmission_budget`
                         — (`retryBridged`) any number of attempts lost (datagram, answer, or the forwarded reply
                           behind acknowledgements) within the budget max_retries + 1: the answer to the
                           retransmission - built by the bridges from what they RECEIVED - is unwrapped / waited
                           for / reported exactly like the answer to a first attempt; only the budget ends in RetryError
  * `unbridged_reply_returned`, `unbridged_reply_asShipped_counterexample`
                         — a request that is not bridged never unwraps: every intact reply is returned, command
                           34h included; as shipped `Hpm.get_upgrade_status()` ends in IndexError
  * `unbridged_never_raises_cc`, `late_ack_is_noise`, `late_ack_asShipped_counterexample`
                         — the completion code of a foreign / late Send Message response is never raised for
                           the request in hand (as shipped it is)
  Every native transport (the step models of C04: `Loops.rmcpRequest`, `Loops.i2cRequest`, `Loops.i2cProbe`,
  Model/RmcpLoop.lean / IpmbDevLoop.lean; `I2cCfg.refuseRouted` = the source with fixes/C09-2.diff):
  * `routed_request_rmcp_is_nest`
                         — every datagram `Rmcp._send_and_receive` transmits for a routed target, at ANY depth,
                           retransmissions included, is the nest (`NestFor`: hop i = routing entry i with request
                           tracking and the transaction's sequence number, innermost = the original request from the
                           last hop's source to its responder)
  * `routed_request_i2c_nest_or_nothing`, `routed_probe_i2c_nest_or_nothing`
                         — ipmb-dev / Aardvark (`_send_and_receive`, `is_ipmc_accessible`): a routing of more than one
                           hop is REFUSED — NotSupportedError, NOTHING written, nothing read, sequence number untouched;
                           a one-hop routing that names the interface and the target sends the plain request (the nest
                           of depth 0): no routed request ever reaches the local bus un-bridged
  * `i2c_routing_ignored_asShipped_counterexample`
                         — as shipped `Target.routing` was ignored: Get Device ID for the MMC 72h behind the carrier
                           IPMC 82h goes as `72 18 76 20 04 01 db` to whoever owns 72h on the LOCAL bus (the bridge
                           refuses it: not a Send Message) and that controller's answer is returned
-/
import PyIpmi.Lemmas.IpmbBridge
import PyIpmi.Lemmas.LoopsBridge
import PyIpmi.Lemmas.LoopsSound
namespace PyIpmi.Props.C09
open PyIpmi PyIpmi.Ipmb PyIpmi.Bridge PyIpmi.Spec.Wire PyIpmi.Spec.Bridges

/-- what bridge number i must see for routing entry `r` -/
def hopOf (seq : Nat) (r : Route) : Hop :=
  { bridge := r.rsSa, src := r.rqSa, channel := r.channel, tracking := 1, seq := seq }

theorem send_message_layer (p : List Nat) (r : Route) (seq : Nat) (hr : r.InRange) (hs : seq < 64) :
    ∃ f, encodeSendMessage p r.rqSa r.rsSa r.channel seq = .ok f ∧ peel f = some (hopOf seq r, p) :=
  ⟨_, encodeSendMessage_eq p _ _ _ _ hr.1 hr.2.1 hs, peel_sendFrame p _ _ _ _ hr.1 hr.2.1 hs hr.2.2⟩

theorem peel_all (rs : List Route) (last : Route) (h : Hdr) (p : List Nat) (seq : Nat)
    (hh : h.InRange) (hs : seq < 64) (hrs : ∀ r ∈ rs, r.InRange)
    (hl : last.rqSa < 256 ∧ last.rsSa < 256) :
    ∃ f inner, encodeBridged (rs ++ [last]) h p seq = .ok f ∧
      peelN rs.length f = some (rs.map (hopOf seq), inner) ∧
      parseReq inner = some ({ h with rqSa := last.rqSa, rsSa := last.rsSa }, p) := by
  rw [encodeBridged_append]
  have hh' : ({ h with rqSa := last.rqSa, rsSa := last.rsSa } : Hdr).InRange := by
    obtain ⟨h1, h2, h3, h4, h5, h6, h7⟩ := hh
    exact ⟨hl.2, h2, h3, hl.1, h5, h6, h7⟩
  induction rs with
  | nil =>
    refine ⟨_, _, encodeIpmbMsg_frameOf _ p hh', rfl, parseReq_frameOf _ p hh'⟩
  | cons r rs ih =>
    obtain ⟨g, inner, hg, hpeel, hparse⟩ := ih (fun x hx => hrs x (List.mem_cons_of_mem _ hx))
    have hr := hrs r List.mem_cons_self
    refine ⟨frameOf (sendHdr r.rqSa r.rsSa seq) (channelByte r.channel 1 :: g), inner, ?_, ?_, hparse⟩
    · simp only [List.foldr_cons, hg, Outcome.bind_ok]
      exact encodeSendMessage_eq g _ _ _ _ hr.1 hr.2.1 hs
    · simp only [List.length_cons, peelN, List.map_cons]
      rw [peel_sendFrame g _ _ _ _ hr.1 hr.2.1 hs hr.2.2]
      simp [hpeel, hopOf]

theorem reroute_last (t : Target) (paths : List (List Route)) (path : List Route) :
    (t.reroute (paths ++ [path])).routing = some path := by
  simp [Target.reroute, List.foldl_append, Target.setRouting]

theorem reroute_peel_all (t : Target) (paths : List (List Route)) (rs : List Route) (last : Route) (h : Hdr)
    (p : List Nat) (seq : Nat) (hh : h.InRange) (hs : seq < 64) (hrs : ∀ r ∈ rs, r.InRange)
    (hl : last.rqSa < 256 ∧ last.rsSa < 256) :
    ∃ f inner, (t.reroute (paths ++ [rs ++ [last]])).request h p seq = .ok f ∧
      peelN rs.length f = some (rs.map (hopOf seq), inner) ∧
      parseReq inner = some ({ h with rqSa := last.rqSa, rsSa := last.rsSa }, p) := by
  have hreq : (t.reroute (paths ++ [rs ++ [last]])).request h p seq = encodeBridged (rs ++ [last]) h p seq := by
    simp only [Target.request, reroute_last]
    cases rs <;> rfl
  rw [hreq]
  exact peel_all rs last h p seq hh hs hrs hl

theorem direct_when_single_hop (last : Route) (h : Hdr) (p : List Nat) (seq : Nat) :
    encodeBridged [last] h p seq = encodeIpmbMsg { h with rqSa := last.rqSa, rsSa := last.rsSa } p := by
  simp [encodeBridged]

theorem bridged_is_bytes (rs : List Route) (last : Route) (h : Hdr) (p : List Nat) (seq : Nat)
    (hh : h.InRange) (hs : seq < 64) (hrs : ∀ r ∈ rs, r.InRange)
    (hl : last.rqSa < 256 ∧ last.rsSa < 256) (hp : Bytes p) (f : List Nat)
    (hf : encodeBridged (rs ++ [last]) h p seq = .ok f) : Bytes f ∧ f.length = p.length + 7 + 8 * rs.length := by
  rw [encodeBridged_append] at hf
  have hh' : ({ h with rqSa := last.rqSa, rsSa := last.rsSa } : Hdr).InRange := by
    obtain ⟨h1, h2, h3, h4, h5, h6, h7⟩ := hh
    exact ⟨hl.2, h2, h3, hl.1, h5, h6, h7⟩
  induction rs generalizing f with
  | nil =>
    simp only [List.foldr_nil, encodeIpmbMsg_frameOf _ p hh'] at hf
    injection hf with hf; subst hf
    exact ⟨frameOf_bytes _ p hh' hp, by simp [frameOf_length]⟩
  | cons r rs ih =>
    have hr := hrs r List.mem_cons_self
    simp only [List.foldr_cons] at hf
    cases hg : (rs.foldr (fun b acc => acc.bind fun tx => encodeSendMessage tx b.rqSa b.rsSa b.channel seq)
        (encodeIpmbMsg { h with rqSa := last.rqSa, rsSa := last.rsSa } p)) with
    | ok g =>
      obtain ⟨hb, hlen⟩ := ih (fun x hx => hrs x (List.mem_cons_of_mem _ hx)) g hg
      rw [hg, Outcome.bind_ok, encodeSendMessage_eq g _ _ _ _ hr.1 hr.2.1 hs] at hf
      injection hf with hf; subst hf
      refine ⟨frameOf_bytes _ _ (sendHdr_inRange hr.1 hr.2.1 hs) ?_, ?_⟩
      · apply Bytes.cons _ hb
        rw [channelByte_track _ hr.2.2]; have := hr.2.2; omega
      · simp [frameOf_length, hlen]; omega
    | _ => rw [hg] at hf; simp [Outcome.bind] at hf

/-! ### replies

`Variant.repaired` is the source with fixes/C09-1.diff (a Send Message response is recognised by netFn
App + 1 AND command 34h, both checksums verified when the transport asks; the transport unwraps only
the response to the Send Message it has outstanding); `Variant.asShipped` is the pinned source, which
looks at the command byte alone.  The property theorems are about the former, the counter-examples
about the latter. -/

/-- The working tree recognises a Send Message response by its network function as well as its
command, and verifies both checksums on request (read from the AST of `decode_bridged_message` /
`is_send_message_response` on every run). -/
theorem source_recognition : Gen.IpmbFilter.recogNetfn = true ∧ Gen.IpmbFilter.recogVerify = true := by
  decide

/-- ANY number of successful Send Message responses around a reply that is not itself a Send Message
response (netFn 07h AND command 34h) unwrap to exactly that reply — with or without verification. -/
theorem unwrap_wrap (verify : Bool) (layers : List Hdr) (reply : List Nat) (hl : ∀ h ∈ layers, h.rqLun < 4)
    (h6 : 6 ≤ reply.length) (hn : ¬ NamesSendMsgRsp reply) :
    decodeBridged .repaired verify (wrapReply layers reply) = .ok reply := by
  induction layers with
  | nil => exact decodeBridged_plain _ _ reply h6 (not_names_not_recognised verify reply hn)
  | cons h hs ih =>
    have hlen := wrapReply_length_ge hs reply
    have : ¬ (wrapReply hs reply).length < 6 := by omega
    have ih' := ih (fun x hx => hl x (List.mem_cons_of_mem _ hx))
    simp [wrapReply, decodeBridged_layer .repaired verify h 0 _ (fun _ => hl h List.mem_cons_self), this, ih']

/-- … in particular the reply of the specification's figure to EVERY inner command other than Send
Message itself — command 34h in any other network function included (HPM.1 Get Upgrade Status is
2Ch/34h). -/
theorem unwrap_wrap_any_command (verify : Bool) (layers : List Hdr) (req : Hdr) (body : List Nat)
    (hl : ∀ h ∈ layers, h.rqLun < 4) (hq : req.rqLun < 4)
    (hne : ¬ (req.netfn = netfnApp ∧ req.cmd = cmdSendMessage)) :
    decodeBridged .repaired verify (wrapReply layers (mkReply req body)) = .ok (mkReply req body) := by
  apply unwrap_wrap verify layers _ hl (by rw [mkReply_length]; omega)
  intro ⟨h1, h2⟩
  rw [rspNetfn_mkReply req body hq] at h1
  rw [rspCmd_mkReply] at h2
  exact hne ⟨by omega, h2⟩

/-- As shipped the same holds only for replies whose command BYTE is not 34h … -/
theorem unwrap_wrap_asShipped (verify : Bool) (layers : List Hdr) (reply : List Nat) (h6 : 6 ≤ reply.length)
    (hc : reply[5]? ≠ some 0x34) : decodeBridged .asShipped verify (wrapReply layers reply) = .ok reply := by
  have hnr : isSendMsgRsp .asShipped verify reply = false := by
    rw [Bool.eq_false_iff, Ne, isSendMsgRsp_asShipped_iff]
    exact rspCmd_of_getElem? reply hc
  induction layers with
  | nil => exact decodeBridged_plain _ _ reply h6 hnr
  | cons h hs ih =>
    have hlen := wrapReply_length_ge hs reply
    have : ¬ (wrapReply hs reply).length < 6 := by omega
    simp [wrapReply, decodeBridged_layer .asShipped verify h 0 _ (fun hv => by cases hv), this, ih]

def hpmReq : Hdr := { rsSa := 0x72, rsLun := 0, netfn := 0x2c, rqSa := 0x20, rqLun := 0, seq := 5, cmd := 0x34 }
def hpmLayer : Hdr := { rsSa := 0x20, rsLun := 0, netfn := 6, rqSa := 0x81, rqLun := 0, seq := 5, cmd := 0x34 }

/-- … and NOT for every inner command other than Send Message: the reply to HPM.1 Get Upgrade Status
(2Ch/34h, completion code 00h, data 00 33 00) behind one successful Send Message response is unwrapped
one layer too far (3 bytes come out instead of the 11-byte reply). -/
theorem unwrap_wrap_asShipped_counterexample :
    ¬ ∀ (layers : List Hdr) (req : Hdr) (body : List Nat), (∀ h ∈ layers, h.rqLun < 4) → req.rqLun < 4 →
      ¬ (req.netfn = netfnApp ∧ req.cmd = cmdSendMessage) →
      decodeBridged .asShipped false (wrapReply layers (mkReply req body)) = .ok (mkReply req body) := by
  intro H
  have := H [hpmLayer] hpmReq [0, 0, 0x33, 0] (by decide) (by decide) (by decide)
  revert this
  decide

theorem unwrap_error (v : Variant) (verify : Bool) (layers : List Hdr) (failing : Hdr) (c : Nat) (tail : List Nat)
    (hc : c ≠ 0) (hq : v = .repaired → (∀ h ∈ layers, h.rqLun < 4) ∧ failing.rqLun < 4) :
    decodeBridged v verify (wrapReply layers (wrapLayer failing c tail)) = .ccError c := by
  induction layers with
  | nil => simp [wrapReply, decodeBridged_layer v verify failing c tail (fun hv => (hq hv).2), hc]
  | cons h hs ih =>
    have hlen := wrapReply_length_ge hs (wrapLayer failing c tail)
    rw [wrapLayer_length] at hlen
    have : ¬ (wrapReply hs (wrapLayer failing c tail)).length < 6 := by omega
    have ih' := ih (fun hv => ⟨fun x hx => (hq hv).1 x (List.mem_cons_of_mem _ hx), (hq hv).2⟩)
    simp [wrapReply, decodeBridged_layer v verify h 0 _ (fun hv => (hq hv).1 h List.mem_cons_self), this, ih']

theorem bare_ack_empty (v : Variant) (verify : Bool) (layers : List Hdr) (acking : Hdr)
    (hq : v = .repaired → (∀ h ∈ layers, h.rqLun < 4) ∧ acking.rqLun < 4) :
    decodeBridged v verify (wrapReply layers (wrapLayer acking 0 [])) = .ok [] :=
  decodeBridged_ack v verify layers acking hq

/-- With verification a frame one of whose checksums fails is never unwrapped, whatever its header
says: it is handed back unchanged (and `rx_filter`, which checks the same two sums, rejects it). -/
theorem damaged_wrapper_not_unwrapped (f : List Nat) (h6 : 6 ≤ f.length) (hd : ¬ (hdrOk f ∧ payOk f)) :
    decodeBridged .repaired true f = .ok f :=
  decodeBridged_plain _ _ f h6 (damaged_not_recognised f hd)

/-- … so ANY single corrupted byte of a wrapped reply (any depth, any layer's header, completion code,
checksum, or the embedded bytes) keeps it from being unwrapped. -/
theorem corrupted_wrapper_not_unwrapped (h : Hdr) (cc : Nat) (inner : List Nat) (i b : Nat)
    (hf : Bytes (wrapLayer h cc inner)) (hi : i < (wrapLayer h cc inner).length) (hb : b < 256)
    (hne : b ≠ (wrapLayer h cc inner)[i]) :
    decodeBridged .repaired true ((wrapLayer h cc inner).set i b) = .ok ((wrapLayer h cc inner).set i b) := by
  apply damaged_wrapper_not_unwrapped
  · rw [List.length_set, wrapLayer_length]; omega
  · exact corrupt_breaks_sums _ i b hf hi hb hne (wrapLayer_hdrOk _ _ _) (wrapLayer_payOk _ _ _)

/-! ### the transport -/

/-- acknowledgements of THIS transaction alone never produce a result -/
theorem bare_ack_not_returned (seq : Nat) (req : Hdr) (fl : Flags) (acks : List (List Nat))
    (ha : ∀ a ∈ acks, AckOf seq a) : recvBridged .repaired (some (bridgeHdr seq)) req fl acks = none := by
  induction acks with
  | nil => rfl
  | cons a as ih =>
    rw [recv_skip_ack seq req fl a as (ha a List.mem_cons_self)]
    exact ih (fun x hx => ha x (List.mem_cons_of_mem _ hx))

/-- after ANY number of bare acknowledgements the matching reply — wrapped in the Send Message
responses of this transaction or plain, ANY command that is not Send Message itself (34h in other
network functions included) — is returned, completion code and data exactly. -/
theorem bare_ack_waits (seq : Nat) (req : Hdr) (fl : Flags) (acks : List (List Nat)) (layers : List Hdr)
    (reply : List Nat) (rest : List (List Nat)) (hn : req.netfn % 2 = 0)
    (ha : ∀ a ∈ acks, AckOf seq a) (hl : ∀ h ∈ layers, SendMsgOf seq h)
    (hr : isReplyTo req reply fl) (hc : ¬ NamesSendMsgRsp reply) :
    recvBridged .repaired (some (bridgeHdr seq)) req fl (acks ++ wrapReply layers reply :: rest) =
      some (.ok (replyData reply)) := by
  induction acks with
  | cons a as ih =>
    rw [List.cons_append, recv_skip_ack seq req fl a _ (ha a List.mem_cons_self)]
    exact ih (fun x hx => ha x (List.mem_cons_of_mem _ hx))
  | nil =>
    have h6 : 6 ≤ reply.length := hr.1
    have hne : reply ≠ [] := by intro h; rw [h] at h6; simp at h6
    rw [List.nil_append, recvBridged]
    cases layers with
    | nil =>
      have hnb : ¬ isReplyTo (bridgeHdr seq) reply { rqSeq := fl.rqSeq } := by
        intro h
        exact hc ⟨h.2.2.2.1, h.2.2.2.2.1⟩
      simp only [wrapReply, classifyRx, rxFilter_false _ _ _ (bridgeHdr_even seq) h6 hnb,
        afterFilter_hit req fl reply hn hr]
    | cons h hs =>
      have hun := unwrap_wrap true (h :: hs) reply (fun x hx => (hl x hx).2.1) h6 hc
      simp only [wrapReply] at hun ⊢
      simp only [classifyRx, bridge_filter_layer seq fl h 0 _ (hl h List.mem_cons_self), hun]
      cases reply with
      | nil => exact absurd rfl hne
      | cons x xs => simp only [afterUnwrap, afterFilter_hit req fl _ hn hr]

/-- RETRANSMISSIONS.  Any number of attempts of the request get lost - the datagram, the answer, or the
forwarded reply behind acknowledgements that did arrive - and end in a read time-out; as long as one
transmission of the budget (`max_retries + 1`) is left, the answer to the retransmission is treated exactly
like the answer to a first attempt: the chain of bridges answers what it RECEIVED, the retransmission carries
the sequence number of the request (`bridge_header` and `header` are built once), so any number of bare
acknowledgements is skipped and the wrapped (any depth) or plain matching reply is returned, completion code
and data exactly. -/
theorem retransmission_reply_returned (seq : Nat) (req : Hdr) (fl : Flags) (lost : List (List (List Nat)))
    (budget : Nat) (acks : List (List Nat)) (layers : List Hdr) (reply : List Nat) (rest : List (List Nat))
    (later : List (List (List Nat))) (hb : lost.length < budget) (hn : req.netfn % 2 = 0)
    (hlost : ∀ att ∈ lost, ∀ a ∈ att, AckOf seq a)
    (ha : ∀ a ∈ acks, AckOf seq a) (hl : ∀ h ∈ layers, SendMsgOf seq h)
    (hr : isReplyTo req reply fl) (hc : ¬ NamesSendMsgRsp reply) :
    retryBridged .repaired (some (bridgeHdr seq)) req fl budget
        (lost ++ (acks ++ wrapReply layers reply :: rest) :: later) = some (.ok (replyData reply)) := by
  induction lost generalizing budget with
  | nil =>
    cases budget with
    | zero => simp at hb
    | succ n =>
      simp only [List.nil_append, retryBridged, bare_ack_waits seq req fl acks layers reply rest hn ha hl hr hc]
  | cons att atts ih =>
    cases budget with
    | zero => simp at hb
    | succ n =>
      simp only [List.cons_append, retryBridged,
        bare_ack_not_returned seq req fl att (hlost att List.mem_cons_self)]
      exact ih n (by simp at hb; omega) (fun x hx => hlost x (List.mem_cons_of_mem _ hx))

/-- … and the failing Send Message of a retransmitted request is reported with its completion code -/
theorem retransmission_error_reported (seq : Nat) (req : Hdr) (fl : Flags) (lost : List (List (List Nat)))
    (budget : Nat) (f : List Nat) (c : Nat) (rest : List (List Nat)) (later : List (List (List Nat)))
    (hb : lost.length < budget) (hlost : ∀ att ∈ lost, ∀ a ∈ att, AckOf seq a)
    (hf : recvBridged .repaired (some (bridgeHdr seq)) req fl (f :: rest) = some (.ccError c)) :
    retryBridged .repaired (some (bridgeHdr seq)) req fl budget (lost ++ (f :: rest) :: later) =
      some (.ccError c) := by
  induction lost generalizing budget with
  | nil =>
    cases budget with
    | zero => simp at hb
    | succ n => simp only [List.nil_append, retryBridged, hf]
  | cons att atts ih =>
    cases budget with
    | zero => simp at hb
    | succ n =>
      simp only [List.cons_append, retryBridged,
        bare_ack_not_returned seq req fl att (hlost att List.mem_cons_self)]
      exact ih n (by simp at hb; omega) (fun x hx => hlost x (List.mem_cons_of_mem _ hx))

/-- the budget is the only limit: `max_retries + 1` silent attempts end in RetryError -/
theorem retransmission_budget (seq : Nat) (req : Hdr) (fl : Flags) (lost : List (List (List Nat)))
    (later : List (List (List Nat))) (hlost : ∀ att ∈ lost, ∀ a ∈ att, AckOf seq a) :
    retryBridged .repaired (some (bridgeHdr seq)) req fl lost.length (lost ++ later) = some .retryError := by
  induction lost with
  | nil => simp [retryBridged]
  | cons att atts ih =>
    simp only [List.cons_append, List.length_cons, retryBridged,
      bare_ack_not_returned seq req fl att (hlost att List.mem_cons_self)]
    exact ih (fun x hx => hlost x (List.mem_cons_of_mem _ hx))

/-- a request that is NOT bridged never unwraps anything: every intact reply to it is returned,
whatever its command — 34h included (`Hpm.get_upgrade_status()` over RMCP). -/
theorem unbridged_reply_returned (req : Hdr) (fl : Flags) (reply : List Nat) (hn : req.netfn % 2 = 0)
    (hr : isReplyTo req reply fl) : classifyRx .repaired none req fl reply = .hit (replyData reply) :=
  afterFilter_hit req fl reply hn hr

/-- As shipped it is not: the intact reply to an unbridged HPM.1 Get Upgrade Status request is taken
for a Send Message response and an IndexError leaves the transport. -/
theorem unbridged_reply_asShipped_counterexample :
    ¬ ∀ (req : Hdr) (fl : Flags) (reply : List Nat), req.netfn % 2 = 0 → isReplyTo req reply fl →
      classifyRx .asShipped none req fl reply = .hit (replyData reply) := by
  intro H
  have := H hpmReq {} (mkReply hpmReq [0, 0, 0x33, 0]) (by decide) (by decide)
  revert this
  decide

/-- A frame that is not the response to the Send Message of the transaction in hand is never
unwrapped, so no completion code of a foreign or late acknowledgement is ever raised: an unbridged
request raises no CompletionCodeError from the transport at all … -/
theorem unbridged_never_raises_cc (req : Hdr) (fl : Flags) (f : List Nat) (c : Nat) :
    classifyRx .repaired none req fl f ≠ .err (.ccError c) :=
  afterFilter_no_cc req fl f c

/-- … and during a bridged request the (failing or successful) Send Message response of an EARLIER
transaction — other sequence number — is an unrelated frame like any other. -/
theorem late_ack_is_noise (seq : Nat) (req : Hdr) (fl : Flags) (h : Hdr) (cc : Nat) (inner : List Nat)
    (hn : req.netfn % 2 = 0) (hfl : fl.rqSeq = true) (hlun : h.rsLun < 4) (hne : h.seq ≠ seq)
    (hreq : ¬ isReplyTo req (wrapLayer h cc inner) fl) :
    classifyRx .repaired (some (bridgeHdr seq)) req fl (wrapLayer h cc inner) = .noise := by
  simp only [classifyRx, bridge_filter_foreign seq fl h cc inner hfl hlun hne]
  exact afterFilter_noise req fl _ hn (by rw [wrapLayer_length]; omega) hreq

/-- As shipped the error code of a late acknowledgement is raised for whatever request is
outstanding (here: an unbridged Get Device ID, sequence number 2, while the acknowledgement of an
earlier transaction, sequence number 1, arrives with completion code 83h). -/
theorem late_ack_asShipped_counterexample :
    classifyRx .asShipped none { hpmReq with netfn := 6, cmd := 1, seq := 2 } {}
      (wrapLayer { hpmLayer with seq := 1 } 0x83 []) = .err (.ccError 0x83) := by decide

/-! ### every native transport: the nest, or nothing at all

The step models of the three transports (property C04's, tied to the source statement by statement) all
take a `Loops.Req` with the target's routing. -/

/-- `f` is, for `routing`, the request the property demands: the chain of `routing.length - 1`
specification bridges accepts every layer (both checksums, netFn App, Send Message), bridge i sees routing
entry i (its own address, the hop's source, the hop's channel, request tracking on, sequence number
`seq`), and what reaches the target parses to the original request `h` — sent from the last hop's source
to its responder — with the payload unchanged. -/
def NestFor (routing : List Loops.Hop) (h : Hdr) (payload : List Nat) (seq : Nat) (f : List Nat) : Prop :=
  ∃ rs last inner, routing = rs ++ [last] ∧
    peelN rs.length f = some (rs.map (LoopsBridge.hopOf seq), inner) ∧
    parseReq inner = some ({ h with rqSa := last.rqSa, rsSa := last.rsSa }, payload)

/-- header fields of a request in range (8-bit addresses and command, 6-bit netFn, 2-bit LUN) -/
def ReqInRange (slave : Nat) (req : Loops.Req) : Prop :=
  slave < 256 ∧ req.rsSa < 256 ∧ req.netfn < 64 ∧ req.lun < 4 ∧ req.cmd < 256

instance (slave : Nat) (req : Loops.Req) : Decidable (ReqInRange slave req) := by unfold ReqInRange; infer_instance

theorem wireHdr_inRange (slave : Nat) (req : Loops.Req) (seq : Nat) (hq : ReqInRange slave req) (hs : seq < 64) :
    (LoopsBridge.wireHdr (Loops.mkHdr slave req seq)).InRange := by
  obtain ⟨h1, h2, h3, h4, h5⟩ := hq
  exact ⟨h2, h4, h3, h1, Nat.zero_lt_succ 3, hs, h5⟩

/-- LAN: every datagram `Rmcp._send_and_receive` transmits for a routed target — any depth, any state of
the interface, any events, every retransmission — is the nest for that routing, built around the
request header of THIS transaction (its new sequence number in every layer). -/
theorem routed_request_rmcp_is_nest (cfg : Loops.Cfg) (st : Loops.IfState) (req : Loops.Req)
    (evs : List Loops.RxEvent) (rs : List Loops.Hop) (last : Loops.Hop) (hrt : req.routing = rs ++ [last])
    (hq : ReqInRange cfg.slaveAddr req) (hrs : ∀ r ∈ rs, LoopsBridge.HopInRange r)
    (hl : last.rqSa < 256 ∧ last.rsSa < 256) :
    ∀ f ∈ (Loops.rmcpRequest cfg st req evs).tx,
      NestFor req.routing (LoopsBridge.wireHdr (Loops.mkHdr cfg.slaveAddr req ((st.nextSeq + 1) % 64))) req.payload
        ((st.nextSeq + 1) % 64) f := by
  intro f hf
  have hs : Loops.incSeq st.nextSeq = (st.nextSeq + 1) % 64 := rfl
  have h64 : (st.nextSeq + 1) % 64 < 64 := by omega
  simp only [Loops.rmcpRequest, hs] at hf
  rw [(List.mem_replicate.mp hf).2]
  have hne : (rs ++ [last]).isEmpty = false := by simp
  obtain ⟨inner, hp, hi⟩ := LoopsBridge.encodeBridged_peel rs last
    (Loops.mkHdr cfg.slaveAddr req ((st.nextSeq + 1) % 64)) req.payload _ (wireHdr_inRange _ _ _ hq h64) h64 hrs hl
  refine ⟨rs, last, inner, hrt, ?_, hi⟩
  simp only [Loops.txData, hrt, hne, Bool.false_eq_true, if_false]
  exact hp

/-- the plain request on the local bus is the nest of depth 0 for a one-hop routing that names the
interface's own address and the target's -/
theorem plain_request_is_nest (slave : Nat) (req : Loops.Req) (seq : Nat) (last : Loops.Hop)
    (hq : ReqInRange slave req) (hs : seq < 64) (h1 : last.rqSa = slave) (h2 : last.rsSa = req.rsSa) :
    NestFor [last] (LoopsBridge.wireHdr (Loops.mkHdr slave req seq)) req.payload seq
      (Loops.encodeIpmbMsg (Loops.mkHdr slave req seq) req.payload) := by
  refine ⟨[], last, _, rfl, rfl, ?_⟩
  have hr := wireHdr_inRange slave req seq hq hs
  rw [LoopsBridge.encodeIpmbMsg_frameOf _ _ hr, parseReq_frameOf _ _ hr]
  simp [LoopsBridge.wireHdr, Loops.mkHdr, h1, h2]

/-- ipmb-dev / Aardvark, repaired source: these transports do not bridge.  A request for a target whose
routing has more than one hop is refused — NotSupportedError, nothing written, nothing read, the
sequence number not used up; with a one-hop routing (the target sits on the local bus: the hop names the
interface and the target) every frame written, retransmissions included, is the plain request = the nest
of depth 0.  Either way nothing that is not the nest leaves the transport. -/
theorem routed_request_i2c_nest_or_nothing (cfg : Loops.I2cCfg) (hc : cfg.refuseRouted = true) (nextSeq : Nat)
    (req : Loops.Req) (evs : List Loops.I2cEvent) (hq : ReqInRange cfg.slaveAddr req) :
    (1 < req.routing.length →
      Loops.i2cRequest cfg nextSeq req evs = { nextSeq := nextSeq, out := .notSupported, tx := [], rest := evs }) ∧
    (∀ last, req.routing = [last] → last.rqSa = cfg.slaveAddr → last.rsSa = req.rsSa →
      ∀ f ∈ (Loops.i2cRequest cfg nextSeq req evs).tx,
        NestFor req.routing (LoopsBridge.wireHdr (Loops.mkHdr cfg.slaveAddr req ((nextSeq + 1) % 64))) req.payload
          ((nextSeq + 1) % 64) f) := by
  refine ⟨fun h => Loops.i2cRequest_refused cfg nextSeq req evs ((Loops.i2cRefuses_iff cfg _).2 ⟨hc, h⟩), ?_⟩
  intro last hrt h1 h2 f hf
  have hnr : Loops.i2cRefuses cfg req.routing = false := by simp [Loops.i2cRefuses, hrt]
  have hs : Loops.i2cIncSeq nextSeq = (nextSeq + 1) % 64 := rfl
  rw [Loops.i2cRequest_not_refused cfg nextSeq req evs hnr] at hf
  simp only [hs] at hf
  rw [(List.mem_replicate.mp hf).2, hrt]
  exact plain_request_is_nest cfg.slaveAddr req _ last hq (by omega) h1 h2

/-- `is_ipmc_accessible` of ipmb-dev / Aardvark likewise (its request is Get Device ID to LUN 0 of the
target). -/
theorem routed_probe_i2c_nest_or_nothing (cfg : Loops.I2cCfg) (hc : cfg.refuseRouted = true) (nextSeq rsSa : Nat)
    (routing : List Loops.Hop) (evs : List Loops.I2cEvent) (h1 : cfg.slaveAddr < 256) (h2 : rsSa < 256) :
    (1 < routing.length →
      Loops.i2cProbe cfg true nextSeq rsSa evs routing = { nextSeq := nextSeq, out := .notSupported, tx := [], rest := evs }) ∧
    (∀ last, routing = [last] → last.rqSa = cfg.slaveAddr → last.rsSa = rsSa →
      ∀ f ∈ (Loops.i2cProbe cfg true nextSeq rsSa evs routing).tx,
        NestFor routing (LoopsBridge.wireHdr (Loops.mkHdr cfg.slaveAddr (Loops.probeReq rsSa) ((nextSeq + 1) % 64))) []
          ((nextSeq + 1) % 64) f) := by
  refine ⟨fun h => Loops.i2cProbe_refused cfg true nextSeq rsSa evs routing ((Loops.i2cRefuses_iff cfg _).2 ⟨hc, h⟩), ?_⟩
  intro last hrt e1 e2 f hf
  have hnr : Loops.i2cRefuses cfg routing = false := by simp [Loops.i2cRefuses, hrt]
  have hs : Loops.i2cIncSeq nextSeq = (nextSeq + 1) % 64 := rfl
  have hq : ReqInRange cfg.slaveAddr (Loops.probeReq rsSa) :=
    ⟨h1, h2, by show 6 < 64; omega, by show 0 < 4; omega, by show 1 < 256; omega⟩
  have hnest := plain_request_is_nest cfg.slaveAddr (Loops.probeReq rsSa) ((nextSeq + 1) % 64) last hq (by omega) e1 e2
  have hf' : f = Loops.encodeIpmbMsg (Loops.mkHdr cfg.slaveAddr (Loops.probeReq rsSa) ((nextSeq + 1) % 64)) [] := by
    simp only [Loops.i2cProbe, hnr, Bool.false_eq_true, if_false, if_true, hs] at hf
    split at hf <;> simpa using hf
  rw [hf', hrt]
  exact hnest

def amcReq : Loops.Req :=
  { rsSa := 0x72, netfn := 6, lun := 0, cmd := 1, routing := [⟨0x20, 0x82, 7⟩, ⟨0x20, 0x72, 0⟩] }
/-- the Device ID of whoever owns address 72h on the LOCAL bus (sequence number 1) -/
def localAnswer : List Nat := [0x20, 0x1c, 0xc4, 0x72, 0x04, 0x01, 0x00, 0x51, 0x38]

/-- As shipped `Target.routing` was ignored by ipmb-dev and Aardvark: the request for the AMC module 72h
behind the carrier IPMC 82h (bridge channel 7) is written un-bridged to the local bus, where the bridge
82h would have had to get `82 18 66 20 04 34 47 …`; the chain of one specification bridge refuses the frame
(it is no Send Message), and the answer of the local owner of 72h is returned as the routed target's. -/
theorem i2c_routing_ignored_asShipped_counterexample :
    (Loops.i2cRequest { Loops.I2cCfg.ipmbdev with refuseRouted := false } 0 amcReq [.frame 2 localAnswer]).tx =
      [[0x72, 0x18, 0x76, 0x20, 0x04, 0x01, 0xdb]] ∧
    (Loops.i2cRequest { Loops.I2cCfg.aardvark with refuseRouted := false } 0 amcReq [.frame 2 localAnswer]).out =
      .ok [0x00, 0x51] ∧
    peelN 1 [0x72, 0x18, 0x76, 0x20, 0x04, 0x01, 0xdb] = none ∧
    ¬ NestFor amcReq.routing (LoopsBridge.wireHdr (Loops.mkHdr 0x20 amcReq 1)) [] 1
      [0x72, 0x18, 0x76, 0x20, 0x04, 0x01, 0xdb] := by
  refine ⟨by decide, by decide, by decide, ?_⟩
  rintro ⟨rs, last, inner, hrt, hp, _⟩
  have hlen : rs.length = 1 := by
    have := congrArg List.length hrt
    simp [amcReq] at this
    omega
  rw [hlen] at hp
  have hnone : peelN 1 [0x72, 0x18, 0x76, 0x20, 0x04, 0x01, 0xdb] = none := by decide
  rw [hnone] at hp
  cases hp

/-! ### non-vacuity -/

def demoHdr : Hdr := { rsSa := 0, rsLun := 0, netfn := 6, rqSa := 0, rqLun := 0, seq := 0x11, cmd := 0xaa }
def demoRouting : List Route := [⟨0x81, 0x20, 7⟩, ⟨0x20, 0x72, 0⟩]

/-- the literal pinned by tests/interfaces/test_ipmb.py::test_encode_bridged_message -/
example : encodeBridged demoRouting demoHdr [0xaa, 0xbb] 0x22 =
    .ok [0x20, 0x18, 0xc8, 0x81, 0x88, 0x34, 0x47, 0x72, 0x18, 0x76, 0x20, 0x44, 0xaa, 0xaa, 0xbb, 0x8d, 0x7c] := by
  decide
/-- depth 3 (the µTCA example of `Target.set_routing`): channel bytes 0x40, 0x47 -/
example : (do
    let f ← encodeBridged [⟨0x81, 0x20, 0⟩, ⟨0x20, 0x82, 7⟩, ⟨0x20, 0x72, 0⟩] demoHdr [1] 5
    pure (peelN 2 f)) =
    .ok (some ([⟨0x20, 0x81, 0, 1, 5⟩, ⟨0x82, 0x20, 7, 1, 5⟩],
      [0x72, 0x18, 0x76, 0x20, 0x44, 0xaa, 0x01, 0xf1])) := by decide
/-- 3 hops, then re-routed to 2 hops on the same Target: the request is the 2-hop literal above -/
example : (({} : Target).reroute [[⟨0x81, 0x20, 0⟩, ⟨0x20, 0x82, 7⟩, ⟨0x20, 0x72, 0⟩], demoRouting]).request
      demoHdr [0xaa, 0xbb] 0x22 = encodeBridged demoRouting demoHdr [0xaa, 0xbb] 0x22 := by decide
example : decodeBridged .repaired true (wrapReply [demoHdr, demoHdr] (mkReply demoHdr [0, 1, 2])) = .ok (mkReply demoHdr [0, 1, 2]) :=
  unwrap_wrap _ _ _ (by decide) (by decide) (by decide)
/-- HPM.1 Get Upgrade Status (2Ch/34h) behind two bridges -/
example : decodeBridged .repaired true (wrapReply [hpmLayer, hpmLayer] (mkReply hpmReq [0, 0, 0x33, 0])) =
    .ok (mkReply hpmReq [0, 0, 0x33, 0]) :=
  unwrap_wrap_any_command _ _ _ _ (by decide) (by decide) (by decide)
/-- the literal of tests/interfaces/test_ipmb.py::test_decode_bridged_message (wrapper checksums 6a, 36 are wrong):
unwrapped without verification, left alone with it -/
example : decodeBridged .repaired false [0x81, 0x1c, 0x63, 0x20, 0x14, 0x34, 0x00, 0x20, 0x1c, 0xc4, 0x82, 0x14, 0x34, 0x00,
    0x20, 0x14, 0xcc, 0x74, 0x14, 0x22, 0x00, 0xed, 0xff, 0x6a, 0x36] = .ok [0x20, 0x14, 0xcc, 0x74, 0x14, 0x22, 0x00, 0xed, 0xff] := by
  decide
example : decodeBridged .repaired true (wrapReply [demoHdr] (wrapLayer demoHdr 0xc3 [])) = .ccError 0xc3 :=
  unwrap_error _ _ _ _ _ _ (by decide) (by decide)
example : AckOf 5 (wrapLayer hpmLayer 0 []) := ⟨[], hpmLayer, by simp, by decide, rfl⟩
example : recvBridged .repaired (some (bridgeHdr 5)) hpmReq {}
    [wrapLayer hpmLayer 0 [], wrapReply [hpmLayer] (mkReply hpmReq [0, 9])] = some (.ok [0, 9]) :=
  bare_ack_waits 5 hpmReq {} [wrapLayer hpmLayer 0 []] [hpmLayer] (mkReply hpmReq [0, 9]) [] (by decide)
    (by intro a ha; simp at ha; exact ⟨[], hpmLayer, by simp, by decide, ha⟩)
    (by intro h hh; simp at hh; subst hh; decide) (by decide) (by decide)
/-- max_retries = 2: the first datagram is lost, the second is acknowledged but the forwarded reply is lost, the
third is acknowledged and answered -/
example : retryBridged .repaired (some (bridgeHdr 5)) hpmReq {} 3
    [[], [wrapLayer hpmLayer 0 []], [wrapLayer hpmLayer 0 [], wrapReply [hpmLayer] (mkReply hpmReq [0, 9])]] =
      some (.ok [0, 9]) :=
  retransmission_reply_returned 5 hpmReq {} [[], [wrapLayer hpmLayer 0 []]] 3 [wrapLayer hpmLayer 0 []] [hpmLayer]
    (mkReply hpmReq [0, 9]) [] [] (by decide) (by decide)
    (by intro att hatt a ha; simp at hatt; rcases hatt with h | h <;> subst h <;> simp at ha
        exact ⟨[], hpmLayer, by simp, by decide, ha⟩)
    (by intro a ha; simp at ha; exact ⟨[], hpmLayer, by simp, by decide, ha⟩)
    (by intro h hh; simp at hh; subst hh; decide) (by decide) (by decide)
/-- the answer to a retransmission that carried ANOTHER sequence number (6) than the request (5) would not be
unwrapped: the sequence number has to stay the same over the retransmissions -/
example : retryBridged .repaired (some (bridgeHdr 5)) hpmReq {} 2
    [[], [wrapReply [{ hpmLayer with seq := 6 }] (mkReply { hpmReq with seq := 6 } [0, 9])]] =
      some (.pyError "unmatched-frame:C04") := by decide
/-- a corrupted completion-code byte of a wrapper (00h -> 83h): dropped, not raised -/
example : classifyRx .repaired (some (bridgeHdr 5)) hpmReq {}
    ((wrapReply [hpmLayer] (mkReply hpmReq [0, 9])).set 6 0x83) = .noise := by decide

/-- the repaired ipmb-dev on the witness of the counter-example: refused, nothing written; the µTCA example of
`Target.set_routing` over the LAN: peeled by two bridges -/
example : (Loops.i2cRequest Loops.I2cCfg.ipmbdev 0 amcReq [.frame 2 localAnswer]).tx = [] ∧
    (Loops.i2cRequest Loops.I2cCfg.ipmbdev 0 amcReq [.frame 2 localAnswer]).out = .notSupported ∧
    ReqInRange 0x20 amcReq ∧ Loops.I2cCfg.ipmbdev.refuseRouted = true := by decide
example : (Loops.rmcpRequest { maxRetries := 0 } ⟨0, [], []⟩
      { amcReq with routing := [⟨0x81, 0x20, 0⟩, ⟨0x20, 0x82, 7⟩, ⟨0x20, 0x72, 0⟩] } []).tx.map (peelN 2) =
    [some ([⟨0x20, 0x81, 0, 1, 1⟩, ⟨0x82, 0x20, 7, 1, 1⟩], [0x72, 0x18, 0x76, 0x20, 0x04, 0x01, 0xdb])] := by decide

end PyIpmi.Props.C09
