/-
  C09 — Bridged requests traverse every hop; replies unwrap to the target's reply.

  Model : `PyIpmi.Bridge.encodeBridged`, `encodeSendMessage`, `decodeBridged`, `recvBridged`
          (on top of the C03 framing model, Send Message ids / channel bits from Gen/IpmbFilter).
  Spec  : `PyIpmi.Spec.Bridges.peel / peelN` (a chain of bridges that verify both checksums and
          the Send Message header before forwarding), `wrapLayer / wrapReply` (Send Message
          responses around the target's reply), `Spec.Wire.parseReq / isReplyTo`.

  * `send_message_layer` — one `encode_send_message` is peeled by one bridge to exactly
                           (bridge, source, channel, tracking = 1, seq) and the embedded bytes
  * `peel_all`           — ANY routing depth (induction on the routing list): the chain of
                           `routing.length - 1` bridges accepts every layer (valid checksums,
                           netFn App, cmd Send Message), sees hop i = routing[i] (rs_sa, rq_sa,
                           channel, tracking on), and what reaches the target parses to the
                           original request sent from the LAST hop's rq_sa to its rs_sa with
                           the payload unchanged
  * `reroute_last`       — ONE Target object re-routed any number of times (`set_routing` history,
                           longer / equal / SHORTER paths): the stored path is exactly the last one
  * `reroute_peel_all`   — … and the request sent after ANY such history traverses exactly the hops
                           of the path configured last (`peel_all` for that path): nothing of an
                           earlier path is on the wire
  * `direct_when_single_hop` — a one-entry routing sends the plain request (no Send Message)
  * `bridged_is_bytes`   — the transmitted nest is a byte string
  Replies (`Bridge.Variant`: `repaired` = the source with fixes/C09-1.diff, `asShipped` = the pinned source,
  which takes every frame whose command BYTE is 34h for a Send Message response):
  * `source_recognition` — the working tree compares the network function too and verifies both checksums
                           on request (AST of decode_bridged_message / is_send_message_response, Gen/IpmbFilter)
  * `unwrap_wrap`        — ANY number of successful Send Message responses around a reply that is not itself
                           a Send Message response (netFn 07h AND command 34h) unwrap to exactly that reply
  * `unwrap_wrap_any_command` — … i.e. the reply to EVERY inner command but App/34h: command 34h in any other
                           network function included (HPM.1 Get Upgrade Status = 2Ch/34h)
  * `unwrap_wrap_asShipped`, `unwrap_wrap_asShipped_counterexample`
                         — as shipped this holds only when the reply's command byte is not 34h; the reply to
                           2Ch/34h is unwrapped one layer too far (witness replayed by the check)
  * `unwrap_error`       — first failing layer (completion code c ≠ 0, whatever follows it): CompletionCodeError c
  * `bare_ack_empty`     — an acknowledgement without forwarded reply (any nesting depth) unwraps to the empty string
  * `damaged_wrapper_not_unwrapped`, `corrupted_wrapper_not_unwrapped`
                         — with verification (what the transport asks for) a frame one of whose checksums fails
                           is handed back untouched: any single corrupted byte of a wrapper keeps it from being
                           unwrapped (no completion code is read from it)
  Transport (`classifyRx` / `recvBridged`):
  * `bare_ack_not_returned`, `bare_ack_waits`
                         — acknowledgements of THIS transaction are skipped, any number of them; then the
                           (wrapped or plain) matching reply is returned, completion code and data exactly
  * `unbridged_reply_returned`, `unbridged_reply_asShipped_counterexample`
                         — a request that is not bridged never unwraps: every intact reply is returned, command
                           34h included; as shipped `Hpm.get_upgrade_status()` ends in IndexError
  * `unbridged_never_raises_cc`, `late_ack_is_noise`, `late_ack_asShipped_counterexample`
                         — the completion code of a foreign / late Send Message response is never raised for
                           the request in hand (as shipped it is)
-/
import PyIpmi.Lemmas.IpmbBridge
namespace PyIpmi.Props.C09
open PyIpmi PyIpmi.Ipmb PyIpmi.Bridge PyIpmi.Spec.Wire PyIpmi.Spec.Bridges

/-- what bridge number i must see for routing entry `r` -/
def hopOf (seq : Nat) (r : Route) : Hop :=
  { bridge := r.rsSa, src := r.rqSa, channel := r.channel, tracking := 1, seq := seq }

theorem send_message_layer (p : List Nat) (r : Route) (seq : Nat) (hr : r.InRange) (hs : seq < 64) :
    ∃ f, encodeSendMessage p r.rqSa r.rsSa r.channel seq = .ok f ∧ peel f = some (hopOf seq r, p) :=
  ⟨_, encodeSendMessage_eq p _ _ _ _ hr.1 hr.2.1 hs, peel_sendFrame p _ _ _ _ hr.1 hr.2.1 hs hr.2.2⟩

theorem peel_all (rs : List Route) (last : Route) (h : Hdr) (p : List Nat) (seq : Nat)
    (hh : h.InRange) (hs : seq < 64) (hrs : ∀ r ∈ rs, r.InRange)
    (hl : last.rqSa < 256 ∧ last.rsSa < 256) :
    ∃ f inner, encodeBridged (rs ++ [last]) h p seq = .ok f ∧
      peelN rs.length f = some (rs.map (hopOf seq), inner) ∧
      parseReq inner = some ({ h with rqSa := last.rqSa, rsSa := last.rsSa }, p) := by
  rw [encodeBridged_append]
  have hh' : ({ h with rqSa := last.rqSa, rsSa := last.rsSa } : Hdr).InRange := by
    obtain ⟨h1, h2, h3, h4, h5, h6, h7⟩ := hh
    exact ⟨hl.2, h2, h3, hl.1, h5, h6, h7⟩
  induction rs with
  | nil =>
    refine ⟨_, _, encodeIpmbMsg_frameOf _ p hh', rfl, parseReq_frameOf _ p hh'⟩
  | cons r rs ih =>
    obtain ⟨g, inner, hg, hpeel, hparse⟩ := ih (fun x hx => hrs x (List.mem_cons_of_mem _ hx))
    have hr := hrs r List.mem_cons_self
    refine ⟨frameOf (sendHdr r.rqSa r.rsSa seq) (channelByte r.channel 1 :: g), inner, ?_, ?_, hparse⟩
    · simp only [List.foldr_cons, hg, Outcome.bind_ok]
      exact encodeSendMessage_eq g _ _ _ _ hr.1 hr.2.1 hs
    · simp only [List.length_cons, peelN, List.map_cons]
      rw [peel_sendFrame g _ _ _ _ hr.1 hr.2.1 hs hr.2.2]
      simp [hpeel, hopOf]

theorem reroute_last (t : Target) (paths : List (List Route)) (path : List Route) :
    (t.reroute (paths ++ [path])).routing = some path := by
  simp [Target.reroute, List.foldl_append, Target.setRouting]

theorem reroute_peel_all (t : Target) (paths : List (List Route)) (rs : List Route) (last : Route) (h : Hdr)
    (p : List Nat) (seq : Nat) (hh : h.InRange) (hs : seq < 64) (hrs : ∀ r ∈ rs, r.InRange)
    (hl : last.rqSa < 256 ∧ last.rsSa < 256) :
    ∃ f inner, (t.reroute (paths ++ [rs ++ [last]])).request h p seq = .ok f ∧
      peelN rs.length f = some (rs.map (hopOf seq), inner) ∧
      parseReq inner = some ({ h with rqSa := last.rqSa, rsSa := last.rsSa }, p) := by
  have hreq : (t.reroute (paths ++ [rs ++ [last]])).request h p seq = encodeBridged (rs ++ [last]) h p seq := by
    simp only [Target.request, reroute_last]
    cases rs <;> rfl
  rw [hreq]
  exact peel_all rs last h p seq hh hs hrs hl

theorem direct_when_single_hop (last : Route) (h : Hdr) (p : List Nat) (seq : Nat) :
    encodeBridged [last] h p seq = encodeIpmbMsg { h with rqSa := last.rqSa, rsSa := last.rsSa } p := by
  simp [encodeBridged]

theorem bridged_is_bytes (rs : List Route) (last : Route) (h : Hdr) (p : List Nat) (seq : Nat)
    (hh : h.InRange) (hs : seq < 64) (hrs : ∀ r ∈ rs, r.InRange)
    (hl : last.rqSa < 256 ∧ last.rsSa < 256) (hp : Bytes p) (f : List Nat)
    (hf : encodeBridged (rs ++ [last]) h p seq = .ok f) : Bytes f ∧ f.length = p.length + 7 + 8 * rs.length := by
  rw [encodeBridged_append] at hf
  have hh' : ({ h with rqSa := last.rqSa, rsSa := last.rsSa } : Hdr).InRange := by
    obtain ⟨h1, h2, h3, h4, h5, h6, h7⟩ := hh
    exact ⟨hl.2, h2, h3, hl.1, h5, h6, h7⟩
  induction rs generalizing f with
  | nil =>
    simp only [List.foldr_nil, encodeIpmbMsg_frameOf _ p hh'] at hf
    injection hf with hf; subst hf
    exact ⟨frameOf_bytes _ p hh' hp, by simp [frameOf_length]⟩
  | cons r rs ih =>
    have hr := hrs r List.mem_cons_self
    simp only [List.foldr_cons] at hf
    cases hg : (rs.foldr (fun b acc => acc.bind fun tx => encodeSendMessage tx b.rqSa b.rsSa b.channel seq)
        (encodeIpmbMsg { h with rqSa := last.rqSa, rsSa := last.rsSa } p)) with
    | ok g =>
      obtain ⟨hb, hlen⟩ := ih (fun x hx => hrs x (List.mem_cons_of_mem _ hx)) g hg
      rw [hg, Outcome.bind_ok, encodeSendMessage_eq g _ _ _ _ hr.1 hr.2.1 hs] at hf
      injection hf with hf; subst hf
      refine ⟨frameOf_bytes _ _ (sendHdr_inRange hr.1 hr.2.1 hs) ?_, ?_⟩
      · apply Bytes.cons _ hb
        rw [channelByte_track _ hr.2.2]; have := hr.2.2; omega
      · simp [frameOf_length, hlen]; omega
    | _ => rw [hg] at hf; simp [Outcome.bind] at hf

/-! ### replies

`Variant.repaired` is the source with fixes/C09-1.diff (a Send Message response is recognised by netFn
App + 1 AND command 34h, both checksums verified when the transport asks; the transport unwraps only
the response to the Send Message it has outstanding); `Variant.asShipped` is the pinned source, which
looks at the command byte alone.  The property theorems are about the former, the counter-examples
about the latter. -/

/-- The working tree recognises a Send Message response by its network function as well as its
command, and verifies both checksums on request (read from the AST of `decode_bridged_message` /
`is_send_message_response` on every run). -/
theorem source_recognition : Gen.IpmbFilter.recogNetfn = true ∧ Gen.IpmbFilter.recogVerify = true := by
  decide

/-- ANY number of successful Send Message responses around a reply that is not itself a Send Message
response (netFn 07h AND command 34h) unwrap to exactly that reply — with or without verification. -/
theorem unwrap_wrap (verify : Bool) (layers : List Hdr) (reply : List Nat) (hl : ∀ h ∈ layers, h.rqLun < 4)
    (h6 : 6 ≤ reply.length) (hn : ¬ NamesSendMsgRsp reply) :
    decodeBridged .repaired verify (wrapReply layers reply) = .ok reply := by
  induction layers with
  | nil => exact decodeBridged_plain _ _ reply h6 (not_names_not_recognised verify reply hn)
  | cons h hs ih =>
    have hlen := wrapReply_length_ge hs reply
    have : ¬ (wrapReply hs reply).length < 6 := by omega
    have ih' := ih (fun x hx => hl x (List.mem_cons_of_mem _ hx))
    simp [wrapReply, decodeBridged_layer .repaired verify h 0 _ (fun _ => hl h List.mem_cons_self), this, ih']

/-- … in particular the reply of the specification's figure to EVERY inner command other than Send
Message itself — command 34h in any other network function included (HPM.1 Get Upgrade Status is
2Ch/34h). -/
theorem unwrap_wrap_any_command (verify : Bool) (layers : List Hdr) (req : Hdr) (body : List Nat)
    (hl : ∀ h ∈ layers, h.rqLun < 4) (hq : req.rqLun < 4)
    (hne : ¬ (req.netfn = netfnApp ∧ req.cmd = cmdSendMessage)) :
    decodeBridged .repaired verify (wrapReply layers (mkReply req body)) = .ok (mkReply req body) := by
  apply unwrap_wrap verify layers _ hl (by rw [mkReply_length]; omega)
  intro ⟨h1, h2⟩
  rw [rspNetfn_mkReply req body hq] at h1
  rw [rspCmd_mkReply] at h2
  exact hne ⟨by omega, h2⟩

/-- As shipped the same holds only for replies whose command BYTE is not 34h … -/
theorem unwrap_wrap_asShipped (verify : Bool) (layers : List Hdr) (reply : List Nat) (h6 : 6 ≤ reply.length)
    (hc : reply[5]? ≠ some 0x34) : decodeBridged .asShipped verify (wrapReply layers reply) = .ok reply := by
  have hnr : isSendMsgRsp .asShipped verify reply = false := by
    rw [Bool.eq_false_iff, Ne, isSendMsgRsp_asShipped_iff]
    exact rspCmd_of_getElem? reply hc
  induction layers with
  | nil => exact decodeBridged_plain _ _ reply h6 hnr
  | cons h hs ih =>
    have hlen := wrapReply_length_ge hs reply
    have : ¬ (wrapReply hs reply).length < 6 := by omega
    simp [wrapReply, decodeBridged_layer .asShipped verify h 0 _ (fun hv => by cases hv), this, ih]

def hpmReq : Hdr := { rsSa := 0x72, rsLun := 0, netfn := 0x2c, rqSa := 0x20, rqLun := 0, seq := 5, cmd := 0x34 }
def hpmLayer : Hdr := { rsSa := 0x20, rsLun := 0, netfn := 6, rqSa := 0x81, rqLun := 0, seq := 5, cmd := 0x34 }

/-- … and NOT for every inner command other than Send Message: the reply to HPM.1 Get Upgrade Status
(2Ch/34h, completion code 00h, data 00 33 00) behind one successful Send Message response is unwrapped
one layer too far (3 bytes come out instead of the 11-byte reply). -/
theorem unwrap_wrap_asShipped_counterexample :
    ¬ ∀ (layers : List Hdr) (req : Hdr) (body : List Nat), (∀ h ∈ layers, h.rqLun < 4) → req.rqLun < 4 →
      ¬ (req.netfn = netfnApp ∧ req.cmd = cmdSendMessage) →
      decodeBridged .asShipped false (wrapReply layers (mkReply req body)) = .ok (mkReply req body) := by
  intro H
  have := H [hpmLayer] hpmReq [0, 0, 0x33, 0] (by decide) (by decide) (by decide)
  revert this
  decide

theorem unwrap_error (v : Variant) (verify : Bool) (layers : List Hdr) (failing : Hdr) (c : Nat) (tail : List Nat)
    (hc : c ≠ 0) (hq : v = .repaired → (∀ h ∈ layers, h.rqLun < 4) ∧ failing.rqLun < 4) :
    decodeBridged v verify (wrapReply layers (wrapLayer failing c tail)) = .ccError c := by
  induction layers with
  | nil => simp [wrapReply, decodeBridged_layer v verify failing c tail (fun hv => (hq hv).2), hc]
  | cons h hs ih =>
    have hlen := wrapReply_length_ge hs (wrapLayer failing c tail)
    rw [wrapLayer_length] at hlen
    have : ¬ (wrapReply hs (wrapLayer failing c tail)).length < 6 := by omega
    have ih' := ih (fun hv => ⟨fun x hx => (hq hv).1 x (List.mem_cons_of_mem _ hx), (hq hv).2⟩)
    simp [wrapReply, decodeBridged_layer v verify h 0 _ (fun hv => (hq hv).1 h List.mem_cons_self), this, ih']

theorem bare_ack_empty (v : Variant) (verify : Bool) (layers : List Hdr) (acking : Hdr)
    (hq : v = .repaired → (∀ h ∈ layers, h.rqLun < 4) ∧ acking.rqLun < 4) :
    decodeBridged v verify (wrapReply layers (wrapLayer acking 0 [])) = .ok [] :=
  decodeBridged_ack v verify layers acking hq

/-- With verification a frame one of whose checksums fails is never unwrapped, whatever its header
says: it is handed back unchanged (and `rx_filter`, which checks the same two sums, rejects it). -/
theorem damaged_wrapper_not_unwrapped (f : List Nat) (h6 : 6 ≤ f.length) (hd : ¬ (hdrOk f ∧ payOk f)) :
    decodeBridged .repaired true f = .ok f :=
  decodeBridged_plain _ _ f h6 (damaged_not_recognised f hd)

/-- … so ANY single corrupted byte of a wrapped reply (any depth, any layer's header, completion code,
checksum, or the embedded bytes) keeps it from being unwrapped. -/
theorem corrupted_wrapper_not_unwrapped (h : Hdr) (cc : Nat) (inner : List Nat) (i b : Nat)
    (hf : Bytes (wrapLayer h cc inner)) (hi : i < (wrapLayer h cc inner).length) (hb : b < 256)
    (hne : b ≠ (wrapLayer h cc inner)[i]) :
    decodeBridged .repaired true ((wrapLayer h cc inner).set i b) = .ok ((wrapLayer h cc inner).set i b) := by
  apply damaged_wrapper_not_unwrapped
  · rw [List.length_set, wrapLayer_length]; omega
  · exact corrupt_breaks_sums _ i b hf hi hb hne (wrapLayer_hdrOk _ _ _) (wrapLayer_payOk _ _ _)

/-! ### the transport -/

/-- acknowledgements of THIS transaction alone never produce a result -/
theorem bare_ack_not_returned (seq : Nat) (req : Hdr) (fl : Flags) (acks : List (List Nat))
    (ha : ∀ a ∈ acks, AckOf seq a) : recvBridged .repaired (some (bridgeHdr seq)) req fl acks = none := by
  induction acks with
  | nil => rfl
  | cons a as ih =>
    rw [recv_skip_ack seq req fl a as (ha a List.mem_cons_self)]
    exact ih (fun x hx => ha x (List.mem_cons_of_mem _ hx))

/-- after ANY number of bare acknowledgements the matching reply — wrapped in the Send Message
responses of this transaction or plain, ANY command that is not Send Message itself (34h in other
network functions included) — is returned, completion code and data exactly. -/
theorem bare_ack_waits (seq : Nat) (req : Hdr) (fl : Flags) (acks : List (List Nat)) (layers : List Hdr)
    (reply : List Nat) (rest : List (List Nat)) (hn : req.netfn % 2 = 0)
    (ha : ∀ a ∈ acks, AckOf seq a) (hl : ∀ h ∈ layers, SendMsgOf seq h)
    (hr : isReplyTo req reply fl) (hc : ¬ NamesSendMsgRsp reply) :
    recvBridged .repaired (some (bridgeHdr seq)) req fl (acks ++ wrapReply layers reply :: rest) =
      some (.ok (replyData reply)) := by
  induction acks with
  | cons a as ih =>
    rw [List.cons_append, recv_skip_ack seq req fl a _ (ha a List.mem_cons_self)]
    exact ih (fun x hx => ha x (List.mem_cons_of_mem _ hx))
  | nil =>
    have h6 : 6 ≤ reply.length := hr.1
    have hne : reply ≠ [] := by intro h; rw [h] at h6; simp at h6
    rw [List.nil_append, recvBridged]
    cases layers with
    | nil =>
      have hnb : ¬ isReplyTo (bridgeHdr seq) reply { rqSeq := fl.rqSeq } := by
        intro h
        exact hc ⟨h.2.2.2.1, h.2.2.2.2.1⟩
      simp only [wrapReply, classifyRx, rxFilter_false _ _ _ (bridgeHdr_even seq) h6 hnb,
        afterFilter_hit req fl reply hn hr]
    | cons h hs =>
      have hun := unwrap_wrap true (h :: hs) reply (fun x hx => (hl x hx).2.1) h6 hc
      simp only [wrapReply] at hun ⊢
      simp only [classifyRx, bridge_filter_layer seq fl h 0 _ (hl h List.mem_cons_self), hun]
      cases reply with
      | nil => exact absurd rfl hne
      | cons x xs => simp only [afterUnwrap, afterFilter_hit req fl _ hn hr]

/-- a request that is NOT bridged never unwraps anything: every intact reply to it is returned,
whatever its command — 34h included (`Hpm.get_upgrade_status()` over RMCP). -/
theorem unbridged_reply_returned (req : Hdr) (fl : Flags) (reply : List Nat) (hn : req.netfn % 2 = 0)
    (hr : isReplyTo req reply fl) : classifyRx .repaired none req fl reply = .hit (replyData reply) :=
  afterFilter_hit req fl reply hn hr

/-- As shipped it is not: the intact reply to an unbridged HPM.1 Get Upgrade Status request is taken
for a Send Message response and an IndexError leaves the transport. -/
theorem unbridged_reply_asShipped_counterexample :
    ¬ ∀ (req : Hdr) (fl : Flags) (reply : List Nat), req.netfn % 2 = 0 → isReplyTo req reply fl →
      classifyRx .asShipped none req fl reply = .hit (replyData reply) := by
  intro H
  have := H hpmReq {} (mkReply hpmReq [0, 0, 0x33, 0]) (by decide) (by decide)
  revert this
  decide

/-- A frame that is not the response to the Send Message of the transaction in hand is never
unwrapped, so no completion code of a foreign or late acknowledgement is ever raised: an unbridged
request raises no CompletionCodeError from the transport at all … -/
theorem unbridged_never_raises_cc (req : Hdr) (fl : Flags) (f : List Nat) (c : Nat) :
    classifyRx .repaired none req fl f ≠ .err (.ccError c) :=
  afterFilter_no_cc req fl f c

/-- … and during a bridged request the (failing or successful) Send Message response of an EARLIER
transaction — other sequence number — is an unrelated frame like any other. -/
theorem late_ack_is_noise (seq : Nat) (req : Hdr) (fl : Flags) (h : Hdr) (cc : Nat) (inner : List Nat)
    (hn : req.netfn % 2 = 0) (hfl : fl.rqSeq = true) (hlun : h.rsLun < 4) (hne : h.seq ≠ seq)
    (hreq : ¬ isReplyTo req (wrapLayer h cc inner) fl) :
    classifyRx .repaired (some (bridgeHdr seq)) req fl (wrapLayer h cc inner) = .noise := by
  simp only [classifyRx, bridge_filter_foreign seq fl h cc inner hfl hlun hne]
  exact afterFilter_noise req fl _ hn (by rw [wrapLayer_length]; omega) hreq

/-- As shipped the error code of a late acknowledgement is raised for whatever request is
outstanding (here: an unbridged Get Device ID, sequence number 2, while the acknowledgement of an
earlier transaction, sequence number 1, arrives with completion code 83h). -/
theorem late_ack_asShipped_counterexample :
    classifyRx .asShipped none { hpmReq with netfn := 6, cmd := 1, seq := 2 } {}
      (wrapLayer { hpmLayer with seq := 1 } 0x83 []) = .err (.ccError 0x83) := by decide

/-! ### non-vacuity -/

def demoHdr : Hdr := { rsSa := 0, rsLun := 0, netfn := 6, rqSa := 0, rqLun := 0, seq := 0x11, cmd := 0xaa }
def demoRouting : List Route := [⟨0x81, 0x20, 7⟩, ⟨0x20, 0x72, 0⟩]

/-- the literal pinned by tests/interfaces/test_ipmb.py::test_encode_bridged_message -/
example : encodeBridged demoRouting demoHdr [0xaa, 0xbb] 0x22 =
    .ok [0x20, 0x18, 0xc8, 0x81, 0x88, 0x34, 0x47, 0x72, 0x18, 0x76, 0x20, 0x44, 0xaa, 0xaa, 0xbb, 0x8d, 0x7c] := by
  decide
/-- depth 3 (the µTCA example of `Target.set_routing`): channel bytes 0x40, 0x47 -/
example : (do
    let f ← encodeBridged [⟨0x81, 0x20, 0⟩, ⟨0x20, 0x82, 7⟩, ⟨0x20, 0x72, 0⟩] demoHdr [1] 5
    pure (peelN 2 f)) =
    .ok (some ([⟨0x20, 0x81, 0, 1, 5⟩, ⟨0x82, 0x20, 7, 1, 5⟩],
      [0x72, 0x18, 0x76, 0x20, 0x44, 0xaa, 0x01, 0xf1])) := by decide
/-- 3 hops, then re-routed to 2 hops on the same Target: the request is the 2-hop literal above -/
example : (({} : Target).reroute [[⟨0x81, 0x20, 0⟩, ⟨0x20, 0x82, 7⟩, ⟨0x20, 0x72, 0⟩], demoRouting]).request
      demoHdr [0xaa, 0xbb] 0x22 = encodeBridged demoRouting demoHdr [0xaa, 0xbb] 0x22 := by decide
example : decodeBridged .repaired true (wrapReply [demoHdr, demoHdr] (mkReply demoHdr [0, 1, 2])) = .ok (mkReply demoHdr [0, 1, 2]) :=
  unwrap_wrap _ _ _ (by decide) (by decide) (by decide)
/-- HPM.1 Get Upgrade Status (2Ch/34h) behind two bridges -/
example : decodeBridged .repaired true (wrapReply [hpmLayer, hpmLayer] (mkReply hpmReq [0, 0, 0x33, 0])) =
    .ok (mkReply hpmReq [0, 0, 0x33, 0]) :=
  unwrap_wrap_any_command _ _ _ _ (by decide) (by decide) (by decide)
/-- the literal of tests/interfaces/test_ipmb.py::test_decode_bridged_message (wrapper checksums 6a, 36 are wrong):
unwrapped without verification, left alone with it -/
example : decodeBridged .repaired false [0x81, 0x1c, 0x63, 0x20, 0x14, 0x34, 0x00, 0x20, 0x1c, 0xc4, 0x82, 0x14, 0x34, 0x00,
    0x20, 0x14, 0xcc, 0x74, 0x14, 0x22, 0x00, 0xed, 0xff, 0x6a, 0x36] = .ok [0x20, 0x14, 0xcc, 0x74, 0x14, 0x22, 0x00, 0xed, 0xff] := by
  decide
example : decodeBridged .repaired true (wrapReply [demoHdr] (wrapLayer demoHdr 0xc3 [])) = .ccError 0xc3 :=
  unwrap_error _ _ _ _ _ _ (by decide) (by decide)
example : AckOf 5 (wrapLayer hpmLayer 0 []) := ⟨[], hpmLayer, by simp, by decide, rfl⟩
example : recvBridged .repaired (some (bridgeHdr 5)) hpmReq {}
    [wrapLayer hpmLayer 0 [], wrapReply [hpmLayer] (mkReply hpmReq [0, 9])] = some (.ok [0, 9]) :=
  bare_ack_waits 5 hpmReq {} [wrapLayer hpmLayer 0 []] [hpmLayer] (mkReply hpmReq [0, 9]) [] (by decide)
    (by intro a ha; simp at ha; exact ⟨[], hpmLayer, by simp, by decide, ha⟩)
    (by intro h hh; simp at hh; subst hh; decide) (by decide) (by decide)
/-- a corrupted completion-code byte of a wrapper (00h -> 83h): dropped, not raised -/
example : classifyRx .repaired (some (bridgeHdr 5)) hpmReq {}
    ((wrapReply [hpmLayer] (mkReply hpmReq [0, 9])).set 6 0x83) = .noise := by decide

end PyIpmi.Props.C09
