/-
  C09 — Bridged requests traverse every hop; replies unwrap to the target's reply.

  Model : `PyIpmi.Bridge.encodeBridged`, `encodeSendMessage`, `decodeBridged`, `recvBridged`
          (on top of the C03 framing model, Send Message ids / channel bits from Gen/IpmbFilter).
  Spec  : `PyIpmi.Spec.Bridges.peel / peelN` (a chain of bridges that verify both checksums and
          the Send Message header before forwarding), `wrapLayer / wrapReply` (Send Message
          responses around the target's reply), `Spec.Wire.parseReq / isReplyTo`.

  * `send_message_layer` — one `encode_send_message` is peeled by one bridge to exactly
                           (bridge, source, channel, tracking = 1, seq) and the embedded bytes
  * `peel_all`           — ANY routing depth (induction on the routing list): the chain of
                           `routing.length - 1` bridges accepts every layer (valid checksums,
                           netFn App, cmd Send Message), sees hop i = routing[i] (rs_sa, rq_sa,
                           channel, tracking on), and what reaches the target parses to the
                           original request sent from the LAST hop's rq_sa to its rs_sa with
                           the payload unchanged
  * `reroute_last`       — ONE Target object re-routed any number of times (`set_routing` history,
                           longer / equal / SHORTER paths): the stored path is exactly the last one
  * `reroute_peel_all`   — … and the request sent after ANY such history traverses exactly the hops
                           of the path configured last (`peel_all` for that path): nothing of an
                           earlier path is on the wire
  * `direct_when_single_hop` — a one-entry routing sends the plain request (no Send Message)
  * `bridged_is_bytes`   — the transmitted nest is a byte string
  * `unwrap_wrap`        — ANY number of successful Send Message responses around a reply whose
                           command is not Send Message unwrap to exactly that reply
  * `unwrap_error`       — first failing layer (completion code c ≠ 0, whatever follows it):
                           CompletionCodeError c
  * `bare_ack_empty`     — an acknowledgement without forwarded reply (at any nesting depth)
                           unwraps to the empty string …
  * `bare_ack_waits`     — … and the transport loop then skips it: after ANY number of bare
                           acknowledgements the (wrapped or plain) matching reply is returned,
                           completion code and data exactly; nothing in the loop model counts them
  * `bare_ack_not_returned` — acknowledgements alone never produce a result
-/
import PyIpmi.Lemmas.IpmbBridge
namespace PyIpmi.Props.C09
open PyIpmi PyIpmi.Ipmb PyIpmi.Bridge PyIpmi.Spec.Wire PyIpmi.Spec.Bridges

/-- what bridge number i must see for routing entry `r` -/
def hopOf (seq : Nat) (r : Route) : Hop :=
  { bridge := r.rsSa, src := r.rqSa, channel := r.channel, tracking := 1, seq := seq }

theorem send_message_layer (p : List Nat) (r : Route) (seq : Nat) (hr : r.InRange) (hs : seq < 64) :
    ∃ f, encodeSendMessage p r.rqSa r.rsSa r.channel seq = .ok f ∧ peel f = some (hopOf seq r, p) :=
  ⟨_, encodeSendMessage_eq p _ _ _ _ hr.1 hr.2.1 hs, peel_sendFrame p _ _ _ _ hr.1 hr.2.1 hs hr.2.2⟩

theorem peel_all (rs : List Route) (last : Route) (h : Hdr) (p : List Nat) (seq : Nat)
    (hh : h.InRange) (hs : seq < 64) (hrs : ∀ r ∈ rs, r.InRange)
    (hl : last.rqSa < 256 ∧ last.rsSa < 256) :
    ∃ f inner, encodeBridged (rs ++ [last]) h p seq = .ok f ∧
      peelN rs.length f = some (rs.map (hopOf seq), inner) ∧
      parseReq inner = some ({ h with rqSa := last.rqSa, rsSa := last.rsSa }, p) := by
  rw [encodeBridged_append]
  have hh' : ({ h with rqSa := last.rqSa, rsSa := last.rsSa } : Hdr).InRange := by
    obtain ⟨h1, h2, h3, h4, h5, h6, h7⟩ := hh
    exact ⟨hl.2, h2, h3, hl.1, h5, h6, h7⟩
  induction rs with
  | nil =>
    refine ⟨_, _, encodeIpmbMsg_frameOf _ p hh', rfl, parseReq_frameOf _ p hh'⟩
  | cons r rs ih =>
    obtain ⟨g, inner, hg, hpeel, hparse⟩ := ih (fun x hx => hrs x (List.mem_cons_of_mem _ hx))
    have hr := hrs r List.mem_cons_self
    refine ⟨frameOf (sendHdr r.rqSa r.rsSa seq) (channelByte r.channel 1 :: g), inner, ?_, ?_, hparse⟩
    · simp only [List.foldr_cons, hg, Outcome.bind_ok]
      exact encodeSendMessage_eq g _ _ _ _ hr.1 hr.2.1 hs
    · simp only [List.length_cons, peelN, List.map_cons]
      rw [peel_sendFrame g _ _ _ _ hr.1 hr.2.1 hs hr.2.2]
      simp [hpeel, hopOf]

theorem reroute_last (t : Target) (paths : List (List Route)) (path : List Route) :
    (t.reroute (paths ++ [path])).routing = some path := by
  simp [Target.reroute, List.foldl_append, Target.setRouting]

theorem reroute_peel_all (t : Target) (paths : List (List Route)) (rs : List Route) (last : Route) (h : Hdr)
    (p : List Nat) (seq : Nat) (hh : h.InRange) (hs : seq < 64) (hrs : ∀ r ∈ rs, r.InRange)
    (hl : last.rqSa < 256 ∧ last.rsSa < 256) :
    ∃ f inner, (t.reroute (paths ++ [rs ++ [last]])).request h p seq = .ok f ∧
      peelN rs.length f = some (rs.map (hopOf seq), inner) ∧
      parseReq inner = some ({ h with rqSa := last.rqSa, rsSa := last.rsSa }, p) := by
  have hreq : (t.reroute (paths ++ [rs ++ [last]])).request h p seq = encodeBridged (rs ++ [last]) h p seq := by
    simp only [Target.request, reroute_last]
    cases rs <;> rfl
  rw [hreq]
  exact peel_all rs last h p seq hh hs hrs hl

theorem direct_when_single_hop (last : Route) (h : Hdr) (p : List Nat) (seq : Nat) :
    encodeBridged [last] h p seq = encodeIpmbMsg { h with rqSa := last.rqSa, rsSa := last.rsSa } p := by
  simp [encodeBridged]

theorem bridged_is_bytes (rs : List Route) (last : Route) (h : Hdr) (p : List Nat) (seq : Nat)
    (hh : h.InRange) (hs : seq < 64) (hrs : ∀ r ∈ rs, r.InRange)
    (hl : last.rqSa < 256 ∧ last.rsSa < 256) (hp : Bytes p) (f : List Nat)
    (hf : encodeBridged (rs ++ [last]) h p seq = .ok f) : Bytes f ∧ f.length = p.length + 7 + 8 * rs.length := by
  rw [encodeBridged_append] at hf
  have hh' : ({ h with rqSa := last.rqSa, rsSa := last.rsSa } : Hdr).InRange := by
    obtain ⟨h1, h2, h3, h4, h5, h6, h7⟩ := hh
    exact ⟨hl.2, h2, h3, hl.1, h5, h6, h7⟩
  induction rs generalizing f with
  | nil =>
    simp only [List.foldr_nil, encodeIpmbMsg_frameOf _ p hh'] at hf
    injection hf with hf; subst hf
    exact ⟨frameOf_bytes _ p hh' hp, by simp [frameOf_length]⟩
  | cons r rs ih =>
    have hr := hrs r List.mem_cons_self
    simp only [List.foldr_cons] at hf
    cases hg : (rs.foldr (fun b acc => acc.bind fun tx => encodeSendMessage tx b.rqSa b.rsSa b.channel seq)
        (encodeIpmbMsg { h with rqSa := last.rqSa, rsSa := last.rsSa } p)) with
    | ok g =>
      obtain ⟨hb, hlen⟩ := ih (fun x hx => hrs x (List.mem_cons_of_mem _ hx)) g hg
      rw [hg, Outcome.bind_ok, encodeSendMessage_eq g _ _ _ _ hr.1 hr.2.1 hs] at hf
      injection hf with hf; subst hf
      refine ⟨frameOf_bytes _ _ (sendHdr_inRange hr.1 hr.2.1 hs) ?_, ?_⟩
      · apply Bytes.cons _ hb
        rw [channelByte_track _ hr.2.2]; have := hr.2.2; omega
      · simp [frameOf_length, hlen]; omega
    | _ => rw [hg] at hf; simp [Outcome.bind] at hf

/-! ### replies -/

theorem unwrap_wrap (layers : List Hdr) (reply : List Nat) (h6 : 6 ≤ reply.length)
    (hc : reply[5]? ≠ some 0x34) : decodeBridged (wrapReply layers reply) = .ok reply := by
  induction layers with
  | nil => exact decodeBridged_plain reply h6 hc
  | cons h hs ih =>
    have hlen := wrapReply_length_ge hs reply
    have : ¬ (wrapReply hs reply).length < 6 := by omega
    simp [wrapReply, decodeBridged_layer, this, ih]

theorem unwrap_error (layers : List Hdr) (failing : Hdr) (c : Nat) (tail : List Nat) (hc : c ≠ 0) :
    decodeBridged (wrapReply layers (wrapLayer failing c tail)) = .ccError c := by
  induction layers with
  | nil => simp [wrapReply, decodeBridged_layer, hc]
  | cons h hs ih =>
    have hlen := wrapReply_length_ge hs (wrapLayer failing c tail)
    rw [wrapLayer_length] at hlen
    have : ¬ (wrapReply hs (wrapLayer failing c tail)).length < 6 := by omega
    simp [wrapReply, decodeBridged_layer, this, ih]

theorem bare_ack_empty (layers : List Hdr) (acking : Hdr) :
    decodeBridged (wrapReply layers (wrapLayer acking 0 [])) = .ok [] :=
  decodeBridged_ack layers acking

theorem bare_ack_not_returned (req : Hdr) (fl : Flags) (acks : List (List Nat))
    (ha : ∀ a ∈ acks, IsBareAck a) : recvBridged req fl acks = none := by
  induction acks with
  | nil => rfl
  | cons a as ih =>
    rw [recv_skip_ack req fl a as (ha a List.mem_cons_self)]
    exact ih (fun x hx => ha x (List.mem_cons_of_mem _ hx))

theorem bare_ack_waits (req : Hdr) (fl : Flags) (acks : List (List Nat)) (layers : List Hdr)
    (reply : List Nat) (rest : List (List Nat)) (hn : req.netfn % 2 = 0)
    (ha : ∀ a ∈ acks, IsBareAck a) (hr : isReplyTo req reply fl) (hc : reply[5]? ≠ some 0x34) :
    recvBridged req fl (acks ++ wrapReply layers reply :: rest) = some (.ok (replyData reply)) := by
  induction acks with
  | cons a as ih =>
    rw [List.cons_append, recv_skip_ack req fl a _ (ha a List.mem_cons_self)]
    exact ih (fun x hx => ha x (List.mem_cons_of_mem _ hx))
  | nil =>
    have h6 : 6 ≤ reply.length := hr.1
    have hflt : rxFilter req reply fl = .ok true := (rxFilter_true_iff req reply fl hn).mpr hr
    have hne : reply ≠ [] := by intro h; rw [h] at h6; simp at h6
    rw [List.nil_append]
    cases layers with
    | nil =>
      simp only [wrapReply]
      have hl : 5 < reply.length := by omega
      have hne5 : reply[5] ≠ 52 := by
        intro h; apply hc; rw [← h]; exact List.getElem?_eq_getElem hl
      rw [recvBridged]
      simp only [hl, dite_true, Gen.IpmbFilter.constSendMsgCmd, hne5, if_false]
      cases reply with
      | nil => exact absurd rfl hne
      | cons b bs => simp [hflt, replyData, frameData]
    | cons h hs =>
      have hlen := wrapReply_length_ge (h :: hs) reply
      have hl : 5 < (wrapReply (h :: hs) reply).length := by omega
      have h5 : (wrapReply (h :: hs) reply)[5] = 52 := by simp only [wrapReply]; exact wrapLayer_cmd _ _ _
      rw [recvBridged]
      simp only [hl, dite_true, h5, Gen.IpmbFilter.constSendMsgCmd, if_true, unwrap_wrap (h :: hs) reply h6 hc]
      cases reply with
      | nil => exact absurd rfl hne
      | cons b bs => simp [hflt, replyData, frameData]

/-! ### non-vacuity -/

def demoHdr : Hdr := { rsSa := 0, rsLun := 0, netfn := 6, rqSa := 0, rqLun := 0, seq := 0x11, cmd := 0xaa }
def demoRouting : List Route := [⟨0x81, 0x20, 7⟩, ⟨0x20, 0x72, 0⟩]

/-- the literal pinned by tests/interfaces/test_ipmb.py::test_encode_bridged_message -/
example : encodeBridged demoRouting demoHdr [0xaa, 0xbb] 0x22 =
    .ok [0x20, 0x18, 0xc8, 0x81, 0x88, 0x34, 0x47, 0x72, 0x18, 0x76, 0x20, 0x44, 0xaa, 0xaa, 0xbb, 0x8d, 0x7c] := by
  decide
/-- depth 3 (the µTCA example of `Target.set_routing`): channel bytes 0x40, 0x47 -/
example : (do
    let f ← encodeBridged [⟨0x81, 0x20, 0⟩, ⟨0x20, 0x82, 7⟩, ⟨0x20, 0x72, 0⟩] demoHdr [1] 5
    pure (peelN 2 f)) =
    .ok (some ([⟨0x20, 0x81, 0, 1, 5⟩, ⟨0x82, 0x20, 7, 1, 5⟩],
      [0x72, 0x18, 0x76, 0x20, 0x44, 0xaa, 0x01, 0xf1])) := by decide
/-- 3 hops, then re-routed to 2 hops on the same Target: the request is the 2-hop literal above -/
example : (({} : Target).reroute [[⟨0x81, 0x20, 0⟩, ⟨0x20, 0x82, 7⟩, ⟨0x20, 0x72, 0⟩], demoRouting]).request
      demoHdr [0xaa, 0xbb] 0x22 = encodeBridged demoRouting demoHdr [0xaa, 0xbb] 0x22 := by decide
example : decodeBridged (wrapReply [demoHdr, demoHdr] (mkReply demoHdr [0, 1, 2])) = .ok (mkReply demoHdr [0, 1, 2]) :=
  unwrap_wrap _ _ (by decide) (by decide)
example : decodeBridged (wrapReply [demoHdr] (wrapLayer demoHdr 0xc3 [])) = .ccError 0xc3 :=
  unwrap_error _ _ _ _ (by decide)
example : IsBareAck (wrapLayer demoHdr 0 []) := ⟨[], demoHdr, rfl⟩
example : recvBridged demoHdr {} [wrapLayer demoHdr 0 [], wrapReply [demoHdr] (mkReply demoHdr [0, 9])] =
    some (.ok [0, 9]) :=
  bare_ack_waits demoHdr {} [wrapLayer demoHdr 0 []] [demoHdr] (mkReply demoHdr [0, 9]) [] (by decide)
    (by intro a ha; simp at ha; exact ⟨[], demoHdr, ha⟩) (by decide) (by decide)

end PyIpmi.Props.C09
