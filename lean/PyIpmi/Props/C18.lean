/-
  C18 — HPM.1 images parse faithfully; firmware uploads completely and in order.

  Model  : PyIpmi.Hpm (Model/Hpm.lean) mirrors pyipmi/hpm.py, fields.VersionField, utils.chunks;
           its offsets, byte orders, block size, counter mask and completion codes are the
           generated `PyIpmi.Gen.Hpm` (re-extracted from the source on every run).
  Spec   : Spec/HpmFormat.lean (independent HPM.1 image encoder and the view a faithful parser
           must report), Spec/HpmDevice.lean (reference device + predicates over its record).

  PARSE (the MD5 is any function `digest` producing 16 bytes)
  * `parse_encode`            — intended parser ∘ encoder = view, for EVERY well-formed image:
                                any number of records of every type, any firmware length < 2^32,
                                0..65535 OEM bytes (the OEM data field is reported for length 0 as
                                well, as the empty byte string), any description bytes.
  * `parse_encode_as_shipped` — the parser as shipped in the pinned tree is right on the images
                                that have no OEM data and no backslash in a description - but for
                                the OEM data field itself, which the result then does not have …
  * `shipped_oem_missing_counterexample`, `shipped_oem_missing_witness`
                              — … (`if self.oem_data_length: self.oem_data = …`): EVERY well-formed
                                image without OEM data is reported without the field, also after
                                the two repairs below, concretely `witnessDesc`;
  * `shipped_oem_counterexample`, `shipped_oem_witness`
                              — and wrong on EVERY well-formed image that has OEM data
                                (`oem_data = data[34:-1]`), concretely on `witnessOem`;
  * `shipped_description_witness`, `intended_description_witness`
                              — and fails with UnicodeDecodeError on the well-formed `witnessDesc`
                                (description `fw\update 1.0`), which the intended parser reads.
  UPLOAD (any virtual-clock timing `timeout > 0`, `interval`, per-request latency, retry budget;
  a block the device accepts with 80h is followed by `k` status answers 80h and then by the final
  code `f` of the long duration command; poll number k is made k·(lat+interval) ticks after the
  block's answer, so the final code is seen in time iff k·(lat+interval) < timeout)
  * `chunks_spec`             — chunks concatenate to the data, each 1..n bytes long
  * `upload_exact`            — for every binary and EVERY plan answering each block with OK or
                                "in progress" ending with 00h in time: upload returns, the recorded
                                blocks concatenate to the binary, block i is numbered i mod 256 and
                                is 1..L bytes long, the request right after a block answered 80h
                                is a status poll, and the next block follows only after the poll
                                that reported the final 00h
  * `upload_aborts`           — first block answered with another code c at index j: HpmError,
                                exactly blocks 0..j were sent (a correctly numbered prefix of the
                                binary) and nothing after the rejected block
  * `upload_aborts_long_failure` — block j accepted with 80h, the status then reports a final code
                                other than 00h: HpmError, blocks 0..j sent, after block j only its
                                k+1 status polls
  * `upload_aborts_long_timeout` — block j accepted with 80h and still 80h when the time-out
                                expires: HpmError, blocks 0..j sent, after block j only status
                                polls (at least one, at most k: the final code was never seen)
  * `shipped_upload_ignores_status`, `shipped_upload_witness`
                              — the loop as shipped returns normally and sends every block
                                WHATEVER the status polls report (final code FFh, time-out):
                                concretely 50 bytes, block 1 → 80h → status FFh, block 2 is sent and
                                the upload "succeeds"; the intended loop ends with HpmError there
  * `upload_configured`       — the generated block size is positive and fits the device limit 22;
                                `upload_exact_configured` instantiates `upload_exact` with it
-/
import PyIpmi.Lemmas.HpmParse
import PyIpmi.Lemmas.HpmUpload
namespace PyIpmi.Props.C18
open PyIpmi PyIpmi.Hpm
open PyIpmi.Spec.HpmFormat PyIpmi.Spec.HpmDevice

/-! ## Parsing -/

/-- `parseImage (encodeImage img) = ok (view img)`: header fields, component list, and in
order every action record with its type, component mask, version, declared length and exactly
its firmware bytes. -/
theorem parse_encode (digest : List Nat → List Nat) (hdig : ∀ x, (digest x).length = 16)
    (img : Image) (hwf : img.wf) :
    parseImage .intended (encodeImage digest img) = .ok (img.view digest) := by
  rw [parseImage_encode .intended digest img hwf
    (fun r _ => by cases r <;> simp [descPlain, Variant.intended]) hdig]
  by_cases hz : img.header.oem.length = 0
  · have : img.header.oem = [] := List.length_eq_zero_iff.mp hz
    simp [Variant.intended, Image.view, Header.view, this]
  · simp [hz, Variant.intended, Image.view, Header.view]

/-- no OEM data in the header and no backslash in any firmware description -/
def plainImage (img : Image) : Prop :=
  img.header.oem = [] ∧ ∀ r ∈ img.records, descPlain .asShipped r

/-- the view without the OEM data field -/
def withoutOemField (v : ImageView) : ImageView := { v with header := { v.header with oemPresent := false } }

theorem parse_encode_as_shipped (digest : List Nat → List Nat) (hdig : ∀ x, (digest x).length = 16)
    (img : Image) (hwf : img.wf) (hp : plainImage img) :
    parseImage .asShipped (encodeImage digest img) = .ok (withoutOemField (img.view digest)) := by
  rw [parseImage_encode .asShipped digest img hwf hp.2 hdig]
  simp [hp.1, Image.view, Header.view, withoutOemField, Variant.asShipped]

/-- With `if self.oem_data_length: self.oem_data = …` (everything else as intended) EVERY
well-formed image WITHOUT OEM data is reported without the OEM data field. -/
theorem shipped_oem_missing_counterexample (digest : List Nat → List Nat) (hdig : ∀ x, (digest x).length = 16)
    (img : Image) (hwf : img.wf) (hoem : img.header.oem = []) :
    parseImage ⟨false, false, true⟩ (encodeImage digest img) = .ok (withoutOemField (img.view digest)) ∧
    parseImage ⟨false, false, true⟩ (encodeImage digest img) ≠ .ok (img.view digest) := by
  rw [parseImage_encode ⟨false, false, true⟩ digest img hwf
    (fun r _ => by cases r <;> simp [descPlain]) hdig]
  refine ⟨by simp [hoem, Image.view, Header.view, withoutOemField], ?_⟩
  intro h
  injection h with h
  have h2 := congrArg (fun v => v.header.oemPresent) h
  simp [hoem, Image.view, Header.view] at h2

/-- With `oem_data = data[34:-1]` (and the description handled correctly) EVERY well-formed
image that carries OEM data is reported wrongly. -/
theorem shipped_oem_counterexample (digest : List Nat → List Nat) (hdig : ∀ x, (digest x).length = 16)
    (img : Image) (hwf : img.wf) (hoem : img.header.oem ≠ []) :
    parseImage ⟨true, false, false⟩ (encodeImage digest img) ≠ .ok (img.view digest) := by
  rw [parseImage_encode ⟨true, false, false⟩ digest img hwf
    (fun r _ => by cases r <;> simp [descPlain]) hdig]
  have hz : img.header.oem.length ≠ 0 := fun h => hoem (List.length_eq_zero_iff.mp h)
  intro h
  injection h with h
  have h2 := congrArg (fun v => v.header.oem.length) h
  simp [hz, Image.view, Header.view, encodeImage, imageBody, encodeHeader_length, hdig] at h2
  omega

def zeroDigest : List Nat → List Nat := fun _ => List.replicate 16 0

/-- two OEM bytes, one prepare record -/
def witnessOem : Image :=
  { header := { formatVersion := 0, deviceId := 1, manufacturerId := 15000, productId := 2, time := 3,
                capabilities := 0, componentsMask := 1, selftestTimeout := 0, rollbackTimeout := 0,
                inaccessibilityTimeout := 0, earliest := ⟨1, 0, 0, 0, 0, 0⟩,
                firmwareRevision := ⟨1, 1, 0, 0, 0, 0⟩, oem := [0xAA, 0xBB] },
    records := [.simple 1 1] }

theorem shipped_oem_witness :
    (match parseImage .asShipped (encodeImage zeroDigest witnessOem) with
     | .ok v => v.header.oem
     | _ => []) =
      [0xAA, 0xBB, 0x5B, 1, 1, 0xFE, 0, 0, 0, 0, 0, 0, 0, 0, 0, 0, 0, 0, 0, 0, 0] ∧
    (witnessOem.view zeroDigest).header.oem = [0xAA, 0xBB] := by decide +kernel

/-- description `fw\update 1.0` padded with NUL: a malformed `\u` escape for `raw_unicode_escape` -/
def witnessDesc : Image :=
  { header := { witnessOem.header with oem := [] },
    records := [.upload 1 ⟨1, 23, 0, 0, 0, 1⟩
      [0x66, 0x77, 0x5C, 0x75, 0x70, 0x64, 0x61, 0x74, 0x65, 0x20, 0x31, 0x2E, 0x30, 0, 0, 0, 0, 0, 0, 0, 0]
      [0x11, 0x22, 0x33, 0x44]] }

theorem shipped_description_witness :
    parseImage .asShipped (encodeImage zeroDigest witnessDesc) = .pyError "UnicodeDecodeError" := by
  decide +kernel

theorem intended_description_witness :
    parseImage .intended (encodeImage zeroDigest witnessDesc) = .ok (witnessDesc.view zeroDigest) := by
  decide +kernel

/-- `witnessDesc` has no OEM data: the tree with the two earlier repairs reads everything but
has no OEM data field; the specification's view has it (empty). -/
theorem shipped_oem_missing_witness :
    parseImage ⟨false, false, true⟩ (encodeImage zeroDigest witnessDesc) =
      .ok (withoutOemField (witnessDesc.view zeroDigest)) ∧
    (witnessDesc.view zeroDigest).header.oemPresent = true ∧
    (witnessDesc.view zeroDigest).header.oem = [] := by decide +kernel

/-! ## Uploading -/

theorem chunks_spec (n : Nat) (hn : 0 < n) (l : List Nat) :
    (chunks n l).flatten = l ∧ ∀ c ∈ chunks n l, 0 < c.length ∧ c.length ≤ n :=
  ⟨chunks_flatten n hn l, chunks_sizes n hn l⟩

/-- every block is answered OK, or "in progress" with `k` further in-progress status answers
and the final code 00h, seen by a poll the time-out still allows -/
def GoesOn (timeout interval lat : Nat) (r : Reply) : Prop :=
  r = .ok ∨ ∃ k, r = .inProgress k 0 ∧ k * (lat + interval) < timeout

theorem goesOn_inTime {timeout interval lat : Nat} {r : Reply} (h : GoesOn timeout interval lat r) :
    inTime timeout interval lat r := by
  rcases h with h | ⟨k, h, hk⟩
  · simp [h, inTime]
  · simp [h, inTime, hk]

theorem upload_exact (bs L timeout interval lat : Nat) (retry : Int) (binary : List Nat)
    (plan : Nat → Reply) (hbs : 0 < bs) (hL : bs ≤ L)
    (hplan : ∀ i, GoesOn timeout interval lat (plan i)) :
    (uploadBinary true bs timeout interval lat retry binary (Dev.init plan)).1 = .ok () ∧
    uploadExact L plan binary
      (uploadBinary true bs timeout interval lat retry binary (Dev.init plan)).2.dev.trace = true := by
  obtain ⟨evs, h1, h2, h3⟩ := uploadLoop_inTime timeout interval lat (chunks bs binary)
    Gen.Hpm.firstBlock retry ⟨Dev.init plan, 0⟩ (fun j => by simpa [Dev.init] using goesOn_inTime (hplan j))
  have hsz : ∀ c ∈ chunks bs binary, 0 < c.length ∧ c.length ≤ L := fun c hc =>
    ⟨(chunks_sizes bs hbs binary c hc).1, Nat.le_trans (chunks_sizes bs hbs binary c hc).2 hL⟩
  have h3' : SegX plan (chunks bs binary) Gen.Hpm.firstBlock 0 evs := by simpa [Dev.init] using h3
  obtain ⟨a, b, d⟩ := Seg_spec L plan (chunks bs binary) Gen.Hpm.firstBlock 0 evs
    (SegX_Seg _ _ _ _ _ h3') (by simp [Gen.Hpm.firstBlock]) hsz
  have w := SegX_waits plan (blocksOf evs).length (chunks bs binary) Gen.Hpm.firstBlock 0 evs h3'
  have hne : bs ≠ 0 := by omega
  simp only [uploadBinary, hne, if_false]
  refine ⟨h1, ?_⟩
  rw [h2]
  simp [uploadExact, Dev.init, a, b, d, w, chunks_flatten bs hbs binary]

/-- what `uploadLoop_stops` gives, in the vocabulary of the specification -/
theorem upload_stops (bs L timeout interval lat : Nat) (retry : Int) (binary : List Nat)
    (plan : Nat → Reply) (j : Nat) (hbs : 0 < bs) (hL : bs ≤ L) (ht : 0 < timeout)
    (hj : j * bs < binary.length)
    (hbefore : ∀ i, i < j → GoesOn timeout interval lat (plan i))
    (hstop : stops timeout interval lat (plan j)) :
    (uploadBinary true bs timeout interval lat retry binary (Dev.init plan)).1 = .hpmError ∧
    ∃ tr, (uploadBinary true bs timeout interval lat retry binary (Dev.init plan)).2.dev.trace = tr ∧
      (blocksOf tr).length = j + 1 ∧
      ((blocksOf tr).map (·.2)).flatten = binary.take ((blocksOf tr).map (·.2)).flatten.length ∧
      numberedFrom L 0 (blocksOf tr) = true ∧ pollsOk plan 0 tr = true ∧ waitsOk plan j 0 tr = true ∧
      ∃ n, stopTail timeout interval lat (plan j) n ∧ trailingPolls tr = n ∧
        (n = 0 → ∃ m d, tr.getLast? = some (Ev.block m d)) ∧ (1 ≤ n → tr.getLast? = some Ev.status) := by
  have hjl := lt_chunks_length bs hbs binary j hj
  obtain ⟨h1, evs, h2, h3⟩ := uploadLoop_stops timeout interval lat ht (chunks bs binary)
    Gen.Hpm.firstBlock retry ⟨Dev.init plan, 0⟩ j hjl
    (fun t ht => by simpa [Dev.init] using goesOn_inTime (hbefore t ht))
    (by simpa [Dev.init] using hstop)
  have hsz : ∀ c ∈ chunks bs binary, 0 < c.length ∧ c.length ≤ L := fun c hc =>
    ⟨(chunks_sizes bs hbs binary c hc).1, Nat.le_trans (chunks_sizes bs hbs binary c hc).2 hL⟩
  obtain ⟨a, b, d, e, w, n, t1, t2, t3, t4⟩ := SegA_spec (stopTail timeout interval lat) L plan (chunks bs binary)
    Gen.Hpm.firstBlock 0 j evs (by simpa [Dev.init] using h3) (by simp [Gen.Hpm.firstBlock]) hsz
    (fun n hn ⟨k, f, hk⟩ => by
      simp only [Nat.zero_add] at hn hk
      rw [hk] at hn
      exact hn.1)
  have hne : bs ≠ 0 := by omega
  simp only [uploadBinary, hne, if_false]
  refine ⟨h1, evs, by rw [h2]; simp [Dev.init], b, ?_, d, e, by simpa using w, n, by simpa using t1, t2, t3, t4⟩
  rw [a]
  have hsplit : binary = ((chunks bs binary).take (j + 1)).flatten ++ ((chunks bs binary).drop (j + 1)).flatten := by
    rw [← List.flatten_append, List.take_append_drop, chunks_flatten bs hbs binary]
  have key : ∀ A B : List Nat, binary = A ++ B → A = binary.take A.length := by
    intro A B h
    rw [h]
    simp
  exact key _ _ hsplit

theorem upload_aborts (bs L timeout interval lat : Nat) (retry : Int) (binary : List Nat)
    (plan : Nat → Reply) (j c : Nat) (hbs : 0 < bs) (hL : bs ≤ L) (ht : 0 < timeout)
    (hj : j * bs < binary.length)
    (hbefore : ∀ i, i < j → GoesOn timeout interval lat (plan i))
    (herr : plan j = .err c) (hc0 : c ≠ 0) (hc1 : c ≠ 0x80) :
    (uploadBinary true bs timeout interval lat retry binary (Dev.init plan)).1 = .hpmError ∧
    uploadAbortedAt L plan binary j
      (uploadBinary true bs timeout interval lat retry binary (Dev.init plan)).2.dev.trace = true := by
  obtain ⟨h1, tr, h2, a, b, c', d, e, n, t1, t2, t3, t4⟩ := upload_stops bs L timeout interval lat retry binary plan j
    hbs hL ht hj hbefore (by simp [herr, stops, hc0, hc1])
  refine ⟨h1, ?_⟩
  rw [h2]
  have hn : n = 0 := by simpa [herr, stopTail] using t1
  obtain ⟨m, dd, hl⟩ := t3 hn
  simp only [uploadAbortedAt, a, c', d, e, hl, Bool.and_true, decide_true, Bool.true_and, decide_eq_true_eq]
  exact b

/-- The status reports that the long duration command of block `j` FAILED (final code other
than 00h, seen in time): HpmError; blocks 0..j were sent; block j is followed by its k+1
status polls and by nothing else. -/
theorem upload_aborts_long_failure (bs L timeout interval lat : Nat) (retry : Int) (binary : List Nat)
    (plan : Nat → Reply) (j k f : Nat) (hbs : 0 < bs) (hL : bs ≤ L) (ht : 0 < timeout)
    (hj : j * bs < binary.length)
    (hbefore : ∀ i, i < j → GoesOn timeout interval lat (plan i))
    (hlong : plan j = .inProgress k f) (hf0 : f ≠ 0) (hf1 : f ≠ 0x80) (hk : k * (lat + interval) < timeout) :
    (uploadBinary true bs timeout interval lat retry binary (Dev.init plan)).1 = .hpmError ∧
    uploadAbortedLongAt L plan binary j
      (uploadBinary true bs timeout interval lat retry binary (Dev.init plan)).2.dev.trace = true ∧
    trailingPolls (uploadBinary true bs timeout interval lat retry binary (Dev.init plan)).2.dev.trace = k + 1 := by
  obtain ⟨h1, tr, h2, a, b, c', d, e, n, t1, t2, t3, t4⟩ := upload_stops bs L timeout interval lat retry binary plan j
    hbs hL ht hj hbefore (by simp [hlong, stops, hf0, hf1, hk])
  rw [h2]
  have hn : n = k + 1 := by
    simp only [hlong, stopTail] at t1
    rcases t1.2 with ⟨_, h⟩ | ⟨h, _⟩
    · exact h
    · omega
  have hl := t4 (by omega)
  refine ⟨h1, ?_, by rw [t2, hn]⟩
  simp only [uploadAbortedLongAt, a, c', d, e, hl, Bool.and_true, decide_true, Bool.true_and, decide_eq_true_eq]
  exact b

/-- The long duration command of block `j` is still reported "in progress" when the time-out
expires: HpmError; blocks 0..j were sent; block j is followed by status polls only - at least
one, at most k (the final code was never seen). -/
theorem upload_aborts_long_timeout (bs L timeout interval lat : Nat) (retry : Int) (binary : List Nat)
    (plan : Nat → Reply) (j k f : Nat) (hbs : 0 < bs) (hL : bs ≤ L) (ht : 0 < timeout)
    (hj : j * bs < binary.length)
    (hbefore : ∀ i, i < j → GoesOn timeout interval lat (plan i))
    (hlong : plan j = .inProgress k f) (hk : timeout ≤ k * (lat + interval)) :
    (uploadBinary true bs timeout interval lat retry binary (Dev.init plan)).1 = .hpmError ∧
    uploadAbortedLongAt L plan binary j
      (uploadBinary true bs timeout interval lat retry binary (Dev.init plan)).2.dev.trace = true ∧
    sawFinal k (uploadBinary true bs timeout interval lat retry binary (Dev.init plan)).2.dev.trace = false := by
  obtain ⟨h1, tr, h2, a, b, c', d, e, n, t1, t2, t3, t4⟩ := upload_stops bs L timeout interval lat retry binary plan j
    hbs hL ht hj hbefore (by simp [hlong, stops, hk])
  rw [h2]
  simp only [hlong, stopTail] at t1
  have hn : n ≤ k := by
    rcases t1.2 with ⟨h, _⟩ | ⟨_, h⟩
    · omega
    · exact h
  have hl := t4 t1.1
  refine ⟨h1, ?_, by simp [sawFinal, t2]; omega⟩
  simp only [uploadAbortedLongAt, a, c', d, e, hl, Bool.and_true, decide_true, Bool.true_and, decide_eq_true_eq]
  exact b

/-- AS SHIPPED: whatever the status polls report - any final code, or "in progress" for longer
than the time-out - every block is sent and `upload_binary` returns normally. -/
theorem shipped_upload_ignores_status (bs L timeout interval lat : Nat) (retry : Int) (binary : List Nat)
    (plan : Nat → Reply) (hbs : 0 < bs) (hL : bs ≤ L) (ht : 0 < timeout)
    (hplan : ∀ i, plan i = .ok ∨ ∃ k f, plan i = .inProgress k f) :
    (uploadBinary false bs timeout interval lat retry binary (Dev.init plan)).1 = .ok () ∧
    ((blocksOf (uploadBinary false bs timeout interval lat retry binary (Dev.init plan)).2.dev.trace).map
      (·.2)).flatten = binary := by
  have hb : ∀ j, benign ((Dev.init plan).plan j) := by
    intro j
    rcases hplan j with h | ⟨k, f, h⟩ <;> simp [Dev.init, h, benign]
  obtain ⟨evs, h1, h2, h3⟩ := uploadLoop_benign timeout interval lat ht (chunks bs binary)
    Gen.Hpm.firstBlock retry ⟨Dev.init plan, 0⟩ hb
  have hsz : ∀ c ∈ chunks bs binary, 0 < c.length ∧ c.length ≤ L := fun c hc =>
    ⟨(chunks_sizes bs hbs binary c hc).1, Nat.le_trans (chunks_sizes bs hbs binary c hc).2 hL⟩
  obtain ⟨a, _, _⟩ := Seg_spec L plan (chunks bs binary) Gen.Hpm.firstBlock 0 evs
    (by simpa [Dev.init] using h3) (by simp [Gen.Hpm.firstBlock]) hsz
  have hne : bs ≠ 0 := by omega
  simp only [uploadBinary, hne, if_false]
  refine ⟨h1, ?_⟩
  rw [h2]
  simp [Dev.init, a, chunks_flatten bs hbs binary]

/-- 50 bytes in 22-byte blocks; the device accepts block 1 as a long duration command and the
first status poll reports that it FAILED (final code FFh) -/
def witnessPlan : Nat → Reply := fun i => if i = 1 then .inProgress 0 0xFF else .ok

/-- as shipped: block 2 is sent all the same and the upload "succeeds" - which is not a
complete upload by the specification; intended: HpmError, nothing after the poll. -/
theorem shipped_upload_witness :
    (uploadBinary false 22 20 1 0 3 (List.range 50) (Dev.init witnessPlan)).1 = .ok () ∧
    (uploadBinary false 22 20 1 0 3 (List.range 50) (Dev.init witnessPlan)).2.dev.trace =
      [.block 0 (List.range 22), .block 1 ((List.range 44).drop 22), .status, .block 2 ((List.range 50).drop 44)] ∧
    uploadExact 22 witnessPlan (List.range 50)
      (uploadBinary false 22 20 1 0 3 (List.range 50) (Dev.init witnessPlan)).2.dev.trace = false ∧
    (uploadBinary true 22 20 1 0 3 (List.range 50) (Dev.init witnessPlan)).1 = .hpmError ∧
    (uploadBinary true 22 20 1 0 3 (List.range 50) (Dev.init witnessPlan)).2.dev.trace =
      [.block 0 (List.range 22), .block 1 ((List.range 44).drop 22), .status] := by decide +kernel

/-! ### a block whose request gets no answer (fixes/C18-5) -/

/-- the request for block 1 (the second request) gets no answer, everything else is accepted -/
def silentPlan : Nat → Reply := fun i => if i = 1 then .noAnswer else .ok

/-- as shipped: the unanswered block 1 is never sent again - the next request carries number 2 and the
FOLLOWING bytes - and the upload "succeeds": the controller does not hold the binary. -/
theorem shipped_upload_skips_silent_block :
    (uploadBinary true 22 20 1 0 3 (List.range 50) (Dev.init silentPlan)).1 = .ok () ∧
    (uploadBinary true 22 20 1 0 3 (List.range 50) (Dev.init silentPlan)).2.dev.trace =
      [.block 0 (List.range 22), .block 1 ((List.range 44).drop 22), .block 2 ((List.range 50).drop 44)] ∧
    heardFrom silentPlan 0 (uploadBinary true 22 20 1 0 3 (List.range 50) (Dev.init silentPlan)).2.dev.trace =
      [(0, List.range 22), (2, (List.range 50).drop 44)] ∧
    uploadDelivered 22 silentPlan (List.range 50)
      (uploadBinary true 22 20 1 0 3 (List.range 50) (Dev.init silentPlan)).2.dev.trace = false := by decide +kernel

/-- repaired: block 1 is sent again with the same number and the same bytes; the controller holds the binary.
With every request for block 1 unanswered the upload ends with the time-out error after `retry` attempts. -/
theorem resend_upload_witness :
    (uploadBinaryR true 22 20 1 0 3 (List.range 50) (Dev.init silentPlan)).1 = .ok () ∧
    (uploadBinaryR true 22 20 1 0 3 (List.range 50) (Dev.init silentPlan)).2.dev.trace =
      [.block 0 (List.range 22), .block 1 ((List.range 44).drop 22), .block 1 ((List.range 44).drop 22),
       .block 2 ((List.range 50).drop 44)] ∧
    uploadDelivered 22 silentPlan (List.range 50)
      (uploadBinaryR true 22 20 1 0 3 (List.range 50) (Dev.init silentPlan)).2.dev.trace = true ∧
    (uploadBinaryR true 22 20 1 0 3 (List.range 50) (Dev.init fun i => if 1 ≤ i then .noAnswer else .ok)).1
      = .timeoutError ∧
    (uploadBinaryR true 22 20 1 0 3 (List.range 50) (Dev.init fun i => if 1 ≤ i then .noAnswer else .ok)).2.dev.trace =
      [.block 0 (List.range 22), .block 1 ((List.range 44).drop 22), .block 1 ((List.range 44).drop 22),
       .block 1 ((List.range 44).drop 22)] := by decide +kernel

theorem waitLong_plan (timeout interval lat : Nat) (s : St) :
    (waitLong timeout interval lat s).2.dev.plan = s.dev.plan := by
  obtain ⟨_, _, _, h, _⟩ := waitLoop_spec interval (s.now + timeout) lat (s.dev.pending + 1) s
  exact h

set_option linter.unusedSimpArgs false in
/-- on a plan that answers every request the repaired loop IS the loop the upload theorems are proved for -/
theorem uploadLoopR_answered (checked : Bool) (timeout interval lat : Nat) (retry : Int) :
    ∀ (cs : List (List Nat)) (num : Nat) (s : St), (∀ i, s.dev.plan i ≠ .noAnswer) →
      uploadLoopR checked timeout interval lat retry cs num s =
        uploadLoop checked timeout interval lat cs num retry s := by
  intro cs
  induction cs with
  | nil => intro num s _; simp [uploadLoopR, uploadLoop]
  | cons c cs ih =>
    intro num s h
    have hp := h s.dev.idx
    cases hr : s.dev.plan s.dev.idx with
    | noAnswer => exact absurd hr hp
    | ok =>
      simp only [uploadLoopR, uploadLoop, sendBlockR, Dev.upload, hr, replyRsp]
      simp only [if_true]
      exact ih _ _ h
    | inProgress k f =>
      have h0 : ¬ (Spec.HpmDevice.ccInProgress = 0) := by decide
      have h1 : (Spec.HpmDevice.ccInProgress = Gen.Hpm.ccInProgress) = True := by decide
      simp only [uploadLoopR, uploadLoop, sendBlockR, Dev.upload, hr, replyRsp, h0, h1, if_true, if_false]
      by_cases ha : afterWait checked (waitLong timeout interval lat
          ⟨{ s.dev with idx := s.dev.idx + 1, pending := replyPending (Reply.inProgress k f),
                        final := replyFinal (Reply.inProgress k f), trace := s.dev.trace ++ [Ev.block num c] },
           s.now + lat⟩).1 = true
      · simp only [ha, if_true]
        apply ih
        intro i
        rw [waitLong_plan]
        exact h i
      · simp only [ha]
        rfl
    | err cc =>
      simp only [uploadLoopR, uploadLoop, sendBlockR, Dev.upload, hr, replyRsp]
      by_cases hc0 : cc = 0
      · simp only [hc0, if_true]
        exact ih _ _ h
      · by_cases hc1 : cc = Gen.Hpm.ccInProgress
        · simp only [hc0, hc1, if_true, if_false]
          by_cases ha : afterWait checked (waitLong timeout interval lat
              ⟨{ s.dev with idx := s.dev.idx + 1, pending := replyPending (Reply.err Gen.Hpm.ccInProgress),
                            final := replyFinal (Reply.err Gen.Hpm.ccInProgress), trace := s.dev.trace ++ [Ev.block num c] },
               s.now + lat⟩).1 = true
          · simp only [ha, if_true]
            apply ih
            intro i
            rw [waitLong_plan]
            exact h i
          · simp only [ha]
            rfl
        · simp only [hc0, hc1, if_false]
/-- … hence every upload theorem above (`upload_exact`, `upload_stops`, `upload_aborts*`) holds for the repaired
`upload_binary` as well: they speak of plans that answer every request. -/
theorem uploadBinaryR_answered (checked : Bool) (bs timeout interval lat : Nat) (retry : Int) (binary : List Nat)
    (plan : Nat → Reply) (hplan : ∀ i, plan i ≠ .noAnswer) :
    uploadBinaryR checked bs timeout interval lat retry binary (Dev.init plan) =
      uploadBinary checked bs timeout interval lat retry binary (Dev.init plan) := by
  unfold uploadBinaryR uploadBinary
  split
  · rfl
  · exact uploadLoopR_answered checked timeout interval lat retry _ _ _ (by simpa [Dev.init] using hplan)

theorem upload_exact_resend (bs L timeout interval lat : Nat) (retry : Int) (binary : List Nat)
    (plan : Nat → Reply) (hbs : 0 < bs) (hL : bs ≤ L)
    (hplan : ∀ i, GoesOn timeout interval lat (plan i)) :
    (uploadBinaryR true bs timeout interval lat retry binary (Dev.init plan)).1 = .ok () ∧
    uploadExact L plan binary
      (uploadBinaryR true bs timeout interval lat retry binary (Dev.init plan)).2.dev.trace = true := by
  rw [uploadBinaryR_answered true bs timeout interval lat retry binary plan (fun i hi => by
    rcases hplan i with h | ⟨k, h, _⟩ <;> simp [h] at hi)]
  exact upload_exact bs L timeout interval lat retry binary plan hbs hL hplan

/-- what the source says today: block size, first block number, increment, mask, in-progress code -/
theorem upload_configured :
    0 < Gen.Hpm.blockSize ∧ Gen.Hpm.blockSize ≤ 22 ∧ Gen.Hpm.firstBlock = 0 ∧ Gen.Hpm.blockIncr = 1 ∧
    Gen.Hpm.blockMask = 0xFF ∧ Gen.Hpm.ccInProgress = Spec.HpmDevice.ccInProgress ∧ Gen.Hpm.ccOk = 0 := by decide

theorem upload_exact_configured (timeout interval lat : Nat) (retry : Int) (binary : List Nat)
    (plan : Nat → Reply) (hplan : ∀ i, GoesOn timeout interval lat (plan i)) :
    (uploadBinary true Gen.Hpm.blockSize timeout interval lat retry binary (Dev.init plan)).1 = .ok () ∧
    uploadExact 22 plan binary
      (uploadBinary true Gen.Hpm.blockSize timeout interval lat retry binary (Dev.init plan)).2.dev.trace = true :=
  upload_exact _ 22 timeout interval lat retry binary plan upload_configured.1 upload_configured.2.1 hplan

/-! ## non-vacuity -/

/-- a well-formed image with OEM data, all four record types and a description containing
backslashes -/
def demo : Image :=
  { header := { witnessOem.header with oem := [1, 2, 3] },
    records := [.simple 0 1, .simple 1 2,
      .upload 2 ⟨2, 99, 9, 8, 7, 6⟩ (List.replicate 19 0x41 ++ [0x5C, 0x75]) [0xDE, 0xAD, 0xBE, 0xEF, 0x00],
      .simple 3 4] }

example : demo.wf := by
  refine ⟨by simp [demo, witnessOem, Header.wf, Version.wf, Bytes], ?_⟩
  intro r hr
  simp [demo] at hr
  rcases hr with rfl | rfl | rfl | rfl <;> simp [Record.wf, Version.wf, Bytes]

example : (demo.view zeroDigest).actions.length = 4 ∧ (encodeImage zeroDigest demo).length = 102 := by decide

example : parseImage .intended (encodeImage zeroDigest demo) = .ok (demo.view zeroDigest) := by decide +kernel

/-- 50 bytes in 22-byte blocks, block 1 answered "in progress" with two further in-progress
polls: three blocks numbered 0, 1, 2 and three status polls after block 1 -/
example :
    (uploadBinary true 22 20 1 0 3 (List.range 50) (Dev.init fun i => if i = 1 then .inProgress 2 0 else .ok)).2.dev.trace
      = [.block 0 (List.range 22), .block 1 ((List.range 44).drop 22), .status, .status, .status,
         .block 2 ((List.range 50).drop 44)] := by decide +kernel

/-- the hypotheses of `upload_exact` are satisfiable by that plan (2·(0+1) < 20) -/
example : ∀ i, GoesOn 20 1 0 ((fun i => if i = 1 then Reply.inProgress 2 0 else .ok) i) := by
  intro i
  by_cases h : i = 1
  · exact Or.inr ⟨2, by simp [h], by decide⟩
  · exact Or.inl (by simp [h])

/-- block 1 rejected with D5h -/
example :
    (uploadBinary true 22 20 1 0 3 (List.range 50) (Dev.init fun i => if i = 1 then .err 0xD5 else .ok)).1 = .hpmError := by
  decide +kernel

/-- block 1 accepted with 80h, 30 further in-progress answers, time-out 5: three polls (at 0, 2, 4),
then HpmError; `upload_aborts_long_timeout` applies (5 ≤ 30·(1+1)) -/
example :
    (uploadBinary true 22 5 1 1 3 (List.range 50) (Dev.init fun i => if i = 1 then .inProgress 30 0 else .ok)).1
      = .hpmError ∧
    (uploadBinary true 22 5 1 1 3 (List.range 50) (Dev.init fun i => if i = 1 then .inProgress 30 0 else .ok)).2.dev.trace
      = [.block 0 (List.range 22), .block 1 ((List.range 44).drop 22), .status, .status, .status] := by
  decide +kernel

/-- **what the source read today does with a block that got no answer**: the translator found the re-sending loop
of repair b19459e (`Gen.Hpm.uploadResend`, regenerated on every run).  A tree that goes back to skipping the block
stops this theorem from building, and the probe of the real code reports `C18:upload:block-skipped-after-timeout`. -/
theorem upload_source_resends : Gen.Hpm.uploadResend = true := by decide

/-- the upload theorem for the loop AS THE SOURCE HAS IT TODAY (`uploadBinaryV Gen.Hpm.uploadResend`), with the block
size the source says: on every device plan that lets the upload go on, the bytes are sent exactly once and in order,
in blocks of at most 22 bytes numbered modulo 256 from zero -/
theorem upload_exact_today (timeout interval lat : Nat) (retry : Int) (binary : List Nat)
    (plan : Nat → Reply) (hplan : ∀ i, GoesOn timeout interval lat (plan i)) :
    (uploadBinaryV Gen.Hpm.uploadResend true Gen.Hpm.blockSize timeout interval lat retry binary (Dev.init plan)).1
      = .ok () ∧
    uploadExact 22 plan binary
      (uploadBinaryV Gen.Hpm.uploadResend true Gen.Hpm.blockSize timeout interval lat retry binary
        (Dev.init plan)).2.dev.trace = true := by
  have h := upload_exact_resend Gen.Hpm.blockSize 22 timeout interval lat retry binary plan
    upload_configured.1 upload_configured.2.1 hplan
  simpa [uploadBinaryV, upload_source_resends] using h

end PyIpmi.Props.C18
