/-
  C18 — HPM.1 images parse faithfully; firmware uploads completely and in order.

  Model  : PyIpmi.Hpm (Model/Hpm.lean) mirrors pyipmi/hpm.py, fields.VersionField, utils.chunks;
           its offsets, byte orders, block size, counter mask and completion codes are the
           generated `PyIpmi.Gen.Hpm` (re-extracted from the source on every run).
  Spec   : Spec/HpmFormat.lean (independent HPM.1 image encoder and the view a faithful parser
           must report), Spec/HpmDevice.lean (reference device + predicates over its record).

  PARSE (the MD5 is any function `digest` producing 16 bytes)
  * `parse_encode`            — intended parser ∘ encoder = view, for EVERY well-formed image:
                                any number of records of every type, any firmware length < 2^32,
                                0..65535 OEM bytes, any description bytes.
  * `parse_encode_as_shipped` — the parser as shipped in the pinned tree is right on the images
                                that have no OEM data and no backslash in a description …
  * `shipped_oem_counterexample`, `shipped_oem_witness`
                              — … and wrong on EVERY well-formed image that has OEM data
                                (`oem_data = data[34:-1]`), concretely on `witnessOem`;
  * `shipped_description_witness`, `intended_description_witness`
                              — and fails with UnicodeDecodeError on the well-formed `witnessDesc`
                                (description `fw\update 1.0`), which the intended parser reads.
  UPLOAD (any virtual-clock timing `timeout > 0`, `interval`, per-request latency, retry budget)
  * `chunks_spec`             — chunks concatenate to the data, each 1..n bytes long
  * `upload_exact`            — for every binary and EVERY plan answering each block with OK or
                                "in progress" (any number of further in-progress polls, also more
                                than the time-out allows): upload returns, the recorded blocks
                                concatenate to the binary, block i is numbered i mod 256 and is
                                1..L bytes long, and the request right after a block answered 80h
                                is a status poll
  * `upload_aborts`           — first block answered with another code c at index j: HpmError,
                                exactly blocks 0..j were sent (a correctly numbered prefix of the
                                binary) and nothing after the rejected block
  * `upload_configured`       — the generated block size is positive and fits the device limit 22;
                                `upload_exact_configured` instantiates `upload_exact` with it
-/
import PyIpmi.Lemmas.HpmParse
import PyIpmi.Lemmas.HpmUpload
namespace PyIpmi.Props.C18
open PyIpmi PyIpmi.Hpm
open PyIpmi.Spec.HpmFormat PyIpmi.Spec.HpmDevice

/-! ## Parsing -/

/-- `parseImage (encodeImage img) = ok (view img)`: header fields, component list, and in
order every action record with its type, component mask, version, declared length and exactly
its firmware bytes. -/
theorem parse_encode (digest : List Nat → List Nat) (hdig : ∀ x, (digest x).length = 16)
    (img : Image) (hwf : img.wf) :
    parseImage .intended (encodeImage digest img) = .ok (img.view digest) := by
  rw [parseImage_encode .intended digest img hwf
    (fun r _ => by cases r <;> simp [descPlain, Variant.intended]) hdig]
  by_cases hz : img.header.oem.length = 0
  · have : img.header.oem = [] := List.length_eq_zero_iff.mp hz
    simp [Image.view, Header.view, this]
  · simp [hz, Variant.intended, Image.view, Header.view]

/-- no OEM data in the header and no backslash in any firmware description -/
def plainImage (img : Image) : Prop :=
  img.header.oem = [] ∧ ∀ r ∈ img.records, descPlain .asShipped r

theorem parse_encode_as_shipped (digest : List Nat → List Nat) (hdig : ∀ x, (digest x).length = 16)
    (img : Image) (hwf : img.wf) (hp : plainImage img) :
    parseImage .asShipped (encodeImage digest img) = .ok (img.view digest) := by
  rw [parseImage_encode .asShipped digest img hwf hp.2 hdig]
  simp [hp.1, Image.view, Header.view]

/-- With `oem_data = data[34:-1]` (and the description handled correctly) EVERY well-formed
image that carries OEM data is reported wrongly. -/
theorem shipped_oem_counterexample (digest : List Nat → List Nat) (hdig : ∀ x, (digest x).length = 16)
    (img : Image) (hwf : img.wf) (hoem : img.header.oem ≠ []) :
    parseImage ⟨true, false⟩ (encodeImage digest img) ≠ .ok (img.view digest) := by
  rw [parseImage_encode ⟨true, false⟩ digest img hwf
    (fun r _ => by cases r <;> simp [descPlain]) hdig]
  have hz : img.header.oem.length ≠ 0 := fun h => hoem (List.length_eq_zero_iff.mp h)
  intro h
  injection h with h
  have h2 := congrArg (fun v => v.header.oem.length) h
  simp [hz, Image.view, Header.view, encodeImage, imageBody, encodeHeader_length, hdig] at h2
  omega

def zeroDigest : List Nat → List Nat := fun _ => List.replicate 16 0

/-- two OEM bytes, one prepare record -/
def witnessOem : Image :=
  { header := { formatVersion := 0, deviceId := 1, manufacturerId := 15000, productId := 2, time := 3,
                capabilities := 0, componentsMask := 1, selftestTimeout := 0, rollbackTimeout := 0,
                inaccessibilityTimeout := 0, earliest := ⟨1, 0, 0, 0, 0, 0⟩,
                firmwareRevision := ⟨1, 1, 0, 0, 0, 0⟩, oem := [0xAA, 0xBB] },
    records := [.simple 1 1] }

theorem shipped_oem_witness :
    (match parseImage .asShipped (encodeImage zeroDigest witnessOem) with
     | .ok v => v.header.oem
     | _ => []) =
      [0xAA, 0xBB, 0x5B, 1, 1, 0xFE, 0, 0, 0, 0, 0, 0, 0, 0, 0, 0, 0, 0, 0, 0, 0] ∧
    (witnessOem.view zeroDigest).header.oem = [0xAA, 0xBB] := by decide +kernel

/-- description `fw\update 1.0` padded with NUL: a malformed `\u` escape for `raw_unicode_escape` -/
def witnessDesc : Image :=
  { header := { witnessOem.header with oem := [] },
    records := [.upload 1 ⟨1, 23, 0, 0, 0, 1⟩
      [0x66, 0x77, 0x5C, 0x75, 0x70, 0x64, 0x61, 0x74, 0x65, 0x20, 0x31, 0x2E, 0x30, 0, 0, 0, 0, 0, 0, 0, 0]
      [0x11, 0x22, 0x33, 0x44]] }

theorem shipped_description_witness :
    parseImage .asShipped (encodeImage zeroDigest witnessDesc) = .pyError "UnicodeDecodeError" := by
  decide +kernel

theorem intended_description_witness :
    parseImage .intended (encodeImage zeroDigest witnessDesc) = .ok (witnessDesc.view zeroDigest) := by
  decide +kernel

/-! ## Uploading -/

theorem chunks_spec (n : Nat) (hn : 0 < n) (l : List Nat) :
    (chunks n l).flatten = l ∧ ∀ c ∈ chunks n l, 0 < c.length ∧ c.length ≤ n :=
  ⟨chunks_flatten n hn l, chunks_sizes n hn l⟩

theorem upload_exact (bs L timeout interval lat : Nat) (retry : Int) (binary : List Nat)
    (plan : Nat → Reply) (hbs : 0 < bs) (hL : bs ≤ L) (ht : 0 < timeout)
    (hplan : ∀ i, plan i = .ok ∨ ∃ k, plan i = .inProgress k) :
    (uploadBinary bs timeout interval lat retry binary (Dev.init plan)).1 = .ok () ∧
    uploadExact L plan binary
      (uploadBinary bs timeout interval lat retry binary (Dev.init plan)).2.dev.trace = true := by
  have hb : ∀ j, benign ((Dev.init plan).plan j) := by
    intro j
    rcases hplan j with h | ⟨k, h⟩ <;> simp [Dev.init, h, benign]
  obtain ⟨evs, h1, h2, h3⟩ := uploadLoop_benign timeout interval lat ht (chunks bs binary)
    Gen.Hpm.firstBlock retry ⟨Dev.init plan, 0⟩ hb
  have hsz : ∀ c ∈ chunks bs binary, 0 < c.length ∧ c.length ≤ L := fun c hc =>
    ⟨(chunks_sizes bs hbs binary c hc).1, Nat.le_trans (chunks_sizes bs hbs binary c hc).2 hL⟩
  obtain ⟨a, b, d⟩ := Seg_spec L plan (chunks bs binary) Gen.Hpm.firstBlock 0 evs
    (by simpa [Dev.init] using h3) (by simp [Gen.Hpm.firstBlock]) hsz
  have hne : bs ≠ 0 := by omega
  simp only [uploadBinary, hne, if_false]
  refine ⟨h1, ?_⟩
  rw [h2]
  simp [uploadExact, Dev.init, a, b, d, chunks_flatten bs hbs binary]

theorem upload_aborts (bs L timeout interval lat : Nat) (retry : Int) (binary : List Nat)
    (plan : Nat → Reply) (j c : Nat) (hbs : 0 < bs) (hL : bs ≤ L) (ht : 0 < timeout)
    (hj : j * bs < binary.length)
    (hbefore : ∀ i, i < j → plan i = .ok ∨ ∃ k, plan i = .inProgress k)
    (herr : plan j = .err c) (hc0 : c ≠ 0) (hc1 : c ≠ 0x80) :
    (uploadBinary bs timeout interval lat retry binary (Dev.init plan)).1 = .hpmError ∧
    uploadAbortedAt L plan binary j
      (uploadBinary bs timeout interval lat retry binary (Dev.init plan)).2.dev.trace = true := by
  have hjl := lt_chunks_length bs hbs binary j hj
  obtain ⟨h1, evs, h2, h3⟩ := uploadLoop_abort timeout interval lat ht (chunks bs binary)
    Gen.Hpm.firstBlock retry ⟨Dev.init plan, 0⟩ j c hjl
    (fun t ht => by rcases hbefore t ht with h | ⟨k, h⟩ <;> simp [Dev.init, h, benign])
    (by simpa [Dev.init] using herr) hc0 hc1
  have hsz : ∀ c ∈ chunks bs binary, 0 < c.length ∧ c.length ≤ L := fun c hc =>
    ⟨(chunks_sizes bs hbs binary c hc).1, Nat.le_trans (chunks_sizes bs hbs binary c hc).2 hL⟩
  obtain ⟨a, b, d, e, ⟨ln, ld, hl⟩⟩ := SegA_spec L plan (chunks bs binary) Gen.Hpm.firstBlock 0 j evs
    (by simpa [Dev.init] using h3) (by simp [Gen.Hpm.firstBlock]) hsz
  have hne : bs ≠ 0 := by omega
  simp only [uploadBinary, hne, if_false]
  refine ⟨h1, ?_⟩
  rw [h2]
  have hpre : ((chunks bs binary).take (j + 1)).flatten =
      binary.take ((chunks bs binary).take (j + 1)).flatten.length := by
    have hsplit : binary = ((chunks bs binary).take (j + 1)).flatten ++ ((chunks bs binary).drop (j + 1)).flatten := by
      rw [← List.flatten_append, List.take_append_drop, chunks_flatten bs hbs binary]
    have key : ∀ A B : List Nat, binary = A ++ B → A = binary.take A.length := by
      intro A B h
      rw [h]
      simp
    exact key _ _ hsplit
  simp only [uploadAbortedAt, Dev.init, List.nil_append, a, b, d, e, hl, Bool.and_true, decide_true]
  simpa using hpre

/-- what the source says today: block size, first block number, increment, mask, in-progress code -/
theorem upload_configured :
    0 < Gen.Hpm.blockSize ∧ Gen.Hpm.blockSize ≤ 22 ∧ Gen.Hpm.firstBlock = 0 ∧ Gen.Hpm.blockIncr = 1 ∧
    Gen.Hpm.blockMask = 0xFF ∧ Gen.Hpm.ccInProgress = Spec.HpmDevice.ccInProgress := by decide

theorem upload_exact_configured (timeout interval lat : Nat) (retry : Int) (binary : List Nat)
    (plan : Nat → Reply) (ht : 0 < timeout) (hplan : ∀ i, plan i = .ok ∨ ∃ k, plan i = .inProgress k) :
    (uploadBinary Gen.Hpm.blockSize timeout interval lat retry binary (Dev.init plan)).1 = .ok () ∧
    uploadExact 22 plan binary
      (uploadBinary Gen.Hpm.blockSize timeout interval lat retry binary (Dev.init plan)).2.dev.trace = true :=
  upload_exact _ 22 timeout interval lat retry binary plan upload_configured.1 upload_configured.2.1 ht hplan

/-! ## non-vacuity -/

/-- a well-formed image with OEM data, all four record types and a description containing
backslashes -/
def demo : Image :=
  { header := { witnessOem.header with oem := [1, 2, 3] },
    records := [.simple 0 1, .simple 1 2,
      .upload 2 ⟨2, 99, 9, 8, 7, 6⟩ (List.replicate 19 0x41 ++ [0x5C, 0x75]) [0xDE, 0xAD, 0xBE, 0xEF, 0x00],
      .simple 3 4] }

example : demo.wf := by
  refine ⟨by simp [demo, witnessOem, Header.wf, Version.wf, Bytes], ?_⟩
  intro r hr
  simp [demo] at hr
  rcases hr with rfl | rfl | rfl | rfl <;> simp [Record.wf, Version.wf, Bytes]

example : (demo.view zeroDigest).actions.length = 4 ∧ (encodeImage zeroDigest demo).length = 102 := by decide

example : parseImage .intended (encodeImage zeroDigest demo) = .ok (demo.view zeroDigest) := by decide +kernel

/-- 50 bytes in 22-byte blocks, block 1 answered "in progress" with two further in-progress
polls: three blocks numbered 0, 1, 2 and three status polls after block 1 -/
example :
    (uploadBinary 22 20 1 0 3 (List.range 50) (Dev.init fun i => if i = 1 then .inProgress 2 else .ok)).2.dev.trace
      = [.block 0 (List.range 22), .block 1 ((List.range 44).drop 22), .status, .status, .status,
         .block 2 ((List.range 50).drop 44)] := by decide +kernel

/-- block 1 rejected with D5h -/
example :
    (uploadBinary 22 20 1 0 3 (List.range 50) (Dev.init fun i => if i = 1 then .err 0xD5 else .ok)).1 = .hpmError := by
  decide +kernel

end PyIpmi.Props.C18
