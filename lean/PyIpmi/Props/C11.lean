/-
  C11 — SDR retrieval is exact, complete and survives reservation loss.

  Objects.  `getSdrData` / `sdrList` (Model/SdrXfer.lean) are the model of helper.get_sdr_data_helper
  over `_get_sdr_chunk` / `_get_device_sdr_chunk` (helper.get_sdr_chunk_helper) and of the listing
  generators, with the constants, loop shape, call sites and variant that harness/translate/loops11.py
  reads from the working tree on every run (`Gen/Loops11.lean`).  `Spec.Sdr.step cfg` is the reference
  device (Spec/SdrDevice.lean, from IPMI v2.0 §33/§35): two stores of records, a per-read limit
  signalled by CAh, reservations cancelled before chosen request indices, transient C3h / CEh at
  chosen indices, reservation checked on partial reads only or on every read.  `lookup recs id =
  some (d, next)` is the specification's "the record `id` designates is `d` and its successor is
  `next`" (0000h = first record, FFFFh after the last).

  * source_shape            — what the proofs hard-wire is what the source says now: loop tests, header
                              layout, call-site table (which Reserve command every call site uses), the
                              repaired 0xCA branch.  Fails to build when either defect is re-introduced.
  * constants_ok            — 5-byte header read, budget 20, 20-byte requests shrinking by 4 on CAh, chunk
                              budget 5, C5h renews, C3h / CEh repeat, FFFFh ends a listing.
  * record_exact_or_error   — EVERY well-formed device (any records of 5..260 bytes, any ids, any limit,
                              cancellations and transients at any indices, either reservation policy),
                              both stores, any starting state, with or without a caller reservation:
                              a read that returns, returns exactly the stored record and the id of its
                              successor; anything else is RetryError or CompletionCodeError.
  * completes_within_budget — no transients, at most 2 cancellations still to come (anywhere), limit ≥ 5
                              and `readsNeeded limit len ≤ 19`: the read returns the record.
                              `budget_in_numbers` spells the bound out (limit ≥ 16: every record; ≥ 12:
                              up to 209 bytes; ≥ 8: up to 133; ≥ 5: up to 65); the examples
                              show it is tight (limit 12 / 210 bytes, a third cancellation).
  * renews_same_store       — over ANY transport (any device at all): in the exchange trace of a read or a
                              listing of store `s`, every Get answered C5h is immediately followed by the
                              Reserve command of `s` (from the generated call-site table), both stores;
                              `requests_same_store`: no request of the trace addresses the other store.
                              That the read then completes is `completes_within_budget`.
  * list_exact_or_error     — a listing that returns, returns the device's records, each once, in
                              repository order; otherwise RetryError / CompletionCodeError; with fuel
                              ≥ number of records the model's iteration bound never fires
                              (`fuel_suffices`).
  * list_complete           — and it does return them when every record fits the budget.
  * asShipped_*             — the two defects of the pinned tree (816fdee), as theorems about the
                              as-shipped variants: a chunk duplicated after CAh (right length, wrong
                              content); renewal with the other store's Reserve ending in RetryError.
-/
import PyIpmi.Lemmas.SdrXferList
namespace PyIpmi.Props.C11
open PyIpmi PyIpmi.Model.Retry PyIpmi.Model.SdrXfer PyIpmi.Spec.Sdr
open PyIpmi.Gen.Loops11 (consts xconsts variantRead xferShape zeroLenRaises)

/-- What the source says now is what the model hard-wires, with the two repairs of this property
(the 0xCA branch ends in `continue`; each chunk reader renews with its own store's Reserve command).
Whether a renewed reservation id is handed on to the following chunks and records (`staleRes`, the
subject of C13) is not fixed here: every theorem below holds either way (`variantRead` is whatever
the working tree says; the lemmas ask for `fallThrough = false` and `renew s = s` only). -/
theorem source_shape :
    xferShape = XferShape.expected ∧
    (variantRead = Variant.intended ∨ variantRead = { Variant.intended with staleRes := true }) ∧
    zeroLenRaises = true := by decide

theorem constants_ok :
    xconsts = ⟨5, 20, 20, 4, 0xCA, 0xFFFF⟩ ∧ consts.ccOk = 0 ∧ consts.chunkRetryDefault = 5 ∧
    consts.chunkRenew = 0xC5 ∧ consts.chunkRetry1 = 0xC3 ∧ consts.chunkRetry2 = 0xCE := by decide

/-- call-site table: each chunk reader renews with the Reserve command of the store it reads -/
theorem call_sites (s : Store) : variantRead.renew s = s := by cases s <;> rfl

/-- **Exact or error.**  Whatever the device does within the specification — any limit, cancellations
and transient codes at any request indices — a read of either store that returns, returns the record
as stored (never altered, duplicated or truncated) with its successor's id; otherwise it raises
RetryError or CompletionCodeError. -/
theorem record_exact_or_error (cfg : Cfg) (hw : cfg.wf) (s : Store) (st : State) (id : Nat) (hid : id < 65536)
    (res? : Option Nat) :
    match (getSdrData consts xconsts variantRead (step cfg) s st id res?).2 with
    | .ok (next, d) => lookup (cfg.recs s) id = some (d, next)
    | .retryError => True
    | .ccError _ => True
    | _ => False := by
  have ha := getSdrData_allowed hw variantRead rfl s st id hid res?
  rcases h : getSdrData consts xconsts variantRead (step cfg) s st id res? with ⟨st', o⟩
  have h' : getSdrData K XK variantRead (step cfg) s st id res? = (st', o) := h
  rw [h'] at ha
  cases o with
  | ok p => exact getSdrData_exact hw variantRead rfl s st id hid res? h'
  | retryError => trivial
  | ccError c => trivial
  | _ => simp [Allowed] at ha

/-- **Completes within the budget.**  With no transient codes, at most two cancellations still to
come (at any request indices, also in the middle of a renewal), a limit of at least the 5 header
bytes and a record whose `readsNeeded` iterations fit the 19 requests the loop can make, the read
returns the record — for both stores, from any state, with or without a caller reservation. -/
theorem completes_within_budget (cfg : Cfg) (hw : cfg.wf) (hquiet : cfg.transients = []) (s : Store) (st : State)
    (hcancel : pending cfg st ≤ 2) (id : Nat) (hid : id < 65536) (rec : List Nat) (next : Nat)
    (hl : lookup (cfg.recs s) id = some (rec, next)) (h5 : 5 ≤ cfg.limit)
    (hfit : readsNeeded cfg.limit rec.length ≤ xconsts.dataRetry - 1) (res? : Option Nat) :
    (getSdrData consts xconsts variantRead (step cfg) s st id res?).2 = .ok (next, rec) := by
  obtain ⟨st', h, _⟩ := getSdrData_completes hw hquiet variantRead rfl (call_sites s) hid hl h5 hfit st res? hcancel
  have h' : getSdrData consts xconsts variantRead (step cfg) s st id res? = (st', .ok (next, rec)) := h
  rw [h']

/-- The bound in numbers (record lengths are 5..260): a limit ≥ 16 serves every record; ≥ 12 records
up to 209 bytes; ≥ 8 up to 133; ≥ 5 up to 65. -/
theorem budget_in_numbers (limit len : Nat) (h5 : 5 ≤ limit) (hlen : len ≤ 260)
    (h : 16 ≤ limit ∨ (12 ≤ limit ∧ len ≤ 209) ∨ (8 ≤ limit ∧ len ≤ 133) ∨ len ≤ 65) :
    readsNeeded limit len ≤ xconsts.dataRetry - 1 :=
  readsNeeded_thresholds limit len h5 hlen h

/-- **Renewal uses the same store.**  For every transport `x` (any device, conforming or not), either
store, any record id and caller reservation: in the exchange trace of the read, a Get (Device) SDR
answered C5h is immediately followed by the Reserve command of the store being read. -/
theorem renews_same_store {σ : Type} (x : Xport σ) (dev : σ) (s : Store) (id : Nat) (res? : Option Nat)
    (i : Nat) (e : Req × Rsp)
    (hi : (getSdrData consts xconsts variantRead (traced x) s (dev, []) id res?).1.2[i]? = some e)
    (hc : isCancelledGet e = true) :
    ∃ a, (getSdrData consts xconsts variantRead (traced x) s (dev, []) id res?).1.2[i + 1]? = some (.reserve s, a) := by
  obtain ⟨ext, h1, h2⟩ := getSdrData_ext x variantRead s (dev, []) id res?
  rw [call_sites] at h2
  have h1' : (getSdrData consts xconsts variantRead (traced x) s (dev, []) id res?).1.2 = ext := by
    simpa using h1
  rw [h1'] at hi ⊢
  exact h2.next i e hi hc

/-- … and so does every renewal during a listing. -/
theorem list_renews_same_store {σ : Type} (x : Xport σ) (dev : σ) (s : Store) (fuel : Nat) (i : Nat) (e : Req × Rsp)
    (hi : (sdrList consts xconsts variantRead (traced x) s fuel (dev, [])).1.2[i]? = some e)
    (hc : isCancelledGet e = true) :
    ∃ a, (sdrList consts xconsts variantRead (traced x) s fuel (dev, [])).1.2[i + 1]? = some (.reserve s, a) := by
  obtain ⟨ext, h1, h2⟩ := sdrList_ext x variantRead s fuel (dev, [])
  rw [call_sites] at h2
  have h1' : (sdrList consts xconsts variantRead (traced x) s fuel (dev, [])).1.2 = ext := by simpa using h1
  rw [h1'] at hi ⊢
  exact h2.next i e hi hc

/-- **Only the store being read is addressed.**  Every request of a read or a listing of store `s`
— the first reservation, every Get, every renewal — is a request to `s`; no command of the other
store is ever issued (any transport). -/
theorem requests_same_store {σ : Type} (x : Xport σ) (dev : σ) (s : Store) (id : Nat) (res? : Option Nat) (fuel : Nat) :
    (∀ e ∈ (getSdrData consts xconsts variantRead (traced x) s (dev, []) id res?).1.2, e.1.store? = some s) ∧
    (∀ e ∈ (sdrList consts xconsts variantRead (traced x) s fuel (dev, [])).1.2, e.1.store? = some s) := by
  constructor
  · obtain ⟨ext, h1, h2⟩ := getSdrData_ext x variantRead s (dev, []) id res?
    rw [call_sites] at h2
    have h1' : (getSdrData consts xconsts variantRead (traced x) s (dev, []) id res?).1.2 = ext := by simpa using h1
    rw [h1']
    exact h2.same_store
  · obtain ⟨ext, h1, h2⟩ := sdrList_ext x variantRead s fuel (dev, [])
    rw [call_sites] at h2
    have h1' : (sdrList consts xconsts variantRead (traced x) s fuel (dev, [])).1.2 = ext := by simpa using h1
    rw [h1']
    exact h2.same_store

/-- **Listing, exact or error.**  A listing that returns, returns every record of the store exactly
once, in repository order, whatever the limit and the faults; otherwise it raises RetryError or
CompletionCodeError (given fuel for at least as many records as the store holds). -/
theorem list_exact_or_error (cfg : Cfg) (hw : cfg.wf) (s : Store) (fuel : Nat) (st : State)
    (h1 : 1 ≤ fuel) (hfuel : (cfg.recs s).length ≤ fuel) :
    match (sdrList consts xconsts variantRead (step cfg) s fuel st).2 with
    | .ok l => l = cfg.recs s
    | .retryError => True
    | .ccError _ => True
    | _ => False := by
  obtain ⟨i1, i2⟩ := sdrList_sound hw variantRead rfl s fuel st
  have ha := i2 h1 hfuel
  rcases h : sdrList consts xconsts variantRead (step cfg) s fuel st with ⟨st', o⟩
  have h' : sdrList K XK variantRead (step cfg) s fuel st = (st', o) := h
  rw [h'] at ha i1
  cases o with
  | ok l => exact i1 l rfl
  | retryError => trivial
  | ccError c => trivial
  | _ => simp [Allowed] at ha

/-- The iteration bound of the model (Python's `while True` has none) never ends a listing of a
well-formed store when it allows one iteration per record: the chain reaches FFFFh first. -/
theorem fuel_suffices (cfg : Cfg) (hw : cfg.wf) (s : Store) (fuel : Nat) (st : State)
    (h1 : 1 ≤ fuel) (hfuel : (cfg.recs s).length ≤ fuel) :
    (sdrList consts xconsts variantRead (step cfg) s fuel st).2 ≠ .pyError "Hang" := by
  have := list_exact_or_error cfg hw s fuel st h1 hfuel
  intro h
  rw [h] at this
  exact this

/-- with any fuel at all, a listing that returns is the store -/
theorem list_exact_any_fuel (cfg : Cfg) (hw : cfg.wf) (s : Store) (fuel : Nat) (st : State) (l : List (List Nat))
    (h : (sdrList consts xconsts variantRead (step cfg) s fuel st).2 = .ok l) : l = cfg.recs s :=
  (sdrList_sound hw variantRead rfl s fuel st).1 l h

/-- **Listing is complete.**  With no transients, at most two cancellations to come, limit ≥ 5 and
every record within the budget, the listing returns all records, once each, in repository order,
ending at FFFFh — for every such limit. -/
theorem list_complete (cfg : Cfg) (hw : cfg.wf) (hquiet : cfg.transients = []) (s : Store) (st : State)
    (hcancel : pending cfg st ≤ 2) (h5 : 5 ≤ cfg.limit) (hne : cfg.recs s ≠ [])
    (hfit : ∀ rec ∈ cfg.recs s, readsNeeded cfg.limit rec.length ≤ xconsts.dataRetry - 1)
    (fuel : Nat) (hfuel : (cfg.recs s).length ≤ fuel) :
    (sdrList consts xconsts variantRead (step cfg) s fuel st).2 = .ok (cfg.recs s) := by
  obtain ⟨st', h⟩ := sdrList_complete hw hquiet variantRead rfl s (call_sites s) h5 hne hfit fuel hfuel st hcancel
  have h' : sdrList consts xconsts variantRead (step cfg) s fuel st = (st', .ok (cfg.recs s)) := h
  rw [h']

/-! ### non-vacuity and tightness -/

/-- a record: id, version 51h, type, payload `n, n-1, …, 1` -/
def mkRec (id type n : Nat) : List Nat := [id % 256, id / 256, 0x51, type, n] ++ (List.range n).map (fun i => (n - i) % 256)

def recA : List Nat := mkRec 0 0x14 0          -- 5 bytes, id 0000h
def recB : List Nat := mkRec 0xFFFE 0xC1 25    -- 30 bytes, id FFFEh
def recC : List Nat := mkRec 0x0102 0x08 59    -- 64 bytes
def recD : List Nat := mkRec 7 0x09 205        -- 210 bytes

/-- repository A, B, C; device store C, B; reads of at most 16 bytes; reservation checked on every
read; reservations cancelled before requests 4 and 9; request 2 times out -/
def demo : Cfg := ⟨[recA, recB, recC], [recC, recB], 16, true, [4, 9], [(2, 0xC3)]⟩

theorem demo_wf : demo.wf :=
  ⟨by simp [demo, recsWf, recWf, recId, recA, recB, recC, mkRec, lastRecord, Bytes]; decide,
   by simp [demo, recsWf, recWf, recId, recB, recC, mkRec, lastRecord, Bytes]; decide,
   by simp [demo, ccTimeout]⟩

def st0 : State := State.init 0xFFFF 41

example : (getSdrData consts xconsts variantRead (step demo) .repo st0 0xFFFE none).2 = .ok (0x0102, recB) := by decide
example : (getSdrData consts xconsts variantRead (step demo) .dev st0 0 none).2 = .ok (0xFFFE, recC) := by decide
example : (sdrList consts xconsts variantRead (step demo) .repo 3 st0).2 = .ok [recA, recB, recC] := by decide
example : (sdrList consts xconsts variantRead (step demo) .dev 2 st0).2 = .ok [recC, recB] := by decide
/-- a record that is not there: the device's CBh is raised -/
example : (getSdrData consts xconsts variantRead (step demo) .repo st0 0x7777 none).2 = .ccError 0xCB := by decide
/-- a limit below the header size: CAh is raised, nothing is returned -/
example : (getSdrData consts xconsts variantRead (step { demo with limit := 4 }) .repo st0 0 none).2 = .ccError 0xCA := by decide

/-- the hypotheses of `completes_within_budget` / `list_complete` are satisfiable -/
def quiet : Cfg := { demo with transients := [] }
example : quiet.wf ∧ quiet.transients = [] ∧ pending quiet st0 ≤ 2 ∧ 5 ≤ quiet.limit ∧
    ∀ rec ∈ quiet.recs .repo, readsNeeded quiet.limit rec.length ≤ xconsts.dataRetry - 1 := by
  refine ⟨⟨demo_wf.repo, demo_wf.dev, by simp [quiet]⟩, rfl, by decide, by decide, by decide⟩

/-- the bound is tight: 210 bytes at limit 12 need 2 refusals + 18 chunks = 20 > 19 iterations … -/
example : readsNeeded 12 210 = 20 := by decide +kernel
example : (getSdrData consts xconsts variantRead (step ⟨[recD], [], 12, false, [], []⟩) .repo st0 0 none).2
    = .retryError := by decide +kernel
/-- … while 209 bytes complete -/
example : (getSdrData consts xconsts variantRead (step ⟨[recD.take 209 |>.set 4 204], [], 12, false, [], []⟩) .repo st0 0 none).2
    = .ok (0xFFFF, recD.take 209 |>.set 4 204) := by decide +kernel
/-- two cancellations in the middle of one renewal are survived, a third one is not (chunk budget 5) -/
example : (getSdrData consts xconsts variantRead (step ⟨[recB], [], 16, false, [3, 5], []⟩) .repo st0 0 none).2
    = .ok (0xFFFF, recB) := by decide
example : (getSdrData consts xconsts variantRead (step ⟨[recB], [], 16, false, [3, 5, 7, 9], []⟩) .repo st0 0 none).2
    = .retryError := by decide

/-! ### the pinned tree (816fdee): the two defects, as theorems about the as-shipped variants -/

/-- As shipped, the CAh branch fell through to the append: after the refused 20-byte read the
5 header bytes are appended again, the 16-byte read that follows starts at offset 10, and the
result has the right length and next id but is not the record. -/
theorem asShipped_duplicates_after_refusal :
    ∃ d, (getSdrData consts xconsts ⟨true, .repo, .dev, true⟩ (step ⟨[recB], [], 16, false, [], []⟩) .repo st0 0 none).2
        = .ok (0xFFFF, d) ∧ d.length = recB.length ∧ d ≠ recB ∧ d.take 10 = recB.take 5 ++ recB.take 5 := by
  refine ⟨recB.take 5 ++ recB.take 5 ++ (recB.drop 10).take 16 ++ (recB.drop 26).take 4, ?_, ?_, ?_, ?_⟩ <;> decide

/-- As shipped, `Sdr._get_sdr_chunk` renewed with Reserve *Device* SDR Repository: after one
cancellation the repository reservation is never valid again and the read ends in RetryError; the
exchange after the cancelled Get is the other store's Reserve. -/
theorem asShipped_renews_wrong_store :
    (getSdrData consts xconsts ⟨false, .dev, .dev, true⟩ (step ⟨[recB], [], 255, false, [2], []⟩) .repo st0 0 none).2
      = .retryError ∧
    ∃ a, (getSdrData consts xconsts ⟨false, .dev, .dev, true⟩ (traced (step ⟨[recB], [], 255, false, [2], []⟩)) .repo
      (st0, []) 0 none).1.2[3]? = some (.reserve .dev, a) := by
  refine ⟨by decide, ⟨.reserved 42, by decide⟩⟩

/-- the same device and cancellation with the repaired call site: the read completes -/
example : (getSdrData consts xconsts variantRead (step ⟨[recB], [], 255, false, [2], []⟩) .repo st0 0 none).2
    = .ok (0xFFFF, recB) := by decide

end PyIpmi.Props.C11
