import PyIpmi.Model.Md5
import PyIpmi.Model.Session
import PyIpmi.Spec.BmcSession
namespace PyIpmi.Props.C06
theorem placeholder : PyIpmi.Session.prefAsShipped ≠ PyIpmi.Session.prefIntended := by decide
end PyIpmi.Props.C06
