/-
  C06 — LAN session establishment and sequence numbering follow the IPMI v1.5 protocol.

  Model: `PyIpmi.Session` (Model/Session.lean) mirrors `Rmcp.establish_session`, the retry loop of
         `_send_and_receive` (every attempt packs anew), `send_and_receive_raw`, `close_session`;
         the preference tuple of `get_max_auth_type`, the set of types `IpmiMsg.pack` implements and
         the capability bits are GENERATED (Gen/RmcpFormats.lean: `authPreference`, `packAuth`, `capsBits`).
  Spec:  `PyIpmi.Spec.BmcSession` — reference IPMI v1.5 BMC that validates every datagram (`step`), its
         monitor half for datagrams that get lost (`stepLost`), the BMC behind a lossy network (`lossy`).
  `md5` is any digest function with 16-byte output.  "Conforming" (`Setup`): BMC and console configured
  with the same user / password / privilege level, 32-bit ids and sequence numbers, a 16-byte challenge,
  and the BMC offers at least one authentication type the library implements.  All statements are for
  every capability byte, every temporary / final session id, every assigned initial sequence number
  (0xFFFFFFFE / 0xFFFFFFFF included), every user name / password up to 16 bytes, every privilege level
  below 16, every number `n` of requests, every `max_retries`.

  handshake
  * `handshake_order`            against ANY peer (arbitrary answers, garbage, silence): one ping, then Get Channel
                                 Authentication Capabilities, Get Session Challenge, Activate Session, Set Session
                                 Privilege Level, in this order, each at most max_retries+1 times, none before its
                                 predecessor; success ⇒ all were sent
  * `handshake_order_no_retry`   max_retries = 0: the kinds are a prefix of the five; a proper prefix ⇒ error outcome
  * `handshake_conforming`       against any peer that relays a conforming BMC and loses ≤ R ≤ max_retries datagrams per
                                 request: success; the first two requests are outside any session (auth none, id 0,
                                 seq 0) and name the configured privilege / the chosen type and the configured user;
                                 Activate Session goes under the TEMPORARY session id with the chosen type and a
                                 valid auth code and echoes the challenge, the configured privilege level and the
                                 (pinned) random outbound sequence number; Set Session Privilege Level opens the chain
  * `handshake_bmc`              the BMC itself: exactly the five datagrams
  authentication type
  * `auth_strength_order`        implemented ∩ strength order = MD5 > password > none (from the generated dispatch)
  * `auth_choice`                for EVERY capability byte the generated `get_max_auth_type` returns the strongest
                                 offered type that is implemented; an unimplemented one only if none is
  * `auth_choice_cases`          spelled out: MD5 if offered, else password if offered, else none if offered
  * `auth_choice_all_subsets`    the same, checked by evaluation for all 64 support bytes (32 subsets × reserved bit 3)
  * `auth_choice_asShipped_counterexample`  the pinned order (md5, md2, …) picks MD2 for {MD2, password}
  * `chosen_type_on_every_datagram`  for EVERY user name / password up to 16 bytes, the EMPTY ones included: Get
                                 Session Challenge, Activate Session (header and body) and every datagram after it carry
                                 the type `wanted caps` - a function of the capability byte alone
  * `anonymous_downgrade_counterexample`  a console that takes "none" when it has neither user name nor password asks
                                 for none against {none, MD5}; it deviates on exactly the support bytes with none and
                                 MD5 / password, for the empty credentials only
  * `auth_choice_none`           `get_max_auth_type` returns None exactly when the BMC offers none of the five types
  * `auth_none_offered_no_request`  then (intended `noAuthRaises`) the handshake ends after the capabilities exchange:
                                 no Get Session Challenge — for no type at all —, outcome NotSupportedError, BMC not
                                 bothered; for any relaying peer losing ≤ max_retries datagrams per request
  * `auth_none_offered_asShipped_counterexample`  the pinned tree asks for a challenge with type "none", which the BMC
                                 did not offer: the reference BMC flags `auth-type-not-offered`
  sequence numbers, requests, close
  * `seq_step`                   `increment_sequence_number` = the specification's successor for all 32-bit values:
                                 +1, 0xFFFFFFFE ↦ 0xFFFFFFFF ↦ 1, never 0, stays 32-bit; the first value is inside
                                 the acceptance window of the assigned one
  * `bmc_never_objects`          ∀ n: the reference BMC run over establish ++ n requests ++ close answers every
                                 datagram (no protocol error), ends closed; n + 6 datagrams
  * `session_datagrams`          ∀ n: the datagrams after Activate Session carry the chosen type, the granted id, a
                                 valid auth code and sequence numbers nextSeq^(i+1)(initial), i = 0 … n+1
  * `close_names_sid`            the last datagram is Close Session for the granted id; the session object ends
                                 de-activated
  * `close_again_sends_nothing`  closing a de-activated session sends nothing
  * `close_without_session_returns`  ANY peer (intended `closeGuard`): without a session object, or with one that is not
                                 activated, close_session() sends nothing, returns, leaves the peer alone
  * `close_after_failed_ping`    ANY peer: the ping fails (silence, not a pong) ⇒ the handshake fails and the clean-up
                                 close sends nothing and returns
  * `close_after_failed_open`    for every fault position (Get Channel Authentication Capabilities, Get Session Challenge,
                                 Activate Session, Set Session Privilege Level), fault = silence for the whole retry budget
                                 or an error completion code, any relaying peer: the handshake fails, the clean-up close
                                 returns normally (no Python error), the BMC is left WITHOUT an open session and has
                                 flagged nothing; nothing is sent when no session was granted (positions 0–2), Close
                                 Session for the granted id when one was (position 3)
  * `close_after_failed_open_bmc`  the same for the reference BMC with the fault plan `faultAt` (Spec.BmcSession.faulty)
  * `close_after_failed_open_asShipped_counterexample`  the pinned tree (`closeGuard = false`): after a handshake that
                                 failed before the session object was attached the clean-up close raises AttributeError
  * `close_from_live`            from ANY state in which the session is up (after the handshake, after requests, after a
                                 failed Set Session Privilege Level or request) close sends Close Session for the granted
                                 id with the next sequence number and the BMC closes
  * `retransmissions_take_next_seq`   ∀ loss patterns with ≤ max_retries losses in a row: the life cycle completes and
                                 ALL in-session datagrams transmitted (retransmissions included) form one chain of
                                 consecutive sequence numbers; the monitor over the wire flags none
  * `lifecycle_within_budget`    the general statement (any relaying peer) from which the two above follow
  * `monitor_sees_all`           for any relaying peer, any configuration, any outcome: the monitor state is the
                                 monitor run over exactly the datagrams listed as sent
  objects that have been used before (the caller's Session object and the interface outlive a session)
  * `Fresh cfg c0`               hypothesis of the theorems above: `establish_session` clears the session object
                                 (intended `resetSession`) — then `c0` is ARBITRARY —, or the object is clean (new)
  * `establish_forgets_history`  intended: the handshake does not depend on sid / sequence number / activated of the object
  * `lifecycle_after_any_history`  after ANY history of calls (`runOps`: establish / requests / close with any
                                 configurations and outcomes, against ANY peer) a new session against a conforming BMC:
                                 the pre-session datagrams have the null header, Activate Session the null sequence
                                 number and the temporary id of THIS handshake, the in-session chain starts from the
                                 initial number assigned in THIS handshake under the id granted in THIS handshake
  * `close_after_failed_open_any_history`  after ANY history: a handshake that fails at step j, then the clean-up
                                 close: nothing is sent unless the BMC granted a session in THIS handshake (no Close
                                 Session for a temporary id, none for an earlier session's id), else Close Session for it
  * `reestablish_asShipped_counterexample`  the pinned tree: session lost, new handshake refused at Activate Session
                                 (81h) — Activate Session carries (and consumes) a number of the dead session, the
                                 clean-up close sends Close Session for the temporary id and raises
  * `reestablish_after_close_asShipped_counterexample`  the pinned tree after a clean close: stale number on Activate
  keep-alive threads (`Model/SessionKeepAlive.lean`, intended `stopFirst`)
  * `keepalive_at_most_one`      after any history of establish / close calls at most one thread exists, the one the
                                 remembered stopper stops
  * `keepalive_none_after_close` none after `close_session`: nothing can follow Close Session
  * `keepalive_none_during_handshake`  none while a further handshake runs
  * `keepalive_asShipped_counterexample`  the pinned tree: establish, establish, close leaves the first thread running
  * `credential_form_intended`  whatever FORM user name and password are configured in (None, str, bytes), the two
                                16-byte fields are those of the bytes they stand for; no Python error
  * `credential_form_fields`    … and for up to 16 bytes both fields are exactly 16 bytes, the bytes first, NUL after
  * `credential_form_asShipped_counterexample`  the pinned tree: Session() untouched against MD5 → AttributeError
                                after three datagrams; a bytes user name → TypeError after two
-/
import PyIpmi.Lemmas.SessionRun
import PyIpmi.Lemmas.SessionFault
import PyIpmi.Lemmas.SessionAuth
import PyIpmi.Lemmas.SessionOrder
import PyIpmi.Lemmas.SessionMonitor
import PyIpmi.Lemmas.SessionWire
import PyIpmi.Lemmas.SessionHistory
import PyIpmi.Model.SessionKeepAlive
import PyIpmi.Model.SessionCred
import PyIpmi.Model.Md5
import PyIpmi.Model.SessionShape
import PyIpmi.Gen.SessionShape
namespace PyIpmi.Props.C06
open PyIpmi PyIpmi.RmcpWire PyIpmi.Session PyIpmi.Gen.RmcpFormats PyIpmi.Spec.Lan PyIpmi.Spec.BmcSession

/-- the conforming case -/
structure Setup (b : BmcCfg) (cfg : Cfg) : Prop where
  conf : Conforming b cfg
  /-- the console uses the preference tuple generated from `get_max_auth_type` -/
  pref : cfg.pref = authPreference
  /-- the BMC offers MD5, straight password or none -/
  common : offered b.caps 2 = true ∨ offered b.caps 4 = true ∨ offered b.caps 0 = true

/-- the authentication type the property demands: strongest offered among the implemented ones -/
def wanted (caps : Nat) : Option Nat := strongest caps implOrder

/-- the five steps of the handshake -/
def order : List Kind := [.ping, .authCap, .challenge, .activate, .setPriv]

/-! ### handshake -/

theorem handshake_order {σ : Type} (md5 : List Nat → List Nat) (P : σ → List Nat → σ × Option (List Nat))
    (cfg : Cfg) (p0 : σ) (c0 : Client) :
    ∃ n1 n2 n3 n4, n1 ≤ cfg.maxRetries + 1 ∧ n2 ≤ cfg.maxRetries + 1 ∧ n3 ≤ cfg.maxRetries + 1 ∧
      n4 ≤ cfg.maxRetries + 1 ∧ (1 ≤ n2 → 1 ≤ n1) ∧ (1 ≤ n3 → 1 ≤ n2) ∧ (1 ≤ n4 → 1 ≤ n3) ∧
      kinds (establish md5 P cfg p0 c0).sent =
        [.ping] ++ List.replicate n1 .authCap ++ List.replicate n2 .challenge ++ List.replicate n3 .activate ++
          List.replicate n4 .setPriv ∧
      ((establish md5 P cfg p0 c0).outcome.isOk = true → 1 ≤ n4 ∧ (establish md5 P cfg p0 c0).outcome = .ok []) :=
  establish_order md5 P cfg p0 (resetSess cfg c0)

theorem handshake_order_no_retry {σ : Type} (md5 : List Nat → List Nat) (P : σ → List Nat → σ × Option (List Nat))
    (cfg : Cfg) (p0 : σ) (c0 : Client) (hR : cfg.maxRetries = 0) :
    kinds (establish md5 P cfg p0 c0).sent <+: order ∧
    ((establish md5 P cfg p0 c0).outcome.isOk = true →
      kinds (establish md5 P cfg p0 c0).sent = order ∧ (establish md5 P cfg p0 c0).outcome = .ok []) ∧
    (kinds (establish md5 P cfg p0 c0).sent ≠ order → (establish md5 P cfg p0 c0).outcome.isOk = false) := by
  obtain ⟨n1, n2, n3, n4, h1, h2, h3, h4, g2, g3, g4, hk, hok⟩ := handshake_order md5 P cfg p0 c0
  rw [hR] at h1 h2 h3 h4
  have key : ∀ (ok4 : 1 ≤ n4), kinds (establish md5 P cfg p0 c0).sent = order := by
    intro ok4
    have e4 : n4 = 1 := by omega
    have e3 : n3 = 1 := by omega
    have e2 : n2 = 1 := by omega
    have e1 : n1 = 1 := by omega
    rw [hk, e1, e2, e3, e4]; rfl
  refine ⟨?_, fun h => ⟨key (hok h).1, (hok h).2⟩, ?_⟩
  · rw [hk]
    have c1 : n1 = 0 ∨ n1 = 1 := by omega
    have c2 : n2 = 0 ∨ n2 = 1 := by omega
    have c3 : n3 = 0 ∨ n3 = 1 := by omega
    have c4 : n4 = 0 ∨ n4 = 1 := by omega
    rcases c1 with e1 | e1 <;> rcases c2 with e2 | e2 <;> rcases c3 with e3 | e3 <;> rcases c4 with e4 | e4 <;>
      subst e1 e2 e3 e4 <;> first | omega | (simp [order, List.IsPrefix])
  · intro hne
    cases h : (establish md5 P cfg p0 c0).outcome.isOk
    · rfl
    · exact absurd (key (hok h).1) hne

theorem handshake_conforming {σ : Type} (md5 : List Nat → List Nat) (hmd5 : ∀ x, (md5 x).length = 16)
    (b : BmcCfg) (cfg : Cfg) (su : Setup b cfg)
    (P : σ → List Nat → σ × Option (List Nat)) (π : σ → BmcState) (lostAt : σ → Bool)
    (rel : Relay md5 b P π lostAt) (R : Nat) (hR : R ≤ cfg.maxRetries) (s0 : σ) (c0 : Client)
    (hph : (π s0).phase = .start) (hl0 : lostAt s0 = false) (hw : ∀ d, Within P lostAt R 4 (P s0 d).1)
    (hcp : c0.s.pw = cfg.pw) (hfr : Fresh cfg c0) :
    ∃ a ds1 ds2 ds3 ds4, wanted b.caps = some a ∧
      Handshake md5 b cfg R a (establish md5 P cfg s0 c0).sent ds1 ds2 ds3 ds4 ∧
      (establish md5 P cfg s0 c0).outcome = .ok [] ∧
      (π (establish md5 P cfg s0 c0).peer).bad = (π s0).bad := by
  obtain ⟨a, h1, h2, h3, h4⟩ := chosen_of_common b.caps su.common
  obtain ⟨ds1, ds2, ds3, ds4, g1, g2, _, g4, _⟩ := establish_run hmd5 su.conf rel R hR 0 s0 (resetSess cfg c0) a hl0 hw hph
    (by rw [su.pref]; exact h4) h2 h3 (by rw [resetSess_pw]; exact hcp) (resetSess_fresh hfr).1 (resetSess_fresh hfr).2
  exact ⟨a, ds1, ds2, ds3, ds4, h1, g1, g2, g4⟩

theorem handshake_bmc (md5 : List Nat → List Nat) (hmd5 : ∀ x, (md5 x).length = 16)
    (b : BmcCfg) (cfg : Cfg) (su : Setup b cfg) (c0 : Client) (hcp : c0.s.pw = cfg.pw) (hfr : Fresh cfg c0) :
    ∃ a d1 d2 d3 d4, wanted b.caps = some a ∧
      (establish md5 (peer md5 b) cfg init c0).sent =
        [(.ping, pingD), (.authCap, d1), (.challenge, d2), (.activate, d3), (.setPriv, d4)] ∧
      (establish md5 (peer md5 b) cfg init c0).outcome = .ok [] ∧
      OutsideSession d1 ∧ Carries d1 56 [0x0e, cfg.priv] ∧
      OutsideSession d2 ∧ Carries d2 57 (a :: pad16 cfg.user) ∧
      (∃ p, parseLan d3 = some p ∧ p.auth = a ∧ p.sid = b.tempSid ∧ p.seq = 0 ∧ codeOk md5 cfg.pw p = true) ∧
      Carries d3 58 ([a, cfg.priv] ++ b.challenge ++ leBytes 4 cfg.outSeq) ∧
      SessionPacket md5 cfg.pw a b.sid (nextSeq b.inSeq0) d4 ∧ Carries d4 59 [cfg.priv] := by
  obtain ⟨a, ds1, ds2, ds3, ds4, h1, hs, h2, _⟩ := handshake_conforming md5 hmd5 b cfg su (peer md5 b) id
    (fun _ => false) relay_self 0 (Nat.zero_le _) init c0 rfl rfl (fun _ => within_self 0 4 _) hcp hfr
  have one : ∀ (l : List (List Nat)), 1 ≤ l.length ∧ l.length ≤ 0 + 1 → ∃ d, l = [d] := by
    intro l hl
    match l, hl with
    | [d], _ => exact ⟨d, rfl⟩
    | [], h => simp at h
    | _ :: _ :: _, h => simp at h <;> omega
  obtain ⟨d1, e1⟩ := one ds1 hs.len1
  obtain ⟨d2, e2⟩ := one ds2 hs.len2
  obtain ⟨d3, e3⟩ := one ds3 hs.len3
  obtain ⟨d4, e4⟩ := one ds4 hs.len4
  subst e1 e2 e3 e4
  refine ⟨a, d1, d2, d3, d4, h1, by rw [hs.sent]; rfl, h2, (hs.authCap d1 (by simp)).1, (hs.authCap d1 (by simp)).2,
    (hs.challenge d2 (by simp)).1, (hs.challenge d2 (by simp)).2, (hs.activate d3 (by simp)).1,
    (hs.activate d3 (by simp)).2, hs.setPrivChain.1, hs.setPriv d4 (by simp)⟩

/-! ### authentication type -/


/-- The session methods of `pyipmi/interfaces/rmcp.py`, read statement by statement from the AST of today's
working tree (`Gen/SessionShape.lean`), are the ones the model `Session.establish` / `close` mirrors
(`Model/SessionShape.lean`): order of the five handshake messages, no session object until the challenge has
been received, authentication type chosen before the challenge, temporary id before and granted id, initial
sequence number and `activated` after Activate Session, the fields each request takes its values from, Close
Session naming `self._session.sid`, the keep-alive callable.  Re-ordering a step or taking a value from another
place regenerates the left-hand sides and this stops building.  `_get_session_challenge` has two accepted
shapes: the intended one (fixes/C06-7) and the as-shipped one, which differ in the FORM of user name they accept
only (`Model/SessionCred.lean`; which one the tree has is probed by the harness). -/
theorem handshake_shape :
    PyIpmi.Gen.SessionShape.establishSession = PyIpmi.Session.Shape.establishSession ∧
    PyIpmi.Gen.SessionShape.closeSession = PyIpmi.Session.Shape.closeSession ∧
    PyIpmi.Gen.SessionShape.getChannelAuthCap = PyIpmi.Session.Shape.getChannelAuthCap ∧
    (PyIpmi.Gen.SessionShape.getSessionChallenge = PyIpmi.Session.Shape.getSessionChallenge ∨
     PyIpmi.Gen.SessionShape.getSessionChallenge = PyIpmi.Session.Shape.getSessionChallengeAsShipped) ∧
    PyIpmi.Gen.SessionShape.activateSession = PyIpmi.Session.Shape.activateSession ∧
    PyIpmi.Gen.SessionShape.setSessionPrivilegeLevel = PyIpmi.Session.Shape.setSessionPrivilegeLevel ∧
    PyIpmi.Gen.SessionShape.getDeviceId = PyIpmi.Session.Shape.getDeviceId :=
  ⟨rfl, rfl, rfl, by first | exact Or.inl rfl | exact Or.inr rfl, rfl, rfl, rfl⟩

theorem auth_strength_order : implemented = [0, 4, 2] ∧ implOrder = [2, 4, 0] := by decide

theorem auth_choice (caps : Nat) :
    match wanted caps with
    | some a => chooseAuth authPreference (caps % 64) = some a
    | none => ∀ a, chooseAuth authPreference (caps % 64) = some a → a ∉ implemented := by
  have hg := chooseAuth_generated caps
  unfold wanted
  cases h : strongest caps implOrder with
  | some a => simp only; rw [hg, h]
  | none =>
    simp only
    intro a ha
    rw [hg, h] at ha
    have := (strongest_mem caps [1, 5] a ha).1
    rw [implemented_iff]
    simp at this
    omega

theorem auth_choice_cases (caps : Nat) :
    (offered caps 2 = true → chooseAuth authPreference (caps % 64) = some 2) ∧
    (offered caps 2 = false → offered caps 4 = true → chooseAuth authPreference (caps % 64) = some 4) ∧
    (offered caps 2 = false → offered caps 4 = false → offered caps 0 = true →
      chooseAuth authPreference (caps % 64) = some 0) := by
  have hg := chooseAuth_generated caps
  rw [implOrder_eq] at hg
  refine ⟨fun h2 => ?_, fun h2 h4 => ?_, fun h2 h4 h0 => ?_⟩ <;> rw [hg] <;> simp [strongest, *]

theorem auth_choice_all_subsets :
    (List.range 64).all (fun caps =>
      match wanted caps with
      | some a => chooseAuth authPreference caps == some a
      | none => (chooseAuth authPreference caps).all (fun a => !implemented.contains a)) = true := by
  decide

theorem auth_choice_asShipped_counterexample :
    chooseAuth prefAsShipped 0x12 = some 1 ∧ wanted 0x12 = some 4 ∧ 1 ∉ implemented := by decide

/-- `get_max_auth_type()` returns `None` exactly when the BMC offers none of the five types -/
theorem auth_choice_none (caps : Nat) :
    chooseAuth authPreference (caps % 64) = none ↔
      (offered caps 0 = false ∧ offered caps 1 = false ∧ offered caps 2 = false ∧ offered caps 4 = false ∧
        offered caps 5 = false) := by
  rw [chooseAuth_generated, implOrder_eq]
  cases h0 : offered caps 0 <;> cases h1 : offered caps 1 <;> cases h2 : offered caps 2 <;>
    cases h4 : offered caps 4 <;> cases h5 : offered caps 5 <;> simp [strongest, *]

/-- The BMC offers NO authentication type.  Then (as intended: `noAuthRaises`) nothing is asked for:
the handshake consists of the ping and the capabilities exchange, no Get Session Challenge is sent —
there is no type it could name that the BMC offers —, the outcome is NotSupportedError, no session
object is attached, and the BMC (in phase `capsSent`) has flagged nothing. -/
theorem auth_none_offered_no_request {σ : Type} (md5 : List Nat → List Nat) (hmd5 : ∀ x, (md5 x).length = 16)
    (b : BmcCfg) (cfg : Cfg) (conf : Conforming b cfg) (hpref : cfg.pref = authPreference) (hn : cfg.noAuthRaises = true)
    (hnone : offered b.caps 0 = false ∧ offered b.caps 1 = false ∧ offered b.caps 2 = false ∧ offered b.caps 4 = false ∧
      offered b.caps 5 = false)
    (P : σ → List Nat → σ × Option (List Nat)) (π : σ → BmcState) (lostAt : σ → Bool)
    (rel : Relay md5 b P π lostAt) (R : Nat) (hR : R ≤ cfg.maxRetries) (s0 : σ) (c0 : Client)
    (hph : (π s0).phase = .start) (hl0 : lostAt s0 = false) (hw : ∀ d, Within P lostAt R 1 (P s0 d).1) :
    ∃ ds1, (establish md5 P cfg s0 c0).sent = (.ping, pingD) :: tagAll .authCap ds1 ∧
      (1 ≤ ds1.length ∧ ds1.length ≤ R + 1) ∧ (∀ d ∈ ds1, OutsideSession d ∧ Carries d 56 [0x0e, cfg.priv]) ∧
      Kind.challenge ∉ kinds (establish md5 P cfg s0 c0).sent ∧
      (establish md5 P cfg s0 c0).outcome = .notSupported ∧
      (π (establish md5 P cfg s0 c0).peer).phase = .capsSent ∧
      (π (establish md5 P cfg s0 c0).peer).bad = (π s0).bad ∧
      (establish md5 P cfg s0 c0).client.attached = false := by
  obtain ⟨ds1, h1, h2, h3, h4, h5, h6, h7⟩ := establish_noauth hmd5 conf rel hn R hR s0 (resetSess cfg c0) hl0 hph hw
    (by rw [hpref]; exact (auth_choice_none b.caps).mpr hnone)
  refine ⟨ds1, h1, h2, h3, ?_, h4, h5, h6, h7⟩
  rw [establish, h1]
  simp [kinds, tagAll]

/-! ### sequence numbers -/

theorem seq_step (s : Nat) (h : s < 4294967296) :
    incSeq s = nextSeq s ∧ nextSeq s ≠ 0 ∧ nextSeq s < 4294967296 ∧ (s < 0xFFFFFFFF → nextSeq s = s + 1) ∧
    nextSeq 0xFFFFFFFE = 0xFFFFFFFF ∧ nextSeq 0xFFFFFFFF = 1 ∧ inWindow s (nextSeq s) = true := by
  refine ⟨incSeq_eq_nextSeq s h, nextSeq_ne_zero s, nextSeq_lt s h, ?_, by decide, by decide, inWindow_next s⟩
  intro hs
  unfold nextSeq
  split <;> omega

/-! ### the life cycle -/

theorem lifecycle_within_budget {σ : Type} (md5 : List Nat → List Nat) (hmd5 : ∀ x, (md5 x).length = 16)
    (b : BmcCfg) (cfg : Cfg) (su : Setup b cfg)
    (P : σ → List Nat → σ × Option (List Nat)) (π : σ → BmcState) (lostAt : σ → Bool)
    (rel : Relay md5 b P π lostAt) (R : Nat) (hR : R ≤ cfg.maxRetries) (n : Nat) (s0 : σ) (c0 : Client)
    (hph : (π s0).phase = .start) (hl0 : lostAt s0 = false) (hw : ∀ d, Within P lostAt R (n + 5) (P s0 d).1)
    (hcp : c0.s.pw = cfg.pw) (hfr : Fresh cfg c0) :
    ∃ a hs ds1 ds2 ds3 ds4 dsr dsc, wanted b.caps = some a ∧ Handshake md5 b cfg R a hs ds1 ds2 ds3 ds4 ∧
      (lifecycle md5 P cfg n s0 c0).sent = hs ++ tagAll .request dsr ++ tagAll .close dsc ∧
      (lifecycle md5 P cfg n s0 c0).outcome = .ok [] ∧
      (π (lifecycle md5 P cfg n s0 c0).peer).phase = .closed ∧
      (π (lifecycle md5 P cfg n s0 c0).peer).bad = (π s0).bad ∧
      (lifecycle md5 P cfg n s0 c0).client.s.activated = false ∧
      Chain md5 cfg.pw a b.sid b.inSeq0 (ds4 ++ dsr ++ dsc) ∧
      (n ≤ dsr.length ∧ dsr.length ≤ n * (R + 1)) ∧ (1 ≤ dsc.length ∧ dsc.length ≤ R + 1) ∧
      (∀ d ∈ dsr, Carries d 1 []) ∧ (∀ d ∈ dsc, Carries d 60 (leBytes 4 b.sid)) := by
  obtain ⟨a, h1, h2, h3, h4⟩ := chosen_of_common b.caps su.common
  obtain ⟨hs, ds1, ds2, ds3, ds4, dsr, dsc, g⟩ := lifecycle_run hmd5 su.conf rel R hR n s0 c0 a hl0 hw hph
    (by rw [su.pref]; exact h4) h2 h3 hcp hfr
  exact ⟨a, hs, ds1, ds2, ds3, ds4, dsr, dsc, h1, g⟩

theorem monitor_sees_all {σ : Type} (md5 : List Nat → List Nat) (b : BmcCfg) (cfg : Cfg)
    (P : σ → List Nat → σ × Option (List Nat)) (π : σ → BmcState) (lostAt : σ → Bool)
    (rel : Relay md5 b P π lostAt) (n : Nat) (s0 : σ) (c0 : Client) :
    ∃ w, w.map Prod.snd = (lifecycle md5 P cfg n s0 c0).sent.map Prod.snd ∧
      (∀ x ∈ w, x.1 = true → ∃ s, lostAt s = true) ∧
      π (lifecycle md5 P cfg n s0 c0).peer = runWire md5 b (π s0) w := by
  obtain ⟨w, hf, he⟩ := lifecycle_wire rel cfg n s0 c0
  exact ⟨w, hf.1, hf.2, he⟩

theorem bmc_never_objects (md5 : List Nat → List Nat) (hmd5 : ∀ x, (md5 x).length = 16)
    (b : BmcCfg) (cfg : Cfg) (su : Setup b cfg) (c0 : Client) (hcp : c0.s.pw = cfg.pw) (hfr : Fresh cfg c0)
    (n : Nat) :
    (lifecycle md5 (peer md5 b) cfg n init c0).outcome = .ok [] ∧
    (lifecycle md5 (peer md5 b) cfg n init c0).sent.length = n + 6 ∧
    kinds (lifecycle md5 (peer md5 b) cfg n init c0).sent = order ++ List.replicate n .request ++ [.close] ∧
    run md5 b init ((lifecycle md5 (peer md5 b) cfg n init c0).sent.map Prod.snd) =
      (lifecycle md5 (peer md5 b) cfg n init c0).peer ∧
    (verdicts md5 b init ((lifecycle md5 (peer md5 b) cfg n init c0).sent.map Prod.snd)).all Verdict.isReply = true ∧
    (lifecycle md5 (peer md5 b) cfg n init c0).peer.phase = .closed ∧
    (lifecycle md5 (peer md5 b) cfg n init c0).peer.bad = none := by
  obtain ⟨a, hs, ds1, ds2, ds3, ds4, dsr, dsc, _, hh, h1, h2, h3, h4, _, _, h7, h8, _, _⟩ :=
    lifecycle_within_budget md5 hmd5 b cfg su (peer md5 b) id (fun _ => false) relay_self 0 (Nat.zero_le _) n init c0
      rfl rfl (fun _ => within_self 0 _ _) hcp hfr
  obtain ⟨w, w1, w2, w3⟩ := monitor_sees_all md5 b cfg (peer md5 b) id (fun _ => false) relay_self n init c0
  have hnl : ∀ x ∈ w, x.1 = false := by
    intro x hx
    cases hx1 : x.1
    · rfl
    · obtain ⟨s, hs⟩ := w2 x hx hx1; simp at hs
  have hrun : run md5 b init ((lifecycle md5 (peer md5 b) cfg n init c0).sent.map Prod.snd) =
      (lifecycle md5 (peer md5 b) cfg n init c0).peer := by
    rw [← w1, ← runWire_noloss md5 b w hnl]; exact w3.symm
  have hbad : (lifecycle md5 (peer md5 b) cfg n init c0).peer.bad = none := h4
  have l1 := hh.len1; have l2 := hh.len2; have l3 := hh.len3; have l4 := hh.len4
  have klen : ∀ (k : Kind) (l : List (List Nat)), (tagAll k l).length = l.length := by intro k l; simp [tagAll]
  refine ⟨h2, ?_, ?_, hrun, ?_, h3, hbad⟩
  · rw [h1, hh.sent]
    simp only [List.length_append, List.length_cons, klen]
    omega
  · have e1 : ds1.length = 1 := by omega
    have e2 : ds2.length = 1 := by omega
    have e3 : ds3.length = 1 := by omega
    have e4 : ds4.length = 1 := by omega
    have er : dsr.length = n := by omega
    have ec : dsc.length = 1 := by omega
    rw [h1, hh.sent]
    simp [kinds, order, tagAll, e1, e2, e3, e4, er, ec, List.map_map, Function.comp_def, List.map_const']
  · have := (run_bad_none_iff md5 b _ init).mp (by rw [hrun]; exact hbad)
    exact this.2

theorem session_datagrams (md5 : List Nat → List Nat) (hmd5 : ∀ x, (md5 x).length = 16)
    (b : BmcCfg) (cfg : Cfg) (su : Setup b cfg) (c0 : Client) (hcp : c0.s.pw = cfg.pw) (hfr : Fresh cfg c0)
    (n : Nat) :
    ∃ a ds, wanted b.caps = some a ∧ ds.length = n + 2 ∧
      ((lifecycle md5 (peer md5 b) cfg n init c0).sent.drop 4).map Prod.snd = ds ∧
      Chain md5 cfg.pw a b.sid b.inSeq0 ds ∧
      ∀ i (hi : i < ds.length), SessionPacket md5 cfg.pw a b.sid (seqAfter (i + 1) b.inSeq0) ds[i] := by
  obtain ⟨a, hs, ds1, ds2, ds3, ds4, dsr, dsc, ha, hh, h1, _, _, _, _, h6, h7, h8, _, _⟩ :=
    lifecycle_within_budget md5 hmd5 b cfg su (peer md5 b) id (fun _ => false) relay_self 0 (Nat.zero_le _) n init c0
      rfl rfl (fun _ => within_self 0 _ _) hcp hfr
  have l1 := hh.len1; have l2 := hh.len2; have l3 := hh.len3; have l4 := hh.len4
  refine ⟨a, ds4 ++ dsr ++ dsc, ha, by simp only [List.length_append]; omega, ?_, h6, fun i hi => h6.get i hi⟩
  match ds1, ds2, ds3, l1, l2, l3 with
  | [d1], [d2], [d3], _, _, _ =>
    rw [h1, hh.sent]
    simp [tagAll, List.map_map, Function.comp_def]
  | [], _, _, h, _, _ => simp at h
  | _ :: _ :: _, _, _, h, _, _ => simp at h <;> omega
  | [_], [], _, _, h, _ => simp at h
  | [_], _ :: _ :: _, _, _, h, _ => simp at h <;> omega
  | [_], [_], [], _, _, h => simp at h
  | [_], [_], _ :: _ :: _, _, _, h => simp at h <;> omega

/-- THE CHOSEN TYPE IS THE TYPE USED - whatever the credentials.  For EVERY user name and password of at most 16
bytes - the EMPTY user name and the EMPTY password included (`Conforming` asks for nothing but the lengths) - every
capability byte that offers an implemented type, every privilege level and every `n`: with `a` = the strongest offered
type the library implements (`wanted`, a function of the capability byte ALONE), Get Session Challenge asks for `a`,
Activate Session goes out under `a` (header) and asks for `a` (body), and every datagram after it - Set Session
Privilege Level, the `n` requests, Close Session - carries `a` and the granted id.  In particular a console without
user name and password does NOT fall back to "none" when the BMC offers none next to MD5 / password
(`anonymous_downgrade_counterexample`). -/
theorem chosen_type_on_every_datagram (md5 : List Nat → List Nat) (hmd5 : ∀ x, (md5 x).length = 16)
    (b : BmcCfg) (cfg : Cfg) (su : Setup b cfg) (c0 : Client) (hcp : c0.s.pw = cfg.pw) (hfr : Fresh cfg c0)
    (n : Nat) :
    ∃ a d1 d2 d3 ds, wanted b.caps = some a ∧
      (lifecycle md5 (peer md5 b) cfg n init c0).sent.map Prod.snd = pingD :: d1 :: d2 :: d3 :: ds ∧
      Carries d2 57 (a :: pad16 cfg.user) ∧
      (∃ p, parseLan d3 = some p ∧ p.auth = a ∧ p.sid = b.tempSid) ∧
      Carries d3 58 ([a, cfg.priv] ++ b.challenge ++ leBytes 4 cfg.outSeq) ∧
      ds.length = n + 2 ∧
      ∀ d ∈ ds, ∃ p, parseLan d = some p ∧ p.auth = a ∧ p.sid = b.sid := by
  obtain ⟨a, hs, ds1, ds2, ds3, ds4, dsr, dsc, ha, hh, h1, _, _, _, _, h6, h7, h8, _, _⟩ :=
    lifecycle_within_budget md5 hmd5 b cfg su (peer md5 b) id (fun _ => false) relay_self 0 (Nat.zero_le _) n init c0
      rfl rfl (fun _ => within_self 0 _ _) hcp hfr
  have l1 := hh.len1; have l2 := hh.len2; have l3 := hh.len3; have l4 := hh.len4
  have hall : ∀ d ∈ ds4 ++ dsr ++ dsc, ∃ p, parseLan d = some p ∧ p.auth = a ∧ p.sid = b.sid := by
    intro d hd
    obtain ⟨i, hi, rfl⟩ := List.mem_iff_getElem.mp hd
    obtain ⟨p, hp, hpa, hps, _, _⟩ := h6.get i hi
    exact ⟨p, hp, hpa, hps⟩
  match ds1, ds2, ds3, l1, l2, l3 with
  | [d1], [d2], [d3], _, _, _ =>
    refine ⟨a, d1, d2, d3, ds4 ++ dsr ++ dsc, ha, ?_, (hh.challenge d2 (by simp)).2, ?_, (hh.activate d3 (by simp)).2,
      by simp only [List.length_append]; omega, hall⟩
    · rw [h1, hh.sent]
      simp [tagAll, List.map_map, Function.comp_def]
    · obtain ⟨p, hp, hpa, hps, _, _⟩ := (hh.activate d3 (by simp)).1
      exact ⟨p, hp, hpa, hps⟩
  | [], _, _, h, _, _ => simp at h
  | _ :: _ :: _, _, _, h, _, _ => simp at h <;> omega
  | [_], [], _, _, h, _ => simp at h
  | [_], _ :: _ :: _, _, _, h, _ => simp at h <;> omega
  | [_], [_], [], _, _, h => simp at h
  | [_], [_], _ :: _ :: _, _, _, h => simp at h <;> omega

/-- the choice of a console that takes "none" as soon as it has neither user name nor password ("anonymous login")
and the BMC offers none - and `get_max_auth_type` otherwise -/
def chooseAnonymous (pref : List Nat) (support : Nat) (user pw : List Nat) : Option Nat :=
  if user = [] ∧ pw = [] ∧ offered support 0 = true then some 0 else chooseAuth pref support

/-- COUNTER-EXAMPLE for such a console: against a BMC offering {none, MD5} it asks for "none" although MD5 is offered
and implemented - a silent downgrade to an unauthenticated session; and for the empty credentials it deviates from
`get_max_auth_type` (= the demanded type there, `auth_choice`) on EXACTLY the support bytes that offer none together with MD5 or password (24 of the 64; all the
generator of harness/props/c06.py plays with empty credentials), on no other and for no other credentials. -/
theorem anonymous_downgrade_counterexample :
    chooseAnonymous authPreference 0x05 [] [] = some 0 ∧ wanted 0x05 = some 2 ∧
    (List.range 64).all (fun caps =>
      (chooseAnonymous authPreference caps [] [] != chooseAuth authPreference caps) ==
        (offered caps 0 && (offered caps 2 || offered caps 4))) = true ∧
    (∀ caps user pw, (user ≠ [] ∨ pw ≠ []) → chooseAnonymous authPreference caps user pw = chooseAuth authPreference caps) := by
  refine ⟨by decide, by decide, by decide, ?_⟩
  intro caps user pw h
  unfold chooseAnonymous
  rcases h with h | h <;> simp [h]

theorem close_names_sid (md5 : List Nat → List Nat) (hmd5 : ∀ x, (md5 x).length = 16)
    (b : BmcCfg) (cfg : Cfg) (su : Setup b cfg) (c0 : Client) (hcp : c0.s.pw = cfg.pw) (hfr : Fresh cfg c0)
    (n : Nat) :
    ∃ d, (lifecycle md5 (peer md5 b) cfg n init c0).sent.getLast? = some (.close, d) ∧
      Carries d 60 (leBytes 4 b.sid) ∧
      (lifecycle md5 (peer md5 b) cfg n init c0).client.s.activated = false := by
  obtain ⟨a, hs, ds1, ds2, ds3, ds4, dsr, dsc, _, _, h1, _, _, _, h5, _, _, h8, _, h10⟩ :=
    lifecycle_within_budget md5 hmd5 b cfg su (peer md5 b) id (fun _ => false) relay_self 0 (Nat.zero_le _) n init c0
      rfl rfl (fun _ => within_self 0 _ _) hcp hfr
  match dsc, h8, h10 with
  | [d], _, h10 => exact ⟨d, by rw [h1]; simp [tagAll], h10 d (by simp), h5⟩
  | [], h, _ => simp at h
  | _ :: _ :: _, h, _ => simp at h <;> omega

/-- Whenever the session is up (the BMC has granted it, the console's session object is activated
with the granted id and in step with the monitor: `Live`) — after the handshake, after any number
of requests, after a failed Set Session Privilege Level or request — `close_session()` sends
Close Session for the granted id with the next sequence number(s), and the BMC closes. -/
theorem close_from_live {σ : Type} (md5 : List Nat → List Nat) (hmd5 : ∀ x, (md5 x).length = 16)
    (b : BmcCfg) (cfg : Cfg) (conf : Conforming b cfg)
    (P : σ → List Nat → σ × Option (List Nat)) (π : σ → BmcState) (lostAt : σ → Bool)
    (rel : Relay md5 b P π lostAt) (s : σ) (c : Client) (a l k : Nat) (hk : k ≤ cfg.maxRetries)
    (hl : LossRun P lostAt (fun _ => True) k s) (ha : a = 0 ∨ a = 4 ∨ a = 2)
    (live : Live b cfg a (some l) (π s) c) :
    ∃ ds, ds.length = k + 1 ∧ Chain md5 cfg.pw a b.sid l ds ∧ (∀ d ∈ ds, Carries d 60 (leBytes 4 b.sid)) ∧
      (close md5 P cfg s c).sent = tagAll .close ds ∧ (close md5 P cfg s c).outcome = .ok [] ∧
      (π (close md5 P cfg s c).peer).phase = .closed ∧ (π (close md5 P cfg s c).peer).bad = (π s).bad ∧
      (close md5 P cfg s c).client.s.activated = false := by
  obtain ⟨ds, s', h1, h2, h3, _, h5, h6, h7⟩ := run_close hmd5 conf rel s c a l _ k hk hl ha live
  exact ⟨ds, h1, h2, h3, by rw [h7], by rw [h7], by rw [h7]; exact h5, by rw [h7]; exact h6, by rw [h7]⟩

/-- a closed session (the state every successful life cycle ends in, see `close_names_sid`) is not
closed again: a second `close_session()` puts nothing on the wire -/
theorem close_again_sends_nothing {σ : Type} (md5 : List Nat → List Nat) (P : σ → List Nat → σ × Option (List Nat))
    (cfg : Cfg) (p : σ) (c : Client) (hat : c.attached = true) (h : c.s.activated = false) :
    close md5 P cfg p c = ⟨p, c, [], .ok []⟩ := by
  simp [close, hat, h]

/-! ### closing after a failed open (`try: session.establish() … finally: session.close()`) -/

/-- ANY peer: without a session object (no handshake yet, or the last one failed before the
challenge was obtained), or with a session object that is not activated (Activate Session failed),
`close_session()` puts nothing on the wire, returns normally and leaves the peer alone. -/
theorem close_without_session_returns {σ : Type} (md5 : List Nat → List Nat) (P : σ → List Nat → σ × Option (List Nat))
    (cfg : Cfg) (hg : cfg.closeGuard = true) (p : σ) (c : Client) (h : c.attached = false ∨ c.s.activated = false) :
    close md5 P cfg p c = ⟨p, c, [], .ok []⟩ := by
  rcases h with h | h
  · simp [close, h, hg]
  · cases hat : c.attached <;> simp [close, hat, h, hg]

/-- ANY peer: the presence ping is not answered, or not with a pong.  The handshake fails there
(one datagram), and the clean-up close sends nothing and returns. -/
theorem close_after_failed_ping {σ : Type} (md5 : List Nat → List Nat) (P : σ → List Nat → σ × Option (List Nat))
    (cfg : Cfg) (hg : cfg.closeGuard = true) (p0 : σ) (c0 : Client) (h : (ping P p0).2.2.isOk = false) :
    (establish md5 P cfg p0 c0).outcome.isOk = false ∧
    kinds (establish md5 P cfg p0 c0).sent = List.replicate (ping P p0).2.1.length .ping ∧
    close md5 P cfg (establish md5 P cfg p0 c0).peer (establish md5 P cfg p0 c0).client =
      ⟨(establish md5 P cfg p0 c0).peer, (establish md5 P cfg p0 c0).client, [], .ok []⟩ := by
  obtain ⟨h1, _, h3, h4⟩ := establish_ping_failed md5 P cfg p0 (resetSess cfg c0) h
  exact ⟨h4, by rw [establish, h3, kinds_tagAll],
    close_without_session_returns md5 P cfg hg _ _ (Or.inl (by rw [establish, h1]))⟩

/-- Every fault position after the ping: request `j` of the handshake (0 = Get Channel
Authentication Capabilities, 1 = Get Session Challenge, 2 = Activate Session, 3 = Set Session
Privilege Level) fails — no answer for the whole retry budget (`max_retries + 1` transmissions) or
an error completion code — after the `j` requests before it went through (≤ `max_retries` losses
each); the peer is any relay of a conforming BMC, and after the fault it answers again.
Then the handshake fails, and the caller's clean-up `close_session()`: returns normally (`.ok` — in
particular no Python error), leaves NO open session on the BMC, the BMC has flagged nothing;
it sends nothing at all when no session was granted (`j ≤ 2`), and Close Session for the granted
session id when one was (`j = 3`), after which the BMC is `closed`. -/
theorem close_after_failed_open {σ : Type} (md5 : List Nat → List Nat) (hmd5 : ∀ x, (md5 x).length = 16)
    (b : BmcCfg) (cfg : Cfg) (su : Setup b cfg) (hg : cfg.closeGuard = true)
    (P : σ → List Nat → σ × Option (List Nat)) (π : σ → BmcState) (lostAt : σ → Bool)
    (rel : Relay md5 b P π lostAt) (j : Nat) (hj : j ≤ 3) (f : Fault) (s0 : σ) (c0 : Client)
    (hph : (π s0).phase = .start) (hout : (π s0).outSeq < 4294967296) (hl0 : lostAt s0 = false)
    (hw : ∀ d, FailsAt md5 b P π lostAt cfg.maxRetries f
      (fun s => ∃ k, k ≤ cfg.maxRetries ∧ LossRun P lostAt (fun _ => True) k s) j (P s0 d).1)
    (hcp : c0.s.pw = cfg.pw) (hfr : Fresh cfg c0) :
    (establish md5 P cfg s0 c0).outcome.isOk = false ∧
    (close md5 P cfg (establish md5 P cfg s0 c0).peer (establish md5 P cfg s0 c0).client).outcome = .ok [] ∧
    (π (close md5 P cfg (establish md5 P cfg s0 c0).peer (establish md5 P cfg s0 c0).client).peer).phase.sessionOpen = false ∧
    (π (close md5 P cfg (establish md5 P cfg s0 c0).peer (establish md5 P cfg s0 c0).client).peer).bad = (π s0).bad ∧
    (j ≤ 2 → (close md5 P cfg (establish md5 P cfg s0 c0).peer (establish md5 P cfg s0 c0).client).sent = [] ∧
      (close md5 P cfg (establish md5 P cfg s0 c0).peer (establish md5 P cfg s0 c0).client).peer =
        (establish md5 P cfg s0 c0).peer) ∧
    (j = 3 → ∃ ds, ds ≠ [] ∧
      (close md5 P cfg (establish md5 P cfg s0 c0).peer (establish md5 P cfg s0 c0).client).sent = tagAll .close ds ∧
      (∀ d ∈ ds, Carries d 60 (leBytes 4 b.sid)) ∧
      (π (close md5 P cfg (establish md5 P cfg s0 c0).peer (establish md5 P cfg s0 c0).client).peer).phase = .closed) := by
  obtain ⟨a, _, h2, h3, h4⟩ := chosen_of_common b.caps su.common
  exact failed_open_close hmd5 su.conf rel hg j hj f s0 (resetSess cfg c0) a hl0 hph hout hw (by rw [su.pref]; exact h4) h2 h3
    (by rw [resetSess_pw]; exact hcp) (resetSess_fresh hfr).1 (resetSess_fresh hfr).2

/-- The same for the reference BMC itself with a fault plan (`Spec.BmcSession.faulty`): the fault
`f` hits the request that starts with datagram number `j + 1` (datagram 0 is the ping) — all
`max_retries + 1` transmissions of it when `f` is silence, the first one when it is a refusal. -/
theorem close_after_failed_open_bmc (md5 : List Nat → List Nat) (hmd5 : ∀ x, (md5 x).length = 16)
    (b : BmcCfg) (cfg : Cfg) (su : Setup b cfg) (hg : cfg.closeGuard = true) (j : Nat) (hj : j ≤ 3) (f : Fault)
    (hf : ∀ cc, f = .refuse cc → cc ≠ 0) (c0 : Client)
    (hcp : c0.s.pw = cfg.pw) (hfr : Fresh cfg c0) :
    let B := faulty md5 b (faultAt (j + 1) (f.span cfg.maxRetries) f)
    let r := establish md5 B cfg (0, init) c0
    let r3 := close md5 B cfg r.peer r.client
    r.outcome.isOk = false ∧ r3.outcome = .ok [] ∧ r3.peer.2.phase.sessionOpen = false ∧ r3.peer.2.bad = none ∧
    (j ≤ 2 → r3.sent = [] ∧ r3.peer = r.peer) ∧
    (j = 3 → ∃ ds, ds ≠ [] ∧ r3.sent = tagAll .close ds ∧ (∀ d ∈ ds, Carries d 60 (leBytes 4 b.sid)) ∧
      r3.peer.2.phase = .closed) := by
  intro B r r3
  have hp0 : faultAt (j + 1) (f.span cfg.maxRetries) f 0 = none := by simp [faultAt]
  exact close_after_failed_open md5 hmd5 b cfg su hg B Prod.snd _ (relay_faulty _) j hj f (0, init) c0 rfl (by decide)
    (by simp [hp0])
    (fun d => by
      have e : (B (0, init) d).1 = (0 + 1, (peer md5 b init d).1) := by simp only [B, faulty, hp0]
      rw [e]
      exact failsAt_faulty cfg.maxRetries f hf (j + 1) j (0 + 1) _ (by omega))
    hcp hfr

/-- The pinned tree (`closeGuard = false`): `close_session()` on an interface without a session
object raises AttributeError — so after a handshake whose ping was not answered the caller's
clean-up close ends in a Python error that masks the original one.  (Same after a failure of Get
Channel Authentication Capabilities or Get Session Challenge: no session object either.) -/
theorem close_after_failed_open_asShipped_counterexample {σ : Type} (md5 : List Nat → List Nat)
    (P : σ → List Nat → σ × Option (List Nat)) (cfg : Cfg) (hg : cfg.closeGuard = false) (p0 : σ) (c0 : Client) :
    (∀ p c, c.attached = false → (close md5 P cfg p c).outcome = .pyError "AttributeError") ∧
    ((ping P p0).2.2.isOk = false →
      (close md5 P cfg (establish md5 P cfg p0 c0).peer (establish md5 P cfg p0 c0).client).outcome =
        .pyError "AttributeError") := by
  have h1 : ∀ p c, c.attached = false → (close md5 P cfg p c).outcome = .pyError "AttributeError" := by
    intro p c h; simp [close, h, hg]
  exact ⟨h1, fun h => h1 _ _ (by rw [establish, (establish_ping_failed md5 P cfg p0 (resetSess cfg c0) h).1])⟩

/-! ### a new handshake on objects that have been used before

The caller's `Session` object and the `Rmcp` interface outlive a session.  Whatever was called on them
before — sessions that were closed, sessions that were lost (Close Session failed or was never sent: the
object stays "activated"), handshakes that failed at any step, clean-up closes — is a history `ops`
(`Model.Session.runOps`) against an ARBITRARY peer; all it leaves behind is a client state, about which
nothing is known except that the Session object still holds its password (`runOps_pw`).  With the
intended `resetSession` the next `establish_session` does not depend on that state. -/

/-- `establish_session` forgets the history: the result is the one for a session object whose `sid`,
`sequence_number` and `activated` are 0 / 0 / False, whatever they were. -/
theorem establish_forgets_history {σ : Type} (md5 : List Nat → List Nat) (P : σ → List Nat → σ × Option (List Nat))
    (cfg : Cfg) (hrs : cfg.resetSession = true) (p0 : σ) (c0 : Client) :
    establish md5 P cfg p0 c0 = establish md5 P cfg p0 ⟨false, ⟨c0.s.auth, 0, 0, false, c0.s.pw⟩, c0.rqSeq⟩ := by
  unfold establish
  rw [resetSess_of_true hrs, resetSess_of_true hrs]
  rfl

/-- After ANY history on the same objects (any calls, any peer, any outcomes) a new session against a
conforming BMC (any relaying peer losing ≤ R ≤ max_retries datagrams per request) is the session of
`lifecycle_within_budget`: (a) the datagrams of Get Channel Authentication Capabilities and Get Session
Challenge are outside any session (authentication type none, session id 0, sequence number 0) and every
Activate Session datagram carries the NULL sequence number and the temporary id handed out in THIS
handshake (`Handshake.authCap / challenge / activate`); (c) the datagrams inside the session — Set
Session Privilege Level, the requests, Close Session, retransmissions included — form one chain that
starts from the initial inbound number assigned in THIS handshake (`Chain … b.inSeq0`), under the id
granted in THIS handshake; Close Session names that id; the BMC flags nothing and ends closed. -/
theorem lifecycle_after_any_history {σ₀ σ : Type} (md5 : List Nat → List Nat) (hmd5 : ∀ x, (md5 x).length = 16)
    (P₀ : σ₀ → List Nat → σ₀ × Option (List Nat)) (ops : List Op) (q₀ : σ₀) (c₀₀ : Client)
    (b : BmcCfg) (cfg : Cfg) (su : Setup b cfg) (hrs : cfg.resetSession = true) (hpw : c₀₀.s.pw = cfg.pw)
    (P : σ → List Nat → σ × Option (List Nat)) (π : σ → BmcState) (lostAt : σ → Bool)
    (rel : Relay md5 b P π lostAt) (R : Nat) (hR : R ≤ cfg.maxRetries) (n : Nat) (s0 : σ)
    (hph : (π s0).phase = .start) (hl0 : lostAt s0 = false) (hw : ∀ d, Within P lostAt R (n + 5) (P s0 d).1) :
    ∃ a hs ds1 ds2 ds3 ds4 dsr dsc, wanted b.caps = some a ∧ Handshake md5 b cfg R a hs ds1 ds2 ds3 ds4 ∧
      (lifecycle md5 P cfg n s0 (runOps md5 P₀ ops q₀ c₀₀).2.1).sent = hs ++ tagAll .request dsr ++ tagAll .close dsc ∧
      (lifecycle md5 P cfg n s0 (runOps md5 P₀ ops q₀ c₀₀).2.1).outcome = .ok [] ∧
      (π (lifecycle md5 P cfg n s0 (runOps md5 P₀ ops q₀ c₀₀).2.1).peer).phase = .closed ∧
      (π (lifecycle md5 P cfg n s0 (runOps md5 P₀ ops q₀ c₀₀).2.1).peer).bad = (π s0).bad ∧
      (lifecycle md5 P cfg n s0 (runOps md5 P₀ ops q₀ c₀₀).2.1).client.s.activated = false ∧
      (∀ d ∈ ds1 ++ ds2, OutsideSession d) ∧
      (∀ d ∈ ds3, ∃ p, parseLan d = some p ∧ p.seq = 0 ∧ p.sid = b.tempSid ∧ p.auth = a) ∧
      Chain md5 cfg.pw a b.sid b.inSeq0 (ds4 ++ dsr ++ dsc) ∧
      (∀ d ∈ dsc, Carries d 60 (leBytes 4 b.sid)) := by
  obtain ⟨a, hs, ds1, ds2, ds3, ds4, dsr, dsc, h1, hh, h2, h3, h4, h5, h6, h7, _, _, _, h11⟩ :=
    lifecycle_within_budget md5 hmd5 b cfg su P π lostAt rel R hR n s0 (runOps md5 P₀ ops q₀ c₀₀).2.1 hph hl0 hw
      (by rw [runOps_pw]; exact hpw) (Or.inl hrs)
  refine ⟨a, hs, ds1, ds2, ds3, ds4, dsr, dsc, h1, hh, h2, h3, h4, h5, h6, ?_, ?_, h7, h11⟩
  · intro d hd
    rcases List.mem_append.mp hd with e | e
    · exact (hh.authCap d e).1
    · exact (hh.challenge d e).1
  · intro d hd
    obtain ⟨⟨p, p1, p2, p3, p4, _⟩, _⟩ := hh.activate d hd
    exact ⟨p, p1, p4, p3, p2⟩

/-- (b) After ANY history on the same objects: the handshake fails at request `j` (as in
`close_after_failed_open`: silence for the whole retry budget or an error completion code — e.g. 81h
"no session slot available" at Activate Session), then the caller's clean-up `close_session()`.  It
returns normally; it sends NOTHING when the BMC granted no session in THIS handshake (`j ≤ 2`: in
particular no Close Session for the temporary id of this handshake, nor for an id of an earlier session),
and Close Session for the id granted in THIS handshake when it did (`j = 3`), which the BMC then closes. -/
theorem close_after_failed_open_any_history {σ₀ σ : Type} (md5 : List Nat → List Nat) (hmd5 : ∀ x, (md5 x).length = 16)
    (P₀ : σ₀ → List Nat → σ₀ × Option (List Nat)) (ops : List Op) (q₀ : σ₀) (c₀₀ : Client)
    (b : BmcCfg) (cfg : Cfg) (su : Setup b cfg) (hg : cfg.closeGuard = true) (hrs : cfg.resetSession = true)
    (hpw : c₀₀.s.pw = cfg.pw)
    (P : σ → List Nat → σ × Option (List Nat)) (π : σ → BmcState) (lostAt : σ → Bool)
    (rel : Relay md5 b P π lostAt) (j : Nat) (hj : j ≤ 3) (f : Fault) (s0 : σ)
    (hph : (π s0).phase = .start) (hout : (π s0).outSeq < 4294967296) (hl0 : lostAt s0 = false)
    (hw : ∀ d, FailsAt md5 b P π lostAt cfg.maxRetries f
      (fun s => ∃ k, k ≤ cfg.maxRetries ∧ LossRun P lostAt (fun _ => True) k s) j (P s0 d).1) :
    let r := establish md5 P cfg s0 (runOps md5 P₀ ops q₀ c₀₀).2.1
    let r3 := close md5 P cfg r.peer r.client
    r.outcome.isOk = false ∧ r3.outcome = .ok [] ∧ (π r3.peer).phase.sessionOpen = false ∧ (π r3.peer).bad = (π s0).bad ∧
    (j ≤ 2 → r3.sent = [] ∧ r3.peer = r.peer) ∧
    (j = 3 → ∃ ds, ds ≠ [] ∧ r3.sent = tagAll .close ds ∧ (∀ d ∈ ds, Carries d 60 (leBytes 4 b.sid)) ∧
      (π r3.peer).phase = .closed) := by
  intro r r3
  exact close_after_failed_open md5 hmd5 b cfg su hg P π lostAt rel j hj f s0 (runOps md5 P₀ ops q₀ c₀₀).2.1 hph hout hl0 hw
    (by rw [runOps_pw]; exact hpw) (Or.inl hrs)

theorem retransmissions_take_next_seq (md5 : List Nat → List Nat) (hmd5 : ∀ x, (md5 x).length = 16)
    (b : BmcCfg) (cfg : Cfg) (su : Setup b cfg) (c0 : Client) (hcp : c0.s.pw = cfg.pw) (hfr : Fresh cfg c0)
    (plan : Nat → Bool) (hp0 : plan 0 = false) (hplan : BoundedLoss plan cfg.maxRetries) (n : Nat) :
    ∃ a hs ds1 ds2 ds3 ds4 dsr dsc w, wanted b.caps = some a ∧
      Handshake md5 b cfg cfg.maxRetries a hs ds1 ds2 ds3 ds4 ∧
      (lifecycle md5 (lossy md5 b plan) cfg n (0, init) c0).sent = hs ++ tagAll .request dsr ++ tagAll .close dsc ∧
      (lifecycle md5 (lossy md5 b plan) cfg n (0, init) c0).outcome = .ok [] ∧
      Chain md5 cfg.pw a b.sid b.inSeq0 (ds4 ++ dsr ++ dsc) ∧
      (∀ d ∈ dsr, Carries d 1 []) ∧ (∀ d ∈ dsc, Carries d 60 (leBytes 4 b.sid)) ∧
      w.map Prod.snd = (lifecycle md5 (lossy md5 b plan) cfg n (0, init) c0).sent.map Prod.snd ∧
      runWire md5 b init w = (lifecycle md5 (lossy md5 b plan) cfg n (0, init) c0).peer.2 ∧
      (verdictsWire md5 b init w).all Verdict.isReply = true ∧
      (lifecycle md5 (lossy md5 b plan) cfg n (0, init) c0).peer.2.phase = .closed := by
  obtain ⟨a, hs, ds1, ds2, ds3, ds4, dsr, dsc, ha, hh, h1, h2, h3, h4, _, h6, _, _, h9, h10⟩ :=
    lifecycle_within_budget md5 hmd5 b cfg su (lossy md5 b plan) Prod.snd (fun s => plan s.1) (relay_lossy plan)
      cfg.maxRetries (Nat.le_refl _) n (0, init) c0 rfl hp0
      (fun d => within_lossy plan cfg.maxRetries hplan _ _ _) hcp hfr
  obtain ⟨w, w1, _, w3⟩ := monitor_sees_all md5 b cfg (lossy md5 b plan) Prod.snd (fun s => plan s.1)
    (relay_lossy plan) n (0, init) c0
  have hbad : (runWire md5 b init w).bad = none := by rw [← w3]; exact h4
  exact ⟨a, hs, ds1, ds2, ds3, ds4, dsr, dsc, w, ha, hh, h1, h2, h6, h9, h10, w1, w3.symm,
    ((runWire_bad_none_iff md5 b w init).mp hbad).2, h3⟩

/-! ### non-vacuity: a concrete conforming BMC and console; the functions compute -/

/-- a 16-byte "digest" that is cheap to evaluate in the kernel -/
def toyDigest (x : List Nat) : List Nat := List.replicate 16 (x.sum % 256)

/-- a BMC offering MD2, MD5 and password, handing out an initial sequence number one below the wrap -/
def demoBmc : BmcCfg :=
  { caps := 0x16, user := [0x61, 0x64, 0x6d], pw := [0x73, 0x65, 0x63], priv := 4, tempSid := 0x01020304,
    challenge := [1, 2, 3, 4, 5, 6, 7, 8, 9, 10, 11, 12, 13, 14, 15, 16], sid := 0xfffffffe, inSeq0 := 0xfffffffe }

def demoCfg : Cfg :=
  { user := [0x61, 0x64, 0x6d], pw := [0x73, 0x65, 0x63], priv := 4, outSeq := 0xfffffffe, pref := authPreference,
    ignoreLen := false, emptyRx := .asShipped, maxRetries := 2 }

example : (PyIpmi.Md5.md5 [1, 2, 3]).length = 16 := PyIpmi.Md5.md5_length _
example : ∀ x, (toyDigest x).length = 16 := fun _ => by simp [toyDigest]

example : Setup demoBmc demoCfg :=
  ⟨⟨rfl, rfl, rfl, by decide, by decide, by decide, by decide, by decide, by decide, by decide, by decide, by decide, rfl⟩,
   rfl, Or.inl (by decide)⟩

example : wanted demoBmc.caps = some 2 := by decide
example : (Client.fresh demoCfg.pw).s.pw = demoCfg.pw ∧ Fresh { demoCfg with resetSession := false } (Client.fresh demoCfg.pw) :=
  ⟨rfl, Or.inr ⟨rfl, rfl⟩⟩
/-- objects that have carried a session which was lost (still "activated", old id and number) -/
def usedClient : Client := ⟨true, ⟨2, 0xa1b2c3d4, 0x101, true, demoCfg.pw⟩, 5⟩
example : usedClient.s.pw = demoCfg.pw ∧ Fresh demoCfg usedClient := ⟨rfl, Or.inl rfl⟩
example : BoundedLoss (fun i => i == 5 || i == 6 || i == 9) 2 := by
  intro i
  by_cases h : i = 5
  · exact ⟨2, by omega, by subst h; decide⟩
  · by_cases h6 : i = 6
    · exact ⟨1, by omega, by subst h6; decide⟩
    · by_cases h9 : i = 9
      · exact ⟨1, by omega, by subst h9; decide⟩
      · exact ⟨0, by omega, by simp [h, h6, h9]⟩

/-- ANONYMOUS LOGIN: a BMC with the null user (empty name) and an empty password that offers none next to MD5, and
a console configured with the empty user name and the empty password -/
def anonBmc : BmcCfg := { demoBmc with caps := 0x05, user := [], pw := [] }
def anonCfg : Cfg := { demoCfg with user := [], pw := [] }

example : Setup anonBmc anonCfg :=
  ⟨⟨rfl, rfl, rfl, by decide, by decide, by decide, by decide, by decide, by decide, by decide, by decide, by decide, rfl⟩,
   rfl, Or.inl (by decide)⟩
example : (Client.fresh anonCfg.pw).s.pw = anonCfg.pw ∧ Fresh anonCfg (Client.fresh anonCfg.pw) := ⟨rfl, Or.inl rfl⟩
example : wanted anonBmc.caps = some 2 := by decide
/-- … evaluated: the session opens, and every datagram from Activate Session on is sent under MD5 (type 2) -/
example :
    let r := lifecycle toyDigest (peer toyDigest anonBmc) anonCfg 1 init (Client.fresh anonCfg.pw)
    r.outcome = .ok [] ∧ r.peer.bad = none ∧
      ((r.sent.drop 3).map fun x => (parseLan x.2).map (·.auth)) = [some 2, some 2, some 2, some 2] := by
  decide

/-- a BMC that offers no authentication type at all -/
def noAuthBmc : BmcCfg := { demoBmc with caps := 0 }

example : Conforming noAuthBmc demoCfg :=
  ⟨rfl, rfl, rfl, by decide, by decide, by decide, by decide, by decide, by decide, by decide, by decide, by decide, rfl⟩

/-- The pinned tree (`noAuthRaises = false`) against a BMC that offers nothing: Get Session Challenge
goes out, asking for type "none", and the reference BMC flags it (`auth-type-not-offered`); the
intended variant stops after the capabilities exchange with NotSupportedError and an unbothered BMC. -/
theorem auth_none_offered_asShipped_counterexample :
    kinds (establish toyDigest (peer toyDigest noAuthBmc) { demoCfg with noAuthRaises := false } init
      (Client.fresh demoCfg.pw)).sent = [.ping, .authCap, .challenge, .challenge, .challenge] ∧
    (establish toyDigest (peer toyDigest noAuthBmc) { demoCfg with noAuthRaises := false } init
      (Client.fresh demoCfg.pw)).peer.bad = some .authNotOffered ∧
    kinds (establish toyDigest (peer toyDigest noAuthBmc) demoCfg init (Client.fresh demoCfg.pw)).sent = [.ping, .authCap] ∧
    (establish toyDigest (peer toyDigest noAuthBmc) demoCfg init (Client.fresh demoCfg.pw)).outcome = .notSupported ∧
    (establish toyDigest (peer toyDigest noAuthBmc) demoCfg init (Client.fresh demoCfg.pw)).peer.bad = none := by
  decide

/-- the fault hypotheses of `close_after_failed_open` are satisfiable: the reference BMC with a fault plan -/
example : FailsAt toyDigest demoBmc (faulty toyDigest demoBmc (faultAt 3 (Fault.span 2 .silence) .silence)) Prod.snd
    (fun s => (faultAt 3 (Fault.span 2 .silence) .silence s.1).isSome) 2 .silence
    (fun s => ∃ k, k ≤ 2 ∧ LossRun (faulty toyDigest demoBmc (faultAt 3 (Fault.span 2 .silence) .silence))
      (fun s => (faultAt 3 (Fault.span 2 .silence) .silence s.1).isSome) (fun _ => True) k s) 2 (1, init) :=
  failsAt_faulty 2 .silence (fun _ h => by cases h) 3 2 1 init rfl

/-- Set Session Privilege Level refused with D4h after the BMC has granted the session: the clean-up
close sends one Close Session and the BMC ends closed (evaluated) -/
example :
    let B := faulty toyDigest demoBmc (faultAt 4 1 (.refuse 0xd4))
    let r := establish toyDigest B demoCfg (0, init) (Client.fresh demoCfg.pw)
    r.outcome = .ccError 0xd4 ∧ kinds (close toyDigest B demoCfg r.peer r.client).sent = [.close] ∧
      (close toyDigest B demoCfg r.peer r.client).peer.2.phase = .closed := by
  decide

/-- the model client against the reference BMC, evaluated: 2 requests, wrap-around crossed -/
example : (lifecycle toyDigest (peer toyDigest demoBmc) demoCfg 2 init (Client.fresh demoCfg.pw)).outcome = .ok [] := by
  decide

/-! ### the as-shipped variant (`resetSession = false`) on used objects -/

/-- a second BMC (or the same one later): other temporary id, other granted id, other initial number -/
def demoBmc2 : BmcCfg := { demoBmc with tempSid := 0x99, sid := 0x55667788, inSeq0 := 0x5000 }

def histCfg (reset : Bool) : Cfg := { demoCfg with maxRetries := 0, resetSession := reset }

/-- attempt 1 on new objects: the BMC grants the session, the answer to Set Session Privilege Level is lost -/
def lostSession (reset : Bool) : Result (Nat × BmcState) :=
  establish toyDigest (faulty toyDigest demoBmc (faultAt 4 1 .silence)) (histCfg reset) (0, init) (Client.fresh demoCfg.pw)

/-- attempt 2 on the same objects: Activate Session is refused with 81h (no session slot available) -/
def secondAttempt (reset : Bool) : Result (Nat × BmcState) :=
  establish toyDigest (faulty toyDigest demoBmc2 (faultAt 3 1 (.refuse 0x81))) (histCfg reset) (0, init)
    (lostSession reset).client

/-- the caller's clean-up `close_session()` after attempt 2 -/
def cleanupAfter (reset : Bool) : Result (Nat × BmcState) :=
  close toyDigest (faulty toyDigest demoBmc2 (faultAt 3 1 (.refuse 0x81))) (histCfg reset) (secondAttempt reset).peer
    (secondAttempt reset).client

/-- (authentication type, session id, session sequence number) of the session header of each datagram -/
def headers (s : Sent) : List (Kind × Option (Nat × Nat × Nat)) :=
  s.map (fun x => (x.1, (parseLan x.2).map (fun p => (p.auth, p.sid, p.seq))))

/-- The pinned tree (`resetSession = false`): attempt 1 leaves the session object "activated" with the
old id and number (here FFFFFFFFh).  In attempt 2 the pre-session datagrams are fine, but Activate Session
is packed as if that dead session were being talked to: it CONSUMES its next number (1, after the wrap) and
carries it next to the new temporary id 99h — the reference BMC flags `activate-seq-not-null`.  The
handshake fails, and the clean-up close then sends Close Session for the TEMPORARY id 99h (never granted),
under the old authentication type with number 2, and raises.  As intended (`resetSession = true`) the same
history gives: Activate Session with the null number, the BMC's refusal 81h reported, nothing flagged, and a
clean-up close that sends nothing and returns. -/
theorem reestablish_asShipped_counterexample :
    (lostSession false).outcome = .retryError ∧
    ((lostSession false).client.s.activated, (lostSession false).client.s.sid, (lostSession false).client.s.seq) =
      (true, 0xfffffffe, 0xffffffff) ∧
    headers (secondAttempt false).sent =
      [(.ping, none), (.authCap, some (0, 0, 0)), (.challenge, some (0, 0, 0)), (.activate, some (2, 0x99, 1))] ∧
    (secondAttempt false).peer.2.bad = some .activateSeq ∧
    headers (cleanupAfter false).sent = [(.close, some (2, 0x99, 2))] ∧
    (cleanupAfter false).outcome = .retryError ∧
    headers (secondAttempt true).sent =
      [(.ping, none), (.authCap, some (0, 0, 0)), (.challenge, some (0, 0, 0)), (.activate, some (2, 0x99, 0))] ∧
    (secondAttempt true).outcome = .ccError 0x81 ∧ (secondAttempt true).peer.2.bad = none ∧
    (cleanupAfter true).sent = [] ∧ (cleanupAfter true).outcome = .ok [] := by
  decide

/-- the same objects after a session that was CLOSED properly (not activated, but the last sequence number
is still in the object): as shipped the next Activate Session carries that stale number -/
theorem reestablish_after_close_asShipped_counterexample :
    let c1 := (lifecycle toyDigest (peer toyDigest demoBmc) (histCfg false) 1 init (Client.fresh demoCfg.pw)).client
    (c1.s.activated, c1.s.seq) = (false, 2) ∧
    (establish toyDigest (peer toyDigest demoBmc2) (histCfg false) init c1).peer.bad = some .activateSeq ∧
    (lifecycle toyDigest (peer toyDigest demoBmc2) (histCfg true) 1 init c1).outcome = .ok [] ∧
    (lifecycle toyDigest (peer toyDigest demoBmc2) (histCfg true) 1 init c1).peer.bad = none := by
  decide

/-- the hypotheses of the history theorems are satisfiable, and the history matters: a concrete history (a session
whose Set Session Privilege Level answer is lost, then a request on it) leaves the objects activated with the old
id and number; the life cycle of the next session on them, against another BMC, completes -/
example :
    let h := runOps toyDigest (faulty toyDigest demoBmc (faultAt 4 1 .silence)) [.open (histCfg true), .requests (histCfg true) 1]
      (0, init) (Client.fresh demoCfg.pw)
    h.2.1.s.pw = (histCfg true).pw ∧ (h.2.1.s.activated, h.2.1.s.sid, h.2.1.s.seq) = (true, 0xfffffffe, 1) ∧
    (lifecycle toyDigest (peer toyDigest demoBmc2) (histCfg true) 1 init h.2.1).outcome = .ok [] ∧
    (lifecycle toyDigest (peer toyDigest demoBmc2) (histCfg true) 1 init h.2.1).peer.phase = .closed := by
  decide

example : Setup demoBmc2 (histCfg true) :=
  ⟨⟨rfl, rfl, rfl, by decide, by decide, by decide, by decide, by decide, by decide, by decide, by decide, by decide, rfl⟩,
   rfl, Or.inl (by decide)⟩

/-! ### the keep-alive threads over a history of `establish_session` / `close_session` calls
(`Model/SessionKeepAlive.lean`; intended `stopFirst`: `establish_session` begins by stopping the keep-alive
that is still running) -/

open PyIpmi.Session.KeepAlive in
/-- After ANY history of successful / failed `establish_session` and `close_session` calls at most one
keep-alive thread exists, and it is the one the remembered stopper stops. -/
theorem keepalive_at_most_one (evs : List KeepAlive.Ev) :
    (run true KeepAlive.init evs).running = [] ∨
    ∃ t, (run true KeepAlive.init evs).stopper = some t ∧ (run true KeepAlive.init evs).running = [t] :=
  run_tidy evs (Or.inl rfl)

open PyIpmi.Session.KeepAlive in
/-- … so `close_session` — which calls the stopper before it sends Close Session, and the stopper joins
the thread — leaves none: no keep-alive datagram can follow Close Session, whatever happened before. -/
theorem keepalive_none_after_close (evs : List KeepAlive.Ev) :
    (run true KeepAlive.init (evs ++ [.close])).running = [] := by
  rw [run_append]
  exact stop_tidy (run_tidy evs (Or.inl rfl))

open PyIpmi.Session.KeepAlive in
/-- … and none is running while the handshake of a further `establish_session` is under way: no datagram of
the previous session (or outside any session, or under the temporary id) can fall into it. -/
theorem keepalive_none_during_handshake (evs : List KeepAlive.Ev) :
    (enter true (run true KeepAlive.init evs)).running = [] := by
  simpa [enter] using stop_tidy (run_tidy evs (Or.inl rfl))

open PyIpmi.Session.KeepAlive in
/-- The pinned tree (`stopFirst = false`): establish, establish again, close — the first thread runs through
the second handshake, and is still running after Close Session: the stopper that `close_session` calls is the
second thread's. -/
theorem keepalive_asShipped_counterexample :
    (enter false (run false KeepAlive.init [.establish true])).running = [0] ∧
    (run false KeepAlive.init [.establish true, .establish true]).running = [1, 0] ∧
    (run false KeepAlive.init [.establish true, .establish true, .close]).running = [0] ∧
    (run false KeepAlive.init [.establish true, .close, .establish false, .close]).running = [] := by
  decide

/-! ### credential form -/

open PyIpmi.Session.Cred in
/-- Intended variant: for EVERY form of user name and password - nothing configured (`None`, the default of
`Session()`: the anonymous login), a `str`, a `bytes` object - and every authentication type, no Python error ends
the handshake, and the user-name field of Get Session Challenge and the key of the authenticated datagrams are the
ones the byte-level model (`userField`, `padPw`: the subject of every other theorem here) computes from the bytes
the credentials stand for. -/
theorem credential_form_intended (u p : Cred.Form) (auth : Nat) :
    failsAfter intended u p auth = none ∧
    userName intended u = .ok (userField u.denote) ∧
    key intended p = .ok (padPw p.denote) := by
  have hu : userName intended u = .ok (userField u.denote) := by
    cases u with
    | none => rfl
    | str b => rfl
    | bytes b =>
      simp only [userName, intended, Form.denote]
      split
      · rename_i h; simp [userField, h]
      · rfl
  have hp : key intended p = .ok (padPw p.denote) := by
    cases p <;> rfl
  refine ⟨?_, hu, hp⟩
  simp only [failsAfter, hu, hp]
  split <;> rfl

/-- The fields for credentials of up to 16 bytes: exactly 16 bytes, the credential first, NUL after it (IPMI v1.5
Get Session Challenge / Activate Session: 16-byte user name, "all 0s for null user name"; 16-byte zero-padded key). -/
theorem credential_form_fields (c : Cred.Form) (h : c.denote.length ≤ 16) :
    (userField c.denote).length = 16 ∧ (padPw c.denote).length = 16 ∧
    (userField c.denote).take c.denote.length = c.denote ∧ (padPw c.denote).take c.denote.length = c.denote ∧
    (∀ i, c.denote.length ≤ i → i < 16 → (userField c.denote)[i]? = some 0 ∧ (padPw c.denote)[i]? = some 0) := by
  generalize c.denote = bs at h
  have hw : padWidth = 16 := rfl
  have hf : padFill = 0 := rfl
  refine ⟨?_, ?_, ?_, ?_, ?_⟩
  · unfold userField; split
    · simp
    · simp; omega
  · simp [padPw, hw]; omega
  · unfold userField; split
    · rename_i he; simp [List.isEmpty_iff] at he; simp [he]
    · simp
  · simp [padPw]
  · intro i h1 h2
    constructor
    · unfold userField; split
      · rw [List.getElem?_replicate]; simp [h2]
      · rw [List.getElem?_append_right h1]; simp [List.getElem?_replicate]; omega
    · unfold padPw; rw [List.getElem?_append_right h1, hw, hf]; simp [List.getElem?_replicate]; omega

open PyIpmi.Session.Cred in
/-- The pinned tree: `Session()` as `create_connection()` hands it out (no user, no password - the anonymous login)
against a BMC whose strongest offered type is MD5 or straight password ends with AttributeError after ping,
Get Channel Authentication Capabilities and Get Session Challenge - Activate Session cannot be packed
(findings/c06/round3/finding_1); it works only when `none` is chosen.  A user name given as `bytes` (what
tests/interfaces/test_rmcp.py configures) ends with TypeError before Get Session Challenge (finding_2), whatever
the BMC offers. -/
theorem credential_form_asShipped_counterexample :
    failsAfter asShipped .none .none 2 = some (3, .attributeError) ∧
    failsAfter asShipped .none .none 4 = some (3, .attributeError) ∧
    failsAfter asShipped .none .none 0 = none ∧
    failsAfter asShipped (.str [0x61, 0x64, 0x6d, 0x69, 0x6e]) .none 2 = some (3, .attributeError) ∧
    failsAfter asShipped (.bytes [0x61, 0x64, 0x6d, 0x69, 0x6e]) (.bytes [0x61, 0x64, 0x6d, 0x69, 0x6e]) 0
      = some (2, .typeError) ∧
    failsAfter asShipped (.str [0x61, 0x64, 0x6d, 0x69, 0x6e]) (.bytes [0x61, 0x64, 0x6d, 0x69, 0x6e]) 2 = none ∧
    failsAfter asShipped (.str []) (.str []) 2 = none := by
  decide

/-- non-vacuity: the anonymous login in the intended variant has the two all-zero fields -/
example : Cred.userName Cred.intended .none = .ok (List.replicate 16 0) ∧
    Cred.key Cred.intended .none = .ok (List.replicate 16 0) := ⟨rfl, rfl⟩

end PyIpmi.Props.C06
