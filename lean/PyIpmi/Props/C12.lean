/-
  C12 — SEL retrieval is exact and get-and-clear is atomic.

  Objects: `SelXfer.*` is the model of pyipmi/sel.py (Model/SelXfer.lean), `Spec.Sel.respond` the
  byte-level reference SEL device (Spec/SelDevice.lean: log of 16-byte records, partial-read limit,
  optional whole-record reads, reservation, script of concurrent changes, deletion record),
  `selCfg` the constants extracted from the working tree (Gen/Loops10.lean).

  * `constants_ok`        — the extracted constants are the ones the proofs are made for
                            (ENTIRE_RECORD FFh, fallback 16, record length 16, decrement 1, CAh shrinks,
                            C5h restarts, record ids 0 / FFFFh).  Re-decided whenever the source changes.
  * `get_entry_exact`     — get_sel_entry returns the stored record and the successor's id, for EVERY
                            partial-read limit ≥ 1, with or without whole-record support.
  * `entries_exact`       — get_sel_entries returns the log: every record, once, in order, for every
                            log of well-formed records with pairwise distinct ids, every limit ≥ 1.
  * `empty_log_nothing`   — an empty log yields [] after the single Get SEL Info exchange.
  * `get_and_clear_atomic`— for EVERY finite script of concurrent changes (reservation cancelled,
                            record appended, oldest record removed — before any request), every limit,
                            every addressing mode (id, first, last): the call terminates within
                            script length + 1 rounds; if it returns a record then that record is the
                            one and only record the device deleted for it; if it raises, the device
                            deleted nothing.
  * `get_and_clear_same_reservation` — for EVERY peer: a call that returns ended with
                            Reserve SEL → r, ≥ 1 Get SEL Entry all carrying r, Delete SEL Entry
                            carrying r, with nothing in between.
-/
import PyIpmi.Lemmas.XferSel
import PyIpmi.Gen.Loops10
namespace PyIpmi.Props.C12
open PyIpmi PyIpmi.SelXfer PyIpmi.Spec.Sel
open PyIpmi.FruXfer (Wire Xchg Send World Res xchg)
open PyIpmi.Gen.Loops10 (selCfg)

theorem constants_ok : selCfg = stdCfg := by decide

/-- `get_sel_entry(record_id, reservation)` on a device nobody else touches: the stored record and
the id of the record after it (FFFFh after the last). -/
theorem get_entry_exact (d : SelDev) (r rid : Nat) (e : List Nat) (next : Nat) (tr : List Xchg)
    (hquiet : d.evs = []) (hvalid : d.valid = true) (hcur : d.cur = r) (hr1 : 1 ≤ r) (hr : r < 65536)
    (hrid : rid < 65536) (hlimit : 1 ≤ d.limit) (hfind : find d.log rid = some (e, next))
    (hrec : entryOk e = true) (hnext : next < 65536) :
    (getSelEntry selCfg respond ⟨d, tr⟩ rid r).out = .ok (e, next) := by
  rw [constants_ok]
  exact (getSelEntry_exact d r rid e next hquiet hvalid hcur hr1 hr hrid hfind hrec hnext hlimit ⟨d, tr⟩ rfl).1

/-- `get_sel_entries()` returns every record exactly as stored, once each, in log order — whether
the device serves whole records or only partial reads of any size ≥ 1. -/
theorem entries_exact (d : SelDev) (tr : List Xchg) (hquiet : d.evs = []) (hlimit : 1 ≤ d.limit)
    (hrec : ∀ e ∈ d.log, entryOk e = true) (hids : (d.log.map entryId).Nodup)
    (hlen : d.log.length < 65536) :
    (selEntries selCfg respond ⟨d, tr⟩).out = .ok d.log := by
  rw [constants_ok]
  exact selEntries_exact d hquiet hlimit hrec hids hlen ⟨d, tr⟩ rfl

/-- An empty log: nothing is returned and nothing but Get SEL Info is asked. -/
theorem empty_log_nothing (d : SelDev) (tr : List Xchg) (hquiet : d.evs = []) (hempty : d.log = []) :
    (selEntries selCfg respond ⟨d, tr⟩).out = .ok [] ∧
    ∃ rsp, (selEntries selCfg respond ⟨d, tr⟩).w.trace = tr ++ [⟨infoReq, rsp⟩] := by
  rw [constants_ok]
  have htick : tick d = d := tick_nil d hquiet
  unfold selEntries
  simp only [xchg, respond_info, htick, hempty, List.length_nil, Nat.zero_mod, Nat.zero_div]
  have := decodeInfo_ok 0 (by omega)
  simp only [Nat.zero_mod, Nat.zero_div] at this
  simp only [this, if_true]
  first | exact ⟨rfl, _, rfl⟩ | exact ⟨trivial, _, rfl⟩

/-- `get_and_clear_sel_entry(record_id)` is atomic under every finite script of concurrent log
changes: it terminates, and either returns exactly the record the device deleted (one deletion,
carrying a reservation id `r`), or raises with nothing deleted. -/
theorem get_and_clear_atomic (d : SelDev) (tr : List Xchg) (rid fuel : Nat) (hrid : rid < 65536)
    (hwf : WF d) (hnone : d.deleted = []) (hfuel : d.evs.length < fuel) :
    let res := getAndClear selCfg respond fuel ⟨d, tr⟩ rid
    (∃ e r, res.out = .ok e ∧ res.w.dev.deleted = [(e, r)]) ∨
    ((∀ e, res.out ≠ .ok e) ∧ res.out ≠ .pyError "nontermination" ∧ res.w.dev.deleted = []) := by
  rw [constants_ok]
  exact getAndClear_atomic rid hrid fuel ⟨d, tr⟩ hwf hnone hfuel

/-- Whatever the peer does: a `get_and_clear_sel_entry` that returns has ended with a Reserve SEL
answered `r`, then one or more Get SEL Entry requests for `rid` all carrying `r`, then the
(acknowledged) Delete SEL Entry for `rid` carrying `r` — the delete is issued under the same
reservation as the read, and after a cancellation both steps were repeated from the reserve. -/
theorem get_and_clear_same_reservation {σ} (send : Send σ) (dev : σ) (rid fuel : Nat) (e : List Nat)
    (h : (getAndClear selCfg send fuel ⟨dev, []⟩ rid).out = .ok e) :
    ∃ pre rspR r gets rspD,
      (getAndClear selCfg send fuel ⟨dev, []⟩ rid).w.trace =
        pre ++ ⟨reserveReq, rspR⟩ :: (gets ++ [⟨deleteReq r rid, rspD⟩]) ∧
      decodeU16Rsp rspR = .ok r ∧ (∀ x ∈ gets, ∃ off len, x.req = getReq r rid off len) ∧ gets ≠ [] ∧
      ∃ v, decodeU16Rsp rspD = .ok v :=
  getAndClear_trace selCfg send rid fuel ⟨dev, []⟩ e h

/-! ### non-vacuity -/

def recA : List Nat := [0x34, 0x12, 0x02, 1, 2, 3, 4, 0x20, 0, 4, 1, 0x10, 0x6F, 0xA1, 0xB2, 0xC3]
def recB : List Nat := [0x01, 0x00, 0xC5, 9, 9, 9, 9, 7, 7, 7, 7, 7, 7, 0xFF, 0xFE, 0xFD]
def recC : List Nat := [0xFE, 0xFF, 0xE0, 0, 0, 0, 0, 0, 0, 0, 0, 0, 0, 0, 0, 1]

/-- three records (system event, OEM timestamped, OEM non-timestamped), ids 1234h, 0001h, FFFEh,
partial reads of at most 5 bytes, no whole-record reads, reservation counter about to wrap -/
def demoDev : SelDev := ⟨[recA, recB, recC], 5, false, 0xFFFF, false, [], []⟩

example : (∀ e ∈ demoDev.log, entryOk e = true) ∧ (demoDev.log.map entryId).Nodup := by decide
example : (selEntries selCfg respond ⟨demoDev, []⟩).out = .ok [recA, recB, recC] := by decide
/-- Get SEL Info, Reserve SEL, then per record: FFh, 16, 15, …, 6 refused (12), 5+5+5+1 served (4) -/
example : (selEntries selCfg respond ⟨demoDev, []⟩).w.trace.length = 2 + 3 * 16 := by decide

example : WF demoDev := ⟨by decide, (by intro e h; simp [demoDev] at h), by decide⟩

/-- the reservation is cancelled before the 5th request, and a record is appended before the 23rd (the latter falls
between the completed read and the delete of the second round): three rounds, record B returned
and deleted, under reservation 3 -/
def script : List (Option Change) :=
  (List.replicate 4 none) ++ [some .cancel] ++ (List.replicate 17 none) ++ [some (.add recC)]

example : (getAndClear selCfg respond 40 ⟨{ demoDev with log := [recA, recB], evs := script }, []⟩ 1).out
    = .ok recB := by decide
example : (getAndClear selCfg respond 40 ⟨{ demoDev with log := [recA, recB], evs := script }, []⟩ 1).w.dev.deleted
    = [(recB, 3)] := by decide
example : (getAndClear selCfg respond 40 ⟨{ demoDev with log := [recA, recB], evs := script }, []⟩ 1).w.dev.log
    = [recA, recC] := by decide

/-- "first record" while another party removes the oldest record during the read: the read is
repeated and the record returned is the one deleted (B), not the one whose first bytes were
already in hand (A) -/
example : (getAndClear selCfg respond 40
    ⟨{ demoDev with log := [recA, recB], evs := List.replicate 15 none ++ [some .delFirst] }, []⟩ 0).out
    = .ok recB := by decide
example : (getAndClear selCfg respond 40
    ⟨{ demoDev with log := [recA, recB], evs := List.replicate 15 none ++ [some .delFirst] }, []⟩ 0).w.dev.deleted
    = [(recB, 2)] := by decide

/-- a record that is not there: the device's CBh is raised, nothing deleted -/
example : (getAndClear selCfg respond 5 ⟨demoDev, []⟩ 0x7777).out = .ccError 0xCB := by decide

end PyIpmi.Props.C12
